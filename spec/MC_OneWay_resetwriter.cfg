SPECIFICATION MCSpec
CONSTANTS Sender = {"s1"}
          MaxFaults = 1
          MaxCfg = 0
          Addr = {"A"}
          Stall = TRUE
          QueueMode = FALSE
          QCap = 2
          MaxConn = 3
          Broken = "resetwriter"
          NPacks = 2
CONSTRAINT ConnBound
VIEW MCView
INVARIANTS TypeOK FramesWhole
CHECK_DEADLOCK FALSE
