SPECIFICATION MCSpec
CONSTANTS Sender = {"s1", "s2"}
          MaxFaults = 2
          MaxCfg = 0
          Addr = {"A"}
          Stall = FALSE
          QueueMode = FALSE
          QCap = 2
          MaxConn = 3
          Broken = "wdial"
          NPacks = 4
CONSTRAINT ConnBound
VIEW MCView
INVARIANTS TypeOK NoLossSafe
CHECK_DEADLOCK FALSE
