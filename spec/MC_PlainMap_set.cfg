SPECIFICATION MCSpec
CONSTANTS Keys = {1, 2, 3}
          Vals = {0}
          MaxVal = 3
          IsSet = TRUE
          None <- NoneZero
          Rej = FALSE
          EK = 0
          TName = "IntSet"
          NHeld = 0
          NEnum = 0
VIEW View
ACTION_CONSTRAINT DumpT
INVARIANTS SetOK RefuseOK KeysBagExact
PROPERTIES Frame PutStores RefusalInert RemoveExact ClearEmpties PutAllIsPuts ReadOnlyKeeps OthersKept PutAllFromIsPuts SizeLaw
CHECK_DEADLOCK FALSE
