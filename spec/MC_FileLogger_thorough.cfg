SPECIFICATION MCSpec
CONSTANTS Design = "repaired"
          MaxLogs = 3
          MaxCycles = 2
          MaxAdv = 3
          MaxReads = 1
          MaxExt = 1
INVARIANTS LinesWholeInOrder FileNameRight RotatesAfterCycle SuppressedOnlyWithin RetentionExact ReadHonest SurvivorsSurvive OldRemoved
CHECK_DEADLOCK FALSE
