SPECIFICATION MCSpec
CONSTANTS Design = "repaired"
          MaxLogs = 3
          MaxCycles = 2
          MaxAdv = 3
          MaxReads = 1
          MaxExt = 1
          MaxFaults = 0
          MaxLoggers = 1
          MaxSwitch = 0
          Slim = FALSE
INVARIANTS LinesWholeInOrder FileNameRight RotatesAfterCycle SuppressedOnlyWithin RetentionExact ReadHonest NoFaultNoLoss SurvivorsSurvive OldRemoved Recovers
CHECK_DEADLOCK FALSE
