---------------------------- MODULE MC_LazyStage ----------------------------
(***************************************************************************)
(* Exhaustive: every stored byte string of length <= MaxN over ByteVals,   *)
(* every interleaving of <= MaxOps accesses and write+reload steps.        *)
(***************************************************************************)
EXTENDS LazyStage, TLC

CONSTANTS MaxN, ByteVals, MaxOps

VARIABLE ops
mvars == <<lvars, ops>>

Stored == UNION {[1..m -> ByteVals] : m \in 0..MaxN}

MCInit == /\ orig \in Stored /\ raw = orig /\ pub = <<>> /\ alloc = 0 /\ hist = <<>> /\ ops = 0
MCNext == ops < MaxOps /\ ops' = ops + 1 /\ LazyNext
MCSpec == MCInit /\ [][MCNext]_mvars

\* what the trace spec requires of an observed sequence A, A, write+reload, A follows from the invariants:
\* (LazySeqOK of FailClosed.tla is StickyFailure on the first three accesses of such a sequence)
=============================================================================
