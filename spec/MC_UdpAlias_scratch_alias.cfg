SPECIFICATION MCSpec
CONSTANTS
  NotCleared <- MCNotCleared
  Mode = "scratch_alias"
  MaxKept = 3
INVARIANTS Stable
CHECK_DEADLOCK FALSE
