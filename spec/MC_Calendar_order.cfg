SPECIFICATION OrdSpec
CONSTANTS WalkEvery = 100000
          HeavyEvery = 61
          DayEdges = FALSE
INVARIANTS UnitsNested TextsNameInstant FunctionOfInstant
PROPERTIES Monotone
CHECK_DEADLOCK FALSE
