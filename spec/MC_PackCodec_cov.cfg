SPECIFICATION MCSpec
CONSTANTS
  PcodeNs = {0}
  Okinds = {0, 1}
  Onodes = {0, 2}
  BlobIds = {"one"}
  MaxItems = 1
  Marker = 9
  NoStamp = {}
  Reverse = FALSE
  CellNs = {0, 32768}
  CellRead = "unsigned"
  FreshNs = {0, 7}
  KeepFresh = FALSE
INVARIANTS
  SameType
  CarriedRestored
  ExactConsumption
  ReEncodeIdentical
  ZipLaw
  UnpackLaw
  HeaderFormsDisjoint
  RegistryOK
CHECK_DEADLOCK FALSE
