SPECIFICATION MCLiveSpec
CONSTANTS Proc <- MCProc
          WakeOnPut = TRUE
          NP = 2
          NE = 2
          NC = 2
          NOps = 2
          NAdmin = 0
          CapSet = {0, 1}
          TSet = {2}
          LaneSet = {1}
          MaxClock = 0
          TagSet = {}
          GetKinds = {"Get", "GetNoWait"}
INVARIANTS TypeOK WaitingImpliesEmpty
PROPERTIES NoLostWakeup
CHECK_DEADLOCK FALSE
