--------------------------- MODULE Trace_UdpPack ----------------------------
(***************************************************************************)
(* Trace validation of the real lang/pack/udp code against UdpPack.        *)
(* Events (harness/c07):                                                   *)
(*  Reset                                                                  *)
(*  W  type ver w carried caps bytes wlen                                  *)
(*        a pack of `type` filled with the field values w was written at   *)
(*        version ver by the real writer: bytes; carried = the fields the  *)
(*        bytes of this (type, ver) depend on (derived from the real       *)
(*        writer by changing one field at a time); caps = the documented   *)
(*        caps (golib's exported constants)                                *)
(*  R  r [rp] consumed                                                     *)
(*        a pack created at the same version read those bytes: field       *)
(*        values after Read (r), after Read+Process (rp, absent if         *)
(*        Process panicked), bytes consumed                                *)
(*  Acquire type obj pooled residue    CreatePack: object identity, whether *)
(*        it is one released earlier, fields still holding a fill value    *)
(*  Fill obj fields / Release obj      every field set / ClosePack         *)
(*  Mask type ver toks out secrets texts                                   *)
(*        connection string rendered from toks went through write, read    *)
(*        and Process: out = the Dbc text as symbols, texts = every text   *)
(*        field of the pack, secrets = the password values as bytes        *)
(*  End n        n = number of R + Acquire + Mask events of the history    *)
(*                                                                         *)
(* Strict = FALSE: the verdict (law of the property only).                 *)
(* Strict = TRUE : additionally the bytes / carried set / caps / rewritten *)
(*   text must equal the TRANSCRIBED layout and rewriting model of the     *)
(*   spec; a rejection there is spec drift (exit 2), not a violation.      *)
(***************************************************************************)
EXTENDS UdpPack, TraceLib

CONSTANT Strict

TrNotCleared == {}

VARIABLES l, cnt
tvars == <<vars, l, cnt>>

TraceInit == Init /\ l = 1 /\ cnt = 0 /\ HwmInit

Step(e) == IsEv(l, e) /\ l' = l + 1

TraceReset == /\ Step("Reset")
              /\ wire' = None /\ got' = None
              /\ bag' = [t \in PackTypes |-> {}] /\ obj' = <<>>
              /\ mk' = None /\ cnt' = 0

\* byte-level substring
Contains(t, s) == \E i \in 1..(Len(t) - Len(s) + 1) : SubSeq(t, i, i + Len(s) - 1) = s

TraceW ==
  /\ Step("W")
  /\ LET e == Trace[l] IN
       /\ e.type \in PackTypes
       /\ UWrite(e.type, e.ver, e.w, Range(e.carried), e.caps, e.bytes)
       /\ e.wlen = Len(e.bytes)
       /\ Strict => /\ Range(e.carried) = CarriedOf(Layout(e.type, e.ver))
                    /\ Range(e.caps) = Range(Caps(e.type))
                    /\ CarriedOf(Layout(e.type, e.ver)) \subseteq DOMAIN e.w
                    /\ e.bytes = EncUdp(e.type, e.ver, e.w)
  /\ cnt' = cnt

TraceR ==
  /\ Step("R")
  /\ LET e == Trace[l] IN
       URead(e.r, IF Has(e, "rp") THEN e.rp ELSE None, e.consumed)
  /\ cnt' = cnt + 1

TraceAcquire ==
  /\ Step("Acquire")
  /\ LET e == Trace[l] IN
       /\ PAcquire(e.type, e.obj, e.pooled)
       /\ Range(e.residue) = obj'[e.obj].dirty     \* what the spec says is left in it: nothing
  /\ cnt' = cnt + 1

TraceFill == /\ Step("Fill")
             /\ LET e == Trace[l] IN PFill(e.obj, Range(e.fields))
             /\ cnt' = cnt

TraceRelease == /\ Step("Release")
                /\ PRelease(Trace[l].obj)
                /\ cnt' = cnt

MaskTypes == {"TxSql", "TxSqlParam", "TxDbc"}

TraceMask ==
  /\ Step("Mask")
  /\ LET e == Trace[l] IN
       /\ e.type \in MaskTypes
       /\ PostProcess(Family(e.ver), e.toks, e.out)
       /\ \A s \in Range(e.secrets) : \A t \in Range(e.texts) : ~Contains(t, s)
       /\ Strict => e.out = MaskText(Render(e.toks))
  /\ cnt' = cnt + 1

TraceEnd == /\ Step("End")
            /\ cnt = Trace[l].n
            /\ UNCHANGED <<vars, cnt>>

InvAll == Agree /\ NoResidue /\ PoolTypeOK /\ NoSecretLeft

TraceNext == (TraceReset \/ TraceW \/ TraceR \/ TraceAcquire \/ TraceFill \/ TraceRelease
              \/ TraceMask \/ TraceEnd) /\ InvAll'

TraceSpec == TraceInit /\ [][TraceNext]_tvars

Hwm == HwmNote(l)
TraceAccepted == Accepted
=============================================================================
