--------------------------- MODULE Trace_UdpPack ----------------------------
(***************************************************************************)
(* Trace validation of the real lang/pack/udp code against UdpPack.        *)
(* Events (harness/c07):                                                   *)
(*  Reset                                                                  *)
(*  W  type ver w carried caps [bytes] wlen [keep] [via] [longf]           *)
(*        a pack of `type` filled with the field values w was written at   *)
(*        version ver by the real writer: bytes; carried = the fields the  *)
(*        bytes of this (type, ver) depend on (derived from the real       *)
(*        writer by changing one field at a time); caps = the cap values   *)
(*        golib's exported constants have today (only compared with the    *)
(*        pinned list of the spec in the drift pass: the verdict uses the  *)
(*        pinned list).  keep: the caller holds on to the returned slice   *)
(*        (bytes = a copy taken at once).  longf: fields given a long      *)
(*        periodic text, recorded in compact form in w, r and rp; such an  *)
(*        event carries no bytes, only wlen.                               *)
(*  R  r [rp] consumed [of]                                                *)
(*        a pack created at the same version read those bytes: field       *)
(*        values after Read (r), after Read+Process (rp, absent if         *)
(*        Process panicked), bytes consumed.  of = k: what was read is the *)
(*        slice handed back by the k-th kept W of the history, as it is    *)
(*        NOW; the pack is kept as well.                                   *)
(*  Peek kind of v    a second look, after later calls, at the slice       *)
(*        handed back by the of-th kept W (kind "bytes") or at the pack    *)
(*        made of it (kind "pack")                                         *)
(*  ReadOk type obj pooled fields [of cut]                                 *)
(*        ToPack / ReadPack returned a pack: identity, whether it is one   *)
(*        released earlier, the fields that now hold datagram values       *)
(*  ReadFail type [of cut]                                                 *)
(*        ToPack / ReadPack panicked (truncated or malformed datagram: the *)
(*        first `cut` bytes of the of-th kept W, possibly mutated)         *)
(*  Acquire type obj pooled residue    CreatePack: object identity, whether *)
(*        it is one released earlier, fields still holding a fill value    *)
(*  Fill obj fields / Release obj      every field set / ClosePack         *)
(*  Mask type ver toks out secrets texts                                   *)
(*        connection string rendered from toks went through write, read    *)
(*        and Process: out = the Dbc text as symbols, texts = every text   *)
(*        field of the pack, secrets = the password values as bytes        *)
(*  End n        n = number of R + Acquire + Mask + Peek + ReadOk +         *)
(*               ReadFail events of the history                            *)
(*                                                                         *)
(* Strict = FALSE: the verdict (law of the property only).                 *)
(* Strict = TRUE : additionally the bytes / carried set / caps / rewritten *)
(*   text must equal the TRANSCRIBED layout and rewriting model of the     *)
(*   spec; a rejection there is spec drift (exit 2), not a violation.      *)
(***************************************************************************)
EXTENDS UdpPack, TraceLib

CONSTANT Strict

TrNotCleared == {}

VARIABLES l, cnt
tvars == <<vars, l, cnt>>

TraceInit == Init /\ l = 1 /\ cnt = 0 /\ HwmInit

Step(e) == IsEv(l, e) /\ l' = l + 1

TraceReset == /\ Step("Reset")
              /\ wire' = None /\ got' = None /\ kept' = <<>> /\ seen' = None
              /\ bag' = [t \in PackTypes |-> {}] /\ obj' = <<>>
              /\ mk' = None /\ cnt' = 0

\* byte-level substring
Contains(t, s) == \E i \in 1..(Len(t) - Len(s) + 1) : SubSeq(t, i, i + Len(s) - 1) = s

TraceW ==
  /\ Step("W")
  /\ LET e == Trace[l]
         compact == Has(e, "longf")
         bytes == IF Has(e, "bytes") THEN e.bytes ELSE <<>>
     IN
       /\ e.type \in PackTypes
       \* the verdict judges with the PINNED caps of the spec, whatever the code's constants say
       /\ UWrite(e.type, e.ver, e.w, Range(e.carried), Caps(e.type), bytes, e.wlen,
                 Has(e, "keep") /\ e.keep)
       /\ (Has(e, "bytes") \/ compact)
       /\ Has(e, "bytes") => e.wlen = Len(e.bytes)
       /\ Strict => /\ Range(e.carried) = CarriedOf(Layout(e.type, e.ver))
                    /\ Range(e.caps) = Range(Caps(e.type))
                    /\ CarriedOf(Layout(e.type, e.ver)) \subseteq DOMAIN e.w
                    /\ ~compact => e.bytes = EncUdp(e.type, e.ver, e.w)
  /\ cnt' = cnt

TraceR ==
  /\ Step("R")
  /\ LET e == Trace[l]
         rp == IF Has(e, "rp") THEN e.rp ELSE None
     IN IF Has(e, "of") THEN UReadKept(e.of, e.r, rp, e.consumed)
                        ELSE URead(e.r, rp, e.consumed)
  /\ cnt' = cnt + 1

TracePeek ==
  /\ Step("Peek")
  /\ LET e == Trace[l] IN UPeek(e.kind, e.of, e.v)
  /\ cnt' = cnt + 1

\* the datagram of a ReadOk / ReadFail: the first cut bytes of a kept W, unmodified
Datagram(e) == High(kept[e.of].w.bytes, e.cut)
Plain(e) == /\ Has(e, "of") /\ Has(e, "cut") /\ ~Has(e, "mut") /\ e.of \in DOMAIN kept
            /\ e.ver = kept[e.of].w.ver /\ e.type = kept[e.of].w.type

TraceReadOk ==
  /\ Step("ReadOk")
  /\ LET e == Trace[l] IN
       /\ PReadOk(e.type, e.obj, e.pooled, Range(e.fields))
       /\ Has(e, "of") => e.of \in DOMAIN kept /\ e.cut <= kept[e.of].w.wlen
       /\ (Strict /\ Plain(e)) => DecUdp(e.type, e.ver, Datagram(e)).ok
  /\ cnt' = cnt + 1

TraceReadFail ==
  /\ Step("ReadFail")
  /\ LET e == Trace[l] IN
       /\ PFailedRead(e.type)
       /\ Has(e, "of") => e.of \in DOMAIN kept /\ e.cut <= kept[e.of].w.wlen
       \* drift pass: the reference reader, too, fails on every strict prefix the real reader failed on
       /\ (Strict /\ Plain(e) /\ e.cut < kept[e.of].w.wlen)
             => ~DecUdp(e.type, e.ver, Datagram(e)).ok
  /\ cnt' = cnt + 1

TraceAcquire ==
  /\ Step("Acquire")
  /\ LET e == Trace[l] IN
       /\ PAcquire(e.type, e.obj, e.pooled)
       /\ Range(e.residue) = obj'[e.obj].dirty     \* what the spec says is left in it: nothing
  /\ cnt' = cnt + 1

TraceFill == /\ Step("Fill")
             /\ LET e == Trace[l] IN PFill(e.obj, Range(e.fields))
             /\ cnt' = cnt

TraceRelease == /\ Step("Release")
                /\ PRelease(Trace[l].obj)
                /\ cnt' = cnt

MaskTypes == {"TxSql", "TxSqlParam", "TxDbc"}

TraceMask ==
  /\ Step("Mask")
  /\ LET e == Trace[l] IN
       /\ e.type \in MaskTypes
       /\ PostProcess(Family(e.ver), e.toks, e.out)
       /\ \A s \in Range(e.secrets) : \A t \in Range(e.texts) : ~Contains(t, s)
       /\ Strict => e.out = MaskText(Render(e.toks))
  /\ cnt' = cnt + 1

TraceEnd == /\ Step("End")
            /\ cnt = Trace[l].n
            /\ UNCHANGED <<vars, cnt>>

InvAll == Agree /\ Stable /\ NoResidue /\ PoolTypeOK /\ NoSecretLeft

TraceNext == (TraceReset \/ TraceW \/ TraceR \/ TracePeek \/ TraceAcquire \/ TraceFill \/ TraceRelease
              \/ TraceReadOk \/ TraceReadFail \/ TraceMask \/ TraceEnd) /\ InvAll'

TraceSpec == TraceInit /\ [][TraceNext]_tvars

Hwm == HwmNote(l)
TraceAccepted == Accepted
=============================================================================
