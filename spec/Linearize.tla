------------------------------ MODULE Linearize ------------------------------
(***************************************************************************)
(* C10 -- linearizability of the shared collections of golib under a       *)
(* concurrent mix of point operations.                                     *)
(*                                                                         *)
(* Sequential object: LinkedDict (C09), the bounded insertion-ordered      *)
(* dictionary.  It serves every collection the property names:             *)
(*   - the thirteen linked maps / sets directly;                           *)
(*   - the four plain maps / sets (C12) as the same dictionary whose order *)
(*     is never observed (cfg.plain: answers of Add are judged leniently   *)
(*     as in PlainMap, the final content is compared as a bag);            *)
(*   - the linked list as a deque of UNIQUE elements: the set-flavoured    *)
(*     dictionary (the value stored under an element is the element),      *)
(*     add-first / add-last = put-first / put-last of a new key;           *)
(*   - the single request queue as the same deque with a bound: a plain    *)
(*     put into a full queue is refused and changes nothing, a forced put  *)
(*     evicts from the head (LinkedDict's trimming), a get removes the     *)
(*     head; the BLOCKING get takes effect only once there is a head (a    *)
(*     blocking get that answers "nothing" has no linearization point);    *)
(*   - the double request queue as the dictionary whose value is the LANE  *)
(*     (1 or 2) of an element: ord is the arrival order, each lane has its *)
(*     own bound (cfg.cap), a put is refused / forced into ITS lane, a get *)
(*     takes the oldest element of lane 1, of lane 2 when lane 1 is empty. *)
(*                                                                         *)
(* Calls that run caller code in the middle of their work (the queue's     *)
(* Failed / Overflowed handlers, the comparator of Sort) are atomic like    *)
(* every other call: the harness issues another goroutine's point          *)
(* operation from inside that caller code (generator "gate").              *)
(*                                                                         *)
(* A goroutine p Invokes a call, the call takes effect atomically at some  *)
(* moment before it Returns (the silent step Lin), and the result it       *)
(* returns is the one the sequential object gives at that moment.  The     *)
(* recorded history carries the result in the call record, so Lin both     *)
(* applies the sequential action and checks the recorded answer (Eff).     *)
(* A history is linearizable iff its events can be interleaved with Lin    *)
(* steps so that every step is enabled: TLC searches the interleavings.    *)
(***************************************************************************)
EXTENDS LinkedDict

CONSTANT Proc

VARIABLE pend        \* pend[p]: [st |-> "idle" | "inv" | "done", c |-> the call record]

lvars == <<vars, pend>>

HasF(r, f) == f \in DOMAIN r
IdleRec == [st |-> "idle", c |-> [o |-> "none"]]
AllIdle == \A p \in Proc : pend[p].st = "idle"

\* ---- what the insertion-like calls may answer ---------------------------------
\* a dictionary answers the previous value (pinned only for an existing key, as
\* in C09); the int set whether the element is new; the string set the key
InsOK(c) == IF HasF(c, "ret") THEN InsertRetOK(c.k, c.ret)
            ELSE IF HasF(c, "b") THEN c.b = (~Present(c.k) /\ ~Refused(c.k))
            ELSE HasF(c, "rk") /\ c.rk = c.k
\* add: the linked maps answer the previous value; the plain maps the previous
\* or the new one (C12: lenient, the types disagree)
AddOK(c) == /\ HasF(c, "ret")
            /\ IF cfg.plain THEN (Present(c.k) => c.ret \in {<<val[c.k]>>, <<val[c.k] + c.v>>})
                            ELSE InsertRetOK(c.k, c.ret)
\* remove: the previous value / whether it was a member / the key itself
RemOK(c) == IF HasF(c, "ret") THEN c.ret = Lookup(c.k)
            ELSE IF HasF(c, "b") THEN c.b = Present(c.k)
            ELSE /\ HasF(c, "rk") /\ HasF(c, "rz")
                 /\ IF Present(c.k) THEN c.rk = c.k ELSE c.rz = TRUE
Full == max > 0 /\ Len(ord) >= max

\* ---- the double queue: val[k] is the lane of element k ---------------------------
Lane(i)     == SelectSeq(ord, LAMBDA k : val[k] = i)
LaneFull(i) == cfg.cap[i] > 0 /\ Len(Lane(i)) >= cfg.cap[i]
DHead       == IF Lane(1) # <<>> THEN Lane(1)[1] ELSE Lane(2)[1]       \* defined when ord # <<>>
DSet(o2, k, i) == /\ ord' = o2
                  /\ val' = [x \in Range(o2) |-> IF x = k THEN i ELSE val[x]]
                  /\ UNCHANGED <<max, cfg>>
\* a plain put is refused by a full lane; a forced put drops the oldest elements
\* of its lane until there is room for one; both answer whether there was room
DPut(c, i, force) ==
  /\ ~Present(c.k) /\ HasF(c, "ok") /\ c.ok = ~LaneFull(i)
  /\ IF ~LaneFull(i) THEN DSet(Append(ord, c.k), c.k, i)
     ELSE IF ~force THEN UNCHANGED vars
     ELSE LET ln   == Lane(i)
              keep == {ln[j] : j \in (Len(ln) - cfg.cap[i] + 2)..Len(ln)}
          IN DSet(Append(SelectSeq(ord, LAMBDA k : val[k] # i \/ k \in keep), c.k), c.k, i)
\* a dequeue: the head, or (only the calls that do not wait) "nothing" when empty
DTake(c, waits) ==
  /\ HasF(c, "ret")
  /\ IF Len(ord) > 0 THEN c.ret = <<DHead>> /\ Drop(DHead)
                     ELSE ~waits /\ c.ret = <<>> /\ UNCHANGED vars

\* ---- one call taking effect: the sequential action and the recorded answer ------
Eff(c) ==
  CASE c.o = "Put"       -> Put(c.k, c.v) /\ InsOK(c)
    [] c.o = "PutFirst"  -> PutFirst(c.k, c.v) /\ InsOK(c)
    [] c.o = "PutLast"   -> PutLast(c.k, c.v) /\ InsOK(c)
    [] c.o = "Unipoint"  -> Put(c.k, 0) /\ HasF(c, "rk") /\ c.rk = c.k
    [] c.o = "Add"       -> Add(c.k, c.v) /\ AddOK(c)
    [] c.o = "AddFirst"  -> AddFirst(c.k, c.v) /\ AddOK(c)
    [] c.o = "AddLast"   -> AddLast(c.k, c.v) /\ AddOK(c)
    [] c.o = "AddNoOver" -> AddNoOver(c.k, c.v) /\ AddOK(c)
    [] c.o = "AddIfExist" -> /\ IF Present(c.k) THEN Add(c.k, c.v) ELSE UNCHANGED vars
                             /\ HasF(c, "ret")
                             /\ IF Present(c.k) THEN c.ret \in {<<val[c.k]>>, <<val[c.k] + c.v>>}
                                                ELSE c.ret = cfg.none
    [] c.o = "Get"       -> Get(c.k) /\ HasF(c, "ret") /\ c.ret = Lookup(c.k)
    [] c.o = "GetLRU"    -> GetLRU(c.k) /\ HasF(c, "ret") /\ c.ret = Lookup(c.k)
    [] c.o \in {"ContainsKey", "Contains", "HasKey"} ->
                            UNCHANGED vars /\ HasF(c, "b") /\ c.b = Present(c.k)
    [] c.o = "Remove"      -> Remove(c.k) /\ RemOK(c)
    [] c.o = "RemoveFirst" -> RemoveFirst /\ HasF(c, "ret") /\ FirstValOK(c.ret)
    [] c.o = "RemoveLast"  -> RemoveLast /\ HasF(c, "ret") /\ LastValOK(c.ret)
    [] c.o = "Clear"       -> Clear
    \* a whole-structure operation that runs caller code (the comparator): atomic like every other call -- a point
    \* operation issued while the comparator runs takes effect before or after the whole sort (generator "gate")
    [] c.o = "Sort"        -> HasF(c, "dir") /\ Sort(c.dir)
    [] c.o = "Size"        -> UNCHANGED vars /\ HasF(c, "n") /\ c.n = Len(ord)
    [] c.o = "IsEmpty"     -> UNCHANGED vars /\ HasF(c, "b") /\ c.b = (Len(ord) = 0)
    [] c.o = "GetFirstKey" -> UNCHANGED vars /\ HasF(c, "rk") /\ (Len(ord) > 0 => c.rk = FirstKey)
    [] c.o = "GetLastKey"  -> UNCHANGED vars /\ HasF(c, "rk") /\ (Len(ord) > 0 => c.rk = LastKey)
    [] c.o = "GetFirstValue" -> UNCHANGED vars /\ HasF(c, "ret") /\ FirstValOK(c.ret)
    [] c.o = "GetLastValue"  -> UNCHANGED vars /\ HasF(c, "ret") /\ LastValOK(c.ret)
    \* the list: elements are unique, so every add is the insertion of a new key
    [] c.o = "LAddFirst"   -> ~Present(c.k) /\ PutFirst(c.k, 0)
    [] c.o \in {"LAddLast", "LAdd"} -> ~Present(c.k) /\ PutLast(c.k, 0) /\ (HasF(c, "b") => c.b = TRUE)
    [] c.o = "Touch"       -> UNCHANGED vars          \* node handles: nothing recorded
    \* the queue: refused when full / forced in by evicting from the head
    \* (handlers installed: fail = what the Failed handler was handed during the call, exactly the refused element;
    \* drop = what the Overflowed handler was handed, exactly the oldest elements that had to go, oldest first)
    [] c.o = "QPut"        -> /\ ~Present(c.k) /\ HasF(c, "ok") /\ c.ok = ~Full
                              /\ HasF(c, "fail") => c.fail = (IF Full THEN <<c.k>> ELSE <<>>)
                              /\ IF Full THEN UNCHANGED vars ELSE PutLast(c.k, 0)
    [] c.o = "QPutForce"   -> /\ ~Present(c.k) /\ HasF(c, "ok") /\ c.ok = ~Full
                              /\ HasF(c, "drop") => c.drop = (IF Full THEN SubSeq(ord, 1, Len(ord) - max + 1) ELSE <<>>)
                              /\ PutLast(c.k, 0)
    [] c.o \in {"QGetNoWait", "QGetTimeout"} -> RemoveFirst /\ HasF(c, "ret") /\ FirstValOK(c.ret)
    \* the blocking dequeue returns an element: it cannot take effect on an empty queue
    [] c.o = "QGet"        -> Len(ord) > 0 /\ RemoveFirst /\ HasF(c, "ret") /\ FirstValOK(c.ret)
    \* the double queue
    [] c.o = "DPut1"       -> DPut(c, 1, FALSE)
    [] c.o = "DPut2"       -> DPut(c, 2, FALSE)
    [] c.o = "DPutForce1"  -> DPut(c, 1, TRUE)
    [] c.o = "DPutForce2"  -> DPut(c, 2, TRUE)
    [] c.o \in {"DGetNoWait", "DGetTimeout"} -> DTake(c, FALSE)
    [] c.o = "DGet"        -> DTake(c, TRUE)
    [] c.o = "Size1"       -> UNCHANGED vars /\ HasF(c, "n") /\ c.n = Len(Lane(1))
    [] c.o = "Size2"       -> UNCHANGED vars /\ HasF(c, "n") /\ c.n = Len(Lane(2))
    [] OTHER -> FALSE

WellFormed(c) == /\ HasF(c, "p") /\ c.p \in Proc /\ HasF(c, "o") /\ HasF(c, "k") /\ HasF(c, "v")
                 /\ c.k \in Nat /\ c.v \in Int

Invoke(p, c) == /\ pend[p].st = "idle"
                /\ pend' = [pend EXCEPT ![p] = [st |-> "inv", c |-> c]]
                /\ UNCHANGED vars
Lin(p) ==       /\ pend[p].st = "inv"
                /\ Eff(pend[p].c)
                /\ pend' = [pend EXCEPT ![p].st = "done"]
Return(p, o) == /\ pend[p].st = "done" /\ pend[p].c.o = o
                /\ pend' = [pend EXCEPT ![p] = IdleRec]
                /\ UNCHANGED vars
=============================================================================
