SPECIFICATION EnumSpec
CONSTANTS SmallN = 2
CONSTRAINT Hwm
POSTCONDITION TraceAccepted
CHECK_DEADLOCK FALSE
