SPECIFICATION TraceSpec
CONSTANTS Design = "copy"
          StopPolicy = "drain"
          Creation = "defaults"
CONSTRAINT Hwm
POSTCONDITION TraceAccepted
CHECK_DEADLOCK FALSE
