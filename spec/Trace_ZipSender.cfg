SPECIFICATION TraceSpec
CONSTANTS Design = "copy"
          StopPolicy = "drain"
          Creation = "defaults"
          IdleSlack = 60
          MinPeriod = 20
CONSTRAINT Hwm
POSTCONDITION TraceAccepted
CHECK_DEADLOCK FALSE
