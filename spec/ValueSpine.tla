----------------------------- MODULE ValueSpine -----------------------------
(***************************************************************************)
(* C02 -- DEEP tagged values in a flat notation (pure operators on top of  *)
(* Value.tla, no variables).  "Nested to any depth": values hundreds or    *)
(* thousands of containers deep can neither be logged as nested JSON       *)
(* (TLC's JSON reader stops at 255 levels of brackets) nor judged quickly  *)
(* by the recursive operators of Value.tla at every depth.                 *)
(***************************************************************************)
EXTENDS Value

\* ---- deep values, described flat ----------------------------------------------
\* A value nested hundreds or thousands of containers deep is described by its SPINE: the
\* containers on the way down to the deepest part, outermost first, each with the entries
\* before and behind the one that continues the descent, and the value at the bottom:
\*   level = [t |-> 70 | 80 | 81, k |-> key of the descending entry (<<>> in a list),
\*            pre |-> entries before it, post |-> entries behind it]
\* (entries: values in a list, <<key, value>> pairs in a map / int map).  Nothing but the
\* notation is flat: Spine(sp, inner) is an ordinary value, as deep as the spine is long.
RECURSIVE SpineFrom(_, _, _)
SpineFrom(sp, i, inner) ==
  IF i > Len(sp) THEN inner
  ELSE IF sp[i].t = TList
       THEN Val(TList, sp[i].pre \o <<SpineFrom(sp, i + 1, inner)>> \o sp[i].post)
       ELSE Val(sp[i].t, sp[i].pre \o << <<sp[i].k, SpineFrom(sp, i + 1, inner)>> >> \o sp[i].post)
Spine(sp, inner) == SpineFrom(sp, 1, inner)
SpineOK(sp) == \A i \in 1..Len(sp) : DOMAIN sp[i] = {"t", "k", "pre", "post"} /\ sp[i].t \in ContainerCodes

\* The same, level by level WITHOUT building the deep value (TLC's evaluator slows down with the
\* depth of its own recursion -- every operator application searches a context chain as long as
\* the recursion is deep -- so that the recursive operators of Value.tla take about a second on
\* a value 100 containers deep, six at 500, a minute at 1000 and seven minutes at 2000).  The
\* encoding of a spine is the heads of its levels, outermost first, the encoding of the bottom
\* value, and the tails of the levels, innermost first; two spines denote the same value iff
\* they are equal level by level.  MC_ValueSpine checks on every small spine that this is the
\* format of Value.tla: SpineEnc(sp, x) = EncValue(Spine(sp, x)), SpineIsValue = IsValue(Spine),
\* SameSpine = SameValue of the two Spines.
EntryKind(t) == IF t = TList THEN "val" ELSE IF t = TMap THEN "map" ELSE "imap"
\* the level as a container of its own, with child c where the descent continues
LevelValue(L, c) == IF L.t = TList THEN Val(TList, L.pre \o <<c>> \o L.post)
                    ELSE Val(L.t, L.pre \o << <<L.k, c>> >> \o L.post)
LevelHead(L) == <<L.t>> \o EncCount(Len(L.pre) + 1 + Len(L.post)) \o EncItems(EntryKind(L.t), L.pre)
                \o (IF L.t = TList THEN <<>> ELSE IF L.t = TMap THEN DX!EncBlob(L.k) ELSE Low(L.k, 4))
LevelTail(L) == EncItems(EntryKind(L.t), L.post)
RECURSIVE HeadsRange(_, _, _), TailsRange(_, _, _)
HeadsRange(sp, lo, hi) == IF lo > hi THEN <<>> ELSE IF lo = hi THEN LevelHead(sp[lo])
                          ELSE HeadsRange(sp, lo, (lo + hi) \div 2) \o HeadsRange(sp, (lo + hi) \div 2 + 1, hi)
TailsRange(sp, lo, hi) == IF lo > hi THEN <<>> ELSE IF lo = hi THEN LevelTail(sp[lo])      \* innermost first
                          ELSE TailsRange(sp, (lo + hi) \div 2 + 1, hi) \o TailsRange(sp, lo, (lo + hi) \div 2)
SpineEnc(sp, inner) == HeadsRange(sp, 1, Len(sp)) \o EncValue(inner) \o TailsRange(sp, 1, Len(sp))
SpineIsValue(sp, inner) == /\ SpineOK(sp) /\ IsValue(inner)
                           /\ \A i \in 1..Len(sp) : IsValue(LevelValue(sp[i], VNull))
SameSpine(a, ain, b, bin) == /\ Len(a) = Len(b) /\ SameValue(ain, bin)
                             /\ \A i \in 1..Len(a) : SameValue(LevelValue(a[i], VNull), LevelValue(b[i], VNull))
=============================================================================
