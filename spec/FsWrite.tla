------------------------------ MODULE FsWrite ------------------------------
(***************************************************************************)
(* The file-system steps of replacing the content of one file, at the      *)
(* granularity of system calls (C18, "at no instant during a write does    *)
(* the file on disk hold anything but the old or the new complete          *)
(* content").                                                              *)
(*                                                                         *)
(* A tiny POSIX model: a directory maps names to inodes, an inode has a    *)
(* content (a sequence of units: bytes in syscall traces, lines in the     *)
(* model-checked design) and a modification stamp, the writing process     *)
(* owns a descriptor table.  Every system call is one action; the state    *)
(* between two actions is a state in which the process may stop (Crash)    *)
(* and in which any other process may read the file.  AtomicOnDisk is      *)
(* therefore a plain state invariant.                                      *)
(*                                                                         *)
(* Two write-back programs are given for model checking: "trunc"           *)
(* (open O_TRUNC, write*, fsync, close -- what golib did) and "rename"     *)
(* (create a temporary file in the same directory, write*, fsync, close,   *)
(* rename over the target).                                                *)
(***************************************************************************)
EXTENDS Integers, Sequences, FiniteSets, TLC

CONSTANT Strategy          \* "trunc" | "rename": the program WbStep follows

VARIABLES dir,    \* name -> inode number
          data,   \* inode number -> content (sequence of inode contents)
          mt,     \* inode number -> modification stamp <<second, order>>
          fdt,    \* descriptor -> [ino, pos, app]
          sec,    \* the second the clock shows
          modn,   \* number of modifications so far: the sub-second part of a stamp
          w       \* the write-back in progress: [pc, old, new, cut]

fsvars == <<dir, data, mt, fdt, sec, modn, w>>

Conf == "conf"
Tmp  == "tmp"
Idle == [pc |-> "idle", old |-> <<>>, new |-> <<>>, cut |-> 0]

FsInit(c0) == /\ dir = (Conf :> 1)
              /\ data = <<c0>>
              /\ mt = << <<0, 0>> >>
              /\ fdt = <<>>
              /\ sec = 0
              /\ modn = 1
              /\ w = Idle

Exists(n)  == n \in DOMAIN dir
Content(n) == data[dir[n]]
Stamp(n)   == mt[dir[n]]
Now        == <<sec, modn>>

\* c with d written at offset p (p <= Len(c))
Overwrite(c, p, d) ==
  SubSeq(c, 1, p) \o d \o (IF p + Len(d) < Len(c) THEN SubSeq(c, p + Len(d) + 1, Len(c)) ELSE <<>>)

Restrict(f, S) == [x \in S |-> f[x]]

---------------------------------------------------------------------------
(* system calls *)

SysOpen(n, fd, creat, excl, trunc, app) ==
  /\ fd \notin DOMAIN fdt
  /\ IF Exists(n)
       THEN /\ ~(creat /\ excl)
            /\ dir' = dir
            /\ IF trunc
                 THEN /\ data' = [data EXCEPT ![dir[n]] = <<>>]
                      /\ mt' = [mt EXCEPT ![dir[n]] = Now]
                      /\ modn' = modn + 1
                 ELSE UNCHANGED <<data, mt, modn>>
            /\ fdt' = (fd :> [ino |-> dir[n], pos |-> 0, app |-> app]) @@ fdt
       ELSE /\ creat
            /\ data' = Append(data, <<>>)
            /\ mt' = Append(mt, Now)
            /\ modn' = modn + 1
            /\ dir' = (n :> (Len(data) + 1)) @@ dir
            /\ fdt' = (fd :> [ino |-> Len(data) + 1, pos |-> 0, app |-> app]) @@ fdt
  /\ UNCHANGED <<sec, w>>

WriteAt(fd, p, d, move) ==
  /\ fd \in DOMAIN fdt
  /\ LET f == fdt[fd]
         c == data[f.ino]
     IN /\ p <= Len(c)
        /\ data' = [data EXCEPT ![f.ino] = Overwrite(c, p, d)]
        /\ fdt' = IF move THEN [fdt EXCEPT ![fd].pos = p + Len(d)] ELSE fdt
        /\ mt' = [mt EXCEPT ![f.ino] = Now]
        /\ modn' = modn + 1
  /\ UNCHANGED <<dir, sec, w>>

SysWrite(fd, d) ==
  /\ fd \in DOMAIN fdt
  /\ WriteAt(fd, IF fdt[fd].app THEN Len(data[fdt[fd].ino]) ELSE fdt[fd].pos, d, TRUE)

SysPwrite(fd, d, off) == WriteAt(fd, off, d, FALSE)

SysLseek(fd, off) ==
  /\ fd \in DOMAIN fdt
  /\ fdt' = [fdt EXCEPT ![fd].pos = off]
  /\ UNCHANGED <<dir, data, mt, sec, modn, w>>

SysFtruncate(fd, n) ==
  /\ fd \in DOMAIN fdt
  /\ n <= Len(data[fdt[fd].ino])
  /\ data' = [data EXCEPT ![fdt[fd].ino] = SubSeq(@, 1, n)]
  /\ mt' = [mt EXCEPT ![fdt[fd].ino] = Now]
  /\ modn' = modn + 1
  /\ UNCHANGED <<dir, fdt, sec, w>>

SysFsync(fd) ==
  /\ fd \in DOMAIN fdt
  /\ UNCHANGED fsvars

SysClose(fd) ==
  /\ fd \in DOMAIN fdt
  /\ fdt' = Restrict(fdt, DOMAIN fdt \ {fd})
  /\ UNCHANGED <<dir, data, mt, sec, modn, w>>

SysRename(a, b) ==
  /\ Exists(a)
  /\ dir' = [x \in (DOMAIN dir \ {a}) \cup {b} |-> IF x = b THEN dir[a] ELSE dir[x]]
  /\ UNCHANGED <<data, mt, fdt, sec, modn, w>>

SysUnlink(a) ==
  /\ Exists(a)
  /\ dir' = Restrict(dir, DOMAIN dir \ {a})
  /\ UNCHANGED <<data, mt, fdt, sec, modn, w>>

Tick(maxSec) == /\ sec < maxSec
                /\ sec' = sec + 1
                /\ UNCHANGED <<dir, data, mt, fdt, modn, w>>

---------------------------------------------------------------------------
(* the write-back programs (model checking).  WbBegin fixes the old and    *)
(* the intended new content and where the new content is cut into two      *)
(* write calls; WbStep performs the next system call of the program.       *)

Active == w.pc \notin {"idle"}
Crashed == w.pc = "crashed"

WbBegin(new, cut) ==
  /\ w.pc = "idle"
  /\ Exists(Conf)
  /\ cut \in 0..Len(new)
  /\ w' = [pc |-> "open", old |-> Content(Conf), new |-> new, cut |-> cut]
  /\ UNCHANGED <<dir, data, mt, fdt, sec, modn>>

Goto(pc) == w' = [w EXCEPT !.pc = pc]

WFd == 3

WbStep ==
  \/ /\ w.pc = "open"
     /\ IF Strategy = "trunc"
          THEN /\ Exists(Conf)
               /\ data' = [data EXCEPT ![dir[Conf]] = <<>>]
               /\ mt' = [mt EXCEPT ![dir[Conf]] = Now]
               /\ modn' = modn + 1
               /\ dir' = dir
               /\ fdt' = (WFd :> [ino |-> dir[Conf], pos |-> 0, app |-> FALSE]) @@ fdt
          ELSE /\ ~Exists(Tmp)
               /\ data' = Append(data, <<>>)
               /\ mt' = Append(mt, Now)
               /\ modn' = modn + 1
               /\ dir' = (Tmp :> (Len(data) + 1)) @@ dir
               /\ fdt' = (WFd :> [ino |-> Len(data) + 1, pos |-> 0, app |-> FALSE]) @@ fdt
     /\ Goto("write1")
     /\ UNCHANGED sec
  \/ /\ w.pc \in {"write1", "write2"}
     /\ LET d == IF w.pc = "write1" THEN SubSeq(w.new, 1, w.cut)
                                    ELSE SubSeq(w.new, w.cut + 1, Len(w.new))
            f == fdt[WFd]
        IN /\ data' = [data EXCEPT ![f.ino] = Overwrite(@, f.pos, d)]
           /\ fdt' = [fdt EXCEPT ![WFd].pos = f.pos + Len(d)]
           /\ mt' = [mt EXCEPT ![f.ino] = Now]
           /\ modn' = modn + 1
     /\ Goto(IF w.pc = "write1" THEN "write2" ELSE "sync")
     /\ UNCHANGED <<dir, sec>>
  \/ /\ w.pc = "sync"
     /\ Goto("close")
     /\ UNCHANGED <<dir, data, mt, fdt, sec, modn>>
  \/ /\ w.pc = "close"
     /\ fdt' = Restrict(fdt, DOMAIN fdt \ {WFd})
     /\ Goto(IF Strategy = "trunc" THEN "done" ELSE "rename")
     /\ UNCHANGED <<dir, data, mt, sec, modn>>
  \/ /\ w.pc = "rename"
     /\ dir' = [x \in (DOMAIN dir \ {Tmp}) \cup {Conf} |-> IF x = Conf THEN dir[Tmp] ELSE dir[x]]
     /\ Goto("done")
     /\ UNCHANGED <<data, mt, fdt, sec, modn>>

WbEnd == /\ w.pc = "done"
         /\ Content(Conf) = w.new
         /\ w' = Idle
         /\ UNCHANGED <<dir, data, mt, fdt, sec, modn>>

\* the process stops between two system calls: its descriptors vanish, the
\* directory and the inodes stay as they are -- for ever
Crash == /\ w.pc \notin {"idle", "crashed"}
         /\ w' = [w EXCEPT !.pc = "crashed"]
         /\ fdt' = <<>>
         /\ UNCHANGED <<dir, data, mt, sec, modn>>

---------------------------------------------------------------------------
(* the property *)

\* from the first system call of a write-back on -- in particular in every state
\* a crash can freeze -- the name holds the old or the new complete content
\* (n: the directory entry the configuration path resolves to -- Conf itself unless the path
\* goes through symbolic links, which only the trace specification knows about)
AtomicAt(n) == Active => /\ Exists(n)
                         /\ \/ Content(n) = w.old
                            \/ Content(n) = w.new
AtomicOnDisk == AtomicAt(Conf)

\* write(2) is one action above, but it is not atomic against a crash: while it runs on the inode
\* the name refers to, a prefix of d may be all that reached the file.  Three such cuts are judged
\* (after the first byte, in the middle, before the last byte); to be evaluated BEFORE the write.
Cuts(d) == {n \in {1, Len(d) \div 2, Len(d) - 1} : 0 < n /\ n < Len(d)}
WriteTornAt(c, fd, p, d) ==
  (Active /\ Exists(c) /\ fd \in DOMAIN fdt /\ fdt[fd].ino = dir[c] /\ p <= Len(Content(c))) =>
     \A n \in Cuts(d) : LET c2 == Overwrite(Content(c), p, SubSeq(d, 1, n))
                        IN c2 = w.old \/ c2 = w.new
WriteTornOK(fd, p, d) == WriteTornAt(Conf, fd, p, d)

\* a finished write-back installed the intended content
WriteInstalls == w.pc = "done" => (Exists(Conf) /\ Content(Conf) = w.new)
=============================================================================
