SPECIFICATION MCSpec
CONSTANTS
  NotCleared <- MCNotCleared
  Mode = "scratch_copy"
  MaxKept = 3
INVARIANTS Stable
CHECK_DEADLOCK FALSE
