SPECIFICATION MCSpec
CONSTANTS Mode = "pool_alias"
          MaxViews = 3
INVARIANTS HeldStable ViewsOK
CHECK_DEADLOCK FALSE
