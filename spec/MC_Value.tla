----------------------------- MODULE MC_Value -------------------------------
(***************************************************************************)
(* Exhaustive small-scope exploration of the value format (C02, mode M):   *)
(* every value of ValueEnum!AllValues -- container depth <= 2, containers  *)
(* of at most two items, every type code at depth 1 -- written as a        *)
(* one-value stream, and every stream of at most MaxLen values of the      *)
(* small pool Small1, then read back and re-encoded.                       *)
(***************************************************************************)
EXTENDS ValueCodec, ValueEnum, TLC

CONSTANT MaxLen      \* values per stream for the streams over Small1

\* The first write is chosen in two steps (a block, then a value of the block)
\* so that TLC's workers share the enumeration.  blk = 0: not chosen yet;
\* 1..NBlocks: a one-value stream over AllValues; NBlocks+1: a stream over Small1.
VARIABLE blk
NBlocks == 64
mcvars == <<vars, blk>>
MCInit == Init /\ blk = 0
PickBlock == blk = 0 /\ blk' \in 1..(NBlocks + 1) /\ UNCHANGED vars
MCNext == \/ PickBlock
          \/ /\ blk > 0 /\ UNCHANGED blk
             /\ \/ (blk <= NBlocks /\ Len(vals) = 0 /\ \E i \in {j \in 1..NAll : j % NBlocks = blk - 1} : Write(AllValues[i]))
                \/ (blk = NBlocks + 1 /\ Len(vals) < MaxLen /\ \E i \in 1..Len(Small1) : Write(Small1[i]))
                \/ (Len(vals) > 0 /\ Open)
                \/ Read
                \/ ReEncode

MCSpec == MCInit /\ [][MCNext]_mcvars

\* finished runs have read back and re-encoded everything
Complete == (rpos > 0 /\ Len(again) = Len(vals)) =>
               /\ rpos = Len(wire) + 1
               /\ Len(backs) = Len(vals) /\ \A i \in 1..Len(vals) : SameValue(backs[i], vals[i])
               /\ \A i \in 1..Len(vals) : again[i] = EncValue(vals[i])

\* the composite step used by trace validation is the composition of the four calls
RTisComposition == (rpos > 0 /\ Len(vals) = 1 /\ Len(again) = 1) =>
   \E e \in {EncValue(vals[1])} : \E d \in {DecValue(e, 1)} :
      /\ d.ok /\ encs = <<e>> /\ wire = e /\ rpos = d.next
      /\ SameValue(backs[1], d.v) /\ again = <<EncValue(d.v)>>

\* the enumeration really is what the header says
ASSUME \A i \in 1..Len(FullScalars) : IsValue(FullScalars[i]) /\ Depth(FullScalars[i]) = 0
ASSUME {FullScalars[i].t : i \in 1..Len(FullScalars)} = ScalarCodes \cup ArrayCodes
ASSUME \A i \in 1..NAll : IsValue(AllValues[i]) /\ Depth(AllValues[i]) <= 2
ASSUME \E i \in 1..NAll : Depth(AllValues[i]) = 2
ASSUME UnknownTag
ASSUME PrintT(<<"MC_Value values", NAll>>)
=============================================================================
