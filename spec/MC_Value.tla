----------------------------- MODULE MC_Value -------------------------------
(***************************************************************************)
(* Exhaustive small-scope exploration of the value format: every value of  *)
(* container depth <= MaxDepth whose containers hold at most two items,    *)
(* written as the first element of a stream (and every pair of values of a *)
(* small pool as a two-element stream), then read back and re-encoded.     *)
(*                                                                         *)
(* Level 1 containers range over the FULL scalar domain (every type code,  *)
(* several payloads each); deeper levels over the small domain, so that    *)
(* the state space stays at 10^4..10^5 values.                             *)
(***************************************************************************)
EXTENDS ValueCodec, TLC

CONSTANTS MaxDepth,   \* 2 or 3
          SmallN,     \* how many scalars the nested levels range over (3..6)
          MaxLen      \* values per stream

W(n) == NatW8(n)
MinI32 == SignExt(<<128, 0, 0, 0>>, 8)
MinI64 == <<128, 0, 0, 0, 0, 0, 0, 0>>
Pay(n) == [i \in 1..n |-> (i * 11) % 256]

\* Values of different types must not meet in one TLC set (see Value!SameValue):
\* every enumeration below is a SEQUENCE, ranged over by index.
FullScalars ==
  <<VNull, VBool(TRUE), VBool(FALSE),
    VDecimal(W(0)), VDecimal(W(128)), VDecimal(Fill(8, 255)), VDecimal(MinI64),
    VInt(W(0)), VInt(MinI32), VLong(W(1)), VLong(MinI64),
    VFloat(<<0, 0, 0, 0>>), VFloat(<<127, 192, 0, 1>>), VDouble(Zeros(8)), VDouble(<<255, 248, 0, 0, 0, 0, 0, 1>>),
    VDoubleSummary(<<63, 240, 0, 0, 0, 0, 0, 0>>, W(2), Zeros(8), <<64, 0, 0, 0, 0, 0, 0, 0>>),
    VLongSummary(W(7), MinI32, Fill(8, 255), W(9)),
    VText(<<>>), VText(<<97>>), VText(Pay(254)), VTextHash(W(0)), VTextHash(Fill(8, 255)),
    VBlob(<<>>), VBlob(Pay(253)), VBlob(Pay(256)), VIP4(<<0, 0, 0, 0>>), VIP4(<<192, 168, 0, 255>>),
    VIntArray(<<>>), VIntArray(<<W(1), MinI32>>), VFloatArray(<<>>), VFloatArray(<< <<63, 128, 0, 0>> >>),
    VTextArray(<<>>), VTextArray(<< <<>>, <<97, 98>> >>), VLongArray(<<>>), VLongArray(<<MinI64, W(3)>>)>>

SmallSeq == <<VNull, VDecimal(W(1)), VText(<<97>>), VBool(TRUE), VBlob(<<>>), VIntArray(<<W(2)>>)>>
SmallScalars == SubSeq(SmallSeq, 1, SmallN)

SKeys == << <<97>>, <<>> >>             \* "a" and the empty key
IKeys == <<W(5), Fill(8, 255)>>         \* 5 and -1

\* force a function over 1..n into a tuple (evaluated once)
Tup(f) == f \o <<>>

\* all sequences of at most two items of S (a sequence)
UpTo2(S) == LET n == Len(S) IN
  << <<>> >> \o [i \in 1..n |-> <<S[i]>>]
             \o [k \in 1..(n * n) |-> <<S[((k - 1) \div n) + 1], S[((k - 1) % n) + 1]>>]
\* all maps of at most two entries with distinct keys (K has two keys), both insertion orders
Maps2(K, S) == LET n == Len(S) IN
  << <<>> >> \o [k \in 1..(2 * n) |-> << <<K[((k - 1) \div n) + 1], S[((k - 1) % n) + 1]>> >>]
             \o [k \in 1..(2 * n * n) |->
                   LET o == (k - 1) \div (n * n)
                       r == (k - 1) % (n * n)
                   IN << <<K[1 + o], S[(r \div n) + 1]>>, <<K[2 - o], S[(r % n) + 1]>> >>]

Containers(S) ==
  Bind(S, LAMBDA s :
    Bind(UpTo2(s), LAMBDA ls : Tup([i \in 1..Len(ls) |-> VList(ls[i])]))
    \o Bind(Maps2(SKeys, s), LAMBDA ms : Tup([i \in 1..Len(ms) |-> VMap(ms[i])]))
    \o Bind(Maps2(IKeys, s), LAMBDA ms : Tup([i \in 1..Len(ms) |-> VIntMap(ms[i])])))

RECURSIVE SmallLevel(_)
\* values of depth <= d over the small scalar domain
SmallLevel(d) == IF d = 0 THEN SmallScalars ELSE SmallScalars \o Containers(SmallLevel(d - 1))

AllValues == FullScalars \o Containers(FullScalars) \o Containers(SmallLevel(MaxDepth - 1))
NAll == Len(AllValues)

\* second and later elements of a stream
Pool2 == SmallLevel(1)

\* The first write is chosen in two steps (a block, then a value of the block)
\* so that TLC's workers share the enumeration.
VARIABLE blk
NBlocks == 64
mcvars == <<vars, blk>>
MCInit == Init /\ blk = 0
PickBlock == blk = 0 /\ blk' \in 1..NBlocks /\ UNCHANGED vars
MCNext == \/ PickBlock
          \/ /\ blk > 0 /\ UNCHANGED blk
             /\ \/ (Len(vals) = 0 /\ \E i \in {j \in 1..NAll : j % NBlocks = blk - 1} : Write(AllValues[i]))
                \/ (Len(vals) > 0 /\ Len(vals) < MaxLen /\ \E i \in 1..Len(Pool2) : Write(Pool2[i]))
                \/ (Len(vals) > 0 /\ Open)
                \/ Read
                \/ ReEncode

MCSpec == MCInit /\ [][MCNext]_mcvars

\* finished runs have read back and re-encoded everything
Complete == (rpos > 0 /\ Len(again) = Len(vals)) =>
               /\ rpos = Len(wire) + 1
               /\ Len(backs) = Len(vals) /\ \A i \in 1..Len(vals) : SameValue(backs[i], vals[i])
               /\ \A i \in 1..Len(vals) : again[i] = EncValue(vals[i])

\* the enumeration really is what the header says
ASSUME \A i \in 1..Len(FullScalars) : IsValue(FullScalars[i]) /\ Depth(FullScalars[i]) = 0
ASSUME {FullScalars[i].t : i \in 1..Len(FullScalars)} = ScalarCodes \cup ArrayCodes
ASSUME \A i \in 1..NAll : Depth(AllValues[i]) <= MaxDepth
ASSUME PrintT(<<"MC_Value values", NAll>>)
=============================================================================
