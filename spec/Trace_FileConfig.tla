-------------------------- MODULE Trace_FileConfig --------------------------
(***************************************************************************)
(* Trace validation of the real conffile.FileConfig against FileConfig.    *)
(* Events (harness/c18):                                                   *)
(*   Reset    pre suf excl nobs file mt   fresh directory, file written    *)
(*   New      snap notes                  constructor (its first reload)   *)
(*   Edit     lines parsed mt             external writer replaced the     *)
(*                                        file and set its mtime           *)
(*   Reload   snap notes                  one poll: map afterwards and     *)
(*                                        what each observer was shown     *)
(*   RlStat                               a poll taken apart: its stat     *)
(*                                        found the file changed (the real *)
(*                                        reload entered the parser)       *)
(*   RlParse  m                           the parser returned the map m    *)
(*   RlApplied                            the parser returns to the reload *)
(*                                        (which assigns the map next)     *)
(*   RlEnd    snap notes                  the taken-apart poll returned    *)
(*            Between RlStat and RlParse, between RlParse and RlApplied    *)
(*            and (inside an observer's callback) between RlApplied and    *)
(*            RlEnd the harness lets Edit, Get and SetValues events happen *)
(*            on the goroutine of the reload: the external writer, a       *)
(*            getter and a write-back interleaved with the steps of the    *)
(*            reload exactly as MC_FileConfig interleaves them.            *)
(*   Get      g k d deli ret [tab h0]     one typed getter call            *)
(*   SetValues kv after mt                write-back; the file afterwards  *)
(*   CGet     k ret lo hi                 a getter on a reader goroutine   *)
(*                                        that ran between the end of      *)
(*                                        reload lo and the start of       *)
(*                                        reload hi+1                      *)
(*   CKeys    ret lo hi                   GetKeys on a reader goroutine    *)
(*   CEnd     reads                       the child process ended normally *)
(* A child process that died ("CFatal") and a panic ("Panic") have no      *)
(* action.  snap / notes entries are lists of <<key, GetValue(key)>>.      *)
(***************************************************************************)
EXTENDS FileConfig, TraceLib

VARIABLES l, hist,
          pm      \* the map as it was when the taken-apart poll in progress began
tvars == <<vars, l, hist, pm>>

TraceInit == Init0(<<>>, NoOpt) /\ l = 1 /\ hist = <<>> /\ pm = <<>> /\ HwmInit

Step(e) == IsEv(l, e) /\ l' = l + 1

Fn(pairs) == [k \in {p[1] : p \in Range(pairs)} |-> (CHOOSE p \in Range(pairs) : p[1] = k)[2]]
SnapOf(m) == {<<k, Trim(m[k])>> : k \in DOMAIN m}
Stamp2(e) == <<e.mt[1], e.mt[2]>>

TraceReset ==
  /\ Step("Reset")
  /\ LET e == Trace[l] IN
       /\ dir' = (Conf :> 1) /\ data' = <<e.file>> /\ mt' = <<Stamp2(e)>> /\ fdt' = <<>>
       /\ sec' = 0 /\ modn' = 1 /\ w' = Idle
       /\ mem' = <<>> /\ lastSeen' = <<-1, -1>> /\ note' = <<>> /\ nnote' = 0
       /\ rl' = [pc |-> "idle", snap |-> <<>>, todo |-> {}, dirty |-> FALSE]
       /\ busy' = FALSE /\ fatal' = FALSE /\ fresh' = FALSE
       /\ opt' = [pre |-> e.pre, suf |-> e.suf, excl |-> Range(e.excl), nobs |-> e.nobs]
       /\ wkv' = <<>>
       /\ hist' = <<>> /\ pm' = <<>>

\* one poll.  If the stamp changed every observer is called exactly once and is shown the
\* merged map; a poll that leaves the map as it was may also stay silent.
ReloadEv(name) ==
  /\ Step(name)
  /\ LET e == Trace[l] IN
       /\ ReloadAtomic
       /\ Range(e.snap) = SnapOf(mem') /\ Len(e.snap) = Cardinality(DOMAIN mem')
       /\ IF Changed
            THEN \/ /\ Len(e.notes) = opt.nobs
                    /\ \A i \in 1..Len(e.notes) : Range(e.notes[i]) = SnapOf(mem')
                 \/ /\ e.notes = <<>> /\ mem' = mem
            ELSE e.notes = <<>>
       /\ hist' = Append(hist, mem')
  /\ pm' = pm

TraceNew == ReloadEv("New")
TraceReload == ReloadEv("Reload")

TraceEdit ==
  /\ Step("Edit")
  /\ LET e == Trace[l] IN
       /\ e.parsed = e.lines              \* the harness's reader of the syntax agrees with its writer
       /\ Stamp2(e) # Stamp(Conf)         \* (harness obligation: distinct modification times)
       /\ ExtEdit(e.lines, Stamp2(e))
       /\ UNCHANGED <<modn, hist, pm>>

HashOK(e, S) ==
  /\ \A t \in S : \E i \in 1..Len(e.tab) : e.tab[i][1] = t
  /\ LET H == {(CHOOSE p \in Range(e.tab) : p[1] = t)[2] : t \in S}
     IN Range(e.ret) \in {H, H \cup {e.h0}}

TraceGet ==
  /\ Step("Get")
  /\ LET e == Trace[l] IN
       CASE e.g = "Value" -> e.ret = GetValue(e.k)
         [] e.g = "ValueDef" -> e.ret = GetValueDef(e.k, e.d)
         [] e.g = "Boolean" -> e.ret = GetBoolean(e.k, e.d)
         [] e.g = "Int" -> e.ret = GetInt(e.k, e.d)
         [] e.g = "Long" -> e.ret = GetLong(e.k, e.d)
         [] e.g = "Float" -> FloatOK(e.k, e.d, e.ret)
         [] e.g = "StringArray" -> NonEmpty(e.ret) = GetStringArray(e.k, e.d, Range(e.deli))
         [] e.g = "IntSet" -> Range(e.ret) = GetIntSet(e.k, e.d, Range(e.deli))
         [] e.g \in {"StringHashSet", "StringHashCodeSet"} -> HashOK(e, SetTokens(e.k, e.d, Range(e.deli)))
         [] e.g = "Keys" -> Range(e.ret) = DOMAIN mem /\ Len(e.ret) = Cardinality(DOMAIN mem)
         [] OTHER -> FALSE
  /\ UNCHANGED <<vars, hist, pm>>

TraceSetValues ==
  /\ Step("SetValues")
  /\ LET e == Trace[l] IN SvAtomic(Fn(e.kv), e.after, Stamp2(e))
  /\ UNCHANGED <<hist, pm>>

\* a getter that ran concurrently with the reloading goroutine returned the value of
\* one of the versions that can have been current while it ran
TraceCGet ==
  /\ Step("CGet")
  /\ LET e == Trace[l] IN
       /\ e.lo <= e.hi /\ e.hi < Len(hist)
       /\ \E j \in e.lo..e.hi :
            e.ret = (IF e.k \in DOMAIN hist[j + 1] THEN Trim(hist[j + 1][e.k]) ELSE <<>>)
  /\ UNCHANGED <<vars, hist, pm>>

TraceCKeys ==
  /\ Step("CKeys")
  /\ LET e == Trace[l] IN
       /\ e.lo <= e.hi /\ e.hi < Len(hist)
       /\ \E j \in e.lo..e.hi : Range(e.ret) = DOMAIN hist[j + 1]
  /\ UNCHANGED <<vars, hist, pm>>

TraceCEnd == Step("CEnd") /\ UNCHANGED <<vars, hist, pm>>

---------------------------------------------------------------------------
(* one poll taken apart into the steps of the model (RlStat, RlParse, all   *)
(* map assignments, RlNotify); what happens between them is in the trace    *)

\* the real reload went on to parse: its stat must have shown a change
TraceRlStat ==
  /\ Step("RlStat")
  /\ Changed
  /\ RlStat
  /\ pm' = mem
  /\ UNCHANGED hist

\* the parser read the file as it is at this instant
TraceRlParse ==
  /\ Step("RlParse")
  /\ RlParse
  /\ SnapOf(Fn(Trace[l].m)) = SnapOf(Parsed)
  /\ UNCHANGED <<hist, pm>>

TraceRlApplied ==
  /\ Step("RlApplied")
  /\ RlApplyAll
  /\ UNCHANGED <<hist, pm>>

\* the poll returned: the map holds what was parsed (not what an edit that came later put
\* into the file), every observer was shown that map once (a poll that left the map as it
\* was may stay silent)
TraceRlEnd ==
  /\ Step("RlEnd")
  /\ RlNotify
  /\ LET e == Trace[l] IN
       /\ Range(e.snap) = SnapOf(mem) /\ Len(e.snap) = Cardinality(DOMAIN mem)
       /\ \/ /\ Len(e.notes) = opt.nobs
             /\ \A i \in 1..Len(e.notes) : Range(e.notes[i]) = SnapOf(mem)
          \/ /\ e.notes = <<>> /\ mem = pm
  /\ hist' = Append(hist, mem)
  /\ pm' = pm

TraceNext == (TraceReset \/ TraceNew \/ TraceReload \/ TraceEdit \/ TraceGet \/ TraceSetValues
              \/ TraceCGet \/ TraceCKeys \/ TraceCEnd
              \/ TraceRlStat \/ TraceRlParse \/ TraceRlApplied \/ TraceRlEnd) /\ InvAll'

TraceSpec == TraceInit /\ [][TraceNext]_tvars

Hwm == HwmNote(l)
TraceAccepted == Accepted
=============================================================================
