-------------------------- MODULE Trace_FileConfig --------------------------
(***************************************************************************)
(* Trace validation of the real conffile.FileConfig against FileConfig.    *)
(* Events (harness/c18):                                                   *)
(*   Reset    pre suf excl file mt        fresh directory, file written    *)
(*            exists penv libdefs         (exists = FALSE: no file yet);   *)
(*                                        penv: the process environment as *)
(*                                        far as it names keys of the      *)
(*                                        history; libdefs: what the public*)
(*                                        ApplyDefault() puts into an      *)
(*                                        empty configuration              *)
(*   ObsAdd   name id                     ConfigObserver.Add(name, object  *)
(*                                        number id) -- before and after   *)
(*                                        the constructor, between polls,  *)
(*                                        inside a poll taken apart        *)
(*   Env      k v set                     the environment variable k set   *)
(*                                        to v / unset                     *)
(*   New      snap notes                  constructor (its first reload)   *)
(*   Edit     lines parsed mt             external writer replaced (or     *)
(*                                        created) the file, set its mtime *)
(*   Delete                               external writer deleted the file *)
(*                                        or renamed it away               *)
(*   Reload   snap notes                  one poll: map afterwards and     *)
(*                                        what each observer was shown     *)
(*   RlStat                               a poll taken apart: its stat     *)
(*                                        found the file changed (the real *)
(*                                        reload entered the parser)       *)
(*   RlParse  m                           the parser returned the map m    *)
(*   RlApplied                            the parser returns to the reload *)
(*                                        (which assigns the map next)     *)
(*   RlEnd    snap notes                  the taken-apart poll returned    *)
(*            Between RlStat and RlParse, between RlParse and RlApplied    *)
(*            and (inside an observer's callback) between RlApplied and    *)
(*            RlEnd the harness lets Edit, Get and SetValues events happen *)
(*            on the goroutine of the reload: the external writer, a       *)
(*            getter and a write-back interleaved with the steps of the    *)
(*            reload exactly as MC_FileConfig interleaves them.            *)
(*   Get      g k d deli ret [tab h0]     one typed getter call            *)
(*   SetValues kv after mt                write-back; the file afterwards  *)
(*   SetValuesGone kv exists              write-back while the file is not *)
(*                                        there: still not there           *)
(*   RlParseFail                          the parser failed (the file      *)
(*                                        vanished after the stat)         *)
(*   RlAbort  snap notes                  ... and the poll returned        *)
(*   CGet     k ret lo hi                 a getter on a reader goroutine   *)
(*                                        that ran between the end of      *)
(*                                        reload lo and the start of       *)
(*                                        reload hi+1                      *)
(*   CKeys    ret lo hi                   GetKeys on a reader goroutine    *)
(*   CEnd     reads                       the child process ended normally *)
(* A child process that died ("CFatal") and a panic ("Panic") have no      *)
(* action.  snap is a list of <<key, GetValue(key)>>; notes is the list of *)
(* calls the observers received during the poll: [o |-> object number,     *)
(* s |-> the snap it took inside the call].                                *)
(***************************************************************************)
EXTENDS FileConfig, TraceLib

VARIABLES l, hist,
          pm      \* the map as it was when the taken-apart poll in progress began
tvars == <<vars, l, hist, pm>>

TraceInit == Init0(<<>>, NoOpt) /\ l = 1 /\ hist = <<>> /\ pm = <<>> /\ HwmInit

Step(e) == IsEv(l, e) /\ l' = l + 1

Fn(pairs) == [k \in {p[1] : p \in Range(pairs)} |-> (CHOOSE p \in Range(pairs) : p[1] = k)[2]]
SnapOf(m) == {<<k, Trim(m[k])>> : k \in DOMAIN m}
Stamp2(e) == <<e.mt[1], e.mt[2]>>

TraceReset ==
  /\ Step("Reset")
  /\ LET e == Trace[l] IN
       /\ IF e.exists THEN dir' = (Conf :> 1) /\ data' = <<e.file>> /\ mt' = <<Stamp2(e)>>
                      ELSE dir' = <<>> /\ data' = <<>> /\ mt' = <<>>
       /\ fdt' = <<>>
       /\ sec' = 0 /\ modn' = 1 /\ w' = Idle
       /\ mem' = <<>> /\ lastSeen' = Never /\ note' = NoNote /\ nnote' = 0
       /\ rl' = RlIdle
       /\ busy' = FALSE /\ fatal' = FALSE /\ fresh' = FALSE
       /\ opt' = [pre |-> e.pre, suf |-> e.suf, excl |-> Range(e.excl), reg |-> <<>>, lst |-> <<>>,
                  env |-> Fn(e.penv), defs |-> Fn(e.libdefs)]
       /\ wkv' = <<>>
       /\ hist' = <<>> /\ pm' = <<>>

\* the calls of one notification round: one call per registered name, to the observer that
\* is registered under it now, each shown map m
NotesOK(notes, m) ==
  /\ Len(notes) = Cardinality(DOMAIN opt.reg)
  /\ \A i \in 1..Len(notes) : Range(notes[i].s) = SnapOf(m)
  /\ \A x \in Ids \cup {notes[i].o : i \in 1..Len(notes)} :
        Cardinality({i \in 1..Len(notes) : notes[i].o = x}) = Cardinality({n \in DOMAIN opt.reg : opt.reg[n] = x})

TraceObsAdd ==
  /\ Step("ObsAdd")
  /\ ObsAdd(Trace[l].name, Trace[l].id)
  /\ UNCHANGED <<hist, pm>>

TraceEnv ==
  /\ Step("Env")
  /\ LET e == Trace[l] IN
       opt' = [opt EXCEPT !.env = IF e.set THEN (e.k :> e.v) @@ opt.env ELSE Restrict(opt.env, DOMAIN opt.env \ {e.k})]
  /\ UNCHANGED <<fsvars, mem, lastSeen, note, nnote, rl, busy, fatal, fresh, wkv, hist, pm>>

\* one poll.  If the stamp changed every registered observer is called (NotesOK) and is shown the
\* merged map; a poll that leaves the map as it was may also stay silent.  A poll that finds
\* the file missing tells nobody.
ReloadEv(name) ==
  /\ Step(name)
  /\ LET e == Trace[l] IN
       /\ ReloadAtomic
       /\ Range(e.snap) = SnapOf(mem') /\ Len(e.snap) = Cardinality(DOMAIN mem')
       /\ IF Changed /\ Loadable(File)
            THEN \/ NotesOK(e.notes, mem')
                 \/ /\ e.notes = <<>> /\ mem' = mem
            ELSE e.notes = <<>>
       /\ hist' = Append(hist, mem')
  /\ pm' = pm

TraceNew == ReloadEv("New")
TraceReload == ReloadEv("Reload")

TraceEdit ==
  /\ Step("Edit")
  /\ LET e == Trace[l] IN
       /\ e.parsed = e.lines              \* the harness's reader of the syntax agrees with its writer
       /\ Exists(Conf) => Stamp2(e) # Stamp(Conf)         \* (harness obligation: distinct modification times)
       /\ Stamp2(e) # lastSeen            \* (... also from the version remembered while the file was away)
       /\ ExtEdit(e.lines, Stamp2(e))
       /\ UNCHANGED <<modn, hist, pm>>

TraceDelete ==
  /\ Step("Delete")
  /\ ExtDelete
  /\ UNCHANGED <<modn, hist, pm>>

HashOK(e, S) ==
  /\ \A t \in S : \E i \in 1..Len(e.tab) : e.tab[i][1] = t
  /\ LET H == {(CHOOSE p \in Range(e.tab) : p[1] = t)[2] : t \in S}
     IN Range(e.ret) \in {H, H \cup {e.h0}}

TraceGet ==
  /\ Step("Get")
  /\ LET e == Trace[l] IN
       CASE e.g = "Value" -> e.ret = GetValue(e.k)
         [] e.g = "ValueDef" -> e.ret = GetValueDef(e.k, e.d)
         [] e.g = "Boolean" -> e.ret = GetBoolean(e.k, e.d)
         [] e.g = "Int" -> e.ret = GetInt(e.k, e.d)
         [] e.g = "Long" -> e.ret = GetLong(e.k, e.d)
         [] e.g = "Float" -> FloatOK(e.k, e.d, e.ret)
         [] e.g = "StringArray" -> NonEmpty(e.ret) = GetStringArray(e.k, e.d, Range(e.deli))
         [] e.g = "IntSet" -> Range(e.ret) = GetIntSet(e.k, e.d, Range(e.deli))
         [] e.g \in {"StringHashSet", "StringHashCodeSet"} -> HashOK(e, SetTokens(e.k, e.d, Range(e.deli)))
         [] e.g = "Keys" -> Range(e.ret) = DOMAIN mem /\ Len(e.ret) = Cardinality(DOMAIN mem)
         [] OTHER -> FALSE
  /\ UNCHANGED <<vars, hist, pm>>

TraceSetValues ==
  /\ Step("SetValues")
  /\ LET e == Trace[l] IN SvAtomic(Fn(e.kv), e.after, Stamp2(e))
  /\ UNCHANGED <<hist, pm>>

TraceSetValuesGone ==
  /\ Step("SetValuesGone")
  /\ ~Trace[l].exists
  /\ SvGone
  /\ UNCHANGED <<hist, pm>>

\* a getter that ran concurrently with the reloading goroutine returned the value of
\* one of the versions that can have been current while it ran
TraceCGet ==
  /\ Step("CGet")
  /\ LET e == Trace[l] IN
       /\ e.lo <= e.hi /\ e.hi < Len(hist)
       /\ \E j \in e.lo..e.hi :
            e.ret = (IF e.k \in DOMAIN hist[j + 1] THEN Trim(hist[j + 1][e.k]) ELSE EnvVal(e.k))
  /\ UNCHANGED <<vars, hist, pm>>

TraceCKeys ==
  /\ Step("CKeys")
  /\ LET e == Trace[l] IN
       /\ e.lo <= e.hi /\ e.hi < Len(hist)
       /\ \E j \in e.lo..e.hi : Range(e.ret) = DOMAIN hist[j + 1]
  /\ UNCHANGED <<vars, hist, pm>>

TraceCEnd == Step("CEnd") /\ UNCHANGED <<vars, hist, pm>>

---------------------------------------------------------------------------
(* one poll taken apart into the steps of the model (RlStat, RlParse, all   *)
(* map assignments, RlNotify); what happens between them is in the trace    *)

\* the real reload went on to parse: its stat must have shown a change
TraceRlStat ==
  /\ Step("RlStat")
  /\ Changed
  /\ RlStat
  /\ pm' = mem
  /\ UNCHANGED hist

\* the parser read the file as it is at this instant
TraceRlParse ==
  /\ Step("RlParse")
  /\ RlParse
  /\ SnapOf(Fn(Trace[l].m)) = SnapOf(Parsed)
  /\ UNCHANGED <<hist, pm>>

\* the file vanished after the stat: the parser failed, the poll returns with the map as it was
TraceRlParseFail ==
  /\ Step("RlParseFail")
  /\ RlParseFail
  /\ UNCHANGED <<hist, pm>>

TraceRlAbort ==
  /\ Step("RlAbort")
  /\ rl.pc = "idle"
  /\ LET e == Trace[l] IN
       /\ Range(e.snap) = SnapOf(mem) /\ Len(e.snap) = Cardinality(DOMAIN mem)
       /\ e.notes = <<>>
  /\ hist' = Append(hist, mem)
  /\ UNCHANGED <<vars, pm>>

TraceRlApplied ==
  /\ Step("RlApplied")
  /\ RlApplyAll
  /\ UNCHANGED <<hist, pm>>

\* the poll returned: the map holds what was parsed (not what an edit that came later put
\* into the file), every observer was shown that map once (a poll that left the map as it
\* was may stay silent)
TraceRlEnd ==
  /\ Step("RlEnd")
  /\ RlNotify
  /\ LET e == Trace[l] IN
       /\ Range(e.snap) = SnapOf(mem) /\ Len(e.snap) = Cardinality(DOMAIN mem)
       /\ \/ NotesOK(e.notes, mem)
          \/ /\ e.notes = <<>> /\ mem = pm
  /\ hist' = Append(hist, mem)
  /\ pm' = pm

TraceNext == (TraceReset \/ TraceNew \/ TraceReload \/ TraceEdit \/ TraceDelete \/ TraceGet \/ TraceSetValues
              \/ TraceSetValuesGone \/ TraceObsAdd \/ TraceEnv
              \/ TraceCGet \/ TraceCKeys \/ TraceCEnd
              \/ TraceRlStat \/ TraceRlParse \/ TraceRlParseFail \/ TraceRlAbort \/ TraceRlApplied \/ TraceRlEnd) /\ InvAll'

TraceSpec == TraceInit /\ [][TraceNext]_tvars

Hwm == HwmNote(l)
TraceAccepted == Accepted
=============================================================================
