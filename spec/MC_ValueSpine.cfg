SPECIFICATION SpSpec
CONSTANTS MaxDepth = 3
INVARIANTS WellFormedSame EncSame EqSame
CHECK_DEADLOCK FALSE
