SPECIFICATION TraceSpec
CONSTANTS
  NotCleared <- TrNotCleared
  Strict = TRUE
CONSTRAINT Hwm
POSTCONDITION TraceAccepted
CHECK_DEADLOCK FALSE
