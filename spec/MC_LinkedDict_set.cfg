SPECIFICATION MCSpec
CONSTANTS Keys = {1, 2, 3}
          Vals = {1}
          Maxes <- MaxesSmall
          MaxVal = 3
          IsSet = TRUE
          None <- NoneNil
          Rej = FALSE
          Nones = {}
          EK = 0
VIEW View
ACTION_CONSTRAINT DumpT
INVARIANTS NoDup DomOK SetOK RefuseOK
PROPERTIES FirstAtHead LastAtTail PlainAppends PlainKeeps UpdateKeepsKeys OthersKeepOrder EvictOpposite SortPermutes RemoveExact LRUMoves NoneIsInert LazyBoundP SetMaxInert OnlyNewKeyEvicts
CHECK_DEADLOCK FALSE
