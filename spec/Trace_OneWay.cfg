SPECIFICATION TraceSpec
CONSTANTS Sender = {"g0", "g1", "g2", "g3", "g4", "g5", "g6", "g7", "g8", "g9", "g10", "g11", "g12", "g13", "g14", "g15"}
          Addr = {"A", "B", "C"}
          MaxFaults = 1000000
          MaxCfg = 1000000
CONSTRAINT Hwm
POSTCONDITION TraceAccepted
CHECK_DEADLOCK FALSE
