SPECIFICATION TraceSpec
CONSTANTS Strategy = "any"
CONSTRAINT Hwm
POSTCONDITION TraceAccepted
CHECK_DEADLOCK FALSE
