SPECIFICATION MCSpec
CONSTANTS WalkEvery = 100
          HeavyEvery = 1
          DayEdges = TRUE
INVARIANTS Century CivilAgrees InverseAgrees WeekdayAgrees EndOfCentury UnitsNested TextsNameInstant FormatRoundTrip RequiredExact
PROPERTIES Monotone
CHECK_DEADLOCK FALSE
