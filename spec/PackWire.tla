------------------------------ MODULE PackWire ------------------------------
(***************************************************************************)
(* C05 -- the bytes whatap/golib puts on the wire, as REFERENCE ENCODERS   *)
(* (and decoders) written from the collector protocol layout and sharing   *)
(* nothing with golib.                                                     *)
(*                                                                         *)
(* Part 1: a small layout language.  A layout is a sequence of field       *)
(*   descriptors; EncRec(layout, rec) is the byte string of the record     *)
(*   rec, DecRec(layout, b, p) reads it back ([ok, v, next], fail closed). *)
(*   The primitive kinds are those of DataX (C01), tagged values those of  *)
(*   Value (C02), the 64-bit hash that of Hashes (C15).                    *)
(* Part 2: the protocol: the one-way frame, the common pack header in its  *)
(*   two forms, and the bodies of the eight pack types C05 names.          *)
(* Part 3: the connection as a state machine: Send appends a frame to the  *)
(*   byte stream, the collector takes frames off the stream by the length  *)
(*   field alone (Recv); invariants: frames arrive intact and in order,    *)
(*   the collector never gets stuck, nothing is left over at Close.        *)
(*                                                                         *)
(* Values: integers are 8-byte two's complement tuples (W8) whatever their *)
(* width on the wire, floats 4-byte IEEE patterns, texts/blobs byte tuples,*)
(* a `Byte` field an integer 0..255, tagged values the records of Value.   *)
(* A pack is a record: the header fields pcode, oid, okind, onode, time    *)
(* and the fields its body layout names.                                   *)
(***************************************************************************)
EXTENDS Value, TLC, Bitwise

H == INSTANCE Hashes WITH memo <- <<>>

(* The 64-bit hash of the protocol (license text, encoded tag map): the      *)
(* function Hashes!Crc32Wide64 (C15) -- the table-driven CRC-32 loop run in  *)
(* a 64-bit register preset to all ones, the 32-bit table entry sign-        *)
(* extended before the XOR, result complemented.  Restated here over the     *)
(* SAME derived table (Hashes!CrcTable, forced into a tuple once) with the   *)
(* register written out byte by byte, because tag maps are kilobytes long;   *)
(* MC_PackWire checks Hash64 = Hashes!Crc32Wide64 on test strings.           *)
CrcTab == [i \in 1..256 |-> H!CrcTable[i - 1]] \o <<>>
H64Step(crc, b) ==
  Bind(CrcTab[(crc[8] ^^ b) + 1], LAMBDA e :
  Bind(IF e[1] >= 128 THEN 255 ELSE 0, LAMBDA se :
       <<se, crc[1] ^^ se, crc[2] ^^ se, crc[3] ^^ se,
         crc[4] ^^ e[1], crc[5] ^^ e[2], crc[6] ^^ e[3], crc[7] ^^ e[4]>>))
\* the bytes bs[lo..hi] through the register, by halving (the recursion stays shallow)
RECURSIVE H64Range(_, _, _, _)
H64Range(bs, lo, hi, crc) ==
  IF lo > hi THEN crc
  ELSE IF lo = hi THEN Bind(crc, LAMBDA c : H64Step(c, bs[lo]))
  ELSE Bind(H64Range(bs, lo, (lo + hi) \div 2, crc), LAMBDA c : H64Range(bs, (lo + hi) \div 2 + 1, hi, c))
H64Loop(bs, i, crc) == H64Range(bs, i, Len(bs), crc)
Hash64(bs) == Bind(bs, LAMBDA b :
                Bind(H64Loop(b, 1, <<255, 255, 255, 255, 255, 255, 255, 255>>), LAMBDA r :
                  [i \in 1..8 |-> 255 - r[i]] \o <<>>))

-----------------------------------------------------------------------------
(* Part 1: layouts                                                         *)
\* one primitive of the stream codec; op is a DataX kind
P(name, op)        == [n |-> name, k |-> "prim", op |-> op]
\* one tagged value (type code byte + body)
V(name)            == [n |-> name, k |-> "value"]
\* constant bytes (version / marker bytes); carries no field
C(bytes)           == [n |-> "", k |-> "const", c |-> bytes]
\* count (a "Decimal" or one "Byte"), then that many records of layout item
L(name, cnt, item) == [n |-> name, k |-> "list", cnt |-> cnt, item |-> item]
\* exactly `times` records of layout item, no count on the wire
R(name, times, item) == [n |-> name, k |-> "rep", times |-> times, item |-> item]
\* optional section: byte 0 = absent, byte `flag` followed by one record of
\* layout item = present.  The field is <<>> (absent) or <<record>>.
O(name, flag, item) == [n |-> name, k |-> "opt", flag |-> flag, item |-> item]
\* the fields of layout item, encoded, wrapped in one blob; they live in the
\* enclosing record
W(item)            == [n |-> "", k |-> "wrap", item |-> item]

RECURSIVE FlatRange(_, _, _)
FlatRange(ss, lo, hi) == IF lo > hi THEN <<>>
                         ELSE IF lo = hi THEN ss[lo]
                         ELSE FlatRange(ss, lo, (lo + hi) \div 2) \o FlatRange(ss, (lo + hi) \div 2 + 1, hi)
\* concatenation of a sequence of byte tuples, by halving
Flat(ss) == FlatRange(ss, 1, Len(ss))

EncCnt(cnt, n) == IF cnt = "Byte" THEN <<n>> ELSE DX!EncDecimal(NatW8(n))

RECURSIVE EncRec(_, _)
EncField(d, rec) ==
  CASE d.k = "const" -> d.c
    [] d.k = "prim"  -> DX!Enc(d.op, rec[d.n])
    [] d.k = "value" -> EncValue(rec[d.n])
    [] d.k = "list"  -> Bind(rec[d.n], LAMBDA xs :
                          EncCnt(d.cnt, Len(xs)) \o Flat([i \in 1..Len(xs) |-> EncRec(d.item, xs[i])]))
    [] d.k = "rep"   -> Bind(rec[d.n], LAMBDA xs : Flat([i \in 1..Len(xs) |-> EncRec(d.item, xs[i])]))
    [] d.k = "opt"   -> IF Len(rec[d.n]) = 0 THEN <<0>> ELSE <<d.flag>> \o EncRec(d.item, rec[d.n][1])
    [] d.k = "wrap"  -> DX!EncBlob(EncRec(d.item, rec))

EncRec(layout, rec) == Flat([i \in 1..Len(layout) |-> EncField(layout[i], rec)])

\* what a record must satisfy for its encoding to be faithful (counts that
\* travel in one byte, the fixed repetition count)
RECURSIVE FitsRec(_, _)
FitsField(d, rec) ==
  CASE d.k = "list" -> /\ (d.cnt = "Byte" => Len(rec[d.n]) <= 255)
                       /\ \A i \in 1..Len(rec[d.n]) : FitsRec(d.item, rec[d.n][i])
    [] d.k = "rep"  -> /\ Len(rec[d.n]) = d.times
                       /\ \A i \in 1..Len(rec[d.n]) : FitsRec(d.item, rec[d.n][i])
    [] d.k = "opt"  -> Len(rec[d.n]) <= 1 /\ (Len(rec[d.n]) = 1 => FitsRec(d.item, rec[d.n][1]))
    [] d.k = "wrap" -> FitsRec(d.item, rec)
    [] d.k = "prim" -> (d.op = "Byte" => rec[d.n] \in 0..255)
    [] OTHER -> TRUE
FitsRec(layout, rec) == \A i \in 1..Len(layout) : (layout[i].n = "" \/ layout[i].n \in DOMAIN rec) /\ FitsField(layout[i], rec)

\* ---- decoder ------------------------------------------------------------
NoFields == [x \in {} |-> 0]

RECURSIVE DecFrom(_, _, _, _, _), DecItems2(_, _, _, _, _)

\* n records of layout item starting at p: [ok, v = sequence, next]
DecItems2(item, b, p, n, acc) ==
  IF n = 0 THEN Good(acc, p)
  ELSE Bind(DecFrom(item, 1, b, p, NoFields), LAMBDA r :
         IF r.ok THEN DecItems2(item, b, r.next, n - 1, Append(acc, r.v)) ELSE Bad)

DecCnt(cnt, b, p) ==
  IF cnt = "Byte" THEN (IF Have(b, p, 1) THEN Good(b[p], p + 1) ELSE Bad)
  ELSE Bind(DX!Dec("Decimal", b, p), LAMBDA c :
         IF ~c.ok THEN Bad
         ELSE IF ~CountOK(c.v) THEN Bad
         ELSE Good(BytesToNat(Low(c.v, 4)), c.next))

DecField(d, b, p) ==
  CASE d.k = "const" -> IF Have(b, p, Len(d.c)) /\ Slice(b, p, Len(d.c)) = d.c THEN Good(<<>>, p + Len(d.c)) ELSE Bad
    [] d.k = "prim"  -> DX!Dec(d.op, b, p)
    [] d.k = "value" -> DecV(b, p)
    [] d.k = "list"  -> Bind(DecCnt(d.cnt, b, p), LAMBDA c :
                          IF ~c.ok THEN Bad
                          ELSE IF c.v > Len(b) - c.next + 1 /\ c.v > 0 THEN Bad    \* every record takes a byte
                          ELSE DecItems2(d.item, b, c.next, c.v, <<>>))
    [] d.k = "rep"   -> DecItems2(d.item, b, p, d.times, <<>>)
    [] d.k = "opt"   -> IF ~Have(b, p, 1) THEN Bad
                        ELSE IF b[p] = 0 THEN Good(<<>>, p + 1)
                        ELSE IF b[p] # d.flag THEN Bad
                        ELSE Bind(DecFrom(d.item, 1, b, p + 1, NoFields), LAMBDA r :
                               IF r.ok THEN Good(<<r.v>>, r.next) ELSE Bad)
    [] d.k = "wrap"  -> Bind(DX!DecBlobAt(b, p), LAMBDA w :
                          IF ~w.ok THEN Bad
                          ELSE Bind(DecFrom(d.item, 1, w.v, 1, NoFields), LAMBDA r :
                                 IF r.ok /\ r.next = Len(w.v) + 1 THEN Good(r.v, w.next) ELSE Bad))

\* the fields layout[i..] starting at p, added to the record acc
DecFrom(layout, i, b, p, acc) ==
  IF i > Len(layout) THEN Good(acc, p)
  ELSE Bind(DecField(layout[i], b, p), LAMBDA r :
         IF ~r.ok THEN Bad
         ELSE DecFrom(layout, i + 1, b, r.next,
                      IF layout[i].k = "const" THEN acc
                      ELSE IF layout[i].k = "wrap" THEN r.v @@ acc
                      ELSE (layout[i].n :> r.v) @@ acc))

DecRec(layout, b, p) == Bind(b, LAMBDA bb : DecFrom(layout, 1, bb, p, NoFields))

-----------------------------------------------------------------------------
(* Part 2: the protocol                                                    *)
Kinds == {"param", "counter", "text", "event", "hitmap", "tagcount", "logsink", "zip"}

\* 16-bit pack type codes
TypeCode == [param |-> <<1, 0>>, counter |-> <<2, 1>>, text |-> <<7, 0>>, event |-> <<20, 0>>,
             hitmap |-> <<21, 1>>, tagcount |-> <<22, 1>>, logsink |-> <<23, 10>>, zip |-> <<23, 11>>]

Z8 == <<0, 0, 0, 0, 0, 0, 0, 0>>

\* ---- common header: the short form when kind and node are both zero, else
\* marker 9 and the long form.  The first byte of the short form is the length
\* class of the decimal project code (0..5, 8), never 9.
HeaderShort == <<P("pcode", "Decimal"), P("oid", "Int"), P("time", "Long")>>
HeaderLong  == <<C(<<9>>), P("pcode", "Decimal"), P("oid", "Int"), P("okind", "Int"), P("onode", "Int"),
                 P("time", "Long")>>
LongForm(p) == p.okind # Z8 \/ p.onode # Z8
EncHeader(p) == IF LongForm(p) THEN EncRec(HeaderLong, p) ELSE EncRec(HeaderShort, p)
DecHeader(b, p) ==
  IF ~Have(b, p, 1) THEN Bad
  ELSE IF b[p] = 9 THEN DecRec(HeaderLong, b, p)
  ELSE IF b[p] <= 8 THEN Bind(DecRec(HeaderShort, b, p), LAMBDA r :
                           IF r.ok THEN Good(r.v @@ [okind |-> Z8, onode |-> Z8], r.next) ELSE Bad)
  ELSE Bad

\* ---- bodies ---------------------------------------------------------------
\* tag-count: version 0, category, tag hash, tags (a map value), data (a map value)
TagCountBody == <<C(<<0>>), P("category", "Text"), P("tagHash", "Decimal"), V("tags"), V("data")>>

\* log-sink: version 0, category, tag hash, tags, line, content, presence byte + fields
LogSinkBody == <<C(<<0>>), P("category", "Text"), P("tagHash", "Decimal"), V("tags"),
                 P("line", "Decimal"), P("content", "Text"), O("fieldsOpt", 1, <<V("map")>>)>>

\* text: decimal count, (div, hash, text)*
TextBody == <<L("records", "Decimal", <<P("div", "Byte"), P("hash", "Int"), P("text", "Text")>>)>>

\* parameter: id, request, response, decimal count, (key text, tagged value)*
ParamBody == <<P("id", "Int"), P("request", "Decimal"), P("response", "Decimal"),
               L("table", "Decimal", <<P("key", "Text"), V("value")>>)>>

\* event: level, title, message, one count byte, (key text, value text)*
EventBody == <<P("level", "Byte"), P("title", "Text"), P("message", "Text"),
               L("attrsWire", "Byte", <<P("k", "Text"), P("v", "Text")>>)>>

\* zip: status, decimal record count, blob
ZipBody == <<P("status", "Byte"), P("recordCount", "Decimal"), P("records", "Blob")>>

\* hit-map: version 1, 120 cells of (hits, errors), 16 bits each
HitMapCells == 120
HitMapBody == <<C(<<1>>), R("cells", HitMapCells, <<P("hit", "UShort"), P("err", "UShort")>>)>>

\* counter: everything in one blob, fixed order.  Sections: <<0>> = absent.
Dec(n) == P(n, "Decimal")
Flt(n) == P(n, "Float")
ShortArr1(n) == L(n, "Byte", <<P("s", "Short")>>)                  \* one count byte, 16-bit items
TxMeterItem == <<P("key", "Int"), Dec("time"), Dec("count"), Dec("error"), Dec("actx")>>
SqlMeterItem == TxMeterItem \o <<Dec("fetchCount"), Dec("fetchTime")>>
GroupMeterItem == <<Dec("pcode"), Dec("okind"), Dec("time"), Dec("count"), Dec("error"), Dec("actx")>>
POidMeterItem == <<Dec("pcode"), Dec("oid"), Dec("time"), Dec("count"), Dec("error"), Dec("actx")>>
IntIntItems == <<Dec("key"), Dec("val")>>
CounterInner ==
  <<Dec("duration"), Dec("cputime"), Dec("heapTot"), Dec("heapUse"), Dec("heapPerm"), Dec("heapPendingFinalization"),
    Dec("gcCount"), Dec("gcTime"), Dec("serviceCount"), Dec("serviceError"), Dec("serviceTime"),
    Dec("sqlCount"), Dec("sqlError"), Dec("sqlTime"), Dec("sqlFetchCount"), Dec("sqlFetchTime"),
    Dec("httpcCount"), Dec("httpcError"), Dec("httpcTime"), Dec("actSvcCount"), ShortArr1("actSvcSlice"),
    Flt("cpu"), Flt("cpuSys"), Flt("cpuUsr"), Flt("cpuWait"), Flt("cpuSteal"), Flt("cpuIrq"), Flt("cpuProc"),
    Dec("cpuCores"), Flt("mem"), Flt("swap"), Flt("disk"),
    Dec("threadTotalStarted"), Dec("threadCount"), Dec("threadDaemon"), Dec("threadPeakCount"),
    \* connection pool: active and idle counts per pool, both or none
    O("dbOpt", 1, <<L("active", "Decimal", IntIntItems), L("idle", "Decimal", IntIntItems)>>),
    O("netstatOpt", 1, <<Dec("est"), Dec("finW"), Dec("cloW"), Dec("timW")>>),
    Dec("procFd"), Flt("tps"), Dec("respTime"), P("apType", "Short"),
    O("websocketOpt", 1, <<Dec("count"), Dec("in"), Dec("out")>>),
    Dec("starttime"), Dec("packDropped"), Dec("hostIp"), Dec("macHash"),
    O("extraOpt", 1, <<V("map")>>),
    P("pid", "Int"), ShortArr1("activeStat"),
    Dec("threadPoolActiveCount"), Dec("threadPoolQueueSize"),
    \* versioned meter sections: version byte 9, decimal count, entries
    O("txcallerOidMeter", 9, <<L("items", "Decimal", TxMeterItem)>>),
    O("sqlMeter", 9, <<L("items", "Decimal", SqlMeterItem)>>),
    O("httpcMeter", 9, <<L("items", "Decimal", TxMeterItem)>>),
    O("txcallerGroupMeter", 9, <<L("items", "Decimal", GroupMeterItem)>>),
    C(<<0>>),                                                       \* retired per-kind meter: count 0
    O("txcallerUnknown", 2, <<Dec("time"), Dec("count"), Dec("error"), Dec("actx")>>),
    Dec("containerKey"), Flt("txDbcTime"), Flt("txSqlTime"), Flt("txHttpcTime"),
    Dec("apdexSatisfied"), Dec("apdexTolerated"), Flt("arrivalRate"), Dec("gcOldgenCount"),
    P("version", "Byte"), Dec("heapMax"), Dec("procFdMax"), Flt("metering"), Dec("apdexTotal"),
    L("txcallerPOidMeter", "Decimal", POidMeterItem),
    Dec("resp90"), Dec("resp95"), Dec("timeSqrSum")>>
CounterBody == <<W(CounterInner)>>

Body == [param |-> ParamBody, counter |-> CounterBody, text |-> TextBody, event |-> EventBody,
         hitmap |-> HitMapBody, tagcount |-> TagCountBody, logsink |-> LogSinkBody, zip |-> ZipBody]

\* ---- what the writer derives from the pack before laying it out ------------
\* decimal text of a W8 (status / object type of an event travel as text)
RECURSIVE NegFrom(_, _, _)
NegFrom(v, i, carry) == IF i = 0 THEN <<>>
                        ELSE Bind((255 - v[i]) + carry, LAMBDA s : Append(NegFrom(v, i - 1, s \div 256), s % 256))
Neg(v) == NegFrom(v, Len(v), 1)
RECURSIVE Div10(_, _, _)
\* long division of the byte tuple w[i..] by ten with incoming remainder r
Div10(w, i, r) == IF i > Len(w) THEN [q |-> <<>>, r |-> r]
                  ELSE Bind(r * 256 + w[i], LAMBDA cur :
                         Bind(Div10(w, i + 1, cur % 10), LAMBDA t : [q |-> <<cur \div 10>> \o t.q, r |-> t.r]))
RECURSIVE Digits(_)
Digits(w) == IF w = Zeros(Len(w)) THEN <<>>
             ELSE Bind(Div10(w, 1, 0), LAMBDA t : Append(Digits(t.q), 48 + t.r))
DecimalText(v) == IF v = Zeros(Len(v)) THEN <<48>>
                  ELSE IF v[1] >= 128 THEN <<45>> \o Digits(Neg(v))
                  ELSE Digits(v)

KeyUuid   == <<95, 117, 117, 105, 100, 95>>             \* "_uuid_"
KeyEsca   == <<95, 101, 115, 99, 97, 95>>               \* "_esca_"
KeyStatus == <<95, 115, 116, 97, 116, 117, 115, 95>>    \* "_status_"
KeyOtype  == <<95, 111, 116, 121, 112, 101, 95>>        \* "_otype_"
TxtTrue   == <<116, 114, 117, 101>>
TxtFalse  == <<102, 97, 108, 115, 101>>

\* a reserved key replaces the value of an attribute of the same name where it
\* stands, otherwise it is appended
Upsert(attrs, k, v) ==
  IF \E i \in 1..Len(attrs) : attrs[i].k = k
  THEN [i \in 1..Len(attrs) |-> IF attrs[i].k = k THEN [k |-> k, v |-> v] ELSE attrs[i]] \o <<>>
  ELSE Append(attrs, [k |-> k, v |-> v])

EventAttrs(p) ==
  Bind(IF Len(p.uuid) > 0 THEN Upsert(p.attrs, KeyUuid, p.uuid) ELSE p.attrs, LAMBDA a1 :
  Bind(Upsert(a1, KeyEsca, IF p.escalation THEN TxtTrue ELSE TxtFalse), LAMBDA a2 :
  Bind(Upsert(a2, KeyStatus, DecimalText(p.status)), LAMBDA a3 :
       Upsert(a3, KeyOtype, DecimalText(p.otype)))))

\* the tag hash: the 64-bit hash of the encoded tag map (0 for no tags)
TagHashOf(tags) == IF Len(tags.v) = 0 THEN Z8 ELSE Hash64(EncValue(tags))

\* the record that is laid out, but for the tag hash: the optional field
\* section of a log-sink pack, the attributes of an event with its reserved keys
Shaped(kind, p) ==
  CASE kind = "logsink" -> [fieldsOpt |-> IF Len(p.fields.v) = 0 THEN <<>> ELSE <<[map |-> p.fields]>>] @@ p
    [] kind = "event"   -> [attrsWire |-> EventAttrs(p)] @@ p
    [] OTHER -> p

\* the record that is laid out.  tag-count: the hash always describes the
\* tags (the pack offers no way to set it).  log-sink: the hash is a public
\* field; 0 with a non-empty tag map means "to be computed".
Wire(kind, p) ==
  CASE kind = "tagcount" -> [p EXCEPT !.tagHash = TagHashOf(p.tags)]
    [] kind = "logsink"  -> [Shaped(kind, p) EXCEPT !.tagHash = IF @ = Z8 THEN TagHashOf(p.tags) ELSE @]
    [] OTHER -> Shaped(kind, p)

\* the pack is within the limits of the layout
Fits(kind, p) == Bind(Shaped(kind, p), LAMBDA w : FitsRec(Body[kind], w))

\* pack type, header, body: what ToBytesPack must produce
PackBytes(kind, p) == Bind(Wire(kind, p), LAMBDA w : TypeCode[kind] \o EncHeader(p) \o EncRec(Body[kind], w))

KindOfCode(c) == IF \E k \in Kinds : TypeCode[k] = c THEN CHOOSE k \in Kinds : TypeCode[k] = c ELSE "unknown"

\* [ok, kind, v = header and body fields, next]
DecPack(b, p) ==
  IF ~Have(b, p, 2) THEN [ok |-> FALSE, kind |-> "unknown", v |-> NoFields, next |-> 0]
  ELSE Bind(KindOfCode(Slice(b, p, 2)), LAMBDA kind :
    IF kind = "unknown" THEN [ok |-> FALSE, kind |-> kind, v |-> NoFields, next |-> 0]
    ELSE Bind(DecHeader(b, p + 2), LAMBDA h :
      IF ~h.ok THEN [ok |-> FALSE, kind |-> kind, v |-> NoFields, next |-> 0]
      ELSE Bind(DecRec(Body[kind], b, h.next), LAMBDA r :
        IF ~r.ok THEN [ok |-> FALSE, kind |-> kind, v |-> NoFields, next |-> 0]
        ELSE [ok |-> TRUE, kind |-> kind, v |-> r.v @@ h.v, next |-> r.next])))

\* ---- the one-way frame -------------------------------------------------------
NetSrcOneWay == 10
NetSrcVersion == 0
FrameHeaderLen == 22

FrameOf(pcode, lic, body) ==
  <<NetSrcOneWay, NetSrcVersion>> \o pcode \o Hash64(lic) \o NatToBytes(Len(body), 4) \o body

\* the message for pack p of the given kind under license text lic
Frame(kind, p, lic) == Bind(PackBytes(kind, p), LAMBDA body : FrameOf(p.pcode, lic, body))

\* the frame starting at position p of the byte string b, delimited by its
\* length field alone: [ok, pcode, lichash, body, next]
NoFrame == [ok |-> FALSE, pcode |-> <<>>, lichash |-> <<>>, body |-> <<>>, next |-> 0]
FrameAt(b, p) ==
  IF ~Have(b, p, FrameHeaderLen) THEN NoFrame
  ELSE IF b[p] # NetSrcOneWay \/ b[p + 1] # NetSrcVersion \/ b[p + 18] >= 128 THEN NoFrame
  ELSE Bind(BytesToNat(Slice(b, p + 18, 4)), LAMBDA n :
         IF ~Have(b, p + FrameHeaderLen, n) THEN NoFrame
         ELSE [ok |-> TRUE, pcode |-> Slice(b, p + 2, 8), lichash |-> Slice(b, p + 10, 8),
               body |-> Slice(b, p + FrameHeaderLen, n), next |-> p + FrameHeaderLen + n])

-----------------------------------------------------------------------------
(* Part 3: one connection                                                  *)
VARIABLES stream,   \* every byte put on the connection so far
          sent,     \* the frames handed to the connection, in order
          rpos,     \* collector cursor into stream (1-based)
          got       \* the frames the collector has taken off the stream

vars == <<stream, sent, rpos, got>>

Init == stream = <<>> /\ sent = <<>> /\ rpos = 1 /\ got = <<>>

\* Send(p) / SendFlush(p) with license text lic (the client's, or the per-send one)
Send(kind, p, lic) ==
  /\ kind \in Kinds
  /\ Fits(kind, p)
  /\ \E f \in {Frame(kind, p, lic)} :
       /\ stream' = stream \o f
       /\ sent' = Append(sent, f)
  /\ UNCHANGED <<rpos, got>>

\* the collector takes the next frame off the stream, by its length field
Recv ==
  /\ \E f \in {FrameAt(stream, rpos)} :
       /\ f.ok
       /\ got' = Append(got, Slice(stream, rpos, f.next - rpos))
       /\ rpos' = f.next
  /\ UNCHANGED <<stream, sent>>

\* the connection is closed after everything was consumed; a new one starts
Close ==
  /\ rpos = Len(stream) + 1
  /\ Len(got) = Len(sent)
  /\ stream' = <<>> /\ sent' = <<>> /\ rpos' = 1 /\ got' = <<>>

\* ---- properties -------------------------------------------------------------
\* what the collector took is what was sent, frame by frame, in order
Intact == Len(got) <= Len(sent) /\ \A i \in 1..Len(got) : got[i] = sent[i]

RECURSIVE SumLen(_, _)
SumLen(xs, k) == IF k = 0 THEN 0 ELSE SumLen(xs, k - 1) + Len(xs[k])
\* the cursor stands exactly behind the frames taken; the stream is the frames sent
Cursor == rpos = 1 + SumLen(got, Len(got)) /\ Len(stream) = SumLen(sent, Len(sent))

\* the length field always delimits the next frame
NoStuck == Len(got) < Len(sent) => FrameAt(stream, rpos).ok

\* ---- laws of one message (checked by MC_PackWire on the design) --------------
\* fields of the decoded record equal the fields laid out
SameFields(dv, w) == \A n \in DOMAIN dv : n \in DOMAIN w /\ dv[n] = w[n]

Decodes(kind, p, body) ==
  Bind(DecPack(body, 1), LAMBDA d :
    /\ d.ok /\ d.kind = kind /\ d.next = Len(body) + 1
    /\ Bind(Wire(kind, p), LAMBDA w : SameFields(d.v, w)))

\* a message decodes the same whatever follows it
MsgSelfDelimits(kind, p, body) ==
  Bind(DecPack(body \o <<9, 7, 255, 0>>, 1), LAMBDA d :
    /\ d.ok /\ d.kind = kind /\ d.next = Len(body) + 1
    /\ Bind(Wire(kind, p), LAMBDA w : SameFields(d.v, w)))

\* no proper prefix of a message decodes
MsgPrefixesFail(body) == \A k \in 0..(Len(body) - 1) : ~DecPack(High(body, k), 1).ok

\* the header form is decided by kind and node alone, and the marker cannot be
\* mistaken for the length class of a project code
HeaderRule(kind, p, body) == (body[3] = 9) <=> LongForm(p)

\* the tag hash on the wire is the hash of exactly the bytes of the tag section
TagHashCovers(kind, p, body) ==
  (kind \in {"tagcount", "logsink"} /\ p.tagHash = Z8 /\ Len(p.tags.v) > 0) =>
     Bind(DecPack(body, 1), LAMBDA d : d.ok /\ d.v.tagHash = Hash64(EncValue(d.v.tags)))

\* the pack after it was written: the computed tag hash is kept, the reserved
\* keys have become attributes
AfterWrite(kind, p) ==
  CASE kind \in {"tagcount", "logsink"} -> [p EXCEPT !.tagHash = Wire(kind, p).tagHash]
    [] kind = "event" -> [p EXCEPT !.attrs = EventAttrs(p)]
    [] OTHER -> p
\* writing a pack twice gives the same bytes (what the writer derives is stable)
Stable(kind, p) == PackBytes(kind, AfterWrite(kind, p)) = PackBytes(kind, p)

\* the frame carries the pack's project code, the hash of the license and delimits the body
FrameLaw(kind, p, lic, f) ==
  Bind(FrameAt(f, 1), LAMBDA fr :
    /\ fr.ok /\ fr.next = Len(f) + 1
    /\ fr.pcode = p.pcode /\ fr.lichash = Hash64(lic)
    /\ fr.body = PackBytes(kind, p))
=============================================================================
