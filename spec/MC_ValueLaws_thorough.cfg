SPECIFICATION MCSpec
CONSTANTS SmallN = 4
          AsIsMaps = FALSE
INVARIANTS PTotal PRefl PSym PTransE PDecodeEqual PAntisym PTransC PScalarConsistent PTypeOrder
CHECK_DEADLOCK FALSE
