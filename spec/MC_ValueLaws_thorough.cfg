SPECIFICATION MCSpec
CONSTANTS SmallN = 4
          AsIsMaps = FALSE
INVARIANTS PTotal PRefl PSym PTransE PDecodeEqual PAntisym PTransC PScalarConsistent PTypeOrder PFresh PStable
CHECK_DEADLOCK FALSE
