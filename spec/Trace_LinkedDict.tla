--------------------------- MODULE Trace_LinkedDict ---------------------------
(***************************************************************************)
(* Trace validation of the thirteen real linked maps / sets of util/hmap   *)
(* against LinkedDict.  One event per public call (harness/c09):           *)
(*                                                                         *)
(*   Reset  t set none rej ek ...   new object of type t, its conventions  *)
(*   <Op>   k v dir n               the call and its arguments (SetMax n:  *)
(*                                  any integer, also below the size)      *)
(*          ret | b | seq | pairs   what it returned (projected)           *)
(*          size first last         Size(), first and last key AFTER it    *)
(*   Proj   keys vals               full enumeration (every 16 events and  *)
(*                                  at the end of a history)               *)
(*   ToBytes pairs copy             the entries as decoded from the bytes  *)
(*                                  written / as read back by ToObject     *)
(*                                                                         *)
(* Keys are ranks in the history's sorted key pool, results are tuples     *)
(* (<<v>> or the type's "absent"), see LinkedDict.  A recorded panic or    *)
(* watchdog timeout is an event ("Panic", "Timeout") for which there is    *)
(* no action: the trace stops being explainable at that line.              *)
(***************************************************************************)
EXTENDS LinkedDict, TraceLib

VARIABLE l
tvars == <<vars, l>>

TraceInit == InitWith([set |-> FALSE, none |-> <<>>, none0 |-> <<>>, rej |-> FALSE, ek |-> 0]) /\ l = 1 /\ HwmInit

Step(n) == IsEv(l, n) /\ l' = l + 1
e == Trace[l]

\* scalar observations taken after every call: Size(), first key, last key
Obs == /\ Has(e, "size") /\ e.size = Len(ord')
       /\ Len(ord') > 0 => /\ Has(e, "first") /\ e.first = ord'[1]
                           /\ Has(e, "last") /\ e.last = ord'[Len(ord')]

TraceReset == /\ Step("Reset")
              /\ ord' = <<>> /\ val' = EmptyFn /\ max' = 0
              /\ cfg' = [set |-> e.set, none |-> e.none, none0 |-> e.none, rej |-> e.rej, ek |-> e.ek]
              /\ Obs

\* insertion family: arguments k, v; result ret
Ins(name, Act(_, _)) == /\ Step(name)
                        /\ Has(e, "k") /\ Has(e, "v") /\ Has(e, "ret")
                        /\ Act(e.k, e.v)
                        /\ InsertRetOK(e.k, e.ret)
                        /\ Obs

TracePut       == Ins("Put", Put)
TracePutFirst  == Ins("PutFirst", PutFirst)
TracePutLast   == Ins("PutLast", PutLast)
TraceAdd       == Ins("Add", Add)
TraceAddFirst  == Ins("AddFirst", AddFirst)
TraceAddLast   == Ins("AddLast", AddLast)
TraceAddNoOver == Ins("AddNoOver", AddNoOver)

TraceGet == Step("Get") /\ Has(e, "ret") /\ Get(e.k) /\ e.ret = Lookup(e.k) /\ Obs
TraceGetLRU == Step("GetLRU") /\ Has(e, "ret") /\ GetLRU(e.k) /\ e.ret = Lookup(e.k) /\ Obs
TraceContainsKey == Step("ContainsKey") /\ Has(e, "b") /\ e.b = Present(e.k) /\ UNCHANGED vars /\ Obs
TraceContainsValue == Step("ContainsValue") /\ Has(e, "b") /\ e.b = HasValue(e.v) /\ UNCHANGED vars /\ Obs
TraceRemove == Step("Remove") /\ Has(e, "ret") /\ Remove(e.k) /\ e.ret = Lookup(e.k) /\ Obs
TraceRemoveFirst == Step("RemoveFirst") /\ Has(e, "ret") /\ RemoveFirst /\ FirstValOK(e.ret) /\ Obs
TraceRemoveLast == Step("RemoveLast") /\ Has(e, "ret") /\ RemoveLast /\ LastValOK(e.ret) /\ Obs
TraceClear == Step("Clear") /\ Clear /\ Obs
TraceSort == Step("Sort") /\ Has(e, "dir") /\ Sort(e.dir) /\ Obs
TraceSetMax == Step("SetMax") /\ Has(e, "n") /\ SetMax(e.n) /\ Obs
TraceSetNullValue == Step("SetNullValue") /\ Has(e, "n") /\ SetNone(e.n) /\ Obs
\* StringLinkedSet.Unipoint: a plain put that answers the key itself
TraceUnipoint == Step("Unipoint") /\ Has(e, "k") /\ Has(e, "rk") /\ Put(e.k, 0) /\ e.rk = e.k /\ Obs

\* first/last accessors: pinned when the structure is not empty; on an empty one
\* the key accessor answers a type-specific filler, the value accessor "absent"
TraceGetFirstKey == /\ Step("GetFirstKey") /\ Has(e, "rk") /\ UNCHANGED vars /\ Obs
                    /\ Len(ord) > 0 => e.rk = FirstKey
TraceGetLastKey == /\ Step("GetLastKey") /\ Has(e, "rk") /\ UNCHANGED vars /\ Obs
                   /\ Len(ord) > 0 => e.rk = LastKey
TraceGetFirstValue == /\ Step("GetFirstValue") /\ Has(e, "ret") /\ UNCHANGED vars /\ Obs
                      /\ FirstValOK(e.ret)
TraceGetLastValue == /\ Step("GetLastValue") /\ Has(e, "ret") /\ UNCHANGED vars /\ Obs
                     /\ LastValOK(e.ret)

TraceIsEmpty == Step("IsEmpty") /\ Has(e, "b") /\ e.b = (Len(ord) = 0) /\ UNCHANGED vars /\ Obs
TraceIsFull == Step("IsFull") /\ Has(e, "b") /\ e.b = IsFull /\ UNCHANGED vars /\ Obs

\* rendering: must return (no panic, no self-deadlock) and leave the structure alone
TraceToString == Step("ToString") /\ Has(e, "len") /\ e.len >= 2 /\ UNCHANGED vars /\ Obs
TraceToFormatString == Step("ToFormatString") /\ Has(e, "len") /\ e.len >= 2 /\ UNCHANGED vars /\ Obs

\* enumerations in iteration order
TraceKeys == Step("Keys") /\ Has(e, "seq") /\ e.seq = KeysSeq /\ UNCHANGED vars /\ Obs
TraceKeyArray == Step("KeyArray") /\ Has(e, "seq") /\ e.seq = KeysSeq /\ UNCHANGED vars /\ Obs
TraceValues == Step("Values") /\ Has(e, "seq") /\ e.seq = ValuesSeq /\ UNCHANGED vars /\ Obs
TraceEntries == Step("Entries") /\ Has(e, "pairs") /\ e.pairs = EntriesSeq /\ UNCHANGED vars /\ Obs
\* IntKeyLinkedMap: the values through ValueIterator, the keys as a linked set
\* (keeps the order) and as a list standing for an unordered set (any order)
TraceValueIterator == Step("ValueIterator") /\ Has(e, "seq") /\ e.seq = ValuesSeq /\ UNCHANGED vars /\ Obs
TraceGetKeySet == Step("GetKeySet") /\ Has(e, "seq") /\ e.seq = KeysSeq /\ UNCHANGED vars /\ Obs
TraceToKeySet == /\ Step("ToKeySet") /\ Has(e, "seq") /\ UNCHANGED vars /\ Obs
                 /\ Len(e.seq) = Len(ord) /\ Range(e.seq) = Range(ord)
\* serialisation of the number-valued maps: the entries in iteration order, both
\* as decoded from the bytes written and as read back by ToObject into a new map
TraceToBytes == /\ Step("ToBytes") /\ Has(e, "pairs") /\ Has(e, "copy") /\ UNCHANGED vars /\ Obs
                /\ e.pairs = EntriesSeq /\ e.copy = EntriesSeq
TraceProj == /\ Step("Proj") /\ Has(e, "keys") /\ Has(e, "vals")
             /\ e.keys = KeysSeq /\ e.vals = ValuesSeq
             /\ UNCHANGED vars /\ Obs

TraceNext ==
  ( \/ TraceReset
    \/ TracePut \/ TracePutFirst \/ TracePutLast
    \/ TraceAdd \/ TraceAddFirst \/ TraceAddLast \/ TraceAddNoOver
    \/ TraceGet \/ TraceGetLRU \/ TraceContainsKey \/ TraceContainsValue
    \/ TraceRemove \/ TraceRemoveFirst \/ TraceRemoveLast \/ TraceClear
    \/ TraceSort \/ TraceSetMax \/ TraceSetNullValue \/ TraceUnipoint
    \/ TraceGetFirstKey \/ TraceGetLastKey \/ TraceGetFirstValue \/ TraceGetLastValue
    \/ TraceIsEmpty \/ TraceIsFull \/ TraceToString \/ TraceToFormatString
    \/ TraceValueIterator \/ TraceGetKeySet \/ TraceToKeySet \/ TraceToBytes
    \/ TraceKeys \/ TraceKeyArray \/ TraceValues \/ TraceEntries \/ TraceProj )
  /\ InvCore' /\ LazyBound

TraceSpec == TraceInit /\ [][TraceNext]_tvars

Hwm == HwmNote(l)
TraceAccepted == Accepted
=============================================================================
