----------------------------- MODULE DataXKeep ------------------------------
(***************************************************************************)
(* C01 -- the codec between calls.  DataX says what one write appends and  *)
(* what the matching read returns.  This module adds what the property     *)
(* means by "read back identically and in order" over a whole program:     *)
(*                                                                         *)
(*  * a result is a VALUE: what a read handed back (rd[i]) is still that   *)
(*    value after any number of later reads on the same stream, after      *)
(*    reads on other streams, after the caller changed other results, and  *)
(*    after later writes to the output whose bytes the reader was opened   *)
(*    over (Kept / RdStable);                                              *)
(*  * the reader is opened over the bytes produced SO FAR: the output may  *)
(*    go on being written (WLate); the reader sees none of it, the output  *)
(*    reports all of it (OutBytes / OutSize).                              *)
(***************************************************************************)
EXTENDS DataX

VARIABLE late     \* bytes the output received after the reader was opened

kvars == <<vars, late>>

KInit == Init /\ late = <<>>

KW(op, v) == W(op, v) /\ UNCHANGED late
KOpen     == Open /\ UNCHANGED late
KR        == R /\ UNCHANGED late

\* a write call on the output after the reader was opened over its earlier bytes
WLate(op, v) ==
  /\ rpos > 0
  /\ InRange(op, v)
  /\ late' = late \o EncFor(op, v)
  /\ UNCHANGED vars

\* what the output stream holds / reports
OutBytes == buf \o late
OutSize  == written + Len(late)

\* the i-th result, whenever it is looked at again
Kept(i) == rd[i]

\* results are values: nothing that happens later changes one (a new history starts from nothing)
RdStable == [][rd' = <<>> \/ (Len(rd') >= Len(rd) /\ \A i \in 1..Len(rd) : rd'[i] = rd[i])]_kvars
\* the reader never sees a late byte: its view is buf alone, so every DataX invariant is about buf
LateApart == [][late' # late => UNCHANGED vars]_kvars
=============================================================================
