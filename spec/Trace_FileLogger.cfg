SPECIFICATION TraceSpec
CONSTANT Design = "repaired"
CONSTRAINT Hwm
POSTCONDITION TraceAccepted
CHECK_DEADLOCK FALSE
