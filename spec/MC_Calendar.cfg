SPECIFICATION MCSpec
CONSTANTS WalkEvery = 6000
INVARIANTS Century CivilAgrees InverseAgrees WeekdayAgrees EndOfCentury UnitsNested TextsNameInstant FormatRoundTrip RequiredExact
PROPERTIES Monotone
CHECK_DEADLOCK FALSE
