SPECIFICATION MCSpec
CONSTANTS WalkEvery = 100000
          HeavyEvery = 61
          DayEdges = FALSE
INVARIANTS Century CivilAgrees InverseAgrees WeekdayAgrees EndOfCentury UnitsNested TextsNameInstant FormatRoundTrip RequiredExact
PROPERTIES Monotone
CHECK_DEADLOCK FALSE
