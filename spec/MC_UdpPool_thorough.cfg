SPECIFICATION MCSpec
CONSTANTS
  NotCleared <- MCNotCleared
  FailOutcomes = {"leak", "clean"}
  MaxObjs = 4
  MaxSteps = 8
INVARIANTS NoResidue PoolTypeOK
PROPERTIES AcquireClean
CHECK_DEADLOCK FALSE
