SPECIFICATION MCSpec
CONSTANTS
  NotCleared <- MCNotCleared
  MaxSteps = 8
INVARIANTS NoResidue PoolTypeOK
PROPERTIES AcquireClean
CHECK_DEADLOCK FALSE
