SPECIFICATION LSpec
CONSTANTS
  PcodeNs = {0}
  Okinds = {0}
  Onodes = {2}
  BlobIds = {"one", "nil"}
  MaxItems = 2
  Marker = 9
  NoStamp = {}
  Reverse = FALSE
  CellNs = {0, 32768}
  CellRead = "unsigned"
  FreshNs = {0, 7}
  KeepFresh = FALSE
  Objects = {0, 1}
  MaxWrites = 2
  SeqLen = 1
  Pooled = TRUE
  StaleKeep = FALSE
INVARIANTS
  Stable
CHECK_DEADLOCK FALSE
