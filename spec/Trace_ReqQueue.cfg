SPECIFICATION TraceSpec
CONSTANTS Proc = {0, 1, 2, 3, 4, 5, 6, 7}
          WakeOnPut = TRUE
CONSTRAINT Hwm
POSTCONDITION TraceAccepted
CHECK_DEADLOCK FALSE
