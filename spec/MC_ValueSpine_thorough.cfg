SPECIFICATION SpSpec
CONSTANTS MaxDepth = 4
INVARIANTS WellFormedSame EncSame EqSame
CHECK_DEADLOCK FALSE
