---------------------------- MODULE MC_ProfileObj ---------------------------
(***************************************************************************)
(* The objects of Profile (New / Mut / ObjIs / ReadInto / Another) for     *)
(* small constants: the caller builds at most MaxObj objects (quick and thorough: 1; the objects the reader hands back come on top) over a        *)
(* candidate set in which every kind with optional sections stands once    *)
(* WITH and once WITHOUT them, writes an object, changes it into the other *)
(* candidate of its kind, writes it again (at most MaxLen items a stream), *)
(* reads the stream back -- into new objects or INTO any object of the     *)
(* right type it holds (its own, or one an earlier read handed back) --    *)
(* begins another stream (at most MaxStreams), writes the objects that     *)
(* were read into, and so on.  With the reference writer and reader every  *)
(* read returns the content the object had at the moment it was written    *)
(* (ReadBack, TxNormalize) with exact cursors.  Two named deviations are   *)
(* refuted:                                                                *)
(*  Writer = "cached": the writer remembers the bytes of an object's first *)
(*    write and sends them again (refuted by ReadBack after a Mut);        *)
(*  Receiver = "keeps": a reader called on an object that holds something  *)
(*    assigns only the fields that are in the stream and leaves the fields *)
(*    of an absent section as they were (refuted by ReadBack).             *)
(***************************************************************************)
EXTENDS MC_Profile

CONSTANTS MaxObj, MaxStreams, Writer, Receiver

VARIABLES cache,   \* cache[j]: the bytes the writer produced when object j was written first (<<>>: not yet)
          ns       \* streams begun so far

ovars == <<vars, cache, ns>>

TxWith    == Tx(Neg1, N(3), N(7), N(9), LM(TRUE, OnePair), N(1), N(0))
TxWithout == Tx(N(0), N(3), N(0), N(9), LM(FALSE, <<>>), N(0), N(0))

ObjCands == Abstract3
            \o << Cand("tx", "TxRecord", TxWith), Cand("tx", "TxRecord", TxWithout),
                  Cand("bare", "SqlStep_3", Sql3(7)), Cand("bare", "SqlStep_3", Sql3(0)) >>

FamOf(kind) == ObjCands[CHOOSE i \in DOMAIN ObjCands : ObjCands[i].kind = kind].fam
\* the full field set of a kind (a Go object has every field; what is not set holds its default)
Shape(kind) == ObjCands[CHOOSE i \in DOMAIN ObjCands : ObjCands[i].kind = kind].w
Complete(kind, r) == [f \in DOMAIN Shape(kind) |-> IF f \in DOMAIN r THEN r[f] ELSE DefaultOf(Shape(kind)[f])]
\* what a reader that only assigns what it finds in the stream leaves in a receiver holding old
Over(kind, old, r) == [f \in DOMAIN Shape(kind) |-> IF f \in DOMAIN r THEN r[f] ELSE old[f]]

OInit == Init /\ cache = <<>> /\ ns = 1

ONew(c) == /\ Len(objs) < MaxObj /\ rd = <<>> /\ items = <<>> /\ ns = 1
           /\ New(c.kind, c.w)
           /\ cache' = Append(cache, <<>>) /\ UNCHANGED ns

\* the caller turns object j into the other candidate of its kind (several fields at once)
OMut(j, c) == /\ c.kind = objs[j].kind
              /\ DOMAIN c.w = DOMAIN objs[j].r
              /\ \E f \in DOMAIN c.w : ~SameLeaf(c.w[f], objs[j].r[f])
              /\ rd = <<>>
              /\ Mut(j, {f \in DOMAIN c.w : ~SameLeaf(c.w[f], objs[j].r[f])}, c.w)
              /\ UNCHANGED <<cache, ns>>

OWrite(j) ==
  LET o == objs[j]
      fam == FamOf(o.kind) IN
  /\ Len(items) < MaxLen
  /\ \E bs \in {IF Writer = "cached" /\ cache[j] # <<>> THEN cache[j] ELSE EncItemBytes(fam, o.kind, o.r)} :
        /\ ObjIs(j, o.kind, o.r)
        /\ Write(fam, o.kind, TagOfKind(fam, o.kind), o.r, SpecCarried(o.kind, o.r), bs)
        /\ cache' = [cache EXCEPT ![j] = IF @ = <<>> THEN bs ELSE @]
  /\ UNCHANGED ns

ORead ==
  /\ Len(rd) < Len(items)
  /\ \E d \in {DecItemAt(NextItem.fam, NextItem.kind, stream, cursor + 1)} :
       /\ d.ok
       /\ \/ /\ Len(objs) < MaxObj + 2                           \* a new object
             /\ Read(d.kind, Complete(d.kind, d.r), d.next - 1)
             /\ cache' = Append(cache, <<>>)
          \/ \E j \in DOMAIN objs :                              \* ON an object the caller holds
               /\ objs[j].kind = d.kind
               /\ ReadInto(j, d.kind, IF Receiver = "keeps" THEN Over(d.kind, objs[j].r, d.r) ELSE Complete(d.kind, d.r), d.next - 1)
               /\ cache' = cache
  /\ UNCHANGED ns

OAnother == ns < MaxStreams /\ Another /\ ns' = ns + 1 /\ UNCHANGED cache

ONext == \/ \E i \in DOMAIN ObjCands : ONew(ObjCands[i])
         \/ \E j \in DOMAIN objs : \E i \in DOMAIN ObjCands : OMut(j, ObjCands[i])
         \/ \E j \in DOMAIN objs : OWrite(j)
         \/ ORead
         \/ OAnother

OSpec == OInit /\ [][ONext]_ovars

\* the candidates really are "with" and "without" (otherwise the refutations would be vacuous)
ASSUME \A i \in DOMAIN ObjCands : DOMAIN ObjCands[i].w = DOMAIN Shape(ObjCands[i].kind)
ASSUME AbsentFields("TxRecord", TxWith) = {} /\ AbsentFields("TxRecord", TxWithout) # {}
=============================================================================
