SPECIFICATION TraceSpec
CONSTANTS Slot = 16
          K = 2048
          C = 1048576
          ZeroFill = FALSE
CONSTRAINT Hwm
POSTCONDITION TraceAccepted
CHECK_DEADLOCK FALSE
