SPECIFICATION TraceSpec
CONSTANTS Slot = 16
          K = 2048
          C = 1048576
          ZeroFill = FALSE
          TagCodes = {}
          LenientTags = FALSE
          ValueCodes = {0, 10, 20, 21, 22, 30, 40, 45, 46, 50, 51, 60, 61, 70, 71, 72, 73, 74, 80, 81}
          StepCodes = {3, 5, 6, 7, 8, 15, 17, 18, 19, 22}
          PackCodes = {256, 513, 768, 1025, 1792, 2049, 3840, 2304, 2320, 2560, 2816, 3072, 4352, 4608, 5120, 5377, 5632, 5633, 5634, 5888, 5898, 5899, 5901, 25856}
          ServiceCodes = {1, 2, 3}
CONSTRAINT Hwm
POSTCONDITION TraceAccepted
CHECK_DEADLOCK FALSE
