SPECIFICATION MCSpec
CONSTANTS
  PcodeNs = {0, 99}
  Okinds = {0, 1}
  Onodes = {0, 2}
  BlobIds = {"nil", "one"}
  MaxItems = 2
  Marker = 9
  NoStamp = {"Onode"}
  Reverse = FALSE
INVARIANTS
  SameType
  CarriedRestored
  ExactConsumption
  ReEncodeIdentical
  ZipLaw
  UnpackLaw
CHECK_DEADLOCK FALSE
