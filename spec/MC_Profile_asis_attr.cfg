SPECIFICATION MCSpec
CONSTANTS MaxLen = 3
          Cands = "abstract3"
          Reader = "always_attr"
INVARIANTS ReadBack CursorExact TxNormalize AllConsumed WireOK NoStuck ExactNormalForm SelfDelimiting
CHECK_DEADLOCK FALSE
