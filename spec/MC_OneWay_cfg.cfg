SPECIFICATION MCSpec
CONSTANTS Sender = {"s1", "s2"}
          MaxFaults = 1
          MaxCfg = 1
          Addr = {"A"}
          Stall = FALSE
          QueueMode = FALSE
          QCap = 2
          MaxConn = 3
          Broken = "none"
          NPacks = 3
CONSTRAINT ConnBound
VIEW MCView
INVARIANTS TypeOK MutualExclusion FramesWhole FreshStart InOrderAtMostOnce HeaderRight ErrMeansNotDelivered NoLossSafe Recovers WriterErrorJustified
CHECK_DEADLOCK FALSE
