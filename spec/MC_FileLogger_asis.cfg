SPECIFICATION MCSpec
CONSTANTS Design = "asis"
          MaxLogs = 2
          MaxCycles = 1
          MaxAdv = 2
          MaxReads = 1
          MaxExt = 1
          MaxFaults = 0
          MaxLoggers = 1
          MaxSwitch = 0
          Slim = FALSE
INVARIANTS LinesWholeInOrder FileNameRight RotatesAfterCycle SuppressedOnlyWithin RetentionExact ReadHonest NoFaultNoLoss SurvivorsSurvive OldRemoved Recovers
CHECK_DEADLOCK FALSE
