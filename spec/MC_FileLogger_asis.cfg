SPECIFICATION MCSpec
CONSTANTS Design = "asis"
          MaxLogs = 2
          MaxCycles = 1
          MaxAdv = 2
          MaxReads = 1
          MaxExt = 1
INVARIANTS LinesWholeInOrder FileNameRight RotatesAfterCycle SuppressedOnlyWithin RetentionExact ReadHonest SurvivorsSurvive OldRemoved
CHECK_DEADLOCK FALSE
