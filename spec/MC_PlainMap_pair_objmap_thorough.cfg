SPECIFICATION MCSpec
CONSTANTS Keys = {1, 2, 3}
          Vals <- ObjVals2
          MaxVal = 0
          IsSet = FALSE
          None <- NoneNil
          Rej = FALSE
          EK = 0
          TName = "IntKeyMap"
          NHeld = 1
          NEnum = 0
VIEW View
INVARIANTS SetOK RefuseOK KeysBagExact NilIsAValue
PROPERTIES Frame PutStores RefusalInert RemoveExact ClearEmpties PutAllIsPuts ReadOnlyKeeps OthersKept PutAllFromIsPuts SizeLaw
CHECK_DEADLOCK FALSE
