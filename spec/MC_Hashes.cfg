SPECIFICATION MCSpec
CONSTANTS Rad = 1
          StrLens = {0}
          NCalls = 8
INVARIANTS MemoIsRef
PROPERTIES PureMC
CHECK_DEADLOCK FALSE
