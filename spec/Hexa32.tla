------------------------------- MODULE Hexa32 -------------------------------
(***************************************************************************)
(* C15 (part 2) -- the base-32 identifier text of a 64-bit integer          *)
(* (util/hexa32 ToString32 / ToLong32).  Pure operators over byte tuples:   *)
(* a number is its W8 (8 bytes, most significant first, two's complement),  *)
(* a text is the tuple of its ASCII bytes.                                  *)
(*                                                                         *)
(* Documented forms:   0..9          the decimal digit itself               *)
(*                     n >= 10       "x" followed by the radix-32 digits    *)
(*                     n <  0        "z" followed by the digits of |n|      *)
(* digits 0-9 a-v, most significant first, no leading zero.  A radix-32     *)
(* digit is a 5-bit group, so the numeral is defined on the BITS of the     *)
(* magnitude; the magnitude of a negative number is its two's complement    *)
(* negation read as an unsigned 64-bit word, which makes the most negative  *)
(* number (magnitude 2^63 = digit 8 followed by twelve zeros) an ordinary   *)
(* case of the same rule: "z8000000000000".                                 *)
(***************************************************************************)
EXTENDS Bytes

\* bit i (0 = least significant) of a byte tuple; 0 beyond its width
BitOf(w, i) == IF i >= 8 * Len(w) THEN 0 ELSE (w[Len(w) - (i \div 8)] \div (2 ^ (i % 8))) % 2

\* two's complement negation of a word: complement, add one
RECURSIVE IncFrom(_, _)
IncFrom(w, i) == IF i = 0 THEN w
                 ELSE IF w[i] = 255 THEN IncFrom([w EXCEPT ![i] = 0], i - 1)
                 ELSE [w EXCEPT ![i] = w[i] + 1]
NegW(w) == IncFrom([i \in 1..Len(w) |-> 255 - w[i]], Len(w))

IsNeg(v) == v[1] >= 128
\* |v| as an unsigned 64-bit word (2^63 for the most negative number)
Magnitude(v) == IF IsNeg(v) THEN NegW(v) ELSE v

\* the g-th 5-bit group (0 = least significant) of a word
Group5(w, g) == BitOf(w, 5 * g) + 2 * BitOf(w, 5 * g + 1) + 4 * BitOf(w, 5 * g + 2)
              + 8 * BitOf(w, 5 * g + 3) + 16 * BitOf(w, 5 * g + 4)

\* number of significant 5-bit groups of an unsigned 64-bit word (at least 1, at most 13)
NGroups(w) == IF \E g \in 0..12 : Group5(w, g) # 0
              THEN 1 + CHOOSE g \in 0..12 : Group5(w, g) # 0 /\ \A h \in (g + 1)..12 : Group5(w, h) = 0
              ELSE 1

DigitChar(d) == IF d < 10 THEN 48 + d ELSE 87 + d         \* '0'..'9', 'a'..'v'
IsDigit32(c) == c \in 48..57 \/ c \in 97..118
DigitVal(c)  == IF c <= 57 THEN c - 48 ELSE c - 87

\* the radix-32 numeral of an unsigned word, most significant digit first
Digits32(w) == LET n == NGroups(w) IN [i \in 1..n |-> DigitChar(Group5(w, n - i))]

XCH == 120    \* 'x'
ZCH == 122    \* 'z'

H32Enc(v) == IF IsNeg(v) THEN <<ZCH>> \o Digits32(Magnitude(v))
             ELSE IF High(v, 7) = Zeros(7) /\ v[8] < 10 THEN <<48 + v[8]>>
             ELSE <<XCH>> \o Digits32(v)

-----------------------------------------------------------------------------
\* the 64-bit word whose 5-bit groups are the digits ds (most significant first, at most 13,
\* the 13th group at most 4 bits wide)
FromDigits(ds) ==
  LET n == Len(ds)
      bit(i) == IF i \div 5 >= n THEN 0 ELSE (DigitVal(ds[n - (i \div 5)]) \div (2 ^ (i % 5))) % 2
  IN [k \in 1..8 |-> LET b == 8 * (8 - k) IN
        bit(b) + 2 * bit(b + 1) + 4 * bit(b + 2) + 8 * bit(b + 3) + 16 * bit(b + 4)
        + 32 * bit(b + 5) + 64 * bit(b + 6) + 128 * bit(b + 7)]

MostNegText == <<ZCH, 56, 48, 48, 48, 48, 48, 48, 48, 48, 48, 48, 48, 48>>   \* "z8000000000000"

\* the texts the decoder is specified on: a decimal digit, or a prefix and 1..13 radix-32
\* digits whose value fits (63 bits; 2^63 only as the most negative number).  Leading zeros
\* are read (they do not change the value); upper case, other characters, longer numerals
\* and multi-digit decimal texts are outside the documented forms: the property is silent.
H32Readable(t) ==
  \/ Len(t) = 1 /\ t[1] \in 48..57
  \/ /\ Len(t) \in 2..14
     /\ t[1] \in {XCH, ZCH}
     /\ \A i \in 2..Len(t) : IsDigit32(t[i])
     /\ (Len(t) = 14 => \/ DigitVal(t[2]) <= 7
                        \/ t = MostNegText)

H32Dec(t) == IF Len(t) = 1 THEN Zeros(7) \o <<t[1] - 48>>
             ELSE IF t[1] = XCH THEN FromDigits(Tail(t))
             ELSE NegW(FromDigits(Tail(t)))

\* the image of the encoder: no leading zero, the shortest of the three forms
H32Canonical(t) ==
  /\ H32Readable(t)
  /\ Len(t) > 1 =>
       /\ t[2] # 48
       /\ t[1] = XCH => (Len(t) > 2 \/ DigitVal(t[2]) >= 10)
=============================================================================
