SPECIFICATION MCSpec
CONSTANTS MaxN = 5
          ByteVals = {0, 1, 2, 3, 255}
          MaxOps = 6
          Slot = 16
          K = 16
          C = 8
          DetachFirst = FALSE
          PreSize = FALSE
INVARIANTS NoFabrication2 StickyFailure BoundedAlloc2
CHECK_DEADLOCK FALSE
