----------------------------- MODULE PackCodec ------------------------------
(***************************************************************************)
(* C03 -- every pack type of golib (lang/pack) survives serialise /        *)
(* deserialise.                                                            *)
(*                                                                         *)
(* The module deliberately does NOT pin the byte layout of the packs (that *)
(* is C05, PackWire): a change applied consistently to a writer and its    *)
(* reader keeps C03 true.  It specifies                                    *)
(*                                                                         *)
(*  Part 1  the REGISTRY: type code -> concrete type for the codes the     *)
(*          pack factory knows; any other code creates nothing ("nil");    *)
(*          a created pack reports the code it was created for.            *)
(*  Part 2  the COMMON HEADER in its two forms (first byte = decimal       *)
(*          length of the project code, or the marker 9 when kind/node are *)
(*          present).  The law of C03 only needs that the five header      *)
(*          fields are carried in both forms; the byte form is kept as a   *)
(*          transcribed table for drift detection.                         *)
(*  Part 3  MESSAGES.  A pack is a finite map path -> leaf (Leaf below).   *)
(*          Encode(m) puts one message on the wire; Decode yields the      *)
(*          concrete type, the leaves of the decoded pack and the number   *)
(*          of bytes consumed; ReEncode the bytes of the decoded pack.     *)
(*          Laws: SameType, CarriedRestored (after the normalisation the   *)
(*          format defines), ExactConsumption, ReEncodeIdentical.          *)
(*          The carried set of a message is supplied with it: it is        *)
(*          derived from the REAL writer (a leaf is carried iff changing   *)
(*          only that leaf changes the bytes); CarriedTop is the           *)
(*          transcribed per-type table used for drift detection only.      *)
(*  Part 4  CONTAINERS.  composite: inner packs, in order.  zip and        *)
(*          log-sink zip: the inner packs concatenated, gzip iff the       *)
(*          status byte is 1; Unpack returns them in order, each stamped   *)
(*          with the container's pcode, oid, okind, onode.  Record-list    *)
(*          packs (Stat*Pack): GetRecords returns the records given to     *)
(*          SetRecords*, in order.                                         *)
(*  Part 5  OBJECTS THAT LIVE ON.  The quantifier of the property is over  *)
(*          every pack a program can hold, not over packs that are built,  *)
(*          written once and dropped: a pack object is written, changed    *)
(*          through its public surface and written again (Mutate /         *)
(*          Rewrite: the laws of Part 3 hold for the content the object    *)
(*          has AT THE MOMENT of each write, and the object holds at a     *)
(*          write exactly what its last write and the mutations since left *)
(*          in it), and several packs and containers are alive at the same *)
(*          time (Use: the focus moves between objects; the laws hold for  *)
(*          each of them whatever was done to the others in between).      *)
(*          Stable: what a call handed to its caller -- encoded bytes, the *)
(*          records blob of a container, a decoded pack, the unpacked      *)
(*          inner packs -- is still what it was when it is looked at again *)
(*          after later calls on other objects (Peek).                     *)
(*                                                                         *)
(* Leaves (see harness/c03/walk.go): records with k (kind), v (payload),   *)
(* o (the "Struct.field" that holds it), optionally t (type code of a      *)
(* tagged value / typed column) and z (the Go value was nil).  Integers    *)
(* are W8 byte tuples, floats IEEE bit patterns, text/blobs byte tuples.   *)
(***************************************************************************)
EXTENDS Bytes

DX == INSTANCE DataX WITH buf <- <<>>, written <- 0, prog <- <<>>, rpos <- 0, rd <- <<>>

None == [none |-> TRUE]
Absent == <<-1>>                     \* "no bytes recorded" where a byte tuple is expected (comparable with tuples)
Range(s) == {s[i] : i \in DOMAIN s}
W8(n) == NatToBytes(n, 8)            \* small naturals only

(***************************************************************************)
(* Part 1: the registry.                                                   *)
(***************************************************************************)
RegTable == <<
  <<256,  "ParamPack">>,        <<513,  "CounterPack1">>,     <<768,  "ProfilePack">>,
  <<1025, "ActiveStackPack">>,  <<1792, "TextPack">>,         <<2049, "ErrorSnapPack1">>,
  <<3840, "RealtimeUserPack">>, <<2304, "StatServicePack">>,  <<2320, "StatGeneralPack">>,
  <<2560, "StatSqlPack">>,      <<2816, "StatHttpcPack">>,    <<3072, "StatErrorPack">>,
  <<4352, "StatRemoteIpPack">>, <<4608, "StatUserAgentPack">>, <<5120, "EventPack">>,
  <<5377, "HitMapPack1">>,      <<5632, "ExtensionPack">>,    <<5633, "TagCountPack">>,
  <<5634, "TagLogPack">>,       <<5888, "CompositePack">>,    <<5898, "LogSinkPack">>,
  <<5899, "ZipPack">>,          <<5901, "LogSinkZipPack">>,   <<25856, "ServerInfoPack">> >>

RegCodes == {RegTable[i][1] : i \in DOMAIN RegTable}
\* what the factory creates for a (signed 16-bit) type code
CreateOf(code) == IF code \in RegCodes
                  THEN RegTable[CHOOSE i \in DOMAIN RegTable : RegTable[i][1] = code][2]
                  ELSE "nil"
RegistryFunctional == \A i, j \in DOMAIN RegTable : RegTable[i][1] = RegTable[j][1] => i = j

(***************************************************************************)
(* Part 2: the common header.                                              *)
(***************************************************************************)
HeaderFields == {"Pcode", "Oid", "Okind", "Onode", "Time"}
Identity     == {"Pcode", "Oid", "Okind", "Onode"}      \* what a container stamps on its inner packs
\* h: record over HeaderFields of W8 values
LongForm(h) == h.Okind # Zeros(8) \/ h.Onode # Zeros(8)
EncHeader(h) ==
  IF LongForm(h)
  THEN <<9>> \o DX!Enc("Decimal", h.Pcode) \o DX!Enc("Int", h.Oid) \o DX!Enc("Int", h.Okind)
            \o DX!Enc("Int", h.Onode) \o DX!Enc("Long", h.Time)
  ELSE DX!Enc("Decimal", h.Pcode) \o DX!Enc("Int", h.Oid) \o DX!Enc("Long", h.Time)
\* the first byte tells the forms apart: a decimal length is at most 8
FormsDisjoint(h) == LongForm(h) <=> EncHeader(h)[1] = 9

(***************************************************************************)
(* Part 3: leaves, normalisation, documented defaulting.                   *)
(***************************************************************************)
\* nil == empty (a nil blob, text, list or table is written like an empty one);
\* the owner tag is typing information, not state
Norm(l) == [f \in (DOMAIN l) \ {"z", "o"} |-> l[f]]

\* CELLS NARROWER ON THE WIRE than the field that holds them.  The wire carries
\* the low bytes of the written value; the READER owes exactly the value of that
\* cell in the cell's own number domain: an unsigned cell zero-extended, a signed
\* one sign-extended.  The rule is ONE-SIDED: only the written (expected) value
\* is reduced to what the wire carries -- what the reader returned is compared
\* as it is (reducing both sides would hide a reader that extends the cell the
\* wrong way: 32768 read back as -32768 has the same low 16 bits).
\*   hit-map cells: unsigned 16 bits;  ServerInfoPack.Version: signed 24 bits
WireCell(o) == CASE o \in {"HitMapPack1.Hit", "HitMapPack1.Error"} -> [bytes |-> 2, signed |-> FALSE]
                 [] o = "ServerInfoPack.Version"                    -> [bytes |-> 3, signed |-> TRUE]
                 [] OTHER                                           -> [bytes |-> 8, signed |-> TRUE]
OnWire(v, c) == IF c.signed THEN SignExt(Low(v, c.bytes), 8) ELSE ZeroExt(Low(v, c.bytes), 8)
Narrow(o) == WireCell(o).bytes < 8
\* the reference for a WRITTEN leaf
NormAt(l) == IF Narrow(l.o) /\ l.k = "l"
             THEN [k |-> "l", v |-> [i \in 1..Len(l.v) |-> OnWire(l.v[i], WireCell(l.o))]]
             ELSE IF Narrow(l.o) /\ l.k = "i"
             THEN [k |-> "i", v |-> OnWire(l.v, WireCell(l.o))]
             ELSE Norm(l)

\* fields the WRITER fills in when they are absent (a tag hash of 0 with a
\* non-empty tag map is computed while writing): the reference value is the
\* one the pack holds after Write
WriterStamped == {"LogSinkPack.TagHash", "TagCountPack.tagHash", "TagLogPack.tagHash"}
\* documented defaulting of the READER: a transaction record with an error and
\* no error level is given the level WARNING (20)
ErrLevelO == "TxRecord.ErrorLevel"
ErrorO    == "TxRecord.Error"
IsZero(l) == l.k = "i" /\ l.v = Zeros(8)

\* m: message [type, code, mode, w, wd, wdel, sib, carried, bytes, perm]
\* perm: the pack holds a hash table without insertion order (IntIntMap, IntKeyMap) of two or more
\* entries; such entries travel in table order, which is not state
ErrLevelDefaulted(m, p) ==
  /\ m.w[p].o = ErrLevelO /\ IsZero(m.w[p])
  /\ p \in DOMAIN m.sib /\ m.sib[p] \in DOMAIN m.w
  /\ m.w[m.sib[p]].o = ErrorO /\ ~IsZero(m.w[m.sib[p]])
Expect(m, p) ==
  IF m.w[p].o \in WriterStamped /\ IsZero(m.w[p]) /\ p \in DOMAIN m.wd THEN m.wd[p]
  ELSE IF ErrLevelDefaulted(m, p) THEN [k |-> "i", v |-> W8(20), o |-> ErrLevelO]
  ELSE m.w[p]
Defaulted(m) == \E p \in DOMAIN m.w : ErrLevelDefaulted(m, p)

\* leaf p of the original is found, equal after normalisation, in the leaves r
RestoredIn(m, p, r) ==
  /\ p \in DOMAIN r
  /\ LET a == Norm(r[p]) b == NormAt(Expect(m, p)) IN a.k = b.k /\ a = b
AllRestored(m, r) == \A p \in m.carried : RestoredIn(m, p, r)

(***************************************************************************)
(* Transcribed per-type table of the top-level fields the writers carry    *)
(* (drift detection only; the verdict uses the carried set derived from    *)
(* the real writer).                                                       *)
(***************************************************************************)
Hdr == HeaderFields
CarriedTop(type) ==
  CASE type = "ParamPack"        -> Hdr \cup {"Id", "Request", "Response", "table"}
    [] type = "CounterPack1"     -> Hdr \cup {"Version", "Duration", "Cputime", "HeapTot", "HeapUse", "HeapPerm",
         "HeapPendingFinalization", "HeapMax", "GcCount", "GcTime", "GcOldgenCount", "ServiceCount", "ServiceError",
         "ServiceTime", "TxDbcTime", "TxSqlTime", "TxHttpcTime", "SqlCount", "SqlError", "SqlTime", "SqlFetchCount",
         "SqlFetchTime", "HttpcCount", "HttpcError", "HttpcTime", "ActSvcCount", "ActSvcSlice", "Cpu", "CpuSys",
         "CpuUsr", "CpuWait", "CpuSteal", "CpuIrq", "CpuProc", "CpuCores", "Mem", "Swap", "Disk",
         "ThreadTotalStarted", "ThreadCount", "ThreadDaemon", "ThreadPeakCount", "Starttime", "PackDropped",
         "DbNumActive", "DbNumIdle", "Netstat", "HostIp", "ProcFd", "Tps", "RespTime", "ArrivalRate", "ApType",
         "Websocket", "MacHash", "Extra", "Pid", "ActiveStat", "ThreadPoolActiveCount", "ThreadPoolQueueSize",
         "TxcallerOidMeter", "TxcallerPOidMeter", "SqlMeter", "HttpcMeter", "TxcallerGroupMeter", "TxcallerUnknown",
         "ContainerKey", "ApdexSatisfied", "ApdexTolerated", "ApdexTotal", "ProcFdMax", "Metering", "Resp90",
         "Resp95", "TimeSqrSum"}
    [] type = "ProfilePack"      -> Hdr \cup {"Transaction", "Steps"}
    [] type = "ActiveStackPack"  -> Hdr \cup {"Seq", "ProfileSeq", "Service", "CallStack", "CallStackHash", "Elapsed"}
    [] type = "TextPack"         -> Hdr \cup {"records"}
    [] type = "ErrorSnapPack1"   -> Hdr \cup {"Seq", "Profile", "Stack", "AppendType", "AppendHash"}
    [] type = "RealtimeUserPack" -> Hdr \cup {"Logbits"}
    [] type \in {"StatServicePack", "StatSqlPack", "StatHttpcPack", "StatErrorPack", "StatTransactionPack"}
                                 -> Hdr \cup {"Records", "RecordCount"}
    [] type = "StatTransactionPack1" -> Hdr \cup {"Records", "RecordCount", "Spec"}
    [] type = "StatGeneralPack"  -> Hdr \cup {"Id", "data"}
    [] type = "StatGeneralPack#1" -> Hdr \cup {"Id", "data", "DataStartTime"}
    [] type = "StatRemoteIpPack" -> Hdr \cup {"IpTable"}
    [] type = "StatUserAgentPack" -> Hdr \cup {"UserAgents"}
    [] type = "EventPack"        -> Hdr \cup {"Uuid", "Escalation", "Level", "Title", "Message", "Status", "Otype", "Attr"}
    [] type = "HitMapPack1"      -> Hdr \cup {"Hit", "Error"}
    [] type = "ExtensionPack"    -> Hdr \cup {"IsProjectWide", "Header", "Value"}
    [] type = "TagCountPack"     -> Hdr \cup {"Category", "tagHash", "Tags", "Data"}
    [] type = "TagLogPack"       -> Hdr \cup {"Category", "tagHash", "Tags", "Fields"}
    [] type = "CompositePack"    -> Hdr \cup {"pack"}
    [] type = "LogSinkPack"      -> Hdr \cup {"Category", "TagHash", "Tags", "Line", "Content", "Fields"}
    [] type \in {"ZipPack", "LogSinkZipPack"} -> Hdr \cup {"Records", "RecordCount", "Status"}
    [] type = "ServerInfoPack"   -> {"Version", "Port", "ServerName", "UpTime", "Attr", "KeepTime"}
    [] type = "ProfileStepSplitPack" -> Hdr \cup {"Txid", "Inx", "Steps"}
    [] type = "SMBasePack"       -> Hdr \cup {"IP", "OS", "Cpu", "CpuCore", "Memory", "UpTime", "EpochTime", "Extra"}
    [] type = "SMDiskPerfPack"   -> Hdr \cup {"OS", "Disk"}
    [] type = "SMDownCheckPack"  -> Hdr \cup {"ver", "Records", "RecordCount"}
    [] type = "SMExtension"      -> Hdr \cup {"ver", "isProjectwide", "values", "meta", "header"}
    [] type = "SMLogEventPack"   -> Hdr \cup {"LogEvent"}
    [] type = "SMNetPerfPack"    -> Hdr \cup {"OS", "Net"}
    [] type = "SMPingPack"       -> Hdr \cup {"IP", "OS", "Core"}
    [] type = "SMProcPerfPack"   -> Hdr \cup {"OS", "Proc"}
    [] type = "SMTCPPerfPack"    -> Hdr \cup {"TCPPortPerf"}
    [] type \in {"CpuLinux", "CpuOSX"} -> {"User", "System", "Idle", "Nice", "Irq", "Softirq", "Steal", "Iowait",
                                           "Load1", "Load5", "Load15"}
    [] type = "CpuWindow"        -> {"User", "System", "Idle", "ProcessorQueueLength"}
    [] type = "MemoryLinux"      -> {"Total", "Free", "Cached", "Used", "Pused", "Available", "Pavailable", "Buffers",
                                     "Shared", "SwapUsed", "SwapPused", "SwapTotal", "PageFault", "Slab",
                                     "SReclaimable", "SUnreclaim"}
    [] type = "MemoryWindow"     -> {"Total", "Free", "Cached", "Used", "Pused", "Available", "Pavailable", "PageFault",
                                     "SwapUsed", "SwapPused", "SwapTotal", "PoolPagedBytes", "PoolNonpagedBytes"}
    [] type = "DiskPerf"         -> {"DeviceID", "MountPoint", "FileSystem", "FreeSpace", "UsedSpace", "TotalSpace",
                                     "FreePercent", "UsedPercent", "Blksize", "ReadIops", "WriteIops", "ReadBps",
                                     "WriteBps", "IOPercent", "QueueLength", "InodeTotal", "InodeUsed",
                                     "InodeUsedPercent", "MountOption"}
    [] type = "NetPerf"          -> {"Desc", "IP", "HwAddr", "TrafficIn", "TrafficOut", "PacketIn", "PacketOut",
                                     "ErrorOut", "ErrorIn", "DroppedOut", "DroppedIn"}
    [] type = "SMLogEvent"       -> {"EventSource", "Severity", "FilePath", "LogContent", "WinLogFile", "WinType",
                                     "WinSourceName", "WinEventCode", "WinCreateTime", "Keyword", "LogRule"}
    [] type = "ProcNetPerf"      -> {"IP", "Port", "Count"}
    [] type = "ProcFilePerf"     -> {"FilePath", "Size"}
    [] type = "ProcPerf"         -> {"Ppid", "Pid", "Cpu", "MemoryBytes", "MemoryPercent", "ReadBps", "WriteBps",
                                     "Cmd1", "Cmd2", "ReadIops", "WriteIops", "User", "State", "CreateTime", "Group",
                                     "Net", "File", "MemoryShared", "OpenFileDescriptors"}
    [] type = "TCPPortPerf"      -> {"Port", "IsAlive"}
    [] type = "TimeCount"        -> {"Count", "Error", "Time"}
    [] type = "SqlRec"           -> {"Dbc", "Sql", "SqlCrud", "CountTotal", "CountError", "TimeSum", "TimeStd",
                                     "TimeMin", "TimeMax", "FetchCount", "FetchTime", "UpdateCount", "Service"}
    [] type = "HttpcRec"         -> {"Url", "Host", "Port", "CountTotal", "CountError", "TimeSum", "TimeStd",
                                     "TimeMin", "TimeMax", "Service"}
    [] OTHER -> {}
KnownTypes == {"ParamPack", "CounterPack1", "ProfilePack", "ActiveStackPack", "TextPack", "ErrorSnapPack1",
    "RealtimeUserPack", "StatServicePack", "StatSqlPack", "StatHttpcPack", "StatErrorPack", "StatTransactionPack",
    "StatTransactionPack1", "StatGeneralPack", "StatGeneralPack#1", "StatRemoteIpPack", "StatUserAgentPack",
    "EventPack", "HitMapPack1", "ExtensionPack", "TagCountPack", "TagLogPack", "CompositePack", "LogSinkPack",
    "ZipPack", "LogSinkZipPack", "ServerInfoPack", "ProfileStepSplitPack", "SMBasePack", "SMDiskPerfPack",
    "SMDownCheckPack", "SMExtension", "SMLogEventPack", "SMNetPerfPack", "SMPingPack", "SMProcPerfPack",
    "SMTCPPerfPack", "CpuLinux", "CpuOSX", "CpuWindow", "MemoryLinux", "MemoryWindow", "DiskPerf", "NetPerf",
    "SMLogEvent", "ProcNetPerf", "ProcFilePerf", "ProcPerf", "TCPPortPerf", "TimeCount", "SqlRec", "HttpcRec"}

(***************************************************************************)
(* State.                                                                  *)
(***************************************************************************)
VARIABLES msg,    \* the message on the wire (or None): the last write of the object in focus
          dec,    \* what the reader made of it: [rtype, r, consumed] (or None)
          ren,    \* bytes of the decoded pack written again: [re, rep, re2] (or None)
          store,  \* items (inner packs / records) registered for a container: sequence of messages
          box,    \* the container built from items: [kind, items, id, status, ...] (or None)
          out,    \* what unpacking the container returned: [d, ix] (see UnpackC) (or None)
          cur,    \* the object in focus (a history of one object: 0 throughout)
          shelf,  \* the other live objects: id -> [msg, dec, ren, box, out] as they were when the focus left them
          held    \* the latest re-observation of what earlier calls on the object in focus handed out (or None)

vars == <<msg, dec, ren, store, box, out, cur, shelf, held>>

NoObjects == [x \in {} |-> 0]
Init == /\ msg = None /\ dec = None /\ ren = None /\ store = <<>> /\ box = None /\ out = None
        /\ cur = 0 /\ shelf = NoObjects /\ held = None

\* every action but Use / Peek: the focus stays, a re-observation is judged in the state it is made in
Rest == UNCHANGED <<cur, shelf>> /\ held' = None

\* ---- messages ----
\* what an object holds after set was assigned and del removed (paths -> leaves)
Apply(c, set, del) == [p \in (DOMAIN c \ del) \cup DOMAIN set |-> IF p \in DOMAIN set THEN set[p] ELSE c[p]]
\* the content of the object after the write of m: what it held (w), with what Write itself changed (wd, wdel)
After(m) == Apply(m.w, m.wd, m.wdel)
WithCont(m, c) == [f \in DOMAIN m \cup {"cont"} |-> IF f = "cont" THEN c ELSE m[f]]

\* a pack object is written for the first time
Encode(m) ==
  /\ m.carried \subseteq DOMAIN m.w
  /\ msg' = WithCont(m, After(m)) /\ dec' = None /\ ren' = None
  /\ UNCHANGED <<store, box, out>> /\ Rest

\* the object in focus is changed through its public surface (an exported field assigned, a public
\* mutator called): set = the leaves that hold another value or are new afterwards, del = the leaves gone
Mutate(set, del) ==
  /\ msg # None
  /\ msg' = [msg EXCEPT !.cont = Apply(@, set, del)]
  /\ UNCHANGED <<dec, ren, store, box, out>> /\ Rest

\* ... and written AGAIN: it is the same object (same concrete type), it holds exactly what its
\* last write and the mutations since left in it (nothing else -- no call on another object, no
\* state the writer keeps -- changed it), and the laws below hold for THIS content
Rewrite(m) ==
  /\ msg # None
  /\ m.type = msg.type /\ m.code = msg.code
  /\ m.w = msg.cont
  /\ m.carried \subseteq DOMAIN m.w
  /\ msg' = WithCont(m, After(m)) /\ dec' = None /\ ren' = None
  /\ UNCHANGED <<store, box, out>> /\ Rest

Decode(rtype, r, consumed) ==
  /\ msg # None /\ dec = None
  /\ dec' = [rtype |-> rtype, r |-> r, consumed |-> consumed]
  /\ UNCHANGED <<msg, ren, store, box, out>> /\ Rest

\* re: right after decoding; rep: after the decoded pack's lazy sections were
\* looked at (Absent if the type has none); re2: second generation (Absent unless
\* re differs from the original)
ReEncode(re, rep, re2) ==
  /\ dec # None /\ ren = None
  /\ ren' = [re |-> re, rep |-> rep, re2 |-> re2]
  /\ UNCHANGED <<msg, dec, store, box, out>> /\ Rest

\* ---- several live objects ----
Focus == [msg |-> msg, dec |-> dec, ren |-> ren, box |-> box, out |-> out]
Blank == [msg |-> None, dec |-> None, ren |-> None, box |-> None, out |-> None]
\* the focus moves to object o (a new one, or one put aside earlier); the items registered for containers are shared
Use(o) ==
  /\ o # cur
  /\ LET f == IF o \in DOMAIN shelf THEN shelf[o] ELSE Blank IN
       msg' = f.msg /\ dec' = f.dec /\ ren' = f.ren /\ box' = f.box /\ out' = f.out
  /\ shelf' = [x \in (DOMAIN shelf \cup {cur}) \ {o} |-> IF x = cur THEN Focus ELSE shelf[x]]
  /\ cur' = o /\ held' = None
  /\ UNCHANGED store

\* what earlier calls on the object in focus handed out is looked at again.  h.what says which:
\*   "bytes"  the encoding (the very slice the writer returned)        -> h.bytes
\*   "r"      the decoded pack, projected again                        -> h.r
\*   "d"      the unpacked inner packs / records, projected again      -> h.d
\*   "box"    the records blob of the container: status byte, is it a gzip stream, does it hold the
\*            concatenation of the inner packs                         -> h.status, h.gz, h.same
Peek(h) ==
  /\ "bytes" \in h.what => msg # None
  /\ "r" \in h.what => dec # None
  /\ "d" \in h.what => out # None
  /\ "box" \in h.what => box # None
  /\ held' = h
  /\ box' = IF "box" \in h.what THEN [box EXCEPT !.status = h.status, !.gz = h.gz, !.same = h.same] ELSE box
  /\ UNCHANGED <<msg, dec, ren, store, out, cur, shelf>>

\* nothing a call returned changed behind the caller's back (the container's blob is judged by ZipLaw)
Stable == held # None =>
  /\ "bytes" \in held.what => held.bytes = msg.bytes
  /\ "r" \in held.what => held.r = dec.r
  /\ "d" \in held.what => held.d = out.d

SameType == dec # None =>
              /\ dec.rtype = msg.type
              /\ msg.mode = "reg" => CreateOf(msg.code) = msg.type
CarriedRestored  == dec # None => AllRestored(msg, dec.r)
ExactConsumption == dec # None => dec.consumed = Len(msg.bytes)
\* the same bytes up to order (all a permutation of entries can change)
CountOf(s, b) == Cardinality({i \in DOMAIN s : s[i] = b})
SameBag(s, t) == Len(s) = Len(t) /\ \A b \in Range(s) \cup Range(t) : CountOf(s, b) = CountOf(t, b)
ReEncodeIdentical == ren # None =>
  /\ \/ ren.re = msg.bytes
     \/ msg.perm /\ SameBag(ren.re, msg.bytes)                  \* entries of an unordered table permuted
     \/ Defaulted(msg) /\ ren.re2 # Absent /\ ren.re2 = ren.re   \* a defaulting reader: stable from then on
  /\ ren.rep # Absent => ren.rep = ren.re

\* ---- containers ----
\* an inner pack or record that will be given to a container
Register(m) ==
  /\ m.carried \subseteq DOMAIN m.w
  /\ store' = Append(store, m)
  /\ UNCHANGED <<msg, dec, ren, box, out>> /\ Rest

\* kinds: "composite", "zip", "lszip" (inner packs), "records" (record list)
Kinds == {"composite", "zip", "lszip", "records"}
Stamping == {"zip", "lszip"}

\* the status a zip container must carry: compressed iff it says 1.
\* status0 = status before the records were set, minsize = compression
\* threshold (or -1: the caller did not ask for compression), plainlen =
\* length of the concatenated inner packs
ZipStatus(status0, minsize, plainlen) ==
  IF status0 = 0 /\ minsize >= 0 /\ plainlen >= minsize THEN 1 ELSE status0

\* b: [kind, items (indices into store), id (identity of the container: record over Identity),
\*     status0, minsize, plainlen, status, gz (records are a gzip stream), same (gunzip(records) or records = plain)]
Build(b) ==
  /\ b.kind \in Kinds
  /\ \A i \in Range(b.items) : i \in DOMAIN store
  /\ box' = b /\ out' = None
  /\ UNCHANGED <<msg, dec, ren, store>> /\ Rest

\* what unpacking returned: d = tuple of [type, r], ix = for every position the
\* index into d of what stands there (a long list of few distinct records is
\* logged once per distinct record)
UnpackC(d, ix) ==
  /\ box # None /\ out = None
  /\ \A i \in DOMAIN ix : ix[i] \in DOMAIN d
  /\ out' = [d |-> d, ix |-> ix]
  /\ UNCHANGED <<msg, dec, ren, store, box>> /\ Rest
Unpack(o) == UnpackC(o, [i \in 1..Len(o) |-> i])

ZipLaw == (box # None /\ box.kind \in Stamping) =>
            /\ box.status = ZipStatus(box.status0, box.minsize, box.plainlen)
            /\ box.gz <=> box.status = 1          \* gzip iff the status byte says so
            /\ box.same                           \* and the content is the concatenation of the inner packs

\* inner pack i came back as o: same concrete type, carried leaves restored;
\* from a stamping container the identity fields are the container's instead
Stamp(m, id) == [m EXCEPT !.w = [p \in DOMAIN m.w |-> IF p \in Identity THEN [m.w[p] EXCEPT !.v = id[p]] ELSE m.w[p]],
                          !.carried = m.carried \cup (Identity \cap DOMAIN m.w)]
InnerOK(m, o) == o.type = m.type /\ AllRestored(m, o.r)
\* position i of the container holds item box.items[i] and came back as
\* out.d[out.ix[i]]: the law is stated once per distinct pair
UnpackLaw == (box # None /\ out # None) =>
  /\ Len(out.ix) = Len(box.items)                                      \* nothing lost, nothing invented
  /\ \A pr \in {<<box.items[i], out.ix[i]>> : i \in DOMAIN out.ix} :     \* in order
       LET m == store[pr[1]] IN
       InnerOK(IF box.kind \in Stamping THEN Stamp(m, box.id) ELSE m, out.d[pr[2]])

InvAll == SameType /\ CarriedRestored /\ ExactConsumption /\ ReEncodeIdentical /\ ZipLaw /\ UnpackLaw /\ Stable

Next == FALSE   \* the companions (MC_PackCodec, Trace_PackCodec) supply the next-state relations
=============================================================================
