SPECIFICATION MCSpec
CONSTANTS MaxLen = 2
          Cands = "abstract3"
          Reader = "ref"
          MaxKeep = 2
          Encoder = "fresh"
INVARIANTS ReadBack CursorExact TxNormalize AllConsumed WireOK KeptWire KeptIntact NoStuck ExactNormalForm SelfDelimiting
CONSTRAINT Bounded
CHECK_DEADLOCK FALSE
