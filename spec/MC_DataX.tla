----------------------------- MODULE MC_DataX -------------------------------
(***************************************************************************)
(* Exhaustive exploration of the DataX design for small constants: every   *)
(* program of at most MaxLen writes over the boundary value set, followed  *)
(* by the matching reads.  Checks that the reference format itself is      *)
(* lossless, canonical, exactly consumed and self-delimiting.              *)
(***************************************************************************)
EXTENDS DataX, TLC

CONSTANT MaxLen, BlobLens, KSet

\* W8 of small magnitudes and of +-2^k boundaries
\* Every value built here ends in "\o <<>>": Choices is a constant that TLC evaluates once and all workers share, and
\* what a function constructor -- above all one under EXCEPT -- yields is a LAZY value inside it (TLC forces only what
\* sorting the enclosing set happens to compare: never the elements of the arrays).  A lazy function with pending
\* EXCEPTs is not safe to share: TLC publishes its table before the EXCEPTs are applied (FcnLambdaValue.toFcnRcd), so a
\* worker that applies it while another forces it reads the bytes WITHOUT the EXCEPT -- observed as a write that appended
\* ...,254 for the value -1 (about one run in 100 with 4 workers, "Invariant ReadBack is violated" followed by
\* "Failed to recover the initial state from its fingerprint").  Concatenation makes a plain tuple of integers while the
\* constants are still being processed by one thread.
P2(k) == \* 2^k as W8, k in 0..62
  [i \in 1..8 |-> IF i = 8 - (k \div 8) THEN 2 ^ (k % 8) ELSE 0] \o <<>>
\* two's complement negation of a W8
Neg(v) == LET inv == [i \in 1..8 |-> 255 - v[i]]
              RECURSIVE Inc(_, _)
              Inc(s, i) == IF i = 0 THEN s
                           ELSE IF s[i] = 255 THEN Inc([s EXCEPT ![i] = 0], i - 1)
                           ELSE [s EXCEPT ![i] = s[i] + 1]
          IN Inc(inv, 8) \o <<>>
Dec1(v) == Neg(LET n == Neg(v) IN
                 LET RECURSIVE Inc(_, _)
                     Inc(s, i) == IF i = 0 THEN s
                                  ELSE IF s[i] = 255 THEN Inc([s EXCEPT ![i] = 0], i - 1)
                                  ELSE [s EXCEPT ![i] = s[i] + 1]
                 IN Inc(n, 8) \o <<>>)
Ks == KSet      \* the class boundaries explored: a subset of {7, 15, 23, 31, 39, 63}
Boundary == {Zeros(8) \o <<>>, P2(0), Neg(P2(0))}
              \cup {P2(k) : k \in Ks \ {63}} \cup {Dec1(P2(k)) : k \in Ks \ {63}}     \* 2^k, 2^k - 1
              \cup {Neg(P2(k)) : k \in Ks \ {63}} \cup {Dec1(Neg(P2(k))) : k \in Ks \ {63}} \* -2^k, -2^k - 1
              \cup {Fill(8, 255) \o <<>>, <<127,255,255,255,255,255,255,255>>, <<128,0,0,0,0,0,0,0>>}

Payload(n) == [i \in 1..n |-> (i * 7) % 256] \o <<>>

Choices ==
       {<<"Bool", b>> : b \in BOOLEAN}
  \cup {<<"Byte", b>> : b \in {0, 127, 255}}
  \cup {<<op, v>> \in (SignedFixed \cup UnsignedFixed \cup {"Decimal"}) \X Boundary : InRange(op, v)}
  \cup {<<"Float", f>> : f \in {<<0,0,0,0>>, <<127,192,0,1>>, <<128,0,0,0>>}}
  \cup {<<"Double", f>> : f \in {<<0,0,0,0,0,0,0,0>>, <<127,248,0,0,0,0,0,1>>}}
  \cup {<<op, Payload(n)>> : op \in {"Blob", "Text", "ShortBytes", "IntBytes", "TextShort"}, n \in BlobLens}
  \cup {<<"IntArr", a>> : a \in {<<>>, <<P2(0)>>, <<Neg(P2(0)), P2(31 - 8)>>}}
  \cup {<<"Raw", Payload(n)>> : n \in {m \in BlobLens : m <= 256}}    \* raw bytes have no length cell: small payloads only
  \cup {<<"TextArr", a>> : a \in {<<>>, <<Payload(0), Payload(254)>>, <<Payload(1), Payload(0), Payload(2)>>}}
  \cup {<<"LongArr", a>> : a \in {<<>>, <<Neg(P2(39))>>}}

\* A payload at the 16-bit / 32-bit length thresholds (thorough configuration) makes a state of several megabytes in
\* TLC (buf, prog and rd each hold it).  What follows or precedes such an item matters only through its own framing, so
\* a heavy item is paired with heavy items and with a set of partners that covers every framing kind (fixed cell,
\* variable decimal, counted arrays), not with every boundary value of every fixed width: the run then fits a machine
\* that is shared (the unrestricted pairing needed a 16 GB heap and was killed by the kernel's OOM killer).
Heavy(c) == c[1] \in {"Blob", "Text", "ShortBytes", "IntBytes", "TextShort"} /\ Len(c[2]) > 1000
Partner(c) == Heavy(c) \/ c[1] \in {"Bool", "Byte", "Decimal", "Float", "IntArr", "TextArr", "Raw"}
Pairable(c) == \A i \in 1..Len(prog) :
                  LET d == <<prog[i][1], prog[i][2]>> IN (Heavy(c) => Partner(d)) /\ (Heavy(d) => Partner(c))

MCNext == \/ \E c \in Choices : Len(prog) < MaxLen /\ Pairable(c) /\ W(c[1], c[2])
          \/ (Len(prog) > 0 /\ Open)
          \/ R

MCSpec == Init /\ [][MCNext]_vars

\* finished runs read back everything
Complete == (rpos > 0 /\ Len(rd) = Len(prog)) => /\ rpos = Len(buf) + 1
                                                 /\ \A i \in 1..Len(rd) : rd[i] = prog[i][2]

\* the stream-level operators (halving flatten / decode, raw bytes) are the reference operators
FastAgree == \A i \in 1..Len(prog) :
   LET op == prog[i][1]
       v  == prog[i][2] IN
   op # "Raw" => /\ EncFor(op, v) = Enc(op, v)
                 /\ DecFor(op, v, Enc(op, v) \o <<9>>, 1) = Dec(op, Enc(op, v) \o <<9>>, 1)
=============================================================================
