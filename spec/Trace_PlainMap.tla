---------------------------- MODULE Trace_PlainMap ----------------------------
(***************************************************************************)
(* Trace validation of the four real plain hash maps / sets of util/hmap   *)
(* (IntIntMap, IntKeyMap, IntSet, StringSet) against PlainMap.  One event  *)
(* per public call (harness/c12):                                          *)
(*                                                                         *)
(*   Reset  t ek [none] ...         new object of type t; ek = rank of the *)
(*                                  empty string in the key pool (0: none);*)
(*                                  none = <<NONE>>: the public NONE field *)
(*                                  the IntIntMap under test was given     *)
(*   <Op>   k v ks vs dir           the call and its arguments             *)
(*          ret | b | rk rz | seq | pairs | items | bytes                  *)
(*                                  what it returned (projected)           *)
(*          size                    Size() AFTER the call                  *)
(*   Proj   keys vals               full enumeration (every 16 events and  *)
(*                                  at the end of a history)               *)
(*   New                            one more (empty) object of the type is *)
(*                                  constructed and held                   *)
(*   Swap   h                       calls go to held object h from now on  *)
(*   PutAllFrom h                   put-all with held object h (0: the     *)
(*                                  object itself) as the argument         *)
(*   HProj  h keys vals hsize       full enumeration and Size() of held    *)
(*                                  object h                               *)
(*   RoundTrip ... hold             (hold) the map written stays alive as  *)
(*                                  one more held object                   *)
(*   Hold   of seq                  the slice the previous call returned   *)
(*                                  (of = "ret") / was given (of = "arg")  *)
(*                                  stays in the caller's hands, read now  *)
(*   Held   a seq                   slice a read again                     *)
(*   Scribble a seq                 the caller overwrote slice a with seq  *)
(*                                                                         *)
(*   EnumOpen kind i                enumerator i of the kind ("k" keys,    *)
(*                                  "v" values, "e" entries) is opened     *)
(*   EnumMore i b                   HasMoreElements() of enumerator i      *)
(*   EnumNext i x | p               the next element of enumerator i: a    *)
(*                                  key / value x, or an entry p = <<k, v>>*)
(*                                  (stepped enumerations: any read-only   *)
(*                                  calls lie between these events)        *)
(*   EnumDrop                       the caller lets go of its enumerators  *)
(*                                                                         *)
(* Keys are ranks in the history's sorted key pool, results are tuples     *)
(* (<<v>> or the type's "absent"), see PlainMap.  Enumerations are judged  *)
(* as bags: every stored element exactly once, in any order.  A recorded   *)
(* panic or watchdog timeout is an event ("Panic", "Timeout") for which    *)
(* there is no action: the trace stops being explainable at that line.     *)
(***************************************************************************)
EXTENDS PlainMap, TraceLib

VARIABLE l
tvars == <<vars, l>>

\* the conventions of the four types (part of the specification, not logged)
\* (IntKeyMap's values are objects: they may be nil; values are logged as codes,
\* the nil object as NilV, see PlainMap)
TypeCfg == [IntIntMap |-> [set |-> FALSE, none |-> <<0>>, rej |-> FALSE, nil |-> FALSE],
            IntKeyMap |-> [set |-> FALSE, none |-> <<>>,  rej |-> FALSE, nil |-> TRUE],
            IntSet    |-> [set |-> TRUE,  none |-> <<0>>, rej |-> FALSE, nil |-> FALSE],
            StringSet |-> [set |-> TRUE,  none |-> <<>>,  rej |-> TRUE,  nil |-> FALSE]]
\* none: what the object was configured to answer for "absent" (IntIntMap's public
\* NONE field is an input of the history like the constructor arguments; the
\* other types have no such configuration)
CfgOf(t, ek, none) == [t |-> t, set |-> TypeCfg[t].set, none |-> none, rej |-> TypeCfg[t].rej,
                       nil |-> TypeCfg[t].nil, ek |-> ek]

TraceInit == InitWith(CfgOf("IntIntMap", 0, <<0>>)) /\ l = 1 /\ HwmInit

Step(n) == IsEv(l, n) /\ l' = l + 1
e == Trace[l]

IsMapT == cfg.t \in {"IntIntMap", "IntKeyMap"}

\* taken after every call: Size()
Obs == Has(e, "size") /\ e.size = Cardinality(DOMAIN m')

TraceReset == /\ Step("Reset")
              /\ Has(e, "t") /\ Has(e, "ek") /\ e.t \in DOMAIN TypeCfg
              /\ m' = EmptyFn /\ held' = <<>> /\ arrs' = <<>> /\ ens' = <<>>
              /\ IF Has(e, "none")
                 THEN e.t = "IntIntMap" /\ Len(e.none) = 1 /\ cfg' = CfgOf(e.t, e.ek, e.none)
                 ELSE cfg' = CfgOf(e.t, e.ek, TypeCfg[e.t].none)
              /\ Obs

\* ---- insertion ------------------------------------------------------------
\* a map answers the previous value ("absent" for a new key); the int set
\* whether the element is new; the string set the stored string
InsRetOK == CASE IsMapT              -> Has(e, "ret") /\ e.ret = Lookup(e.k)
              [] cfg.t = "IntSet"    -> Has(e, "b") /\ e.b = ~Present(e.k)
              [] cfg.t = "StringSet" -> Has(e, "rk") /\ e.rk = e.k
Ins(name) == /\ Step(name) /\ Has(e, "k") /\ Has(e, "v")
             /\ Put(e.k, e.v)
             /\ InsRetOK
             /\ Obs
TracePut      == Ins("Put")
TraceUnipoint == Ins("Unipoint")

TraceAdd == /\ Step("Add") /\ Has(e, "k") /\ Has(e, "v") /\ Has(e, "ret")
            /\ ~cfg.set /\ Add(e.k, e.v) /\ AddRetOK(e.k, e.v, e.ret) /\ Obs
TraceAddIfExist == /\ Step("AddIfExist") /\ Has(e, "k") /\ Has(e, "v") /\ Has(e, "ret")
                   /\ ~cfg.set /\ AddIfExist(e.k, e.v) /\ AddIfExistRetOK(e.k, e.v, e.ret) /\ Obs

TracePutAll == /\ Step("PutAll") /\ Has(e, "ks") /\ Has(e, "vs")
               /\ PutAll(e.ks, e.vs) /\ Obs

\* ---- lookups / membership ---------------------------------------------------
TraceGet == Step("Get") /\ Has(e, "k") /\ Has(e, "ret") /\ e.ret = Lookup(e.k) /\ ReadOnly /\ Obs
Member(name) == Step(name) /\ Has(e, "k") /\ Has(e, "b") /\ e.b = Present(e.k) /\ ReadOnly /\ Obs
TraceContainsKey == Member("ContainsKey")
TraceContains    == Member("Contains")
TraceHasKey      == Member("HasKey")
\* asking for the nil object: the Java original throws, the Go type answers FALSE
\* whatever is stored; the model accepts that answer (TRUE only if a nil is stored)
TraceContainsValue == /\ Step("ContainsValue") /\ Has(e, "v") /\ Has(e, "b")
                      /\ IF cfg.nil /\ e.v = NilV THEN (e.b => HasValue(NilV)) ELSE e.b = HasValue(e.v)
                      /\ ReadOnly /\ Obs
TraceIsEmpty == Step("IsEmpty") /\ Has(e, "b") /\ e.b = (Stored = {}) /\ ReadOnly /\ Obs

\* ---- removal ------------------------------------------------------------------
\* a map answers the removed value ("absent" if there was none); the int set the
\* key itself (0 if it was not a member); the string set whether it was a member
RemRetOK == CASE IsMapT              -> Has(e, "ret") /\ e.ret = Lookup(e.k)
              [] cfg.t = "IntSet"    -> /\ Has(e, "rk") /\ Has(e, "rz")
                                        /\ IF Present(e.k) THEN e.rk = e.k ELSE e.rz = TRUE
              [] cfg.t = "StringSet" -> Has(e, "b") /\ e.b = Present(e.k)
TraceRemove == Step("Remove") /\ Has(e, "k") /\ Remove(e.k) /\ RemRetOK /\ Obs
TraceClear == Step("Clear") /\ Clear /\ Obs

\* ---- enumerations: every stored element exactly once, order free ----------------
KeyEnum(name) == Step(name) /\ Has(e, "seq") /\ KeysBagOK(e.seq) /\ ReadOnly /\ Obs
ValEnum(name) == Step(name) /\ Has(e, "seq") /\ ValuesBagOK(e.seq) /\ ReadOnly /\ Obs
TraceKeys       == KeyEnum("Keys")
TraceKeyArray   == KeyEnum("KeyArray")
TraceValues     == ValEnum("Values")
TraceValueArray == ValEnum("ValueArray")
TraceEntries == Step("Entries") /\ Has(e, "pairs") /\ EntriesBagOK(e.pairs) /\ ReadOnly /\ Obs
TraceProj == /\ Step("Proj") /\ Has(e, "keys") /\ Has(e, "vals")
             /\ ProjOK(e.keys, e.vals) /\ ReadOnly /\ Obs

\* ---- several live objects; slices in the caller's hands ----------------------------
TraceNew  == Step("New") /\ NewObj /\ Obs
TraceSwap == Step("Swap") /\ Has(e, "h") /\ Swap(e.h) /\ Obs
\* Between two int-to-int maps put-all goes through the wire form (what object h
\* wrote is read into the focus).  The property says what an EMPTY map reads back:
\* an equal map.  Whether a map that already has entries keeps them under the
\* pairs read (the code: every pair is put) or is replaced is not stated: both
\* are accepted, nothing else is.
TracePutAllFrom == /\ Step("PutAllFrom") /\ Has(e, "h") /\ IsMapT /\ e.h \in 0..Len(held)
                   /\ \/ PutAllFrom(e.h)
                      \/ /\ cfg.t = "IntIntMap" /\ e.h # 0 /\ m # EmptyFn
                         /\ m' = held[e.h] /\ Same
                   /\ Obs
\* the complete enumeration and the size of a held object: what it was when the
\* calls moved on to another object
TraceHProj == /\ Step("HProj") /\ Has(e, "h") /\ Has(e, "keys") /\ Has(e, "vals") /\ Has(e, "hsize")
              /\ e.h \in 1..Len(held)
              /\ ProjOKOf(held[e.h], e.keys, e.vals)
              /\ e.hsize = Cardinality(DOMAIN held[e.h])
              /\ ReadOnly /\ Obs
\* the slice of the previous event is kept: it holds what that call answered
\* ("ret": its seq) or was given ("arg": its ks -- the call did not write into it)
TraceHold == /\ Step("Hold") /\ Has(e, "of") /\ Has(e, "seq") /\ l > 1
             /\ CASE e.of = "ret" -> Has(Trace[l - 1], "seq") /\ e.seq = Trace[l - 1].seq
                  [] e.of = "arg" -> Has(Trace[l - 1], "ks") /\ e.seq = Trace[l - 1].ks
                  [] OTHER -> FALSE
             /\ ArrHold(e.seq) /\ Obs
TraceHeld == Step("Held") /\ Has(e, "a") /\ Has(e, "seq") /\ ArrIs(e.a, e.seq) /\ ReadOnly /\ Obs
TraceScribble == Step("Scribble") /\ Has(e, "a") /\ Has(e, "seq") /\ ArrWrite(e.a, e.seq) /\ Obs

\* re-bucketing the table in the order of a comparator: the map is the same map
\* (the structure is rebuilt: enumerators opened before it are not stepped any more)
TraceSort == Step("Sort") /\ Has(e, "dir") /\ Rebuild /\ Obs
\* rendering: one "key=value" / element item per stored entry
Render(name) == Step(name) /\ Has(e, "items") /\ e.items = Size /\ ReadOnly /\ Obs
TraceToString       == Render("ToString")
TraceToFormatString == Render("ToFormatString")

\* ---- the wire form of the int-to-int map ------------------------------------------
\* kv[r] = the real (32-bit) key of rank r; bytes = what ToBytes wrote
TraceToBytes == /\ Step("ToBytes") /\ Has(e, "kv") /\ Has(e, "bytes")
                /\ cfg.t = "IntIntMap"
                /\ \A k \in Stored : k <= Len(e.kv)
                /\ WireOK(e.bytes, m, LAMBDA k : IntToW8(e.kv[k]))
                /\ ReadOnly /\ Obs
\* ToBytes then ToObject into a fresh map, which REPLACES the object under test:
\* it must be an equal map (keys, vals = its full enumeration) and behave as one
\* in everything that follows
\* (hold: the map that was written stays alive as one more held object)
TraceRoundTrip == /\ Step("RoundTrip") /\ Has(e, "keys") /\ Has(e, "vals")
                  /\ cfg.t = "IntIntMap"
                  /\ ProjOK(e.keys, e.vals)
                  /\ IF Has(e, "hold") /\ e.hold = TRUE THEN Fork ELSE Rebuild
                  /\ Obs

\* ---- stepped enumerations ---------------------------------------------------------
\* Between EnumOpen and the last EnumNext of an enumerator lie only read-only
\* calls (the harness drops its enumerators at every other call, as the model
\* does): "more?" is answered TRUE iff not everything was yielded yet, and every
\* element yielded is a stored one not yielded before (values: as a bag).
TraceEnumOpen == /\ Step("EnumOpen") /\ Has(e, "kind") /\ Has(e, "i")
                 /\ e.i = Len(ens) + 1 /\ EnumOpen(e.kind) /\ Obs
TraceEnumMore == /\ Step("EnumMore") /\ Has(e, "i") /\ Has(e, "b")
                 /\ e.i \in 1..Len(ens) /\ e.b = EnumMore(e.i)
                 /\ ReadOnly /\ Obs
TraceEnumNext == /\ Step("EnumNext") /\ Has(e, "i") /\ e.i \in 1..Len(ens)
                 /\ IF ens[e.i].kind = "e"
                    THEN Has(e, "p") /\ Len(e.p) = 2 /\ EnumNext(e.i, e.p)
                    ELSE Has(e, "x") /\ EnumNext(e.i, e.x)
                 /\ Obs
TraceEnumDrop == Step("EnumDrop") /\ ens # <<>> /\ EnumForget /\ Obs

TraceNext ==
  ( \/ TraceReset
    \/ TracePut \/ TraceUnipoint \/ TraceAdd \/ TraceAddIfExist \/ TracePutAll
    \/ TraceGet \/ TraceContainsKey \/ TraceContains \/ TraceHasKey \/ TraceContainsValue \/ TraceIsEmpty
    \/ TraceRemove \/ TraceClear
    \/ TraceKeys \/ TraceKeyArray \/ TraceValues \/ TraceValueArray \/ TraceEntries \/ TraceProj
    \/ TraceSort \/ TraceToString \/ TraceToFormatString
    \/ TraceToBytes \/ TraceRoundTrip
    \/ TraceEnumOpen \/ TraceEnumMore \/ TraceEnumNext \/ TraceEnumDrop
    \/ TraceNew \/ TraceSwap \/ TracePutAllFrom \/ TraceHProj \/ TraceHold \/ TraceHeld \/ TraceScribble )
  /\ InvAll'

TraceSpec == TraceInit /\ [][TraceNext]_tvars

Hwm == HwmNote(l)
TraceAccepted == Accepted
=============================================================================
