--------------------------- MODULE MC_FileConfig ----------------------------
(***************************************************************************)
(* Exhaustive exploration of the FileConfig design for small constants:    *)
(* 2 keys x 2 values (and the empty value), one comment line that contains *)
(* '=', external edits within and across seconds, the reload goroutine     *)
(* taken apart into stat / parse / one map assignment at a time / notify,  *)
(* a getter goroutine interleaved with it, one write-back taken apart into *)
(* its system calls with a crash possible between any two of them.         *)
(* (RlRestat is enabled only in the design StampAt = "after".)             *)
(* Further: the file deleted and created again between any two steps       *)
(* (Deletes), the map replaced by the defaults taken apart into its        *)
(* critical section(s), observers added under a new and under an existing  *)
(* name at any time (MaxObs further observers over the names n1, n2), and  *)
(* an environment that has a variable named like key a.                    *)
(***************************************************************************)
EXTENDS FileConfig

CONSTANTS MaxSec, MaxMod, MaxObs, Deletes, WriteBacks

a  == <<97>>
b  == <<98>>
v1 == <<49>>
v2 == <<50>>
Cm == CLine(<<35, 97, 61, 49>>)        \* "#a=1": a comment line containing '='

Files == { <<Cm, KvLine(a, v1)>>,
           <<Cm, KvLine(a, v2)>>,
           <<KvLine(a, v1), Cm, KvLine(b, v1)>>,
           <<KvLine(b, v2), KvLine(a, <<>>)>>,
           <<Cm>> }

KVs == { (a :> v2), (b :> v1), (a :> <<>>), (a :> v2) @@ (b :> v2) }

\* observer 0 registered as n1; the environment has a=2; the defaults are a=1
MCOpt == [pre |-> <<>>, suf |-> <<>>, excl |-> {}, reg |-> ("n1" :> 0), lst |-> <<0>>, env |-> (a :> v2), defs |-> (a :> v1)]
MCInit == Init0(<<Cm, KvLine(a, v1)>>, MCOpt)

\* the next observer object: numbered in the order of the Add calls
NextObs == 1 + CHOOSE x \in Ids : \A y \in Ids : y <= x

MCNext ==
  \/ \E L \in Files : modn < MaxMod /\ Edit(L)
  \/ Tick(MaxSec) /\ UNCHANGED cvars
  \/ Deletes /\ modn < MaxMod /\ Delete
  \/ RlStat \/ RlParse \/ RlParseFail \/ RlRestat \/ RlApplyBegin \/ RlApplyEnd \/ RlNotify
  \/ RlGoneBegin \/ RlGoneEnd
  \/ Get
  \/ \E n \in {"n1", "n2"} : NextObs <= MaxObs /\ ObsAdd(n, NextObs)
  \/ \E kv \in KVs : WriteBacks /\ modn + 3 <= MaxMod /\ Len(data) < 3 /\ SvBegin(kv)
  \/ SvStep \/ SvEnd \/ SvCrash

MCSpec == MCInit /\ [][MCNext]_vars

\* a written value is what the getters return once a reload ran after the write-back
WriteReadBackMem ==
  (fresh /\ ~Dead /\ w.pc = "done") => \A k \in DOMAIN wkv : wkv[k] # <<>> => (k \in DOMAIN mem /\ mem[k] = wkv[k])

\* the observers are told after the map was updated, never before
NotifyAfterApply == [][nnote' > nnote => ((\A i \in Ids : note'.m[i] = mem) /\ mem' = mem /\ rl.todo = {})]_vars
=============================================================================
