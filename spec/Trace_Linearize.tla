--------------------------- MODULE Trace_Linearize ---------------------------
(***************************************************************************)
(* Trace validation of concurrent histories of the real collections        *)
(* (harness/c10, generator "lin") against Linearize.                       *)
(*                                                                         *)
(*   Reset t set none rej ek plain max   fresh instance, its conventions,  *)
(*         [cap]                         the bound in force (0 = none);    *)
(*                                       double queue: the bound per lane  *)
(*   Inv  p o k v + result fields        goroutine p starts call o; the    *)
(*                                       record also carries what the call *)
(*                                       eventually answered               *)
(*   Ret  p o                            the call returned                 *)
(*   Final keys vals | bagk bagv | n     the content after all goroutines  *)
(*         | lane1 lane2                 were joined                       *)
(*   Panic / Timeout                     NO action: a call that panicked,  *)
(*                                       goroutines that never came back   *)
(*                                                                         *)
(* The order of Inv / Ret lines is the order of the stamps the goroutines  *)
(* drew from one atomic counter, before the call and after the return.     *)
(* Between them the silent step Lin(p) lets the call take effect.  The     *)
(* search over linearization points is TLC's (DFS queue, high-water mark   *)
(* of the cursor).                                                         *)
(***************************************************************************)
EXTENDS Linearize, TraceLib

VARIABLE l
tvars == <<lvars, l>>

TraceInit == /\ InitWith([set |-> FALSE, none |-> <<>>, none0 |-> <<>>, rej |-> FALSE, ek |-> 0, plain |-> FALSE, cap |-> <<0, 0>>])
             /\ pend = [p \in Proc |-> IdleRec]
             /\ l = 1 /\ HwmInit

e == Trace[l]
At(n) == IsEv(l, n) /\ l' = l + 1

TraceReset == /\ At("Reset")
              /\ Has(e, "set") /\ Has(e, "none") /\ Has(e, "rej") /\ Has(e, "ek") /\ Has(e, "plain") /\ Has(e, "max")
              /\ ord' = <<>> /\ val' = EmptyFn /\ max' = e.max
              /\ Has(e, "cap") => (Len(e.cap) = 2 /\ e.cap[1] \in Nat /\ e.cap[2] \in Nat)
              /\ cfg' = [set |-> e.set, none |-> e.none, none0 |-> e.none, rej |-> e.rej, ek |-> e.ek, plain |-> e.plain,
                         cap |-> IF Has(e, "cap") THEN e.cap ELSE <<0, 0>>]
              /\ pend' = [p \in Proc |-> IdleRec]

TraceInv == At("Inv") /\ WellFormed(e) /\ Invoke(e.p, e)
TraceLin == l <= NTrace /\ UNCHANGED l /\ \E p \in Proc : Lin(p)
TraceRet == At("Ret") /\ Has(e, "p") /\ e.p \in Proc /\ Has(e, "o") /\ Return(e.p, e.o)

Pairs(ks, vs) == {<<ks[i], vs[i]>> : i \in 1..Len(ks)}
TraceFinal == /\ At("Final") /\ AllIdle /\ UNCHANGED lvars
              /\ Has(e, "keys") => (Has(e, "vals") /\ e.keys = KeysSeq /\ e.vals = ValuesSeq)
              /\ Has(e, "bagk") => /\ Has(e, "bagv") /\ Len(e.bagk) = Len(ord) /\ Len(e.bagv) = Len(ord)
                                   /\ Pairs(e.bagk, e.bagv) = {<<k, val[k]>> : k \in DOMAIN val}
              /\ Has(e, "n") => e.n = Len(ord)
              /\ Has(e, "lane1") => (Has(e, "lane2") /\ e.lane1 = Lane(1) /\ e.lane2 = Lane(2))

TraceNext == (TraceReset \/ TraceInv \/ TraceLin \/ TraceRet \/ TraceFinal) /\ InvAll'

TraceSpec == TraceInit /\ [][TraceNext]_tvars

Hwm == HwmNote(l)
TraceAccepted == Accepted
=============================================================================
