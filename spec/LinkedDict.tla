----------------------------- MODULE LinkedDict ------------------------------
(***************************************************************************)
(* C09 -- the thirteen linked hash maps / linked sets of golib util/hmap   *)
(* as ONE reference model: a bounded, insertion-ordered dictionary.        *)
(*                                                                         *)
(* State                                                                   *)
(*   ord  sequence of distinct keys = the iteration order (first .. last)  *)
(*   val  function  key -> value, DOMAIN val = the keys of ord             *)
(*   max  the bound set with SetMax (<= 0 = unbounded)                     *)
(*   cfg  the conventions of the concrete type (fixed during a history):   *)
(*          set   the type is a set: the value stored under k is k itself  *)
(*          none  what the type answers for "no such entry", as a tuple:   *)
(*                <<>> (nil / "" / untyped 0) or <<0>> (the NONE of the    *)
(*                int-, long- and float-valued maps); three types let the  *)
(*                caller change it (SetNullValue)                          *)
(*          none0 the answer the type was built with (none starts as none0)*)
(*          rej   the type refuses the empty-string key (Go's stand-in for *)
(*                Java's null): inserting it is a no-op                    *)
(*          ek    which key is the empty string (0 = no such key in use)   *)
(*                                                                         *)
(* Keys are abstract: positive integers whose numeric order is the natural *)
(* order of the real keys (the harness logs the rank of a key in its       *)
(* sorted pool).  Values are small integers.  A result is a tuple: <<v>>   *)
(* for a value, cfg.none for "absent".                                     *)
(*                                                                         *)
(* Bucket arrays, hash chains, load factor, growth and collisions are NOT  *)
(* part of the state: the property says they are invisible.                *)
(*                                                                         *)
(* Written from the property statement (placement, eviction side, "update  *)
(* never evicts"), not from the golib source.                              *)
(***************************************************************************)
EXTENDS Integers, Sequences, FiniteSets, TLC

VARIABLES ord, val, max, cfg
vars == <<ord, val, max, cfg>>

Range(s) == {s[i] : i \in 1..Len(s)}
Without(s, k) == SelectSeq(s, LAMBDA x : x # k)
EmptyFn == [x \in {} |-> 0]

Present(k) == k \in DOMAIN val
\* what a lookup-like call answers for key k
Lookup(k) == IF Present(k) THEN <<val[k]>> ELSE cfg.none
\* the type refuses this key
Refused(k) == cfg.rej /\ k = cfg.ek

\* ---- insertion ----------------------------------------------------------
\* mode "last"   plain put/add: a new key is appended, an existing key stays
\*      "flast"  put-last / add-last: placed at, or MOVED to, the end
\*      "ffirst" put-first / add-first: placed at, or MOVED to, the front
Modes == {"last", "flast", "ffirst"}
End(mode) == IF mode = "ffirst" THEN "first" ELSE "last"

Place(o, k, end) == IF end = "first" THEN <<k>> \o o ELSE Append(o, k)

\* make room for one new entry: with a bound in force, evict from the end
\* OPPOSITE to the insertion end until fewer than max entries remain
Trim(o, end) ==
  IF max > 0 /\ Len(o) >= max
  THEN IF end = "first" THEN SubSeq(o, 1, max - 1)
                        ELSE SubSeq(o, Len(o) - max + 2, Len(o))
  ELSE o

\* add = the value is added to the stored one (new key: stored as given)
\* noover = a new key is dropped instead of evicting when the bound is reached
Insert(k, v, mode, add, noover) ==
  IF Refused(k) THEN UNCHANGED vars
  ELSE IF Present(k) THEN          \* update: never evicts, key set unchanged
       /\ val' = [val EXCEPT ![k] = IF cfg.set THEN k ELSE IF add THEN @ + v ELSE v]
       /\ ord' = IF mode = "last" THEN ord ELSE Place(Without(ord, k), k, End(mode))
       /\ UNCHANGED <<max, cfg>>
  ELSE IF noover /\ max > 0 /\ Len(ord) >= max THEN UNCHANGED vars
  ELSE LET o2 == Place(Trim(ord, End(mode)), k, End(mode)) IN
       /\ ord' = o2
       /\ val' = [x \in Range(o2) |-> IF x = k THEN (IF cfg.set THEN k ELSE v) ELSE val[x]]
       /\ UNCHANGED <<max, cfg>>

\* the result of an insertion is pinned only for an existing key (its previous
\* value); for a new key the types answer "", nil, NONE, ... : unspecified
InsertRetOK(k, ret) == (~Refused(k) /\ Present(k)) => ret = <<val[k]>>

Put(k, v)       == Insert(k, v, "last",   FALSE, FALSE)
PutLast(k, v)   == Insert(k, v, "flast",  FALSE, FALSE)
PutFirst(k, v)  == Insert(k, v, "ffirst", FALSE, FALSE)
Add(k, v)       == Insert(k, v, "last",   TRUE,  FALSE)
AddLast(k, v)   == Insert(k, v, "flast",  TRUE,  FALSE)
AddFirst(k, v)  == Insert(k, v, "ffirst", TRUE,  FALSE)
AddNoOver(k, v) == Insert(k, v, "last",   TRUE,  TRUE)

\* ---- lookups ------------------------------------------------------------
Get(k) == UNCHANGED vars
\* get-LRU: a lookup that also moves the entry to the end
GetLRU(k) == /\ ord' = IF Present(k) THEN Append(Without(ord, k), k) ELSE ord
             /\ UNCHANGED <<val, max, cfg>>
HasValue(v) == \E k \in DOMAIN val : val[k] = v

\* ---- removal ------------------------------------------------------------
Drop(k) == /\ ord' = Without(ord, k)
           /\ val' = [x \in DOMAIN val \ {k} |-> val[x]]
           /\ UNCHANGED <<max, cfg>>
Remove(k)   == IF Present(k) THEN Drop(k) ELSE UNCHANGED vars
FirstKey    == ord[1]
LastKey     == ord[Len(ord)]
RemoveFirst == IF Len(ord) > 0 THEN Drop(FirstKey) ELSE UNCHANGED vars
RemoveLast  == IF Len(ord) > 0 THEN Drop(LastKey) ELSE UNCHANGED vars
\* what the calls that address the first / last entry answer.  On an EMPTY
\* structure "absent" may come in the configured or in the built-in form: the
\* property does not say which (LongLongLinkedMap answers a literal 0 there)
FirstValOK(r) == IF Len(ord) > 0 THEN r = <<val[FirstKey]>> ELSE r \in {cfg.none, cfg.none0}
LastValOK(r)  == IF Len(ord) > 0 THEN r = <<val[LastKey]>> ELSE r \in {cfg.none, cfg.none0}
Clear == ord' = <<>> /\ val' = EmptyFn /\ UNCHANGED <<max, cfg>>

\* ---- sorting by a comparator on keys -------------------------------------
\* "asc"/"desc": the natural order and its reverse; "par": odd keys before even
\* ones, ascending inside each class (a comparator unrelated to insertion,
\* hash or natural order)
Dirs == {"asc", "desc", "par"}
Less(dir, a, b) == CASE dir = "asc"  -> a < b
                     [] dir = "desc" -> a > b
                     [] dir = "par"  -> IF a % 2 # b % 2 THEN a % 2 > b % 2 ELSE a < b
\* Sorting is re-insertion (property record, mechanism "sort = collect entries,
\* sort by key comparator, clear, re-insert"): the entries are put back one by
\* one at the end, in sorted order.  Within the bound that is a permutation.
\* With an excess (LazyBound, below) each re-insertion is the insertion of a new
\* key and evicts from the front, so only the last max entries of the sorted
\* order survive: SortReinserts, second clause of the named deviation.
SortReinserts == TRUE     \* FALSE: sort only permutes, whatever the excess
Sorted(dir)   == SortSeq(ord, LAMBDA a, b : Less(dir, a, b))
SortKeeps(s)  == IF SortReinserts /\ max > 0 /\ Len(s) > max
                 THEN SubSeq(s, Len(s) - max + 1, Len(s)) ELSE s
Sort(dir) == /\ dir \in Dirs
             /\ LET o2 == SortKeeps(Sorted(dir)) IN
                  /\ ord' = o2
                  /\ val' = [x \in Range(o2) |-> val[x]]
             /\ UNCHANGED <<max, cfg>>

\* ---- the bound ------------------------------------------------------------
\* DEVIATION LazyBound (named; what all thirteen types do, DESIGN 3/C09).
\* The statement says "the structure never holds more than max entries".  The
\* code enforces the bound where entries come in, not where the bound is set:
\*   * SetMax only records the bound -- any integer, at any time.  It never
\*     evicts, so a bound set BELOW the current size leaves an excess behind.
\*     A bound <= 0 means "no bound" (every use is guarded by max > 0).
\*   * the next insertion of a NEW key removes the whole excess: it evicts
\*     from the end opposite to the insertion end UNTIL fewer than max entries
\*     remain (Trim: as many evictions as needed, not one), then inserts.
\*   * updates of existing keys, lookups, moves and removals never evict,
\*     whatever the excess; add-no-over drops a new key while size >= max and
\*     evicts nothing.
\*   * a sort re-inserts every entry (SortReinserts, above), so it is the one
\*     other call that removes an excess.
\* What remains of the stated invariant is NewKeyBounded (a step that brings in
\* a new key ends within the bound) and ExcessNeverGrows (an excess only stems
\* from lowering the bound; no step adds to it).
SetMax(n) == /\ max' = n
             /\ UNCHANGED <<ord, val, cfg>>

\* ---- the "no such entry" answer (SetNullValue) ------------------------------
SetNone(n) == /\ cfg' = [cfg EXCEPT !.none = <<n>>]
              /\ UNCHANGED <<ord, val, max>>

\* ---- enumerations (read only) ---------------------------------------------
KeysSeq    == ord
ValuesSeq  == [i \in 1..Len(ord) |-> val[ord[i]]]
EntriesSeq == [i \in 1..Len(ord) |-> <<ord[i], val[ord[i]]>>]
IsFull     == max > 0 /\ max <= Len(ord)

\* ---- the property as invariants ------------------------------------------
\* Bounded is a state invariant only where the bound is never lowered below the
\* current size (Linearize / C10: the bound is fixed before the first insertion).
\* With SetMax at any time (LazyBound) it is replaced by the two step formulas.
Bounded  == max > 0 => Len(ord) <= max
NoDup    == Cardinality(Range(ord)) = Len(ord)
DomOK    == DOMAIN val = Range(ord)
SetOK    == cfg.set => \A k \in DOMAIN val : val[k] = k
RefuseOK == cfg.rej => cfg.ek \notin DOMAIN val
InvCore  == NoDup /\ DomOK /\ SetOK /\ RefuseOK
InvAll   == Bounded /\ InvCore
\* a step that brings in a key that was not there ends within the bound in force
NewKeyBounded    == (Range(ord') \ Range(ord) # {}) => (max' > 0 => Len(ord') <= max')
\* more than max entries after a step: the step added none (it lowered the bound,
\* or left / reduced an excess that was already there)
ExcessNeverGrows == (max' > 0 /\ Len(ord') > max') => Len(ord') <= Len(ord)
LazyBound        == NewKeyBounded /\ ExcessNeverGrows

InitWith(c) == ord = <<>> /\ val = EmptyFn /\ max = 0 /\ cfg = c
=============================================================================
