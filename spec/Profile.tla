------------------------------ MODULE Profile -------------------------------
(***************************************************************************)
(* C08 -- profile steps (lang/step), service records and transaction       *)
(* records (lang/service) of golib as SELF-DELIMITING STREAMS.             *)
(*                                                                         *)
(* A stream is a concatenation of items.  An item is a step (tag byte +    *)
(* body), a service record (type byte + body) or a transaction record      *)
(* (version byte 10 + blob).  Writing appends the item's own bytes;        *)
(* reading returns the next item and advances the cursor by exactly that   *)
(* item's own length, whatever follows it.                                 *)
(*                                                                         *)
(* Part 1  LEAVES: the field values of an item (integers as W8 byte        *)
(*         tuples, text/blobs as byte tuples, call stacks as tuples of W8, *)
(*         attribute / custom-field maps as sequences of <<key, value>>    *)
(*         with the tagged values of Value.tla).                           *)
(* Part 2  REGISTRY: tag -> kind for the step and service factories; any   *)
(*         other tag creates nothing ("nil").                              *)
(* Part 3  OPTIONAL SECTIONS and their presence conditions, the documented *)
(*         defaulting of the reader (Expect / Normalize), and the law      *)
(*         Restored: every field the writer's bytes depend on comes back,  *)
(*         every field of a present section comes back, every field of an  *)
(*         absent section comes back as its default.                       *)
(* Part 4  REFERENCE FORMAT: per kind an ordered layout of <<field, wire   *)
(*         kind>> in stages (a later stage is selected by a version byte,  *)
(*         flag byte or presence byte decoded in an earlier one), with the *)
(*         reference writer EncItemBytes and reader DecItemAt on DataX and *)
(*         Value.  Used by MC_Profile (the design has the property) and by *)
(*         the strict pass of Trace_Profile (the real bytes are the        *)
(*         reference bytes: drift detection, not the verdict).             *)
(* Part 5  the STREAM as a state machine; invariants ReadBack,             *)
(*         CursorExact, TxNormalize, AllConsumed; outputs handed back and  *)
(*         kept by the caller while other streams are encoded and decoded  *)
(*         (Keep / Peek / Again); the objects items are written from and   *)
(*         read into (New / Mut / ObjIs / ReadInto / Another).             *)
(***************************************************************************)
EXTENDS Value

None == [none |-> TRUE]
Range(s) == {s[i] : i \in DOMAIN s}
W8(n) == NatToBytes(n, 8)              \* small naturals only

(***************************************************************************)
(* Part 1: leaves.                                                         *)
(*   [k |-> "i", v |-> W8]            any integer field (all widths, bytes)*)
(*   [k |-> "b", v |-> BOOLEAN]                                            *)
(*   [k |-> "s", v |-> bytes]         string or blob (nil = empty)         *)
(*   [k |-> "a", v |-> <<W8,...>>]    int32 array (nil = empty)            *)
(*   [k |-> "m", has |-> BOOLEAN, v |-> <<<<key bytes, value>>,...>>]      *)
(*                                    map; has = the pointer is not nil    *)
(*                                    (nil = empty as a value)             *)
(***************************************************************************)
LI(w8)  == [k |-> "i", v |-> w8]
LN(n)   == LI(W8(n))
LB(b)   == [k |-> "b", v |-> b]
LS(bs)  == [k |-> "s", v |-> bs]
LA(xs)  == [k |-> "a", v |-> xs]
LM(has, pairs) == [k |-> "m", has |-> has, v |-> pairs]

\* compares the kinds first: TLC must never compare a BOOLEAN with a tuple
\* (a nil map and an empty one are the same value: `has` only matters to the byte form)
SameLeaf(a, b) == /\ a.k = b.k
                  /\ IF a.k = "m" THEN SamePairs(a.v, b.v) ELSE a.v = b.v

IsDefault(l) == CASE l.k = "i" -> l.v = Zeros(8)
                  [] l.k = "b" -> l.v = FALSE
                  [] OTHER -> l.v = <<>>
DefaultOf(l) == CASE l.k = "i" -> LI(Zeros(8))
                  [] l.k = "b" -> LB(FALSE)
                  [] l.k = "m" -> LM(FALSE, <<>>)
                  [] OTHER -> [k |-> l.k, v |-> <<>>]

IsInt(l) == l.k = "i"
IsZeroInt(l) == l.k = "i" /\ l.v = Zeros(8)
\* bit `mask` (1, 2, 4, ...) of the low byte of an integer leaf
BitSet(l, mask) == l.k = "i" /\ (l.v[8] \div mask) % 2 = 1

(***************************************************************************)
(* Part 2: the registries.                                                 *)
(***************************************************************************)
Families == {"step", "service", "tx", "bare"}

StepReg == << <<17, "MethodStepX">>, <<18, "SqlStepX">>, <<3, "ResultSetStep">>, <<5, "SocketStep">>,
              <<19, "HttpcStepX">>, <<6, "ActiveStackStep">>, <<7, "MessageStep">>, <<15, "SecureMsgStep">>,
              <<8, "DBCStep">>, <<22, "MessageStepX">> >>
ServiceReg == << <<1, "WasService">>, <<2, "AppService">>, <<3, "WasService2">> >>
TxVersion == 10

RegOf(fam) == IF fam = "step" THEN StepReg ELSE IF fam = "service" THEN ServiceReg ELSE <<>>
CreateOf(fam, tag) ==
  LET reg == RegOf(fam) IN
  IF \E i \in DOMAIN reg : reg[i][1] = tag
  THEN reg[CHOOSE i \in DOMAIN reg : reg[i][1] = tag][2]
  ELSE "nil"
TagOfKind(fam, kind) ==
  LET reg == RegOf(fam) IN
  IF fam = "tx" THEN TxVersion
  ELSE IF \E i \in DOMAIN reg : reg[i][2] = kind
  THEN reg[CHOOSE i \in DOMAIN reg : reg[i][2] = kind][1]
  ELSE -1
RegistryFunctional == \A fam \in {"step", "service"} : \A i, j \in DOMAIN RegOf(fam) :
                         (RegOf(fam)[i][1] = RegOf(fam)[j][1] \/ RegOf(fam)[i][2] = RegOf(fam)[j][2]) => i = j

(***************************************************************************)
(* Part 3: optional sections, defaulting, the law.                         *)
(* A section: [name, cond (the field its presence depends on), fields].    *)
(***************************************************************************)
Sec(name, cond, fields) == [name |-> name, cond |-> cond, fields |-> fields]

Sections(kind) ==
  CASE kind = "TxRecord" ->
         << Sec("mtrace", "Mtid", {"Mdepth", "Mcaller"}),
            Sec("caller", "McallerPcode", {"McallerOkind", "McallerOid", "McallerSpec", "McallerUrl", "MthisSpec"}),
            Sec("custom", "Fields", {"Fields"}) >>
    [] kind = "HttpcStepX" -> << Sec("v2", "Version", {"StepId", "Driver", "OriginUrl", "Param"}) >>
    [] kind = "MessageStepX" -> << Sec("attrs", "Attr", {"Attr"}) >>
    [] kind = "SqlStep_3" ->
         << Sec("param", "Opt", {"P1", "P2", "Pcrc"}),
            Sec("resource", "Opt", {"StartCpu", "Cpu", "StartMem", "Mem"}),
            Sec("stack", "Opt", {"Stack"}) >>
    [] OTHER -> <<>>

\* the presence condition of section `name`, on the leaf c of its cond field
Holds(name, c) ==
  CASE name = "mtrace" -> IsInt(c) /\ ~IsZeroInt(c)              \* multi-trace id set
    [] name = "caller" -> IsInt(c) /\ ~IsZeroInt(c)              \* caller project code set
    [] name = "custom" -> c.k = "m" /\ c.v # <<>>                \* at least one custom field (at most 255)
    [] name = "v2"     -> IsInt(c) /\ c.v = W8(2)                \* version-2 HTTP-call details
    [] name = "attrs"  -> c.k = "m" /\ c.v # <<>>                \* at least one attribute
    [] name = "param"    -> BitSet(c, 1)
    [] name = "resource" -> BitSet(c, 2)
    [] name = "stack"    -> BitSet(c, 4)
Present(sec, w) == sec.cond \in DOMAIN w /\ Holds(sec.name, w[sec.cond])

MaxCustomFields == 255
WARNING == 20

\* what the reader is expected to hold for field f of an item written from w
Expect(kind, w, f) ==
  IF kind = "TxRecord" /\ f = "ErrorLevel" /\ IsZeroInt(w[f]) /\ "Error" \in DOMAIN w /\ IsInt(w.Error) /\ ~IsZeroInt(w.Error)
  THEN LN(WARNING)                                   \* an error without a level is a warning
  ELSE w[f]

\* the fields of absent sections
AbsentFields(kind, w) ==
  LET secs == Sections(kind) IN
  UNION {IF Present(secs[i], w) THEN {} ELSE secs[i].fields : i \in DOMAIN secs}

\* the record a reader is expected to produce from w (over the fields of w)
Normalize(kind, w) ==
  Bind(AbsentFields(kind, w), LAMBDA ab :
    [f \in DOMAIN w |-> IF f \in ab THEN DefaultOf(w[f]) ELSE Expect(kind, w, f)])

\* a field the reader's record does not mention holds its default
FieldRestored(kind, w, r, f) == IF f \in DOMAIN r THEN SameLeaf(r[f], Expect(kind, w, f)) ELSE IsDefault(Expect(kind, w, f))
FieldDefault(r, f) == f \notin DOMAIN r \/ IsDefault(r[f])

\* it: a written item [fam, kind, tag, w, carried, len]; r: the leaves of the object read
Restored(it, r) ==
  /\ \A f \in it.carried : FieldRestored(it.kind, it.w, r, f)
  /\ LET secs == Sections(it.kind) IN
     \A i \in DOMAIN secs :
        IF Present(secs[i], it.w)
        THEN \A f \in secs[i].fields \cap DOMAIN it.w : FieldRestored(it.kind, it.w, r, f)
        ELSE \A f \in secs[i].fields \cap DOMAIN it.w : FieldDefault(r, f)

(***************************************************************************)
(* Part 4: the reference format.                                           *)
(* Layout items:  <<"f", field, wk>>  a field in wire kind wk              *)
(*                <<"c", wk, leaf>>   a constant                           *)
(* Wire kinds: Dec (DataX decimal), Byte, Bool, Int (4), Long (8), Blob,   *)
(* Text, IntArr (16-bit count + 4 bytes each), OptMap (a tagged map value  *)
(* if the map is given, nothing otherwise; the reader takes it iff bytes   *)
(* remain), Fields (count byte, then text key + tagged value each).        *)
(***************************************************************************)
F(f, wk) == <<"f", f, wk>>
C(wk, l) == <<"c", wk, l>>
Fs(names, wk) == [i \in 1..Len(names) |-> F(names[i], wk)]
Ds(names) == Fs(names, "Dec")
If(c, s) == IF c THEN s ELSE <<>>

EncLeaf(wk, l) ==
  CASE wk = "Dec"    -> DX!Enc("Decimal", l.v)
    [] wk = "Byte"   -> <<l.v[8]>>
    [] wk = "Bool"   -> DX!Enc("Bool", l.v)
    [] wk = "Int"    -> DX!Enc("Int", l.v)
    [] wk = "Long"   -> l.v
    [] wk \in {"Blob", "Text"} -> DX!EncBlob(l.v)
    [] wk = "IntArr" -> DX!Enc("IntArr", l.v)
    [] wk = "OptMap" -> IF l.has THEN EncValue(VMap(l.v)) ELSE <<>>
    [] wk = "Fields" -> <<Len(l.v) % 256>> \o EncItems("map", l.v)

LBad == [ok |-> FALSE, v |-> LN(0), next |-> 0]
LGood(l, next) == [ok |-> TRUE, v |-> l, next |-> next]
Lift(d, Mk(_)) == IF d.ok THEN LGood(Mk(d.v), d.next) ELSE LBad

DecLeaf(wk, b, p) ==
  CASE wk = "Dec"    -> Bind(DX!Dec("Decimal", b, p), LAMBDA d : Lift(d, LI))
    [] wk = "Byte"   -> IF DX!Have(b, p, 1) THEN LGood(LN(b[p]), p + 1) ELSE LBad
    [] wk = "Bool"   -> Bind(DX!Dec("Bool", b, p), LAMBDA d : Lift(d, LB))
    [] wk = "Int"    -> Bind(DX!Dec("Int", b, p), LAMBDA d : Lift(d, LI))
    [] wk = "Long"   -> Bind(DX!Dec("Long", b, p), LAMBDA d : Lift(d, LI))
    [] wk \in {"Blob", "Text"} -> Bind(DX!DecBlobAt(b, p), LAMBDA d : Lift(d, LS))
    [] wk = "IntArr" -> Bind(DX!Dec("IntArr", b, p), LAMBDA d : Lift(d, LA))
    [] wk = "OptMap" -> IF p > Len(b) THEN LGood(LM(FALSE, <<>>), p)
                        ELSE Bind(DecValue(b, p), LAMBDA d :
                               IF ~d.ok THEN LBad
                               ELSE IF d.v.t = TMap THEN LGood(LM(TRUE, d.v.v), d.next)
                               ELSE LGood(LM(FALSE, <<>>), d.next))
    [] wk = "Fields" -> IF ~DX!Have(b, p, 1) THEN LBad
                        ELSE Bind(DecRange("map", b, p + 1, b[p]), LAMBDA d :
                               IF d.ok THEN LGood(LM(b[p] > 0, d.v), d.next) ELSE LBad)

EncOne(it, w) == IF it[1] = "f" THEN EncLeaf(it[3], w[it[2]]) ELSE EncLeaf(it[2], it[3])
EncList(items, w) == Concat([i \in 1..Len(items) |-> EncOne(items[i], w)])

RBad == [ok |-> FALSE, r |-> <<>>, next |-> 0]
RECURSIVE DecList(_, _, _, _, _)
DecList(items, i, b, p, acc) ==
  IF i > Len(items) THEN [ok |-> TRUE, r |-> acc, next |-> p]
  ELSE LET it == items[i] IN
       Bind(DecLeaf(IF it[1] = "f" THEN it[3] ELSE it[2], b, p),
            LAMBDA d : IF ~d.ok THEN RBad
                       ELSE IF it[1] = "c" THEN DecList(items, i + 1, b, d.next, acc)   \* a constant is skipped
                       ELSE DecList(items, i + 1, b, d.next,
                                    [f \in DOMAIN acc \cup {it[2]} |-> IF f = it[2] THEN d.v ELSE acc[f]]))

\* ---- the layouts ----------------------------------------------------------
StepPrefix == Ds(<<"Parent", "Index", "StartTime">>)
ServiceBase == <<F("Seq", "Long")>> \o Ds(<<"EndTime", "Service", "Elapsed", "Error", "CpuTime", "SqlCount", "SqlTime",
                 "SqlFetchCount", "SqlFetchTime", "Malloc", "HttpcCount", "HttpcTime">>)
               \o <<F("Active", "Bool"), F("Steps_data_pos", "Dec")>>
WasTail == <<F("IpAddr", "Int"), C("Dec", LN(0))>> \o Ds(<<"WClientId", "UserAgent", "Referer", "Status", "Mtid", "Mdepth", "Mcaller">>)

\* pseudo fields of the transaction record: the two presence bytes
Pseudo == {"_mt", "_mc"}
PseudoSource == [_mt |-> "Mtid", _mc |-> "McallerPcode"]     \* the field a presence byte is computed from
CallerForm == 6          \* the form of the caller group the writer produces

NStages(kind) == CASE kind \in {"HttpcStepX", "SqlStep_3"} -> 2
                   [] kind = "TxBody" -> 3
                   [] OTHER -> 1

\* the layout of stage k; acc = the leaves known so far (all of them when writing)
Stage(kind, k, acc) ==
  CASE kind = "MethodStepX" ->
         StepPrefix \o <<C("Byte", LN(0))>> \o Ds(<<"Hash", "Elapsed", "StartCpu", "StartMem">>) \o <<F("Stack", "IntArr")>>
    [] kind = "SqlStepX" ->
         StepPrefix \o <<C("Byte", LN(0))>> \o Ds(<<"Hash", "Elapsed", "Error">>) \o <<F("Xtype", "Byte"), F("Dbc", "Dec"),
           F("P1", "Blob"), F("P2", "Blob"), F("Pcrc", "Byte"), F("StartCpu", "Dec"), F("StartMem", "Dec"), F("Stack", "IntArr")>>
    [] kind = "ResultSetStep" -> StepPrefix \o Ds(<<"Dbc", "SqlHash", "Elapsed", "Fetch">>)
    [] kind = "SocketStep" -> StepPrefix \o <<F("IpAddr", "Blob")>> \o Ds(<<"Port", "Elapsed", "Error">>)
    [] kind = "HttpcStepX" ->
         IF k = 1
         THEN StepPrefix \o <<F("Version", "Byte")>>
              \o Ds(<<"Url", "Elapsed", "Error", "Host", "Port", "Status", "StartCpu", "StartMem">>) \o <<F("Stack", "IntArr")>>
         ELSE IF acc.Version.v = W8(1) THEN <<C("Dec", LN(0))>>
         ELSE IF acc.Version.v = W8(2) THEN <<F("StepId", "Dec"), F("Driver", "Text"), F("OriginUrl", "Text"), F("Param", "Text")>>
         ELSE <<>>
    [] kind = "ActiveStackStep" -> StepPrefix \o <<F("Seq", "Long"), F("HasCallstack", "Bool")>>
    [] kind = "MessageStep" -> StepPrefix \o Ds(<<"Hash", "Time", "Value">>) \o <<F("Desc", "Text")>>
    [] kind = "SecureMsgStep" -> StepPrefix \o <<F("Hash", "Dec"), F("Opt", "Byte"), F("Crc", "Byte"), F("Value", "Blob")>>
    [] kind = "DBCStep" -> StepPrefix \o Ds(<<"Hash", "Elapsed", "Error">>)
    [] kind = "SqlStep_3" ->
         IF k = 1
         THEN StepPrefix \o Ds(<<"Hash", "Elapsed", "Error">>)
              \o <<F("Xtype", "Byte"), F("Updated", "Dec"), F("Crud", "Byte"), F("Dbc", "Dec"), F("Opt", "Byte")>>
         ELSE If(BitSet(acc.Opt, 1), <<F("P1", "Blob"), F("P2", "Blob"), F("Pcrc", "Byte")>>)
              \o If(BitSet(acc.Opt, 2), Ds(<<"StartCpu", "Cpu", "StartMem", "Mem">>))
              \o If(BitSet(acc.Opt, 4), <<F("Stack", "IntArr")>>)
    [] kind = "MessageStepX" -> StepPrefix \o <<C("Byte", LN(0))>>           \* then a blob holding "MsgX0"
    [] kind = "MsgX0" -> <<F("Title", "Text"), F("Desc", "Text"), F("Ctr", "Int"), F("Attr", "OptMap")>>
    [] kind = "AppService" -> ServiceBase
    [] kind \in {"WasService", "WasService2"} -> ServiceBase \o WasTail
    [] kind = "TxBody" ->
         IF k = 1
         THEN <<F("Txid", "Long")>> \o Ds(<<"EndTime", "Service", "Elapsed", "Error", "CpuTime", "Malloc", "SqlCount", "SqlTime",
                 "SqlFetchCount", "SqlFetchTime", "HttpcCount", "HttpcTime">>)
              \o <<F("Active", "Bool"), F("StepsDataPos", "Dec"), F("Cipher", "Dec"), F("IpAddr", "Int")>>
              \o Ds(<<"WClientId", "UserAgent", "Referer", "Status">>) \o <<F("_mt", "Byte")>>
         ELSE IF k = 2
         THEN If(~IsZeroInt(acc._mt), Ds(<<"Mtid", "Mdepth", "Mcaller">>)) \o <<F("_mc", "Byte")>>
         ELSE If(acc._mc.v = W8(CallerForm), Ds(<<"McallerPcode", "McallerOkind", "McallerOid", "McallerSpec", "McallerUrl", "MthisSpec">>))
              \o <<F("HttpMethod", "Byte"), F("Domain", "Dec"), F("Fields", "Fields"), F("Login", "Dec"), F("ErrorLevel", "Byte")>>
              \o Ds(<<"Oid", "Okind", "Onode">>) \o <<F("Uuid", "Text"), F("DbcTime", "Dec"), F("Apdex", "Byte"),
                  F("McallerStepId", "Dec"), F("OriginUrl", "Text"), F("StepSplitCount", "Dec")>>
    [] OTHER -> <<>>

KnownKinds == {"MethodStepX", "SqlStepX", "ResultSetStep", "SocketStep", "HttpcStepX", "ActiveStackStep", "MessageStep",
               "SecureMsgStep", "DBCStep", "SqlStep_3", "MessageStepX", "AppService", "WasService", "WasService2", "TxRecord"}

\* the writer's view: the leaves plus the presence bytes
Derive(kind, w) ==
  IF kind = "TxBody"
  THEN [f \in DOMAIN w \cup Pseudo |->
          IF f = "_mt" THEN LN(IF IsZeroInt(w.Mtid) THEN 0 ELSE 1)
          ELSE IF f = "_mc" THEN LN(IF IsZeroInt(w.McallerPcode) THEN 0 ELSE CallerForm)
          ELSE w[f]]
  ELSE w

EncStages(kind, w) ==
  Bind(Derive(kind, w), LAMBDA ww : Concat([k \in 1..NStages(kind) |-> EncList(Stage(kind, k, ww), ww)]))

RECURSIVE DecStages(_, _, _, _, _)
DecStages(kind, k, b, p, acc) ==
  IF k > NStages(kind) THEN [ok |-> TRUE, r |-> acc, next |-> p]
  ELSE Bind(DecList(Stage(kind, k, acc), 1, b, p, acc),
            LAMBDA d : IF d.ok THEN DecStages(kind, k + 1, b, d.next, d.r) ELSE RBad)

EmptyRec == [f \in {} |-> LN(0)]
Merge(a, b) == [f \in DOMAIN a \cup DOMAIN b |-> IF f \in DOMAIN b THEN b[f] ELSE a[f]]
Without(r, fs) == [f \in DOMAIN r \ fs |-> r[f]]

\* the body of an item (everything after the tag byte)
EncItemBody(kind, w) ==
  IF kind = "MessageStepX" THEN EncStages(kind, w) \o DX!EncBlob(EncStages("MsgX0", w))
  ELSE IF kind = "TxRecord" THEN DX!EncBlob(EncStages("TxBody", w))
  ELSE EncStages(kind, w)

\* the fields the reference bytes of (kind, w) depend on
LayoutFields(kind, w) ==
  Bind(Derive(kind, w), LAMBDA ww :
    Bind(Concat([k \in 1..NStages(kind) |-> Stage(kind, k, ww)]), LAMBDA its :
      {IF its[i][2] \in Pseudo THEN PseudoSource[its[i][2]] ELSE its[i][2] : i \in {j \in DOMAIN its : its[j][1] = "f"}}))
SpecCarried(kind, w) ==
  IF kind = "MessageStepX" THEN LayoutFields(kind, w) \cup LayoutFields("MsgX0", w)
  ELSE IF kind = "TxRecord" THEN LayoutFields("TxBody", w)
  ELSE LayoutFields(kind, w)

\* The statement names the ONLY optional sections (multi-trace ids, caller identity, custom fields, version-2 HTTP-call
\* details, message attributes; the flag-selected groups of SqlStep_3): every OTHER field the reference format carries
\* comes back whatever the values of the other fields are.  So the set of fields the law demands back for an item is
\* decided by the reference format at the item's content (the presence conditions above select the sections), and
\* not only by what the bytes of the real writer happen to depend on at that content: a writer that stops carrying a
\* field in some state (writes a constant in its place, normalises it away) is then answered by a read that does not
\* restore it -- a rejected R -- and not merely by a carried set that differs from the transcription (drift).
\* Guarded so that an object whose fields are not the transcribed ones (a renamed / retyped field) is never a TLC
\* runtime error: then nothing is demanded on behalf of the reference format (the strict pass reports the drift).
CondFields(kind) == CASE kind = "TxRecord" -> {"Mtid", "McallerPcode"}
                      [] kind = "HttpcStepX" -> {"Version"}
                      [] kind = "SqlStep_3" -> {"Opt"}
                      [] OTHER -> {}
RefCarried(kind, w) ==
  IF kind \in KnownKinds /\ \A f \in CondFields(kind) : f \in DOMAIN w /\ IsInt(w[f])
  THEN SpecCarried(kind, w) \cap DOMAIN w
  ELSE {}
\* what the law demands back: the fields the real writer's bytes depend on and the fields the reference format carries
Demanded(kind, w, carried) == carried \cup RefCarried(kind, w)

\* the documented defaulting of the transaction-record reader
PostRead(kind, r) ==
  IF kind = "TxRecord" /\ "ErrorLevel" \in DOMAIN r /\ IsZeroInt(r.ErrorLevel) /\ ~IsZeroInt(r.Error)
  THEN [r EXCEPT !.ErrorLevel = LN(WARNING)] ELSE r

DecItemBody(kind, b, p) ==
  IF kind = "MessageStepX"
  THEN Bind(DecStages(kind, 1, b, p, EmptyRec), LAMBDA d :
         IF ~d.ok THEN RBad
         ELSE IF ~DX!Have(b, d.next, 1) THEN RBad
         ELSE Bind(DX!DecBlobAt(b, d.next), LAMBDA bl :
                IF ~bl.ok THEN RBad
                ELSE Bind(DecStages("MsgX0", 1, bl.v, 1, d.r), LAMBDA e :
                       IF e.ok THEN [ok |-> TRUE, r |-> e.r, next |-> bl.next] ELSE RBad)))
  ELSE IF kind = "TxRecord"
  THEN Bind(DX!DecBlobAt(b, p), LAMBDA bl :
         IF ~bl.ok THEN RBad
         ELSE Bind(DecStages("TxBody", 1, bl.v, 1, EmptyRec), LAMBDA e :
                IF e.ok THEN [ok |-> TRUE, r |-> PostRead(kind, Without(e.r, Pseudo)), next |-> bl.next] ELSE RBad))
  ELSE DecStages(kind, 1, b, p, EmptyRec)

\* the reference writer and reader of one item
EncItemBytes(fam, kind, w) ==
  IF fam = "bare" THEN EncItemBody(kind, w) ELSE <<TagOfKind(fam, kind)>> \o EncItemBody(kind, w)

IBad == [ok |-> FALSE, kind |-> "nil", r |-> <<>>, next |-> 0]
\* the item of family fam starting at position p of b (bare: the kind is known out of band)
DecItemAt(fam, bareKind, b, p) ==
  IF fam = "bare" THEN Bind(DecItemBody(bareKind, b, p), LAMBDA d :
                         IF d.ok THEN [ok |-> TRUE, kind |-> bareKind, r |-> d.r, next |-> d.next] ELSE IBad)
  ELSE IF ~DX!Have(b, p, 1) THEN IBad
  ELSE LET kind == IF fam = "tx" THEN (IF b[p] >= TxVersion THEN "TxRecord" ELSE "nil") ELSE CreateOf(fam, b[p]) IN
       IF kind = "nil" THEN IBad
       ELSE Bind(DecItemBody(kind, b, p + 1), LAMBDA d :
              IF d.ok THEN [ok |-> TRUE, kind |-> kind, r |-> d.r, next |-> d.next] ELSE IBad)

(***************************************************************************)
(* Part 5: the stream.                                                     *)
(***************************************************************************)
VARIABLES stream,   \* the bytes produced so far
          items,    \* the items written: [fam, kind, tag, w, carried, len]
          cursor,   \* bytes consumed by the reader so far
          rd,       \* the items read back: [kind, r]
          shelf,    \* the outputs the encoder handed to its caller earlier and the caller still holds: [stream, items]
          objs      \* every object the caller holds in this history (built by itself or handed back by the reader): [kind, r]

vars == <<stream, items, cursor, rd, shelf, objs>>

Init == stream = <<>> /\ items = <<>> /\ cursor = 0 /\ rd = <<>> /\ shelf = <<>> /\ objs = <<>>

\* WriteStep / service.ToBytes / TxRecord.Write: the writer appended `bytes`
\* for an item of `kind` holding the leaves w; carried = the fields those
\* bytes depend on
Write(fam, kind, tag, w, carried, bytes) ==
  /\ rd = <<>>
  /\ fam \in Families
  /\ carried \subseteq DOMAIN w
  /\ bytes # <<>>
  /\ fam # "bare" => bytes[1] = tag                         \* type-tagged: the tag goes first
  /\ stream' = stream \o bytes
  /\ items' = Append(items, [fam |-> fam, kind |-> kind, tag |-> tag, w |-> w, carried |-> carried, len |-> Len(bytes)])
  /\ UNCHANGED <<cursor, rd, shelf, objs>>

\* ReadStep / service.ToObject / TxRecord.Read returned an item of `kind`
\* holding the leaves r and left the cursor at cur
Read(kind, r, cur) ==
  /\ Len(rd) < Len(items)
  /\ rd' = Append(rd, [kind |-> kind, r |-> r])
  /\ objs' = Append(objs, [kind |-> kind, r |-> r])
  /\ cursor' = cur
  /\ UNCHANGED <<stream, items, shelf>>

\* the same stream produced in one call (ToBytesStep), or taken out of a pack that carried it
Whole(b) == b = stream /\ rd = <<>> /\ UNCHANGED vars

RECURSIVE SumLens(_, _)
SumLens(its, k) == IF k = 0 THEN 0 ELSE SumLens(its, k - 1) + its[k].len

(***************************************************************************)
(* What the code hands back belongs to the caller.  A profile is encoded   *)
(* when its transaction ends and decoded much later (it waits in a pack, a *)
(* queue, a buffer) while the encoder and the decoder go on serving other  *)
(* profiles: the bytes handed back for one stream are the concatenation of *)
(* ITS steps for as long as the caller holds them, and an object handed    *)
(* back by the reader is the item that stood in the stream, whatever is    *)
(* encoded or decoded afterwards.                                          *)
(***************************************************************************)
\* the caller puts the output it was handed for the stream written so far aside (the slice ToBytesStep / TxRecord.ToBytes
\* returned, the DataOutputX the items were written into, the pack SetProfile stored it in) and goes on with another stream
Keep == /\ items # <<>> /\ rd = <<>>
        /\ shelf' = Append(shelf, [stream |-> stream, items |-> items])
        /\ stream' = <<>> /\ items' = <<>> /\ cursor' = 0
        /\ UNCHANGED <<rd, objs>>

\* the caller takes kept output h up again, after any number of later calls of the encoder and the decoder, and finds the
\* bytes b in it: they are the bytes that were handed back (then they are read like any stream)
Peek(h, b) == /\ h \in DOMAIN shelf
              /\ Len(rd) = Len(items)                 \* the stream at hand, if any, has been read to its end
              /\ b = shelf[h].stream
              /\ stream' = shelf[h].stream /\ items' = shelf[h].items /\ cursor' = 0 /\ rd' = <<>>
              /\ UNCHANGED <<shelf, objs>>

SameRec(a, b) == DOMAIN a = DOMAIN b /\ \A f \in DOMAIN a : SameLeaf(a[f], b[f])
\* the caller looks again at the j-th object the reader handed back in this history: type `kind`, leaves r
Again(j, kind, r) == /\ j \in DOMAIN objs
                     /\ kind = objs[j].kind
                     /\ SameRec(r, objs[j].r)
                     /\ UNCHANGED vars

(***************************************************************************)
(* The objects.  An item is written FROM an object the caller holds and is *)
(* read INTO an object.  The caller may write an object, change it         *)
(* (assignment to an exported field, a public setter, a Put on its         *)
(* attribute / custom-field map) and write the SAME object again, any      *)
(* number of times: every write stands for the content of THAT moment      *)
(* (the item appended to `items` is the object's content now; ReadBack     *)
(* then demands that content back).  A reader may be given an object that  *)
(* already holds something (an earlier decode, the caller's own values):   *)
(* afterwards the object is the item that stood in the stream and nothing  *)
(* else -- a section absent from the stream is absent from the object      *)
(* (its fields hold their defaults), whatever the object held before.      *)
(* `objs` = every object the caller holds in this history, built by itself *)
(* (New) or handed back by the reader (Read), with its content.            *)
(***************************************************************************)
\* the caller builds an object of type `kind` with the content w (constructor, then assignments)
New(kind, w) == /\ objs' = Append(objs, [kind |-> kind, r |-> w])
                /\ UNCHANGED <<stream, items, cursor, rd, shelf>>

\* the caller changes object j by a mutator that touches the fields fs; its content is w now
Mut(j, fs, w) == /\ j \in DOMAIN objs
                 /\ DOMAIN w = DOMAIN objs[j].r
                 /\ fs \subseteq DOMAIN w
                 /\ \A g \in DOMAIN w \ fs : SameLeaf(w[g], objs[j].r[g])       \* nothing else moved
                 /\ objs' = [objs EXCEPT ![j] = [kind |-> objs[j].kind, r |-> w]]
                 /\ UNCHANGED <<stream, items, cursor, rd, shelf>>

\* the object handed to the writer is object j as it is NOW
ObjIs(j, kind, w) == /\ j \in DOMAIN objs
                     /\ kind = objs[j].kind
                     /\ DOMAIN w = DOMAIN objs[j].r
                     /\ \A f \in DOMAIN w : SameLeaf(w[f], objs[j].r[f])

\* Read / ToObject called ON object j (the receiver holds whatever it held): it returned with the leaves r
ReadInto(j, kind, r, cur) ==
  /\ j \in DOMAIN objs
  /\ kind = objs[j].kind                    \* a receiver does not change its type
  /\ Len(rd) < Len(items)
  /\ rd' = Append(rd, [kind |-> kind, r |-> r])
  /\ objs' = [objs EXCEPT ![j] = [kind |-> kind, r |-> r]]
  /\ cursor' = cur
  /\ UNCHANGED <<stream, items, shelf>>

\* the caller has read the stream at hand to its end and begins another one; it keeps its objects and kept outputs
Another == /\ items # <<>> /\ Len(rd) = Len(items)
           /\ stream' = <<>> /\ items' = <<>> /\ cursor' = 0 /\ rd' = <<>>
           /\ UNCHANGED <<shelf, objs>>

\* every kept output still reads as the items it was handed back for (an invariant of the model; on the real code the
\* observation is the enabling condition of Peek)
KeptWire == \A h \in DOMAIN shelf : Len(shelf[h].stream) = SumLens(shelf[h].items, Len(shelf[h].items))

\* a factory call
Created(fam, tag, kind, reports) == kind # "nil" => reports = tag

\* ---- properties -----------------------------------------------------------
ReadBackAt(i) == /\ rd[i].kind = items[i].kind
                 /\ Restored(items[i], rd[i].r)
\* what was read equals what was written, item by item, in order
ReadBack == \A i \in 1..Len(rd) : ReadBackAt(i)
\* after j reads the cursor stands exactly behind the j-th item
CursorExact == cursor = SumLens(items, Len(rd))
\* a transaction record comes back as its normal form (over the fields of the format)
TxFields == {"Txid", "EndTime", "Service", "Elapsed", "Error", "CpuTime", "Malloc", "SqlCount", "SqlTime", "SqlFetchCount",
             "SqlFetchTime", "HttpcCount", "HttpcTime", "Active", "StepsDataPos", "Cipher", "IpAddr", "WClientId", "UserAgent",
             "Referer", "Status", "Mtid", "Mdepth", "Mcaller", "McallerPcode", "McallerOkind", "McallerOid", "McallerSpec",
             "McallerUrl", "MthisSpec", "HttpMethod", "Domain", "Fields", "Login", "ErrorLevel", "Oid", "Okind", "Onode", "Uuid",
             "DbcTime", "Apdex", "McallerStepId", "OriginUrl", "StepSplitCount"}
\* ... which are exactly the fields of the reference layout with every group present (an ASSUME of MC_Profile)
TxFieldsOK == TxFields = SpecCarried("TxRecord", [Mtid |-> LN(1), McallerPcode |-> LN(1)])
TxNormalizeAt(i) ==
  items[i].kind = "TxRecord" =>
     Bind(Normalize("TxRecord", items[i].w), LAMBDA n :
       \A f \in TxFields \cap DOMAIN items[i].w :
          IF f \in DOMAIN rd[i].r THEN SameLeaf(rd[i].r[f], n[f]) ELSE IsDefault(n[f]))
TxNormalize == \A i \in 1..Len(rd) : rd[i].kind = items[i].kind => TxNormalizeAt(i)
\* when every item has been read the whole stream has been consumed
AllConsumed == (rd # <<>> /\ Len(rd) = Len(items)) => cursor = Len(stream)
WireOK == Len(stream) = SumLens(items, Len(items))

Next == FALSE   \* the companions (MC_Profile, Trace_Profile) supply the next-state relations
=============================================================================
