------------------------ MODULE Trace_LockDiscipline ------------------------
(***************************************************************************)
(* Trace validation of what the real collections show of their lock        *)
(* discipline (harness/c10) against LockDiscipline and the lock table      *)
(* extracted from the tree under test.                                     *)
(*                                                                         *)
(*   Reset t                  a new type under observation                 *)
(*   Methods t ms             the exported methods of the COMPILED type,   *)
(*                            sorted: must be the table's public methods   *)
(*   Footprint t m p mode blocked after                                    *)
(*                            method m called while the lock of the object *)
(*                            at path p (<<>> = the instance) was held by  *)
(*                            the harness: it parked on the instance lock  *)
(*                            iff the table says executing m takes it (on  *)
(*                            a sub-object's lock only if the table says   *)
(*                            so); once released, the call came back.      *)
(*                            mode "shared" (a readers-writer lock held in *)
(*                            shared mode): it parked iff the table says m *)
(*                            takes the lock in EXCLUSIVE mode; mode       *)
(*                            "none" (the table knows no lock of the type: *)
(*                            nothing was held): it did not park           *)
(*   Outcome t m on out then  m called on an instance in state on          *)
(*                            (populated first; then empty, growing, full  *)
(*                            where the call can be made; self: m handed   *)
(*                            its own receiver; cross: a.m(b) against      *)
(*                            b.with(a) on two goroutines): returned |     *)
(*                            panicked; NO action for timeout.             *)
(*                            then = outcome of a lock-taking call made    *)
(*                            afterwards (a method that kept the lock)     *)
(*   Ran / Pair               [race-detector build] a concurrent program / *)
(*                            a directed pair of methods was executed      *)
(*   Race t a b ...           the race detector reported a data race       *)
(*                            between public operations a and b: there is  *)
(*                            an action only if one of them is not a point *)
(*                            operation (enumerating or reconfiguring      *)
(*                            while mutating is outside the property)      *)
(*   Done                     end of a history: every method was covered   *)
(*   Panic / Timeout          NO action                                    *)
(***************************************************************************)
EXTENDS LockDiscipline, TraceLib

VARIABLES l,     \* cursor
          ms,    \* the public methods of the type under observation (<<>>: not announced)
          cur,   \* how many of them the current pass has covered
          ph     \* "closed" | "open" (history begun) | "ran" (a concurrent program was executed)
tvars == <<vars, l, ms, cur, ph>>

TraceInit == /\ scen = [kind |-> "", ty |-> "", ms |-> <<>>] /\ stk = Idle /\ held = [t \in Threads |-> <<>>]
             /\ pend = [t \in Threads |-> <<>>] /\ secs = [t \in Threads |-> 0]
             /\ l = 1 /\ HwmInit /\ ms = <<>> /\ cur = 0 /\ ph = "closed"

e == Trace[l]
At(n) == IsEv(l, n) /\ l' = l + 1 /\ UNCHANGED vars

Finished == {"returned", "panicked"}
KnownType == Has(e, "t") /\ e.t \in TypeNames

TraceReset == /\ At("Reset") /\ KnownType /\ ph = "closed"
              /\ ph' = "open" /\ ms' = <<>> /\ cur' = 0
\* the exported methods of the compiled type are exactly the table's public methods
TraceMethods == /\ At("Methods") /\ KnownType /\ ph = "open" /\ ms = <<>>
                /\ Has(e, "ms") /\ e.ms = Pubs(e.t) /\ Len(e.ms) > 0
                /\ ms' = e.ms /\ UNCHANGED <<cur, ph>>
\* every pass goes through ALL the methods, in order: one pass per lock held
TraceFootprint ==
  /\ At("Footprint") /\ KnownType /\ ph = "open" /\ ms # <<>>
  /\ Has(e, "m") /\ Has(e, "p") /\ Has(e, "blocked")
  /\ IF cur = Len(ms) THEN cur' = 1 ELSE cur' = cur + 1
  /\ e.m = ms[cur']
  /\ LET mode == IF Has(e, "mode") THEN e.mode ELSE "excl" IN
     /\ mode \in {"excl", "shared", "none"}
     /\ (e.p = <<>> /\ mode = "shared") => LockKind(e.t) = "rwmutex"    \* only such a lock has a shared mode
     /\ (e.p = <<>> /\ mode = "none") => LockKind(e.t) \in {"none", "locker"}   \* a lock that cannot be held from outside
     /\ IF mode = "none" THEN ~e.blocked                                \* nothing was held
        ELSE IF e.p = <<>>                                             \* the instance lock: exactly
             THEN e.blocked = (IF mode = "shared" THEN TakesX(e.t, e.m, e.p) ELSE Takes(e.t, e.m, e.p))
             ELSE e.blocked => Takes(e.t, e.m, e.p)                    \* a sub-object's: the flattened table
                                                                       \* says "may take" (short-circuits, branches)
  /\ UNCHANGED <<ms, ph>>
\* each method on a populated instance, then (where it can be called) in the other states:
\* empty; growing (fresh keys across the re-hash thresholds); full (bound in force and reached)
TraceOutcome ==
  /\ At("Outcome") /\ KnownType /\ ph = "open" /\ ms # <<>>
  /\ Has(e, "m") /\ Has(e, "on") /\ Has(e, "out")
  /\ IF e.on = "populated" THEN cur < Len(ms) /\ cur' = cur + 1 ELSE cur > 0 /\ cur' = cur
  /\ e.m = ms[cur']
  /\ e.out \in Finished                                  \* no action for "timeout"
  /\ Has(e, "then") => e.then \in Finished               \* ... nor for a lock that stayed taken
  /\ UNCHANGED <<ms, ph>>
TraceRan == /\ At("Ran") /\ KnownType /\ ph \in {"open", "ran"} /\ ms = <<>>
            /\ Has(e, "panics") /\ e.panics = 0
            /\ ph' = "ran" /\ UNCHANGED <<ms, cur>>
TracePair == /\ At("Pair") /\ KnownType /\ ph \in {"open", "ran"} /\ ms = <<>>
             /\ Has(e, "out") /\ e.out \in Finished
             /\ ph' = "ran" /\ UNCHANGED <<ms, cur>>
\* a reported race is explainable only when it is not between two point operations (or batches of point operations)
TraceRace == /\ At("Race") /\ ph = "ran" /\ Has(e, "a") /\ Has(e, "b")
             /\ ~(IsJudged(e.a) /\ IsJudged(e.b))
             /\ UNCHANGED <<ms, cur, ph>>
TraceDone == /\ At("Done")
             /\ \/ ph = "open" /\ ms # <<>> /\ cur = Len(ms)
                \/ ph = "ran"
             /\ ph' = "closed" /\ UNCHANGED <<ms, cur>>

TraceNext == TraceReset \/ TraceMethods \/ TraceFootprint \/ TraceOutcome \/ TraceRan \/ TracePair \/ TraceRace \/ TraceDone

TraceSpec == TraceInit /\ [][TraceNext]_tvars

Hwm == HwmNote(l)
TraceAccepted == Accepted
=============================================================================
