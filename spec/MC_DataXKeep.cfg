\* every program of two writes over a reduced boundary set; reads interleaved with one late write
SPECIFICATION KSpec
CONSTANTS MaxLen = 2
          BlobLens = {0, 1, 254}
          KSet = {7}
          LateOps = {"Raw", "Int", "TextShort", "IntArr"}
INVARIANTS SizeOK ReadBack ExactConsumption NoStuck OutOK KComplete
PROPERTIES RdStable LateApart
CHECK_DEADLOCK FALSE
