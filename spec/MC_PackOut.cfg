SPECIFICATION MCSpec
CONSTANTS Mode = "fresh"
          MaxViews = 3
INVARIANTS HeldStable ViewsOK
CHECK_DEADLOCK FALSE
