--------------------------- MODULE LockDiscipline ---------------------------
(***************************************************************************)
(* C10 -- lock discipline of the shared collections of golib (util/hmap,   *)
(* util/list LinkedList, util/queue RequestQueue / RequestDoubleQueue).    *)
(*                                                                         *)
(* Each instance carries ONE lock: a non-reentrant mutex, or a readers-     *)
(* writer lock (sync.RWMutex: any number of holders in SHARED mode or one   *)
(* in exclusive mode; a thread that has announced an exclusive acquisition  *)
(* keeps new shared holders out -- Go's writer preference -- so taking the  *)
(* lock in shared mode twice on one thread can deadlock against a writer).  *)
(* A thread executing a public method goes through the method's steps       *)
(*                                                                         *)
(*   acq / rel      take / release the lock of the object the step is about *)
(*                  (a = "shared": RLock / RUnlock; Cond.Wait is rel        *)
(*                  followed by acq, both a = "wait")                      *)
(*   call  a b      run method b of the object (a = "") or of the          *)
(*                  sub-object held in field a (a collection with its own  *)
(*                  lock: the list inside a queue); the callee runs its    *)
(*                  own steps, including its own acq                       *)
(*   cb    b        run caller code: the handler held in field b, the       *)
(*                  comparator handed in as parameter b                    *)
(*   acc   r w      read the locations r and write the locations w of the  *)
(*                  object: f = field f, f* = the elements behind the      *)
(*                  slice field f, *.n = field n of some node of the       *)
(*                  instance                                               *)
(*                                                                         *)
(* Every step is about the receiver (o = "") or about the PEER: another    *)
(* instance of a collection type handed in as the parameter named o        *)
(* (PutAll(other)).  Which object the peer is belongs to the scenario: a   *)
(* second instance, the receiver ITSELF (m.PutAll(m)), or -- two threads   *)
(* -- each thread's receiver is the other thread's peer (a.PutAll(b)       *)
(* against b.PutAll(a)).                                                   *)
(*                                                                         *)
(* The step lists are NOT written here: they are extracted from the golib  *)
(* source on every run (harness/c10/extract.go, a go/ast pass) and read    *)
(* from a JSON file, so the model is always the model of the tree under    *)
(* test.  What is written here is the semantics of the steps and the       *)
(* property:                                                               *)
(*                                                                         *)
(*   NoSelfDeadlock    no thread ever waits for a lock it holds itself     *)
(*   NoMutualDeadlock  two calls never wait for each other                 *)
(*   NoLeak            a finished call holds no lock                       *)
(*   NoSplit           a point operation is ONE critical section: once it   *)
(*                     has released the lock of its instance it does not    *)
(*                     take it again (waiting on the condition variable is  *)
(*                     not a release in this sense).  A refutation is not a *)
(*                     verdict: two sections may still add up to an atomic  *)
(*                     operation.  It tells the linearizability binding     *)
(*                     which calls to let meet each other.                  *)
(*   NoDataRace        two threads running point operations are never at   *)
(*                     accesses of the same field of the same object, one  *)
(*                     of them a write.  (Both being there at once is      *)
(*                     exactly "no common lock protects the two accesses": *)
(*                     a common lock could not be held by both -- unless   *)
(*                     both hold it in SHARED mode: a step that writes      *)
(*                     while its thread holds the lock only in shared mode  *)
(*                     races with every other shared holder.)              *)
(*                                                                         *)
(* Which public methods are POINT operations is part of the property (put, *)
(* add, get, contains, remove, remove-first/last, clear, size, enqueue,    *)
(* dequeue) and is fixed below by name; enumerations, whole-structure      *)
(* operations (sort, key-array, contains-value, to-string, serialisation)  *)
(* and configuration setters (SetMax, SetCapacity, SetNullValue, IsFull,   *)
(* GetCapacity) are not: racing them against mutators is outside the       *)
(* property, their freedom from self-deadlock is inside.                   *)
(***************************************************************************)
EXTENDS Integers, Sequences, FiniteSets, TLC, Json, IOUtils

CONSTANTS Threads,     \* thread identities, e.g. {1, 2}
          PairWith     \* "point": pairs of point operations; "public": point operation x any public method

TableFile == IF "LOCKTABLE" \in DOMAIN IOEnv THEN IOEnv.LOCKTABLE ELSE "locktable.json"
Table == JsonDeserialize(TableFile).types

TypeNames       == DOMAIN Table
MethodsOf(ty)   == DOMAIN Table[ty].methods
StepsOf(ty, m)  == Table[ty].methods[m].steps
Pubs(ty)        == Table[ty].pubs                 \* sequence of the public method names
SeqRange(s)     == {s[i] : i \in 1..Len(s)}
SubFields(ty)   == {Table[ty].sub[i][1] : i \in 1..Len(Table[ty].sub)}
SubType(ty, f)  == Table[ty].sub[CHOOSE i \in 1..Len(Table[ty].sub) : Table[ty].sub[i][1] = f][2]
LockKind(ty)    == Table[ty].lockkind             \* "mutex" | "rwmutex" | "cond" | "locker" (a lock by its use) | "none"
\* the parameters of method m that hold another instance of a collection type: <<parameter, type>>
PeersOf(ty, m)  == Table[ty].methods[m].peers
PeerType(ty, m, p) == LET ps == PeersOf(ty, m) IN ps[CHOOSE i \in 1..Len(ps) : ps[i][1] = p][2]
TakesPeer(ty, m)   == \E i \in 1..Len(PeersOf(ty, m)) : PeersOf(ty, m)[i][2] = ty   \* m(other *ty)

\* ---- the point operations (from the property statement) -------------------
PointOps == {"Put", "PutFirst", "PutLast", "Add", "AddFirst", "AddLast", "AddNoOver", "AddIfExist", "Unipoint",
             "Get", "GetLRU", "GetFirst", "GetLast", "GetFirstKey", "GetLastKey", "GetFirstValue", "GetLastValue",
             "Contains", "ContainsKey", "HasKey",
             "Remove", "RemoveFirst", "RemoveLast", "Clear", "Size", "IsEmpty",
             "Put1", "Put2", "PutForce", "PutForce1", "PutForce2", "GetNoWait", "GetTimeout", "Size1", "Size2"}
IsPoint(m) == m \in PointOps
\* batch operations: one goroutine issuing a sequence of point operations through ONE public call (PutAll(values) = a put
\* per value).  They are not atomic and not one critical section by design (no NoSplit, no linearization point of their
\* own), but what they do to the instance between and around their point operations is part of "any concurrent mix of
\* point operations ... contains no data race": pre-growing the table, reading count / threshold, calling an unexported
\* helper -- all of it must happen under the instance lock.  Judged for NoDataRace against every point operation.
BatchOps == {"PutAll", "AddAll", "RemoveAll", "GetAll", "ContainsAll"}
IsBatch(m)  == m \in BatchOps
IsJudged(m) == IsPoint(m) \/ IsBatch(m)

\* ---- state -------------------------------------------------------------------
VARIABLES scen,   \* the scenario: [kind |-> "alone" | "pair" | "alias" | "cross", ty |-> type, ms |-> <<m>> or <<m1, m2>>]
                  \* (ms[t] runs on thread t)
          stk,    \* stk[t]: call stack, frames [o |-> object path, ty, m, pc, peer |-> the object its peer parameters hold]
          held,   \* held[t]: the locks t holds, in the order taken: <<object, "x" (exclusive) | "s" (shared)>>
          pend,   \* pend[t]: <<o>> when t has announced an exclusive acquisition of the readers-writer lock of o
                  \* and waits for the shared holders to leave; else <<>>
          secs    \* secs[t]: critical sections on the instance lock t's call has completed (0, 1, 2 = more)
vars == <<scen, stk, held, pend, secs>>

Root  == <<>>                                  \* the first instance; <<"queue">> = the list in its field queue
Other == <<"@">>                               \* the second instance ("@" is no field name)
Frame(o, ty, m, peer) == [o |-> o, ty |-> ty, m |-> m, pc |-> 1, peer |-> peer]
Busy(t) == stk[t] # <<>>
Top(t)  == stk[t][Len(stk[t])]
RetStep == [k |-> "ret", a |-> "", b |-> "", o |-> ""]
Cur(t)  == LET f == Top(t) IN
           IF f.pc <= Len(StepsOf(f.ty, f.m)) THEN StepsOf(f.ty, f.m)[f.pc] ELSE RetStep
\* the instance the current step of t is about, and its type
ObjOf(t)   == IF Cur(t).o = "" THEN Top(t).o ELSE Top(t).peer
ObjTyOf(t) == IF Cur(t).o = "" THEN Top(t).ty ELSE PeerType(Top(t).ty, Top(t).m, Cur(t).o)
Own(t)     == stk[t][1].o                      \* the instance t's public call runs on
Holds(t, o, mode) == \E i \in 1..Len(held[t]) : held[t][i] = <<o, mode>>
Excl(o) == {t \in Threads : Holds(t, o, "x")}
Shar(o) == {t \in Threads : Holds(t, o, "s")}
Pend(o) == {t \in Threads : pend[t] = <<o>>}
Advanced(s) == [s EXCEPT ![Len(s)] = [@ EXCEPT !.pc = @ + 1]]
\* s without its last occurrence of x
DropLast(s, x) == IF \E i \in 1..Len(s) : s[i] = x
                  THEN LET k == CHOOSE i \in 1..Len(s) : s[i] = x /\ \A j \in (i + 1)..Len(s) : s[j] # x
                       IN SubSeq(s, 1, k - 1) \o SubSeq(s, k + 1, Len(s))
                  ELSE s

\* t, at an acq step, can go on.  Exclusive: nobody holds the lock in exclusive mode (non-reentrant: the holder itself
\* waits too); on a readers-writer lock the acquisition is announced first (no other writer at work), which keeps new
\* shared holders out, and completed when the shared holders have left.  Shared: no exclusive holder, none announced.
CanAcq(t) == LET o == ObjOf(t) IN
             IF Cur(t).a = "shared" THEN Excl(o) = {} /\ Pend(o) = {}
             ELSE IF LockKind(ObjTyOf(t)) = "rwmutex"
                  THEN IF pend[t] = <<o>> THEN Shar(o) = {} ELSE Excl(o) = {} /\ Pend(o) = {}
                  ELSE Excl(o) = {}
Acquire(t) == /\ Busy(t) /\ Cur(t).k = "acq" /\ CanAcq(t)
              /\ LET o == ObjOf(t) IN
                 IF Cur(t).a # "shared" /\ LockKind(ObjTyOf(t)) = "rwmutex" /\ pend[t] # <<o>>
                 THEN /\ pend' = [pend EXCEPT ![t] = <<o>>]
                      /\ UNCHANGED <<held, stk>>
                 ELSE /\ held' = [held EXCEPT ![t] = Append(@, <<o, IF Cur(t).a = "shared" THEN "s" ELSE "x">>)]
                      /\ pend' = [pend EXCEPT ![t] = <<>>]
                      /\ stk' = [stk EXCEPT ![t] = Advanced(@)]
              /\ UNCHANGED <<scen, secs>>
Release(t) == /\ Busy(t) /\ Cur(t).k = "rel"
              /\ held' = [held EXCEPT ![t] = DropLast(@, <<ObjOf(t), IF Cur(t).a = "shared" THEN "s" ELSE "x">>)]
              /\ stk' = [stk EXCEPT ![t] = Advanced(@)]
              /\ secs' = IF ObjOf(t) = Own(t) /\ Cur(t).a # "wait" /\ secs[t] < 2
                         THEN [secs EXCEPT ![t] = @ + 1] ELSE secs
              /\ UNCHANGED <<scen, pend>>
Access(t) ==  /\ Busy(t) /\ Cur(t).k = "acc"
              /\ stk' = [stk EXCEPT ![t] = Advanced(@)]
              /\ UNCHANGED <<scen, held, pend, secs>>
Call(t) ==    /\ Busy(t) /\ Cur(t).k = "call"
              /\ LET f   == Top(t)
                     s   == Cur(t)
                     o2  == IF s.a = "" THEN ObjOf(t) ELSE Append(ObjOf(t), s.a)
                     ty2 == IF s.a = "" THEN ObjTyOf(t) ELSE SubType(ObjTyOf(t), s.a)
                     p2  == IF s.o = "" THEN f.peer ELSE f.o      \* a method of the peer called from here: its peer is us
                     runs == s.b \in MethodsOf(ty2) /\ Len(StepsOf(ty2, s.b)) > 0
                 IN stk' = [stk EXCEPT ![t] = IF runs THEN Append(Advanced(@), Frame(o2, ty2, s.b, p2)) ELSE Advanced(@)]
              /\ UNCHANGED <<scen, held, pend, secs>>
\* (also: going on past a step "exit" -- a return statement the extraction reached with the lock taken by an explicit
\* Lock, not given back and no Unlock deferred: the method MAY end there, see Return)
Callback(t) == /\ Busy(t) /\ Cur(t).k \in {"cb", "exit"}
               /\ stk' = [stk EXCEPT ![t] = Advanced(@)]
               /\ UNCHANGED <<scen, held, pend, secs>>
\* the frame ends: after its last step, or at a step "exit" (an early return; the extraction emits the step only where
\* no release is deferred, so nothing that would still run is skipped).  What the thread holds stays held: NoLeak
Return(t) ==  /\ Busy(t) /\ Cur(t).k \in {"ret", "exit"}
              /\ stk' = [stk EXCEPT ![t] = SubSeq(@, 1, Len(@) - 1)]
              /\ UNCHANGED <<scen, held, pend, secs>>

Next == \E t \in Threads : Acquire(t) \/ Release(t) \/ Access(t) \/ Call(t) \/ Callback(t) \/ Return(t)

\* ---- scenarios -------------------------------------------------------------------
Idle == [t \in Threads |-> <<>>]
\* one call; its peer parameters (if any) hold a second instance
Alone(ty, m) == /\ scen = [kind |-> "alone", ty |-> ty, ms |-> <<m>>]
                /\ stk = [Idle EXCEPT ![1] = <<Frame(Root, ty, m, Other)>>]
\* two calls on one instance
Pair(ty, m1, m2) == /\ scen = [kind |-> "pair", ty |-> ty, ms |-> <<m1, m2>>]
                    /\ stk = [Idle EXCEPT ![1] = <<Frame(Root, ty, m1, Other)>>, ![2] = <<Frame(Root, ty, m2, Other)>>]
\* one call handed its own receiver: x.m(x)
Alias(ty, m) == /\ scen = [kind |-> "alias", ty |-> ty, ms |-> <<m>>]
                /\ stk = [Idle EXCEPT ![1] = <<Frame(Root, ty, m, Root)>>]
\* two instances handed to each other: a.m1(b) against b.m2(a)
Cross(ty, m1, m2) == /\ scen = [kind |-> "cross", ty |-> ty, ms |-> <<m1, m2>>]
                     /\ stk = [Idle EXCEPT ![1] = <<Frame(Root, ty, m1, Other)>>, ![2] = <<Frame(Other, ty, m2, Root)>>]
Init == /\ held = [t \in Threads |-> <<>>]
        /\ pend = [t \in Threads |-> <<>>]
        /\ secs = [t \in Threads |-> 0]
        /\ \E ty \in TypeNames :
             \/ \E m \in SeqRange(Pubs(ty)) : Alone(ty, m)
             \/ \E i, j \in 1..Len(Pubs(ty)) :
                  /\ IsJudged(Pubs(ty)[i])
                  /\ IF PairWith = "point" THEN IsJudged(Pubs(ty)[j]) /\ i <= j
                                           ELSE IsJudged(Pubs(ty)[j]) => i <= j
                  /\ Pair(ty, Pubs(ty)[i], Pubs(ty)[j])
             \/ \E m \in SeqRange(Pubs(ty)) : TakesPeer(ty, m) /\ Alias(ty, m)
             \/ \E i, j \in 1..Len(Pubs(ty)) :
                  /\ i <= j /\ TakesPeer(ty, Pubs(ty)[i]) /\ TakesPeer(ty, Pubs(ty)[j])
                  /\ Cross(ty, Pubs(ty)[i], Pubs(ty)[j])

Spec == Init /\ [][Next]_vars

\* ---- the property ------------------------------------------------------------------
\* t waits for a lock that only t itself could give up: the exclusive lock it holds (any mode wanted), or -- wanting
\* exclusive -- its own shared hold
SelfDeadlock(t) == /\ Busy(t) /\ Cur(t).k = "acq"
                   /\ \/ Holds(t, ObjOf(t), "x")
                      \/ Cur(t).a # "shared" /\ Holds(t, ObjOf(t), "s")
NoSelfDeadlock  == \A t \in Threads : ~SelfDeadlock(t)

Waiting(t) == Busy(t) /\ Cur(t).k = "acq" /\ ~CanAcq(t)
\* (waiting for a lock that a FINISHED call kept is the consequence of a leak, reported as the leak it is: NoLeak)
NoMutualDeadlock == ~ /\ \E t \in Threads : Busy(t)
                      /\ \A t \in Threads : Busy(t) => Waiting(t)
                      /\ \A t \in Threads : ~SelfDeadlock(t)
                      /\ \A t \in Threads : ~Busy(t) => held[t] = <<>>

NoLeak == \A t \in Threads : ~Busy(t) => held[t] = <<>> /\ pend[t] = <<>>

\* a point operation about to open a second critical section on its instance
Split(t) == /\ Busy(t) /\ t <= Len(scen.ms) /\ IsPoint(scen.ms[t])
            /\ Cur(t).k = "acq" /\ Cur(t).a # "wait" /\ ObjOf(t) = Own(t) /\ secs[t] >= 1
NoSplit == \A t \in Threads : ~Split(t)
\* caller code (a handler, a comparator) run by a public method of ANY kind between two critical sections on its
\* instance: the lock was given up for the caller's function.  Like NoSplit a hint, not a verdict: it tells the gated
\* histories (another goroutine's point operation issued from inside the caller's function) where to put their effort.
OpenCallback(t) == /\ Busy(t) /\ Cur(t).k = "cb" /\ secs[t] >= 1
                   /\ ~Holds(t, Own(t), "x") /\ ~Holds(t, Own(t), "s")
NoOpenCallback == \A t \in Threads : ~OpenCallback(t)

\* the locations on which two threads conflict right now
ConflictOn(t1, t2) ==
  IF Busy(t1) /\ Busy(t2) /\ Cur(t1).k = "acc" /\ Cur(t2).k = "acc" /\ ObjOf(t1) = ObjOf(t2)
  THEN LET r1 == SeqRange(Cur(t1).r) w1 == SeqRange(Cur(t1).w)
           r2 == SeqRange(Cur(t2).r) w2 == SeqRange(Cur(t2).w)
       IN (w1 \cap (r2 \cup w2)) \cup (w2 \cap r1)
  ELSE {}
BothPoint == Len(scen.ms) = 2 /\ IsJudged(scen.ms[1]) /\ IsJudged(scen.ms[2])
NoDataRace == BothPoint => \A t1, t2 \in Threads : t1 # t2 => ConflictOn(t1, t2) = {}

\* recursion in the extracted call graph would make the stacks grow without bound
Bounded == \A t \in Threads : Len(stk[t]) <= 12

\* ---- consequences of the table that the code must show (trace validation) ------------
\* executing method m of a ty object takes, at some point, the lock of the object
\* at relative path p (<<>> = the object itself, <<"queue">> = the list in field queue);
\* x: in exclusive mode (what a caller parks on while somebody holds the lock in SHARED mode)
RECURSIVE TakesLock(_, _, _, _, _)
TakesLock(ty, m, p, d, x) ==
  /\ d > 0 /\ m \in MethodsOf(ty)
  /\ \E i \in 1..Len(StepsOf(ty, m)) :
       LET s == StepsOf(ty, m)[i] IN
       /\ s.o = ""                                   \* steps about a peer are about another instance
       /\ \/ s.k = "acq" /\ p = <<>> /\ (x => s.a # "shared")
          \/ s.k = "call" /\ s.a = "" /\ TakesLock(ty, s.b, p, d - 1, x)
          \/ s.k = "call" /\ s.a # "" /\ p # <<>> /\ p[1] = s.a /\ TakesLock(SubType(ty, s.a), s.b, Tail(p), d - 1, x)
Takes(ty, m, p)  == TakesLock(ty, m, p, 8, FALSE)
TakesX(ty, m, p) == TakesLock(ty, m, p, 8, TRUE)
=============================================================================
