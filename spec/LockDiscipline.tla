--------------------------- MODULE LockDiscipline ---------------------------
(***************************************************************************)
(* C10 -- lock discipline of the shared collections of golib (util/hmap,   *)
(* util/list LinkedList, util/queue RequestQueue / RequestDoubleQueue).    *)
(*                                                                         *)
(* Each instance carries ONE non-reentrant mutex.  A thread executing a    *)
(* public method goes through the method's steps                           *)
(*                                                                         *)
(*   acq / rel      take / release the lock of the object the method runs  *)
(*                  on (Cond.Wait is rel followed by acq, both a = "wait") *)
(*   call  a b      run method b of the same object (a = "") or of the     *)
(*                  sub-object held in field a (a collection with its own  *)
(*                  lock: the list inside a queue); the callee runs its    *)
(*                  own steps, including its own acq                       *)
(*   acc   r w      read the fields r and write the fields w of the object *)
(*                                                                         *)
(* The step lists are NOT written here: they are extracted from the golib  *)
(* source on every run (harness/c10/extract.go, a go/ast pass) and read    *)
(* from a JSON file, so the model is always the model of the tree under    *)
(* test.  What is written here is the semantics of the steps and the       *)
(* property:                                                               *)
(*                                                                         *)
(*   NoSelfDeadlock    no thread ever waits for a lock it holds itself     *)
(*   NoMutualDeadlock  two calls never wait for each other                 *)
(*   NoLeak            a finished call holds no lock                       *)
(*   NoSplit           a point operation is ONE critical section: once it   *)
(*                     has released the lock of its instance it does not    *)
(*                     take it again (waiting on the condition variable is  *)
(*                     not a release in this sense).  A refutation is not a *)
(*                     verdict: two sections may still add up to an atomic  *)
(*                     operation.  It tells the linearizability binding     *)
(*                     which calls to let meet each other.                  *)
(*   NoDataRace        two threads running point operations are never at   *)
(*                     accesses of the same field of the same object, one  *)
(*                     of them a write.  (Both being there at once is      *)
(*                     exactly "no common lock protects the two accesses": *)
(*                     a common lock could not be held by both.)           *)
(*                                                                         *)
(* Which public methods are POINT operations is part of the property (put, *)
(* add, get, contains, remove, remove-first/last, clear, size, enqueue,    *)
(* dequeue) and is fixed below by name; enumerations, whole-structure      *)
(* operations (sort, key-array, contains-value, to-string, serialisation)  *)
(* and configuration setters (SetMax, SetCapacity, SetNullValue, IsFull,   *)
(* GetCapacity) are not: racing them against mutators is outside the       *)
(* property, their freedom from self-deadlock is inside.                   *)
(***************************************************************************)
EXTENDS Integers, Sequences, FiniteSets, TLC, Json, IOUtils

CONSTANTS Threads,     \* thread identities, e.g. {1, 2}
          PairWith     \* "point": pairs of point operations; "public": point operation x any public method

TableFile == IF "LOCKTABLE" \in DOMAIN IOEnv THEN IOEnv.LOCKTABLE ELSE "locktable.json"
Table == JsonDeserialize(TableFile).types

TypeNames       == DOMAIN Table
MethodsOf(ty)   == DOMAIN Table[ty].methods
StepsOf(ty, m)  == Table[ty].methods[m].steps
Pubs(ty)        == Table[ty].pubs                 \* sequence of the public method names
SeqRange(s)     == {s[i] : i \in 1..Len(s)}
SubFields(ty)   == {Table[ty].sub[i][1] : i \in 1..Len(Table[ty].sub)}
SubType(ty, f)  == Table[ty].sub[CHOOSE i \in 1..Len(Table[ty].sub) : Table[ty].sub[i][1] = f][2]

\* ---- the point operations (from the property statement) -------------------
PointOps == {"Put", "PutFirst", "PutLast", "Add", "AddFirst", "AddLast", "AddNoOver", "AddIfExist", "Unipoint",
             "Get", "GetLRU", "GetFirst", "GetLast", "GetFirstKey", "GetLastKey", "GetFirstValue", "GetLastValue",
             "Contains", "ContainsKey", "HasKey",
             "Remove", "RemoveFirst", "RemoveLast", "Clear", "Size", "IsEmpty",
             "Put1", "Put2", "PutForce", "PutForce1", "PutForce2", "GetNoWait", "GetTimeout", "Size1", "Size2"}
IsPoint(m) == m \in PointOps

\* ---- state -------------------------------------------------------------------
VARIABLES scen,   \* the scenario: [ty |-> type, ms |-> <<m>> or <<m1, m2>>] (ms[t] runs on thread t)
          stk,    \* stk[t]: call stack, frames [o |-> object path, ty, m, pc]
          held,   \* held[t]: the objects whose lock t holds
          secs    \* secs[t]: critical sections on the instance lock t's call has completed (0, 1, 2 = more)
vars == <<scen, stk, held, secs>>

Root == <<>>                                   \* the instance itself; <<"queue">> = the list in its field queue
Frame(o, ty, m) == [o |-> o, ty |-> ty, m |-> m, pc |-> 1]
Busy(t) == stk[t] # <<>>
Top(t)  == stk[t][Len(stk[t])]
RetStep == [k |-> "ret"]
Cur(t)  == LET f == Top(t) IN
           IF f.pc <= Len(StepsOf(f.ty, f.m)) THEN StepsOf(f.ty, f.m)[f.pc] ELSE RetStep
Owners(o) == {t \in Threads : o \in held[t]}
Advanced(s) == [s EXCEPT ![Len(s)] = [@ EXCEPT !.pc = @ + 1]]

Acquire(t) == /\ Busy(t) /\ Cur(t).k = "acq"
              /\ Owners(Top(t).o) = {}                      \* non-reentrant: the holder itself waits too
              /\ held' = [held EXCEPT ![t] = @ \cup {Top(t).o}]
              /\ stk' = [stk EXCEPT ![t] = Advanced(@)]
              /\ UNCHANGED <<scen, secs>>
Release(t) == /\ Busy(t) /\ Cur(t).k = "rel"
              /\ held' = [held EXCEPT ![t] = @ \ {Top(t).o}]
              /\ stk' = [stk EXCEPT ![t] = Advanced(@)]
              /\ secs' = IF Top(t).o = Root /\ Cur(t).a # "wait" /\ secs[t] < 2
                         THEN [secs EXCEPT ![t] = @ + 1] ELSE secs
              /\ UNCHANGED scen
Access(t) ==  /\ Busy(t) /\ Cur(t).k = "acc"
              /\ stk' = [stk EXCEPT ![t] = Advanced(@)]
              /\ UNCHANGED <<scen, held, secs>>
Call(t) ==    /\ Busy(t) /\ Cur(t).k = "call"
              /\ LET f   == Top(t)
                     s   == Cur(t)
                     o2  == IF s.a = "" THEN f.o ELSE Append(f.o, s.a)
                     ty2 == IF s.a = "" THEN f.ty ELSE SubType(f.ty, s.a)
                     runs == s.b \in MethodsOf(ty2) /\ Len(StepsOf(ty2, s.b)) > 0
                 IN stk' = [stk EXCEPT ![t] = IF runs THEN Append(Advanced(@), Frame(o2, ty2, s.b)) ELSE Advanced(@)]
              /\ UNCHANGED <<scen, held, secs>>
Return(t) ==  /\ Busy(t) /\ Cur(t).k = "ret"
              /\ stk' = [stk EXCEPT ![t] = SubSeq(@, 1, Len(@) - 1)]
              /\ UNCHANGED <<scen, held, secs>>

Next == \E t \in Threads : Acquire(t) \/ Release(t) \/ Access(t) \/ Call(t) \/ Return(t)

\* ---- scenarios -------------------------------------------------------------------
Idle == [t \in Threads |-> <<>>]
Alone(ty, m) == /\ scen = [ty |-> ty, ms |-> <<m>>]
                /\ stk = [Idle EXCEPT ![1] = <<Frame(Root, ty, m)>>]
Pair(ty, m1, m2) == /\ scen = [ty |-> ty, ms |-> <<m1, m2>>]
                    /\ stk = [Idle EXCEPT ![1] = <<Frame(Root, ty, m1)>>, ![2] = <<Frame(Root, ty, m2)>>]
Init == /\ held = [t \in Threads |-> {}]
        /\ secs = [t \in Threads |-> 0]
        /\ \E ty \in TypeNames :
             \/ \E m \in SeqRange(Pubs(ty)) : Alone(ty, m)
             \/ \E i, j \in 1..Len(Pubs(ty)) :
                  /\ IsPoint(Pubs(ty)[i])
                  /\ IF PairWith = "point" THEN IsPoint(Pubs(ty)[j]) /\ i <= j
                                           ELSE IsPoint(Pubs(ty)[j]) => i <= j
                  /\ Pair(ty, Pubs(ty)[i], Pubs(ty)[j])

Spec == Init /\ [][Next]_vars

\* ---- the property ------------------------------------------------------------------
SelfDeadlock(t) == Busy(t) /\ Cur(t).k = "acq" /\ Top(t).o \in held[t]
NoSelfDeadlock  == \A t \in Threads : ~SelfDeadlock(t)

Waiting(t) == Busy(t) /\ Cur(t).k = "acq" /\ Owners(Top(t).o) # {}
NoMutualDeadlock == ~ /\ \E t \in Threads : Busy(t)
                      /\ \A t \in Threads : Busy(t) => Waiting(t)
                      /\ \A t \in Threads : ~SelfDeadlock(t)

NoLeak == \A t \in Threads : ~Busy(t) => held[t] = {}

\* a point operation about to open a second critical section on its instance
Split(t) == /\ Busy(t) /\ t <= Len(scen.ms) /\ IsPoint(scen.ms[t])
            /\ Cur(t).k = "acq" /\ Cur(t).a # "wait" /\ Top(t).o = Root /\ secs[t] >= 1
NoSplit == \A t \in Threads : ~Split(t)

\* the fields on which two threads conflict right now
ConflictOn(t1, t2) ==
  IF Busy(t1) /\ Busy(t2) /\ Cur(t1).k = "acc" /\ Cur(t2).k = "acc" /\ Top(t1).o = Top(t2).o
  THEN LET r1 == SeqRange(Cur(t1).r) w1 == SeqRange(Cur(t1).w)
           r2 == SeqRange(Cur(t2).r) w2 == SeqRange(Cur(t2).w)
       IN (w1 \cap (r2 \cup w2)) \cup (w2 \cap r1)
  ELSE {}
BothPoint == Len(scen.ms) = 2 /\ IsPoint(scen.ms[1]) /\ IsPoint(scen.ms[2])
NoDataRace == BothPoint => \A t1, t2 \in Threads : t1 # t2 => ConflictOn(t1, t2) = {}

\* recursion in the extracted call graph would make the stacks grow without bound
Bounded == \A t \in Threads : Len(stk[t]) <= 12

\* ---- consequences of the table that the code must show (trace validation) ------------
\* executing method m of a ty object takes, at some point, the lock of the object
\* at relative path p (<<>> = the object itself, <<"queue">> = the list in field queue)
RECURSIVE TakesLock(_, _, _, _)
TakesLock(ty, m, p, d) ==
  /\ d > 0 /\ m \in MethodsOf(ty)
  /\ \E i \in 1..Len(StepsOf(ty, m)) :
       LET s == StepsOf(ty, m)[i] IN
       \/ s.k = "acq" /\ p = <<>>
       \/ s.k = "call" /\ s.a = "" /\ TakesLock(ty, s.b, p, d - 1)
       \/ s.k = "call" /\ s.a # "" /\ p # <<>> /\ p[1] = s.a /\ TakesLock(SubType(ty, s.a), s.b, Tail(p), d - 1)
Takes(ty, m, p) == TakesLock(ty, m, p, 8)
=============================================================================
