SPECIFICATION MCSpec
CONSTANTS Design = "repaired"
          MaxLogs = 3
          MaxCycles = 1
          MaxAdv = 1
          MaxReads = 0
          MaxExt = 0
          MaxFaults = 1
          MaxLoggers = 2
          MaxSwitch = 3
          Slim = TRUE
INVARIANTS LinesWholeInOrder FileNameRight RotatesAfterCycle SuppressedOnlyWithin RetentionExact ReadHonest NoFaultNoLoss SurvivorsSurvive OldRemoved Recovers
CHECK_DEADLOCK FALSE
