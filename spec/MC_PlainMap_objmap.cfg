SPECIFICATION MCSpec
CONSTANTS Keys = {1, 2, 3}
          Vals <- ObjVals
          MaxVal = 1
          IsSet = FALSE
          None <- NoneNil
          Rej = FALSE
          EK = 0
          TName = "IntKeyMap"
          NHeld = 0
          NEnum = 0
VIEW View
ACTION_CONSTRAINT DumpT
INVARIANTS SetOK RefuseOK KeysBagExact ValuesBagExact EntriesBagExact NilIsAValue
PROPERTIES Frame PutStores RefusalInert RemoveExact ClearEmpties PutAllIsPuts ReadOnlyKeeps OthersKept PutAllFromIsPuts SizeLaw
CHECK_DEADLOCK FALSE
