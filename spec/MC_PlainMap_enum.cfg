SPECIFICATION MCSpec
CONSTANTS Keys = {1, 2, 3}
          Vals = {0, 1}
          MaxVal = 1
          IsSet = FALSE
          None <- NoneZero
          Rej = FALSE
          EK = 0
          TName = "IntIntMap"
          NHeld = 0
          NEnum = 1
VIEW View
INVARIANTS SetOK RefuseOK EnumsOK EnumLive EnumAny
PROPERTIES Frame ReadOnlyKeeps OthersKept SizeLaw EnumStepKeeps ReadKeepsEnums
CHECK_DEADLOCK FALSE
