SPECIFICATION MCSpec
CONSTANTS MaxSteps = 3
INVARIANTS CurIsValue CurRoundTrips WroteCurrent ReadBack ExactConsumption AllConsumed WireOK ReEncodeIdentical TagFirst
CHECK_DEADLOCK FALSE
