----------------------------- MODULE LazyStage ------------------------------
(***************************************************************************)
(* C04, second stage.  The first stage of a decoder may store a byte       *)
(* string undecoded in the object it returns (a table, a record stream)    *)
(* and decode it when an accessor first needs it.  The stored string is    *)
(* here a count-prefixed list of one-byte elements: <<c, e1, .., ec>>.     *)
(*                                                                         *)
(* Design ("parse first, publish after"):                                  *)
(*   Access: nothing stored => return what is published.  Otherwise parse  *)
(*           the stored bytes; c > bytes left => failed, NOTHING changes    *)
(*           (no allocation either: the count is checked before the slots  *)
(*           are made); else publish the c elements and drop the bytes.    *)
(*   Write:  the stored bytes if there are any, else the encoding of what  *)
(*           is published.                                                 *)
(*   Reload: the written bytes are decoded by the first stage again (a     *)
(*           new object that stores them).                                 *)
(* Named deviations TLC refutes:                                           *)
(*   DetachFirst: the stored bytes are dropped BEFORE they are parsed; a   *)
(*           failing parse leaves the elements it got to published.        *)
(*   PreSize: the slots are made from the count before it is checked.      *)
(***************************************************************************)
EXTENDS Integers, Sequences

CONSTANTS Slot, K, C, DetachFirst, PreSize

VARIABLES orig,    \* the bytes the first stage stored (never changes: what the input said)
          raw,     \* the bytes the object still holds undecoded
          pub,     \* the elements published to readers
          alloc,   \* bytes allocated by the last access
          hist     \* outcomes of the accesses so far, <<outcome, elements returned>>
lvars == <<orig, raw, pub, alloc, hist>>

Count(b) == b[1]
ParseOK(b) == Len(b) >= 1 /\ Count(b) <= Len(b) - 1
Elems(b) == SubSeq(b, 2, Count(b) + 1)
Partial(b) == IF Len(b) >= 1 THEN SubSeq(b, 2, Len(b)) ELSE <<>>
Encode(es) == <<Len(es)>> \o es

Access ==
  IF raw = <<>>
  THEN /\ hist' = Append(hist, <<"ok", pub>>) /\ alloc' = 0 /\ UNCHANGED <<orig, raw, pub>>
  ELSE /\ alloc' = IF Len(raw) >= 1 /\ (PreSize \/ ParseOK(raw)) THEN Count(raw) * Slot ELSE 0
       /\ IF ParseOK(raw)
          THEN /\ pub' = Elems(raw) /\ raw' = <<>> /\ hist' = Append(hist, <<"ok", Elems(raw)>>)
          ELSE /\ hist' = Append(hist, <<"failed", <<>> >>)
               /\ IF DetachFirst THEN raw' = <<>> /\ pub' = Partial(raw) ELSE UNCHANGED <<raw, pub>>
       /\ UNCHANGED orig

Written == IF raw # <<>> THEN raw ELSE Encode(pub)

\* write the object and decode the written bytes with the first stage
Reload == /\ raw' = Written /\ pub' = <<>> /\ alloc' = 0 /\ UNCHANGED <<orig, hist>>

LazyNext == Access \/ Reload

\* ---- properties ---------------------------------------------------------
\* an access returns data only if the stored bytes are a complete encoding, and then exactly their elements
NoFabrication2 == \A i \in 1..Len(hist) :
                     hist[i][1] = "ok" => (ParseOK(orig) /\ hist[i][2] = Elems(orig)) \/ (orig = <<>> /\ hist[i][2] = <<>>)
\* once an access failed no later access - of this object or of the object its written bytes decode to - returns data
StickyFailure == \A i, j \in 1..Len(hist) : (i < j /\ hist[i][1] = "failed") => hist[j][1] = "failed"
\* memory proportional to the stored bytes, not to the count in them
BoundedAlloc2 == alloc <= K * Len(orig) + C
=============================================================================
