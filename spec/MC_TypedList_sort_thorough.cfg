SPECIFICATION MCSpec
CONSTANTS Mode = "sort"
          Vals = {0, 1}
          MaxLen = 5
          MaxHeld = 0
VIEW View
INVARIANTS TypeOK Satisfiable RefSortAccepted RefusesBad SortedResult
PROPERTIES Frame
CHECK_DEADLOCK FALSE
