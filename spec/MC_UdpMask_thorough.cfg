SPECIFICATION MCSpec
CONSTANTS
  NotCleared <- MCNotCleared
  MaxToks = 4
INVARIANTS NoSecretLeft MaskedForm
CHECK_DEADLOCK FALSE
