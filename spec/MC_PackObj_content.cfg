SPECIFICATION MCSpec
CONSTANTS MaxSteps = 4
          Focus = "content"
          Deep = FALSE
INVARIANTS HashOwned Written
CHECK_DEADLOCK FALSE
