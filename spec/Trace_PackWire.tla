--------------------------- MODULE Trace_PackWire ---------------------------
(***************************************************************************)
(* Trace validation of the real golib writers against PackWire.            *)
(* Events (harness/c05):                                                   *)
(*   Reset                       new history (a fresh stretch of stream)   *)
(*   Enc  kind p bytes [again]   pack.ToBytesPack(p) = bytes; `again` = a   *)
(*                               second ToBytesPack of the same object     *)
(*                               (held: the caller kept the result while   *)
(*                               the client sent frames; bytes = what it   *)
(*                               shows afterwards)                         *)
(*   Send kind p lic             client.Send/SendFlush(p) under the license*)
(*                               text in force (client's or per-send)      *)
(*   Recv bytes                  the next frame the loopback peer took off *)
(*                               the TCP stream by the length field        *)
(*   Close extra                 the client closed; `extra` = bytes that    *)
(*                               arrived behind the last frame             *)
(* p is the projection of the pack (standard library only): header fields  *)
(* and the fields of its layout; see PackWire.tla for the representation.  *)
(* The pool maps of a counter pack are hash tables without an order of     *)
(* their own: in Enc events their entries are compared as a bag.           *)
(***************************************************************************)
EXTENDS PackWire, TraceLib

VARIABLE l
tvars == <<vars, l>>

TraceInit == Init /\ l = 1 /\ HwmInit

Step(e) == IsEv(l, e) /\ l' = l + 1

TraceReset == Step("Reset") /\ stream' = <<>> /\ sent' = <<>> /\ rpos' = 1 /\ got' = <<>>

Pairs(xs) == {<<xs[i].key, xs[i].val>> : i \in 1..Len(xs)}
SameBag(a, b) == Len(a) = Len(b) /\ Pairs(a) = Pairs(b)

\* the bytes ToBytesPack must have produced; for a counter with pool maps the
\* order of their entries is taken from the bytes, the content from p
Matches(kind, p, bytes) ==
  IF kind = "counter" /\ Len(p.dbOpt) = 1
  THEN Bind(DecPack(bytes, 1), LAMBDA d :
         /\ d.ok /\ d.kind = kind /\ d.next = Len(bytes) + 1
         /\ Len(d.v.dbOpt) = 1
         /\ SameBag(d.v.dbOpt[1].active, p.dbOpt[1].active)
         /\ SameBag(d.v.dbOpt[1].idle, p.dbOpt[1].idle)
         /\ bytes = PackBytes(kind, [p EXCEPT !.dbOpt = d.v.dbOpt]))
  ELSE bytes = PackBytes(kind, p)

TraceEnc == /\ Step("Enc")
            /\ LET e == Trace[l] IN
                 /\ e.kind \in Kinds
                 /\ Fits(e.kind, e.p)
                 /\ IF Matches(e.kind, e.p, e.bytes) THEN TRUE
                    ELSE PrintT(<<"line", l, "Enc", e.kind, "reference bytes", PackBytes(e.kind, e.p)>>) /\ FALSE
                 /\ (Has(e, "again") => e.again = e.bytes)
            /\ UNCHANGED vars

TraceSend == /\ Step("Send")
             /\ LET e == Trace[l] IN Send(e.kind, e.p, e.lic)

\* a frame the peer took must be the next frame sent; a rejected line prints the reference frame
TraceRecv == /\ Step("Recv")
             /\ IF Len(got) < Len(sent) /\ Trace[l].bytes = sent[Len(got) + 1] THEN TRUE
                ELSE PrintT(<<"line", l, "Recv", "reference frame",
                              IF Len(got) < Len(sent) THEN sent[Len(got) + 1] ELSE "nothing sent">>) /\ FALSE
             /\ Recv
             /\ Trace[l].bytes = got'[Len(got')]

TraceClose == /\ Step("Close")
              /\ Close
              /\ Trace[l].extra = <<>>

InvAll == Intact /\ Cursor /\ NoStuck

TraceNext == (TraceReset \/ TraceEnc \/ TraceSend \/ TraceRecv \/ TraceClose) /\ InvAll'

TraceSpec == TraceInit /\ [][TraceNext]_tvars

Hwm == HwmNote(l)
TraceAccepted == Accepted
=============================================================================
