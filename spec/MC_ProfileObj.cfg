SPECIFICATION OSpec
CONSTANTS MaxLen = 2
          Cands = "abstract3"
          Reader = "ref"
          MaxKeep = 0
          Encoder = "fresh"
          MaxObj = 1
          MaxStreams = 2
          Writer = "current"
          Receiver = "clean"
INVARIANTS ReadBack CursorExact TxNormalize AllConsumed WireOK
CHECK_DEADLOCK FALSE
