-------------------------- MODULE Trace_ValueLaws ---------------------------
(***************************************************************************)
(* Trace validation of the real value.Equals / value.CompareTo against the *)
(* laws of ValueLaws (C20).  Events (harness/c20):                         *)
(*   Reset                                                                 *)
(*   Pool vals E C dec    a pool of values (projections as in Trace_Value; *)
(*                        originals followed by the objects ReadValue      *)
(*                        returned for their encodings); E and C are the   *)
(*                        n x n matrices in row-major order:               *)
(*                        E[(i-1)*n+j] = result of vals[i].Equals(vals[j]) *)
(*                        (1/0, 2 = panicked), C[(i-1)*n+j] = sign of      *)
(*                        vals[i].CompareTo(vals[j]) (2 = panicked);       *)
(*                        dec[i] = index of the decoded copy of member i   *)
(*                        (0: none)                                        *)
(*   End n                n pools were judged in this history              *)
(* TLC evaluates every law over all pairs and triples of the pool.         *)
(***************************************************************************)
EXTENDS ValueLaws, TraceLib

VARIABLES l, judged
tvars == <<lvars, l, judged>>

TraceInit == LInit /\ l = 1 /\ judged = 0 /\ HwmInit

Step(e) == IsEv(l, e) /\ l' = l + 1

\* a row-major n*n tuple as a tuple of rows
Square(flat, n) == [i \in 1..n |-> SubSeq(flat, (i - 1) * n + 1, i * n)] \o <<>>

TraceReset == Step("Reset") /\ pool' = EmptyPool /\ focus' = {} /\ judged' = 0

TracePool == /\ Step("Pool")
             /\ LET e == Trace[l] IN
                  /\ \A i \in 1..Len(e.vals) : IsValue(e.vals[i])
                  /\ Len(e.E) = Len(e.vals) * Len(e.vals) /\ Len(e.C) = Len(e.E)
                  /\ \E p \in {MkPool(e.vals, Square(e.E, Len(e.vals)), Square(e.C, Len(e.vals)), e.dec)} : Judge(p, Members(p))
             /\ judged' = judged + 1

TraceEnd == Step("End") /\ Trace[l].n = judged /\ UNCHANGED <<lvars, judged>>

InvAll == PTotal /\ PRefl /\ PSym /\ PTransE /\ PDecodeEqual /\ PAntisym /\ PTransC /\ PScalarConsistent /\ PTypeOrder

TraceNext == (TraceReset \/ TracePool \/ TraceEnd) /\ InvAll'
TraceSpec == TraceInit /\ [][TraceNext]_tvars

Hwm == HwmNote(l)
TraceAccepted == Accepted
=============================================================================
