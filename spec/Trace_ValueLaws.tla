-------------------------- MODULE Trace_ValueLaws ---------------------------
(***************************************************************************)
(* Trace validation of the real value.Equals / value.CompareTo against the *)
(* laws of ValueLaws (C20).  Events (harness/c20):                         *)
(*   Reset                                                                 *)
(*   Pool vals E C dec    a pool of values (projections as in Trace_Value; *)
(*                        originals followed by the objects ReadValue      *)
(*                        returned for their encodings); E and C are the   *)
(*                        n x n matrices in row-major order:               *)
(*                        E[(i-1)*n+j] = result of vals[i].Equals(vals[j]) *)
(*                        (1/0, 2 = panicked), C[(i-1)*n+j] = sign of      *)
(*                        vals[i].CompareTo(vals[j]) (2 = panicked);       *)
(*                        dec[i] = index of the decoded copy of member i   *)
(*                        (0: none); optional twin[i] = index of the member*)
(*                        built afresh from the observed content of i      *)
(*   Mutate ops           public mutators were called on members of the    *)
(*                        pool just judged: ops[k] = [i, op, arg]; the     *)
(*                        next Pool is the judgement of the same objects   *)
(*                        (their decoded copies and twins made anew)       *)
(*   End n m              n pools were judged, m rounds of mutators ran    *)
(* TLC evaluates every law over all pairs and triples of the pool.         *)
(***************************************************************************)
EXTENDS ValueLaws, TraceLib

VARIABLES l, judged, rounds
tvars == <<lvars, l, judged, rounds>>

TraceInit == LInit /\ l = 1 /\ judged = 0 /\ rounds = 0 /\ HwmInit

Step(e) == IsEv(l, e) /\ l' = l + 1

\* a row-major n*n tuple as a tuple of rows
Square(flat, n) == [i \in 1..n |-> SubSeq(flat, (i - 1) * n + 1, i * n)] \o <<>>

TraceReset == Step("Reset") /\ pool' = EmptyPool /\ focus' = {} /\ prev' = EmptyPool /\ cont' = FALSE /\ muts' = {}
              /\ judged' = 0 /\ rounds' = 0

TracePool == /\ Step("Pool")
             /\ LET e == Trace[l] IN
                  /\ \A i \in 1..Len(e.vals) : IsValue(e.vals[i])
                  /\ Len(e.E) = Len(e.vals) * Len(e.vals) /\ Len(e.C) = Len(e.E)
                  /\ Len(e.dec) = Len(e.vals) /\ (Has(e, "twin") => Len(e.twin) = Len(e.vals))
                  /\ \E p \in {MkPoolT(e.vals, Square(e.E, Len(e.vals)), Square(e.C, Len(e.vals)), e.dec,
                                       IF Has(e, "twin") THEN e.twin ELSE [i \in 1..Len(e.vals) |-> 0])} : Judge(p, Members(p))
             /\ judged' = judged + 1 /\ UNCHANGED rounds

TraceMutate == /\ Step("Mutate")
               /\ LET e == Trace[l] IN
                    /\ \A k \in 1..Len(e.ops) : Has(e.ops[k], "i") /\ Has(e.ops[k], "op")
                    /\ Mutate(e.ops)
               /\ rounds' = rounds + 1 /\ UNCHANGED judged

\* a history does not end between a round of mutators and the judgement of its outcome
TraceEnd == Step("End") /\ Trace[l].n = judged /\ (Has(Trace[l], "m") => Trace[l].m = rounds) /\ ~cont
            /\ UNCHANGED <<lvars, judged, rounds>>

InvAll == PTotal /\ PRefl /\ PSym /\ PTransE /\ PDecodeEqual /\ PAntisym /\ PTransC /\ PScalarConsistent /\ PTypeOrder /\ PFresh /\ PStable

TraceNext == (TraceReset \/ TracePool \/ TraceMutate \/ TraceEnd) /\ InvAll'
TraceSpec == TraceInit /\ [][TraceNext]_tvars

Hwm == HwmNote(l)
TraceAccepted == Accepted
=============================================================================
