----------------------------- MODULE MC_PlainMap -----------------------------
(***************************************************************************)
(* Exhaustive exploration of the PlainMap design for small constants:      *)
(* every public operation from every reachable state over Keys x Vals.     *)
(* The state space is finite (stored values are capped by MaxVal: an add   *)
(* that would exceed it is not taken), so TLC explores ALL operation       *)
(* sequences, not a depth-bounded prefix.                                  *)
(*                                                                         *)
(* `act` records the label of the last step so that the clauses of the     *)
(* property statement ("behaves like a mathematical map") can be checked   *)
(* as ACTION properties formulated independently of the operators used to  *)
(* define the actions (frame conditions, sequential fold for put-all).     *)
(* The wire form and the bag operators used by the trace specification are *)
(* checked as state invariants over every arrangement of the entries.      *)
(***************************************************************************)
EXTENDS PlainMap, Json

CONSTANTS Keys, Vals, MaxVal, IsSet, None, Rej, EK, TName, NHeld, NEnum

VARIABLE act
mcvars == <<vars, act>>

\* what the type of this configuration offers: add / add-if-exist and the wire
\* form exist on the int-to-int map only; only the int-to-object map stores nil
HasAdd  == TName = "IntIntMap"
HasWire == TName = "IntIntMap"
HasNil  == TName = "IntKeyMap"
\* put-all with another live object as the argument: the int-to-object map takes
\* a map; the int-to-int map reads the wire form the other map wrote
HasFrom == TName \in {"IntIntMap", "IntKeyMap"}
\* NHeld > 0: the scope of TWO live objects (one held from the start).  The
\* read-only calls are thinned there (every step of the replay is followed by
\* the complete enumeration of both objects anyway).
Pair == NHeld > 0

Cfg == [t |-> TName, set |-> IsSet, none |-> None, rej |-> Rej, nil |-> HasNil, ek |-> EK]
\* every value the scope can store / ask for (the nil object's code is in Vals
\* in the int-to-object configuration)
ValU == (0..MaxVal) \cup Vals

MCInit == /\ m = EmptyFn /\ cfg = Cfg /\ arrs = <<>> /\ ens = <<>>
          /\ held = [i \in 1..NHeld |-> EmptyFn]
          /\ act = <<"Init", 0, 0, <<>>, <<>>>>

Lbl(n, k, v) == act' = <<n, k, v, <<>>, <<>>>>
LblAll(ks, vs) == act' = <<"PutAll", 0, 0, ks, vs>>

AddFits(k, v) == IF Present(k) THEN m[k] + v <= MaxVal ELSE TRUE

\* (with nil among the values VLo is the nil object: put-all carries it)
VLo == CHOOSE v \in Vals : \A w \in Vals : v <= w
VHi == CHOOSE v \in Vals : \A w \in Vals : v >= w
\* argument lists of put-all: none, two different keys, the same key twice
\* (the later pair wins), a key together with key 1
PutAllArgs == {<<<<>>, <<>>>>}
              \cup {<<<<k, 1>>, <<VLo, VHi>>>> : k \in Keys}
              \cup {<<<<k, k>>, <<VHi, VLo>>>> : k \in Keys}

InsertNames == {"Put", "Unipoint"}
ReadNames == IF Pair THEN {"Entries", "KeyArray", "ToBytes"}
             ELSE {"IsEmpty", "ToString", "ToFormatString", "Keys", "Values", "Entries", "KeyArray",
                   "ValueArray", "ToBytes"}
\* the same map afterwards, but its structure was rebuilt (open enumerators end)
RebuildNames == {"RoundTrip"}
\* NEnum > 0: the scope of STEPPED enumerations -- up to NEnum enumerators open
\* at a time, opened and stepped one element at a time between all other calls
\* what an enumerator of a kind can be claimed to yield
CandOf(kd) == IF kd = "e" THEN Keys \X (ValU \cup Keys) ELSE Keys \cup ValU
MemberNames == IF Pair THEN {"Get", "Contains"} ELSE {"Get", "ContainsKey", "Contains", "HasKey"}
DirCount == IF Pair THEN 1 ELSE 3

MCNext ==
  \/ \E k \in Keys, v \in Vals, n \in InsertNames : Put(k, v) /\ Lbl(n, k, v)
  \/ \E k \in Keys, v \in Vals :
       \/ HasAdd /\ AddFits(k, v) /\ Add(k, v) /\ Lbl("Add", k, v)
       \/ HasAdd /\ AddFits(k, v) /\ AddIfExist(k, v) /\ Lbl("AddIfExist", k, v)
  \/ \E k \in Keys : Remove(k) /\ Lbl("Remove", k, 0)
  \/ Clear /\ Lbl("Clear", 0, 0)
  \/ \E a \in PutAllArgs : PutAll(a[1], a[2]) /\ LblAll(a[1], a[2])
  \* read-only calls: stuttering steps, labelled so that the dumped state graph
  \* (below) makes the replayer issue them from every reachable state
  \/ \E n \in ReadNames : ReadOnly /\ Lbl(n, 0, 0)
  \/ \E n \in RebuildNames : Rebuild /\ Lbl(n, 0, 0)
  \/ \E k \in Keys, n \in MemberNames : ReadOnly /\ Lbl(n, k, 0)
  \/ \E v \in ValU \cup {MaxVal + 1} : ~IsSet /\ ~Pair /\ ReadOnly /\ Lbl("ContainsValue", 0, v)
  \* several live objects: calls go to the other object; put-all with the other
  \* object (0: the object itself) as the argument
  \/ \E h \in 1..Len(held) : Swap(h) /\ Lbl("Swap", h, 0)
  \/ \E h \in 0..Len(held) : HasFrom /\ PutAllFrom(h) /\ Lbl("PutAllFrom", h, 0)
  \/ \E i \in 1..DirCount : Rebuild /\ Lbl("Sort", i, 0)
  \* stepped enumerations (label: which enumerator; the element is in ens')
  \/ \E kd \in EnumKinds : Len(ens) < NEnum /\ EnumOpen(kd) /\ Lbl("EnumOpen", 0, 0)
  \/ \E i \in 1..Len(ens) : \E x \in CandOf(ens[i].kind) : EnumNext(i, x) /\ Lbl("EnumNext", i, 0)
  \/ Len(ens) > 0 /\ EnumForget /\ Lbl("EnumDrop", 0, 0)

MCSpec == MCInit /\ [][MCNext]_mcvars

SeqsUpTo(S, n) == UNION {[1..i -> S] : i \in 0..n}
Injective(s) == \A i, j \in 1..Len(s) : s[i] = s[j] => i = j
NK == Cardinality(Keys)

\* ---- "behaves like a mathematical map" as action properties ------------------
A == act'[1]
K == act'[2]
V == act'[3]
PointOps == {"Put", "Unipoint", "Add", "AddIfExist", "Remove"}
Ok == ~(Rej /\ K = EK)
\* a call naming key K touches no other key
FrameA == A \in PointOps =>
            \A x \in Keys \ {K} : /\ (x \in DOMAIN m') = (x \in DOMAIN m)
                                  /\ x \in DOMAIN m => m'[x] = m[x]
Frame == [][FrameA]_mcvars
\* what was put is what is stored (a set stores the key)
PutStoresA == (A \in InsertNames /\ Ok) => (K \in DOMAIN m' /\ m'[K] = IF IsSet THEN K ELSE V)
PutStores == [][PutStoresA]_mcvars
\* a refused key changes nothing
RefusalInertA == (A \in InsertNames /\ ~Ok) => m' = m
RefusalInert == [][RefusalInertA]_mcvars
AddSumsA == A = "Add" => (K \in DOMAIN m' /\ m'[K] = IF K \in DOMAIN m THEN m[K] + V ELSE V)
AddSums == [][AddSumsA]_mcvars
AddIfExistNeverCreatesA == A = "AddIfExist" =>
                             /\ DOMAIN m' = DOMAIN m
                             /\ K \in DOMAIN m => m'[K] = m[K] + V
AddIfExistNeverCreates == [][AddIfExistNeverCreatesA]_mcvars
RemoveExactA == A = "Remove" => K \notin DOMAIN m'
RemoveExact == [][RemoveExactA]_mcvars
ClearEmptiesA == A = "Clear" => DOMAIN m' = {}
ClearEmpties == [][ClearEmptiesA]_mcvars
\* put-all is the pairs put one after the other
RECURSIVE SeqPut(_, _, _, _)
SeqPut(f, ks, vs, i) ==
  IF i > Len(ks) THEN f
  ELSE SeqPut(IF Rej /\ ks[i] = EK THEN f ELSE Upd(f, ks[i], IF IsSet THEN ks[i] ELSE vs[i]), ks, vs, i + 1)
PutAllIsPutsA == A = "PutAll" => m' = SeqPut(m, act'[4], act'[5], 1)
PutAllIsPuts == [][PutAllIsPutsA]_mcvars
ReadOnlyKeepsA == A \in ReadNames \cup RebuildNames \cup MemberNames \cup {"ContainsValue", "Sort"} => m' = m
ReadOnlyKeeps == [][ReadOnlyKeepsA]_mcvars
\* a call on one object changes no other live object; Swap only changes which
\* object the calls are made on
OthersKeptA == /\ A # "Swap" => held' = held
               /\ A = "Swap" => (m' = held[K] /\ held'[K] = m /\ Len(held') = Len(held)
                                 /\ \A i \in 1..Len(held) : i # K => held'[i] = held[i])
OthersKept == [][OthersKeptA]_mcvars
\* put-all from an object = its entries put one after the other, in whatever
\* order they are enumerated
PutAllFromIsPutsA ==
  A = "PutAllFrom" =>
    LET src == IF K = 0 THEN m ELSE held[K] IN
    \A o \in {o \in SeqsUpTo(Keys, NK) : Injective(o) /\ Range(o) = DOMAIN src} :
       m' = SeqPut(m, o, [i \in 1..Len(o) |-> src[o[i]]], 1)
PutAllFromIsPuts == [][PutAllFromIsPutsA]_mcvars
\* ---- stepped enumerations ------------------------------------------------------
\* opening and stepping an enumerator is not a modification: no map, no other
\* enumerator changes; the stepped one grows by exactly one element
EnumStepKeepsA ==
  A \in {"EnumOpen", "EnumNext"} =>
    /\ m' = m /\ held' = held
    /\ A = "EnumOpen" => (Len(ens') = Len(ens) + 1 /\ \A i \in 1..Len(ens) : ens'[i] = ens[i])
    /\ A = "EnumNext" => /\ Len(ens') = Len(ens)
                          /\ \A i \in 1..Len(ens) : i # K => ens'[i] = ens[i]
                          /\ Len(ens'[K].out) = Len(ens[K].out) + 1
EnumStepKeeps == [][EnumStepKeepsA]_mcvars
\* a read-only call leaves every open enumerator where it is
ReadKeepsEnumsA == A \in ReadNames \cup MemberNames \cup {"ContainsValue"} => ens' = ens
ReadKeepsEnums == [][ReadKeepsEnumsA]_mcvars
\* an enumerator that has not yielded everything can always go on (the stepping
\* rule never wedges): with EnumsOK, every enumeration that runs to its end
\* without a modification in between is exactly an arrangement of the stored
\* elements, whatever read-only calls and other enumerators ran in between
EnumLive == \A i \in 1..Len(ens) :
              EnumMore(i) => \E x \in CandOf(ens[i].kind) : ElemOK(ens[i].kind, ens[i].out, x)
\* ... and whatever arrangement an enumeration is in the end, the stepping rule
\* lets it be yielded element by element (no arrangement is excluded)
EnumAny == \A kd \in EnumKinds : \A i \in 1..Len(ens) :
             (ens[i].kind = kd /\ EnumMore(i)) =>
               \A x \in CandOf(kd) :
                 ElemOK(kd, ens[i].out, x) =
                   (\E o \in SeqsUpTo(Keys, NK) :
                      /\ Injective(o) /\ Range(o) = Stored
                      /\ LET full == [j \in 1..Len(o) |-> CASE kd = "k" -> o[j]
                                                            [] kd = "v" -> m[o[j]]
                                                            [] kd = "e" -> <<o[j], m[o[j]]>>]
                             pre  == Append(ens[i].out, x)
                         IN SubSeq(full, 1, Len(pre)) = pre)

\* the size moves by at most one per point operation, and exactly as membership says
SizeLawA == A \in PointOps =>
              Cardinality(DOMAIN m') - Cardinality(DOMAIN m) =
                 (IF K \in DOMAIN m' THEN 1 ELSE 0) - (IF K \in DOMAIN m THEN 1 ELSE 0)
SizeLaw == [][SizeLawA]_mcvars

\* a key stored with the nil object is stored: what a lookup answers for it is
\* what it answers for an absent key, membership and size still count it; a type
\* without nil answers every stored value as itself
NilIsAValue == \A k \in Keys :
                 /\ (Present(k) /\ HasNil /\ m[k] = NilV) => (Lookup(k) = None /\ HasValue(NilV))
                 /\ (Present(k) /\ ~(HasNil /\ m[k] = NilV)) => Lookup(k) = <<m[k]>>
                 /\ ~Present(k) => Lookup(k) = None

\* ---- the bag operators accept exactly the arrangements ----------------------
KeysBagExact == \A s \in SeqsUpTo(Keys, NK) :
                   KeysBagOK(s) = (Injective(s) /\ Range(s) = Stored)
\* a value sequence is accepted iff it is the value projection of some arrangement of the keys
ValuesBagExact == \A s \in SeqsUpTo(ValU, NK) :
                     (~IsSet) => (ValuesBagOK(s) =
                                  (\E o \in SeqsUpTo(Keys, NK) :
                                      /\ Injective(o) /\ Range(o) = Stored /\ Len(o) = Len(s)
                                      /\ \A i \in 1..Len(s) : s[i] = m[o[i]]))
EntriesBagExact == \A s \in SeqsUpTo(Keys \X ValU, NK) :
                      /\ EntriesBagOK(s) = (Injective(s) /\ Range(s) = PairsOf(m))
                      /\ ProjOK([i \in 1..Len(s) |-> s[i][1]], [i \in 1..Len(s) |-> s[i][2]]) = EntriesBagOK(s)

\* ---- the wire form: every arrangement is a wire form of m and reads back to m --
\* (keys 1..3 stand for the real keys -1, 0, 1; values as stored)
KW(k) == IntToW8(k - 2)
Arrangements == {o \in SeqsUpTo(Keys, NK) : Injective(o) /\ Range(o) = Stored}
WireRoundTrip ==
  HasWire => \A o \in Arrangements :
     LET b == WireOf(m, o, KW) IN
       /\ WireOK(b, m, KW)
       /\ WireDec(b).ok
       /\ FromWire(WireDec(b).pairs) = [w \in {KW(k) : k \in Stored} |->
                                          IntToW8(m[CHOOSE k \in Stored : KW(k) = w])]
       \* a truncated or extended form is not a wire form
       /\ ~WireOK(b \o <<0>>, m, KW)
       /\ (Len(b) > 1 => ~WireOK(SubSeq(b, 1, Len(b) - 1), m, KW))

\* ---- (B) the complete labelled state graph, one line of output per transition ---
\* Used as ACTION_CONSTRAINT (always TRUE): TLC evaluates it for EVERY successor
\* it generates, also those leading to states already seen.  checks/c12.py turns
\* the lines into harness/c12/graph_*.txt, which the Go driver replays edge by
\* edge on each real type.  A state is printed as its keys in ascending order
\* and the values in that order (the enumeration order of a plain map is free).
NthKey(f, i) == CHOOSE k \in DOMAIN f : Cardinality({x \in DOMAIN f : x < k}) = i - 1
KeySeq(f) == [i \in 1..Cardinality(DOMAIN f) |-> NthKey(f, i)]
ValSeq(f) == [i \in 1..Cardinality(DOMAIN f) |-> f[NthKey(f, i)]]
HeldSeq(hs) == [i \in 1..Len(hs) |-> <<KeySeq(hs[i]), ValSeq(hs[i])>>]
DumpT == PrintT(ToJson(<<"T", KeySeq(m), ValSeq(m), act', KeySeq(m'), ValSeq(m'), HeldSeq(held), HeldSeq(held')>>))

NoneNil  == <<>>
\* the values of the int-to-object scope: the nil object, two other objects
ObjVals  == {NilV, 0, 1}
\* ... of the two-object scope: the nil object, one other object
ObjVals2 == {NilV, 0}
NoneZero == <<0>>
View == vars
=============================================================================
