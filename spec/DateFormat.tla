----------------------------- MODULE DateFormat ------------------------------
(***************************************************************************)
(* The pattern-based date format of util/dateutil (C19).                   *)
(*                                                                         *)
(* A pattern is a sequence of items; an item is the UTF-8 byte tuple of    *)
(* one character of the pattern string.  The seven field letters           *)
(*     y (4 digits)  m d H M S (2 digits)  s (3 digits, millisecond)       *)
(* stand for zero-padded decimal fields of the instant, every other        *)
(* character is a literal that is copied (Format) or skipped (Parse).      *)
(* Parse reads fixed widths, so a formatted text is never ambiguous.       *)
(*                                                                         *)
(* Round trip: parsing Format(p, t) with p gives an instant that agrees    *)
(* with t on every field present in p.  Fields absent from p are           *)
(* unconstrained: the implementation documents that it takes them from the *)
(* current time.  A present date field is also unconstrained where an      *)
(* absent one can push it through the normalisation of an impossible date  *)
(* (day 29..31 with the month taken from the clock, February 29 with the   *)
(* year taken from the clock, a month shorter than 31 days with the day    *)
(* taken from the clock): the property is silent there and so is Required  *)
(* below; MC_Calendar checks that Required is sound and tight.  For the    *)
(* full pattern the round trip is equality to the millisecond.             *)
(***************************************************************************)
EXTENDS Calendar

LY  == 121  \* y
LMo == 109  \* m
LD  == 100  \* d
LH  == 72   \* H
LMi == 77   \* M
LS  == 83   \* S
LMs == 115  \* s
DateLetters  == {LY, LMo, LD}
TimeLetters  == {LH, LMi, LS, LMs}
FieldLetters == DateLetters \cup TimeLetters

Width(f) == CASE f = LY -> 4 [] f = LMs -> 3 [] OTHER -> 2

IsItem(it)   == IsBytes(it) /\ Len(it) >= 1
IsPattern(p) == DOMAIN p = 1..Len(p) /\ \A i \in 1..Len(p) : IsItem(p[i])
IsField(it)  == Len(it) = 1 /\ it[1] \in FieldLetters
Present(p)   == {p[i][1] : i \in {j \in 1..Len(p) : IsField(p[j])}}

FieldOf(f, c, h) == CASE f = LY -> c.y [] f = LMo -> c.m [] f = LD -> c.d
                      [] f = LH -> h.H [] f = LMi -> h.M [] f = LS -> h.S [] f = LMs -> h.s
\* the seven fields of an instant of the century
Fields(t) == Bind(Civil(t.day), LAMBDA c : Bind(Tod(t.ms), LAMBDA h :
               [f \in FieldLetters |-> FieldOf(f, c, h)]))

ItemText(it, fv) == IF IsField(it) THEN Dg(fv[it[1]], Width(it[1])) ELSE it
RECURSIVE Cat(_, _, _)
Cat(p, fv, i) == IF i > Len(p) THEN <<>> ELSE ItemText(p[i], fv) \o Cat(p, fv, i + 1)

Format(p, t) == Bind(Fields(t), LAMBDA fv : Cat(p, fv, 1))

---------------------------------------------------------------------------
\* fixed-width reading
ItemW(it) == IF IsField(it) THEN Width(it[1]) ELSE Len(it)
RECURSIVE Off(_, _)
\* 1-based position in the text where item i starts
Off(p, i) == IF i = 1 THEN 1 ELSE Off(p, i - 1) + ItemW(p[i - 1])
TextLen(p) == Off(p, Len(p) + 1) - 1

\* the text has the shape of the pattern: digits where fields are, the literals where literals are
ParseOK(p, text) ==
  /\ Len(text) = TextLen(p)
  /\ \A i \in 1..Len(p) :
       IF IsField(p[i]) THEN IsDigits(Slice(text, Off(p, i), ItemW(p[i])))
       ELSE Slice(text, Off(p, i), Len(p[i])) = p[i]
\* a letter that occurs twice is read twice; the later reading stands
LastIdx(p, f) == CHOOSE i \in 1..Len(p) : p[i] = <<f>> /\ \A j \in (i + 1)..Len(p) : p[j] # <<f>>
Parsed(p, text) == [f \in Present(p) |-> Num(Slice(text, Off(p, LastIdx(p, f)), Width(f)))]

\* design-level round trip (checked by MC_Calendar): the parser reads back exactly the fields
\* the formatter wrote
RoundTripModel(p, t) ==
  Bind(Format(p, t), LAMBDA text :
    /\ ParseOK(p, text)
    /\ Bind(Fields(t), LAMBDA fv : Parsed(p, text) = [f \in Present(p) |-> fv[f]]))

---------------------------------------------------------------------------
\* what is required of the instant r the implementation's parser returned for Format(p, t)

Is31(m) == m \in {1, 3, 5, 7, 8, 10, 12}
\* letters of P whose value must survive the round trip for an instant with civil date c
Required(P, c) ==
  LET feb29NoYear == LY \notin P /\ c.m = 2 /\ c.d = 29
      monthSafe   == IF LD \in P THEN ~feb29NoYear ELSE Is31(c.m)
      daySafe     == IF LMo \in P THEN ~feb29NoYear
                     ELSE c.d <= (IF LY \in P /\ IsLeap(c.y) THEN 29 ELSE 28)
  IN (P \cap TimeLetters)
       \cup (IF LY \in P THEN {LY} ELSE {})
       \cup (IF LMo \in P /\ monthSafe THEN {LMo} ELSE {})
       \cup (IF LD \in P /\ daySafe THEN {LD} ELSE {})

\* field f of r; a date field exists only inside the century
FieldEq(f, r, fv) ==
  /\ r.ms >= 0 /\ r.ms < MsPerDay
  /\ IF f \in TimeLetters THEN FieldOf(f, [y |-> 0, m |-> 0, d |-> 0], Tod(r.ms)) = fv[f]
     ELSE r.day \in Days /\ FieldOf(f, Civil(r.day), Tod(0)) = fv[f]

RoundTripOK(p, t, r) ==
  Bind(Present(p), LAMBDA P : Bind(Fields(t), LAMBDA fv :
    /\ \A f \in Required(P, [y |-> fv[LY], m |-> fv[LMo], d |-> fv[LD]]) : FieldEq(f, r, fv)
    /\ (P = FieldLetters => r = t)))

\* every present field is required: the round trip determines the formatted text
AllRequired(p, t) ==
  Bind(Present(p), LAMBDA P : Bind(Fields(t), LAMBDA fv :
    Required(P, [y |-> fv[LY], m |-> fv[LMo], d |-> fv[LD]]) = P))
---------------------------------------------------------------------------
\* The calendar above is zone-free.  A process whose local zone is not UTC formats and parses WALL-CLOCK
\* fields: the wall clock of instant x where the zone's offset is `off` milliseconds (|off| < one day) is
\* the calendar reading of the shifted instant.
Shift(t, off) ==
  LET m == t.ms + off
  IN IF m < 0 THEN [day |-> t.day - 1, ms |-> m + MsPerDay]
     ELSE IF m >= MsPerDay THEN [day |-> t.day + 1, ms |-> m - MsPerDay]
     ELSE [day |-> t.day, ms |-> m]

\* The round trip in a zone: x = the instant formatted (offset xoff there), r = the instant the parser
\* returned (offset roff there).  The wall-clock fields obey the zone-free law; for the full pattern the
\* parser returns THE INSTANT -- the only freedom is a wall-clock reading that occurs twice (clocks set
\* back): then r may be the other instant with the same reading, which lies in a different offset regime.
ZoneRoundTripOK(p, x, xoff, r, roff) ==
  /\ RoundTripOK(p, Shift(x, xoff), Shift(r, roff))
  /\ (Present(p) = FieldLetters => (r = x \/ roff # xoff))
=============================================================================
