SPECIFICATION MCSpec
CONSTANTS Proc <- MCProc
          WakeOnPut = TRUE
          NP = 1
          NE = 2
          NC = 1
          NOps = 2
          NAdmin = 0
          CapSet = {0, 1}
          TSet = {2}
          LaneSet = {1, 2}
          MaxClock = 2
          TagSet = {0, 1}
          GetKinds = {"Get", "GetNoWait", "GetTimeout"}
INVARIANTS NoSwallowEver
CHECK_DEADLOCK FALSE
