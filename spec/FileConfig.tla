----------------------------- MODULE FileConfig -----------------------------
(***************************************************************************)
(* C18 -- a configuration object that tracks a properties file.            *)
(*                                                                         *)
(* The file is a sequence of logical lines                                 *)
(*     [t |-> "c",  k |-> <<>>, v |-> raw bytes]   comment line (verbatim) *)
(*     [t |-> "b",  k |-> <<>>, v |-> raw bytes]   blank line              *)
(*     [t |-> "kv", k |-> key,  v |-> value]       key and value AFTER the *)
(*                                                 properties syntax was   *)
(*                                                 decoded (UTF-8 bytes)   *)
(* stored in the POSIX model of FsWrite under the name Conf.  Keys and     *)
(* values are byte tuples throughout, so the same operators judge the      *)
(* small model-checked universe and recorded behaviour of the real code.   *)
(*                                                                         *)
(* Mechanism, as the property's anchors name it: a poller stats the file   *)
(* and reloads when the modification stamp differs from the last one seen; *)
(* a reload MERGES the parsed keys into the in-memory map (keys that left  *)
(* the file keep their last value -- the property is silent about them)    *)
(* and then calls every observer; typed getters parse on demand and fall   *)
(* back to the caller's default; write-back re-reads the file, merges the  *)
(* given values, renders line by line and replaces the file through the    *)
(* system calls of FsWrite.                                                *)
(*                                                                         *)
(* Design knobs (the repaired design is the first value; the second is     *)
(* what golib did, kept so that TLC can exhibit why it fails):             *)
(*   Granularity "full" | "sec"   stamp comparison in reload               *)
(*   Locking     TRUE   | FALSE   map guarded against concurrent getters   *)
(*   KeepEmpty   TRUE   | FALSE   `k=` in the file empties k in memory     *)
(*   Strategy    "rename" | "trunc"   (FsWrite)                            *)
(* and one knob for a design golib never had but that a "tidier" reload    *)
(* would have (remember the version AFTER it was loaded successfully):     *)
(*   StampAt     "stat" | "after"   the stamp reload remembers is the one  *)
(*                                  its stat returned before the parse |   *)
(*                                  one taken by a second stat after it    *)
(*   ObsFanout   "map" | "list"     a notification round calls what is     *)
(*                                  registered under each name NOW | the   *)
(*                                  entries of a registration-ordered list *)
(*                                  that grows only with NEW names         *)
(*   GoneApply   "atomic" | "split" a file that disappeared: the map is    *)
(*                                  replaced by the defaults in one        *)
(*                                  critical section | emptied in one and  *)
(*                                  filled in a second one                 *)
(*   EnvWhen     "absent" | "empty" a getter falls back to the process     *)
(*                                  environment when the key is absent     *)
(*                                  from the map | when its value is empty *)
(*                                                                         *)
(* The configuration space is more than the file: the observers registered *)
(* (a registry name -> observer that is written at any time: Add under a   *)
(* new name, Add under an existing name REPLACES), the process environment *)
(* (a key absent from the map is answered from the variable of that name;  *)
(* a key the file sets -- also to the empty value -- is answered from the  *)
(* file) and the existence of the file (a file that disappears after it    *)
(* was loaded resets the map to the library's defaults, without telling    *)
(* the observers -- the property speaks of the file's key=value pairs and  *)
(* is silent here; what it does require is that no getter ever sees a map  *)
(* that is neither the version before nor the version after).              *)
(***************************************************************************)
EXTENDS FsWrite, Bytes

CONSTANTS Granularity, Locking, KeepEmpty, StampAt, ObsFanout, GoneApply, EnvWhen

VARIABLES mem,       \* in-memory map: key -> value (raw, untrimmed)
          lastSeen,  \* stamp of the version last loaded
          note,      \* [m, due]: observer -> the map it was last shown; the observers registered when
                     \* the last notification round ran
          nnote,     \* number of notification rounds so far
          rl,        \* the reload in progress: [pc, snap, todo, dirty, from, to]
          busy,      \* the map is being mutated right now
          fatal,     \* a getter ran into the map while it was being mutated
          fresh,     \* a complete reload that began after the last change of the file has finished
          opt,       \* [pre, suf, excl]: write-back key prefix/suffix/excluded keys;
                     \* [reg, lst]: observer registry name -> observer, and the names' first observers in
                     \* registration order; [env]: process environment; [defs]: the library's defaults
          wkv        \* the key/value map of the write-back in progress (after prefix/suffix/exclusion)

cvars == <<mem, lastSeen, note, nnote, rl, busy, fatal, fresh, opt, wkv>>
vars == <<fsvars, cvars>>

---------------------------------------------------------------------------
(* bytes *)

Ws == {9, 10, 11, 12, 13, 32}
Digit == 48..57

Range(s0) == Bind(s0, LAMBDA s : {s[i] : i \in 1..Len(s)})

\* TLC passes operator arguments and LET definitions unevaluated and, in an action, evaluates
\* them again at every use: every operator below that looks at its argument more than once
\* binds it to its VALUE first (Bind, Bytes.tla).
Trim(s0) == Bind(s0, LAMBDA s :
  IF \A i \in 1..Len(s) : s[i] \in Ws THEN <<>>
  ELSE LET a == CHOOSE i \in 1..Len(s) : s[i] \notin Ws /\ \A j \in 1..(i - 1) : s[j] \in Ws
           b == CHOOSE i \in 1..Len(s) : s[i] \notin Ws /\ \A j \in (i + 1)..Len(s) : s[j] \in Ws
       IN SubSeq(s, a, b))

RECURSIVE SortSet(_)
SortSet(S0) == Bind(S0, LAMBDA S :
  IF S = {} THEN <<>>
  ELSE Bind(CHOOSE x \in S : \A y \in S : x <= y, LAMBDA m : <<m>> \o SortSet(S \ {m})))

\* maximal runs of bytes outside D, in order (strings.FieldsFunc / StringTokenizer);
\* with no delimiter the whole non-empty string is one token
Tokens(s0, D) == Bind(s0, LAMBDA s :
  LET n == Len(s)
      EndOf(i) == CHOOSE j \in i..n : (\A m \in i..j : s[m] \notin D) /\ (j = n \/ s[j + 1] \in D)
  IN Bind(SortSet({i \in 1..n : s[i] \notin D /\ (i = 1 \/ s[i - 1] \in D)}), LAMBDA starts :
       [x \in 1..Len(starts) |-> SubSeq(s, starts[x], EndOf(starts[x]))]))

TrimmedTokens(s, D) == Bind(Tokens(s, D), LAMBDA t : [i \in 1..Len(t) |-> Trim(t[i])])
NonEmpty(q) == SelectSeq(q, LAMBDA x : x # <<>>)

---------------------------------------------------------------------------
(* decimal integers as digit strings: TLC never computes the number *)

Unsigned(s0) == Bind(s0, LAMBDA s : IF Len(s) > 0 /\ s[1] \in {43, 45} THEN SubSeq(s, 2, Len(s)) ELSE s)
IsDecInt(s) == Bind(Unsigned(s), LAMBDA u : Len(u) > 0 /\ \A i \in 1..Len(u) : u[i] \in Digit)
IsNeg(s0) == Bind(s0, LAMBDA s : Len(s) > 0 /\ s[1] = 45)
\* magnitude without leading zeros ("0" for zero)
Mag(s) == Bind(Unsigned(s), LAMBDA u :
            IF \A i \in 1..Len(u) : u[i] = 48 THEN <<48>>
            ELSE SubSeq(u, CHOOSE i \in 1..Len(u) : u[i] # 48 /\ \A j \in 1..(i - 1) : u[j] = 48, Len(u)))
\* a <= b for digit strings without leading zeros (lexicographic order decides between equal lengths)
MagLE(a0, b) == Bind(a0, LAMBDA a :
  \/ Len(a) < Len(b)
  \/ /\ Len(a) = Len(b)
     /\ \/ a = b
        \/ \E i \in 1..Len(a) : a[i] < b[i] /\ \A j \in 1..(i - 1) : a[j] = b[j])
MaxMag(bits) == IF bits = 32 THEN <<50,49,52,55,52,56,51,54,52,55>>                                 \* 2147483647
                ELSE <<57,50,50,51,51,55,50,48,51,54,56,53,52,55,55,53,56,48,55>>                    \* 9223372036854775807
MinMag(bits) == IF bits = 32 THEN <<50,49,52,55,52,56,51,54,52,56>>                                 \* 2147483648
                ELSE <<57,50,50,51,51,55,50,48,51,54,56,53,52,55,55,53,56,48,56>>                    \* 9223372036854775808
InIntRange(s, bits) == IF IsNeg(s) THEN MagLE(Mag(s), MinMag(bits)) ELSE MagLE(Mag(s), MaxMag(bits))
\* canonical decimal text of the number s denotes
Canon(s) == Bind(Mag(s), LAMBDA m : IF m = <<48>> THEN <<48>> ELSE (IF IsNeg(s) THEN <<45>> ELSE <<>>) \o m)
IsInt(s0, bits) == Bind(s0, LAMBDA s : IsDecInt(s) /\ InIntRange(s, bits))

---------------------------------------------------------------------------
(* booleans and floats *)

BoolTrue  == {<<49>>, <<116>>, <<84>>, <<116,114,117,101>>, <<84,82,85,69>>, <<84,114,117,101>>}
BoolFalse == {<<48>>, <<102>>, <<70>>, <<102,97,108,115,101>>, <<70,65,76,83,69>>, <<70,97,108,115,101>>}

\* decimal floating-point literal:  [+-]? ( d+ [. d*]? | . d+ ) ( [eE] [+-]? d+ )?
FloatDfa(st, b) ==
  CASE st = "s0"  -> IF b \in {43, 45} THEN "s1" ELSE IF b \in Digit THEN "int" ELSE IF b = 46 THEN "dot" ELSE "bad"
    [] st = "s1"  -> IF b \in Digit THEN "int" ELSE IF b = 46 THEN "dot" ELSE "bad"
    [] st = "int" -> IF b \in Digit THEN "int" ELSE IF b = 46 THEN "frac" ELSE IF b \in {69, 101} THEN "e0" ELSE "bad"
    [] st = "dot" -> IF b \in Digit THEN "frac" ELSE "bad"
    [] st = "frac" -> IF b \in Digit THEN "frac" ELSE IF b \in {69, 101} THEN "e0" ELSE "bad"
    [] st = "e0"  -> IF b \in {43, 45} THEN "e1" ELSE IF b \in Digit THEN "exp" ELSE "bad"
    [] st = "e1"  -> IF b \in Digit THEN "exp" ELSE "bad"
    [] st = "exp" -> IF b \in Digit THEN "exp" ELSE "bad"
    [] OTHER -> "bad"
RECURSIVE FloatRun(_, _, _)
FloatRun(s, i, st) == IF i > Len(s) THEN st ELSE Bind(FloatDfa(st, s[i]), LAMBDA nx : FloatRun(s, i + 1, nx))
IsDecFloat(s0) == Bind(s0, LAMBDA s : FloatRun(s, 1, "s0") \in {"int", "frac", "exp"})
\* spellings strconv also accepts and this specification does not judge:
\* hexadecimal floats, digit-separating underscores, inf/infinity/nan
Exotic(s0) == Bind(s0, LAMBDA s : \E i \in 1..Len(s) : s[i] \in {88, 120, 80, 112, 95, 73, 105, 78, 110})

\* reference table: literal -> IEEE-754 binary32 bit pattern (<<>> = out of the binary32 range)
FloatTab ==
  (<<48>> :> <<0,0,0,0>>) @@ (<<49>> :> <<63,128,0,0>>) @@ (<<50>> :> <<64,0,0,0>>) @@
  (<<49,46,53>> :> <<63,192,0,0>>) @@ (<<45,50,46,50,53>> :> <<192,16,0,0>>) @@
  (<<48,46,49>> :> <<61,204,204,205>>) @@ (<<49,101,51>> :> <<68,122,0,0>>) @@
  (<<51,46,52,48,50,56,50,51,53,101,51,56>> :> <<127,127,255,255>>) @@
  (<<49,101,45,51>> :> <<58,131,18,111>>) @@ (<<46,53>> :> <<63,0,0,0>>) @@ (<<53,46>> :> <<64,160,0,0>>) @@
  (<<43,55>> :> <<64,224,0,0>>) @@ (<<45,48>> :> <<128,0,0,0>>) @@
  (<<49,54,55,55,55,50,49,55>> :> <<75,128,0,0>>) @@ (<<49,69,50>> :> <<66,200,0,0>>) @@
  (<<48,46,51>> :> <<62,153,153,154>>) @@ (<<49,50,51,52,53,54,46,55,56,57>> :> <<71,241,32,101>>) @@
  (<<45,49,101,45,50>> :> <<188,35,215,10>>) @@ (<<49,48,48>> :> <<66,200,0,0>>) @@
  (<<52,50>> :> <<66,40,0,0>>) @@ (<<54,54,48,48>> :> <<69,206,64,0>>) @@ (<<50,46,53>> :> <<64,32,0,0>>) @@
  (<<49,101,51,57>> :> <<>>) @@ (<<45,49,101,51,57>> :> <<>>)

---------------------------------------------------------------------------
(* the file as logical lines *)

CLine(raw)  == [t |-> "c", k |-> <<>>, v |-> raw]
KvLine(k, v) == [t |-> "kv", k |-> k, v |-> v]

IsKv(ln) == ln.t = "kv"
KeysOf(L) == {L[i].k : i \in {j \in 1..Len(L) : IsKv(L[j])}}
LastIdx(L, k) == CHOOSE i \in 1..Len(L) : /\ IsKv(L[i]) /\ L[i].k = k
                                          /\ \A j \in (i + 1)..Len(L) : ~(IsKv(L[j]) /\ L[j].k = k)
\* the text the file stores for each key: the last line of a key wins
RawMap(L) == [k \in KeysOf(L) |-> L[LastIdx(L, k)].v]

\* The properties syntax gives a key the stored text with every reference ${name} replaced
\* by the value of name: the value of the key of that name in the same file, else of the
\* environment variable of that name, else nothing; the value put in is itself expanded first
\* (references nest).  The leftmost "${" is resolved first and the text is scanned again from
\* its beginning after each replacement; a name ends at the first '}' after its "${".  A
\* reference that leads back to a key being expanded (a=${a}; a=${b}, b=${a}), a "${" without
\* a '}' and a nesting deeper than 64 make the FILE unloadable: the parser rejects it as a whole.
\* Expand(s, stack, M, E) = <<TRUE, expansion>> | <<FALSE, <<>>>>; stack = the keys under expansion.
XFail == <<FALSE, <<>>>>
FindOpen(s0) == Bind(s0, LAMBDA s :
  LET O == {i \in 1..(Len(s) - 1) : s[i] = 36 /\ s[i + 1] = 123}
  IN IF O = {} THEN 0 ELSE CHOOSE i \in O : \A j \in O : i <= j)
FindClose(s0, from) == Bind(s0, LAMBDA s :
  LET C == {j \in from..Len(s) : s[j] = 125}
  IN IF C = {} THEN 0 ELSE CHOOSE j \in C : \A x \in C : j <= x)
RECURSIVE Expand(_, _, _, _)
Expand(s0, stack, M, E) == Bind(s0, LAMBDA s :
  IF Len(stack) > 64 THEN XFail
  ELSE Bind(FindOpen(s), LAMBDA i :
    IF i = 0 THEN <<TRUE, s>>
    ELSE Bind(FindClose(s, i + 2), LAMBDA j :
      IF j = 0 THEN XFail
      ELSE Bind(SubSeq(s, i + 2, j - 1), LAMBDA name :
        IF \E x \in 1..Len(stack) : stack[x] = name THEN XFail
        ELSE Bind(Expand(IF name \in DOMAIN M THEN M[name] ELSE IF name \in DOMAIN E THEN E[name] ELSE <<>>,
                         Append(stack, name), M, E), LAMBDA r :
               IF ~r[1] THEN XFail
               ELSE Expand(SubSeq(s, 1, i - 1) \o r[2] \o SubSeq(s, j + 1, Len(s)), stack, M, E))))))

\* the value of the text v of key k in the file with the stored texts M, environment E
XVal(k, v, M, E) == Expand(v, <<k>>, M, E)
\* the parser accepts the file: every key has a value (E: the process environment)
LoadableIn(L, E) == Bind(RawMap(L), LAMBDA M : \A k \in DOMAIN M : XVal(k, M[k], M, E)[1])
\* what loading the file yields
ParseMapIn(L, E) == Bind(RawMap(L), LAMBDA M : [k \in DOMAIN M |-> XVal(k, M[k], M, E)[2]])
\* the file with every key line showing the value the syntax gives THAT line's text
XLines(L, E) == Bind(RawMap(L), LAMBDA M :
  [i \in 1..Len(L) |-> IF IsKv(L[i]) THEN KvLine(L[i].k, XVal(L[i].k, L[i].v, M, E)[2]) ELSE L[i]])
\* ... in the process environment of the configuration object (a variable, like the file)
ParseMap(L) == ParseMapIn(L, opt.env)
Loadable(L) == LoadableIn(L, opt.env)
\* the value a key has in a file; an empty value and an absent key are the same to every getter
Val(L, k) == IF k \in KeysOf(L) THEN ParseMap(L)[k] ELSE <<>>

\* P where it is defined, m elsewhere (@@ yields an evaluated function, not a lazy one)
Merge(m, P) == P @@ m

\* the file as the poller and the parser find it (a file that is not there has no lines)
File == IF Exists(Conf) THEN Content(Conf) ELSE <<>>
Parsed == LET P == ParseMap(File)
          IN IF KeepEmpty THEN P ELSE [k \in {x \in DOMAIN P : P[x] # <<>>} |-> P[k]]

---------------------------------------------------------------------------
(* typed getters: pure functions of the in-memory map *)

\* what a getter starts from: the map's trimmed value of a key the map has (an empty one included);
\* a key the map does not have is answered from the process environment (as it is, untrimmed)
EnvVal(k) == IF k \in DOMAIN opt.env THEN opt.env[k] ELSE <<>>
Raw(k) == IF EnvWhen = "empty"
            THEN Bind(IF k \in DOMAIN mem THEN Trim(mem[k]) ELSE <<>>, LAMBDA t : IF t # <<>> THEN t ELSE EnvVal(k))
            ELSE IF k \in DOMAIN mem THEN Trim(mem[k]) ELSE EnvVal(k)
GetValue(k) == Raw(k)
GetValueDef(k, d) == Bind(Raw(k), LAMBDA r : IF r = <<>> THEN d ELSE r)
GetBoolean(k, d) == Bind(Raw(k), LAMBDA r : IF r \in BoolTrue THEN TRUE ELSE IF r \in BoolFalse THEN FALSE ELSE d)
\* d and the result are canonical decimal texts
GetIntBits(k, d, bits) == Bind(Raw(k), LAMBDA r : IF IsInt(r, bits) THEN Canon(r) ELSE d)
GetInt(k, d) == GetIntBits(k, d, 32)
GetLong(k, d) == GetIntBits(k, d, 64)
\* d and ret are binary32 bit patterns; literals outside the reference table are not judged
FloatOK(k, d, ret) ==
  Bind(Raw(k), LAMBDA r :
     IF r \in DOMAIN FloatTab THEN ret = (IF FloatTab[r] = <<>> THEN d ELSE FloatTab[r])
     ELSE IF ~IsDecFloat(r) /\ ~Exotic(r) THEN ret = d
     ELSE Len(ret) = 4)
GetStringArray(k, d, D) == NonEmpty(TrimmedTokens(GetValueDef(k, d), D))
\* the integers among the tokens
GetIntSet(k, d, D) == {Canon(t) : t \in {x \in Range(TrimmedTokens(GetValueDef(k, d), D)) : IsInt(x, 32)}}
\* the non-blank tokens, to be hashed
SetTokens(k, d, D) == Range(TrimmedTokens(GetValueDef(k, d), D)) \ {<<>>}

---------------------------------------------------------------------------
(* write-back: which keys are written, and the rendered file *)

HasPrefix(s, p) == Len(p) <= Len(s) /\ SubSeq(s, 1, Len(p)) = p
HasSuffix(s, p) == Len(p) <= Len(s) /\ SubSeq(s, Len(s) - Len(p) + 1, Len(s)) = p
Xf(k) == LET a == IF opt.pre # <<>> /\ ~HasPrefix(k, opt.pre) THEN opt.pre \o k ELSE k
         IN IF opt.suf # <<>> /\ ~HasSuffix(a, opt.suf) THEN a \o opt.suf ELSE a
\* kv: a function key -> value as given by the caller (distinct keys stay distinct under Xf)
Eff(kv) == LET G == DOMAIN kv \ opt.excl
           IN [x \in {Xf(k) : k \in G} |-> kv[CHOOSE k \in G : Xf(k) = x]]

\* lines that stay, existing keys updated in place; a key written with the empty value is deleted
Body(L, kv) ==
  LET K == SelectSeq(L, LAMBDA ln : ~(IsKv(ln) /\ ln.k \in DOMAIN kv /\ kv[ln.k] = <<>>))
  IN [i \in 1..Len(K) |-> IF IsKv(K[i]) /\ K[i].k \in DOMAIN kv THEN KvLine(K[i].k, kv[K[i].k]) ELSE K[i]]
NewKeys(L, kv) == {k \in DOMAIN kv : kv[k] # <<>> /\ k \notin KeysOf(L)}
\* new keys are appended; their mutual order is not specified
Perms(S) == {f \in [1..Cardinality(S) -> S] : \A i, j \in 1..Cardinality(S) : i # j => f[i] # f[j]}
Render(L, kv, order) == Body(L, kv) \o [i \in 1..Len(order) |-> KvLine(order[i], kv[order[i]])]

\* comparison ignores blank lines and key lines with an empty value (the property is silent on both)
Cmp(L) == SelectSeq(L, LAMBDA ln : ln.t = "c" \/ (IsKv(ln) /\ ln.v # <<>>))
\* Lines are compared by the VALUE the syntax gives them (a line `d=${base}/logs` may come back as
\* `d=/opt/logs`): the old lines carry the values they had in the old file -- "other keys keep
\* their values" also when the write-back changes a key they refer to.
RenderOK(L, kv, after) ==
  LET E == Cmp(Body(XLines(L, opt.env), kv))
      A == Cmp(XLines(after, opt.env))
      NK == NewKeys(L, kv)
  IN /\ Len(A) = Len(E) + Cardinality(NK)
     /\ SubSeq(A, 1, Len(E)) = E
     /\ {A[i] : i \in (Len(E) + 1)..Len(A)} = {KvLine(k, kv[k]) : k \in NK}

---------------------------------------------------------------------------
Never == <<-1, -1>>      \* lastSeen: no version was ever loaded
Gone  == <<-2, -2>>      \* lastSeen: the file had been loaded and was then found missing
RlIdle == [pc |-> "idle", snap |-> <<>>, todo |-> {}, dirty |-> FALSE, from |-> <<>>, to |-> <<>>]
NoNote == [m |-> <<>>, due |-> {}]

Init0(c0, o) ==
  /\ FsInit(c0)
  /\ mem = <<>> /\ lastSeen = Never /\ note = NoNote /\ nnote = 0
  /\ rl = RlIdle
  /\ busy = FALSE /\ fatal = FALSE /\ fresh = FALSE
  /\ opt = o /\ wkv = <<>>

\* one observer (number 0) registered under one name, an empty environment, no defaults
NoOpt == [pre |-> <<>>, suf |-> <<>>, excl |-> {}, reg |-> (<<111>> :> 0), lst |-> <<0>>, env |-> <<>>, defs |-> <<>>]

---------------------------------------------------------------------------
(* the observer registry *)

\* the observers registered now (one observer may be registered under several names)
Ids == {opt.reg[n] : n \in DOMAIN opt.reg}
\* whom a notification round calls
Called == IF ObsFanout = "list" THEN {opt.lst[i] : i \in 1..Len(opt.lst)} ELSE Ids
\* the record of a notification round that showed map m
Told(m) == [m |-> [i \in Called |-> m] @@ note.m, due |-> Ids]

\* Add(name, observer): a new name is added, an existing name is given to the new observer
ObsAdd(n, i) ==
  /\ opt' = [opt EXCEPT !.reg = (n :> i) @@ opt.reg,
                        !.lst = IF n \in DOMAIN opt.reg THEN opt.lst ELSE Append(opt.lst, i)]
  /\ UNCHANGED <<fsvars, mem, lastSeen, note, nnote, rl, busy, fatal, fresh, wkv>>

Dead == Crashed \/ fatal

SeenEq(a, b) == IF Granularity = "sec" THEN a[1] = b[1] ELSE a = b
Changed == Exists(Conf) /\ ~SeenEq(Stamp(Conf), lastSeen)

\* any change of the file invalidates "fresh" and taints the reload in progress
Touched == /\ fresh' = FALSE
           /\ rl' = [rl EXCEPT !.dirty = TRUE]

---------------------------------------------------------------------------
(* the external writer *)

\* the file replaced as a whole; a file that is not there is created
ExtEdit(L, stamp) ==
  /\ w.pc \in {"idle", "done"}
  /\ IF Exists(Conf)
       THEN /\ data' = [data EXCEPT ![dir[Conf]] = L]
            /\ mt' = [mt EXCEPT ![dir[Conf]] = stamp]
            /\ dir' = dir
       ELSE /\ data' = Append(data, L)
            /\ mt' = Append(mt, stamp)
            /\ dir' = (Conf :> (Len(data) + 1)) @@ dir
  /\ w' = Idle                        \* a finished write-back is over
  /\ Touched
  /\ UNCHANGED <<fdt, sec, mem, lastSeen, note, nnote, busy, fatal, opt, wkv>>

\* the file deleted or renamed away (its inode stays, nameless)
ExtDelete ==
  /\ w.pc \in {"idle", "done"}
  /\ Exists(Conf)
  /\ dir' = Restrict(dir, DOMAIN dir \ {Conf})
  /\ w' = Idle
  /\ Touched
  /\ UNCHANGED <<data, mt, fdt, sec, mem, lastSeen, note, nnote, busy, fatal, opt, wkv>>

\* model checking: the stamp is the clock's
Edit(L) == /\ (Exists(Conf) => L # File)
           /\ ExtEdit(L, Now)
           /\ modn' = modn + 1
Delete == /\ ExtDelete
          /\ modn' = modn + 1

---------------------------------------------------------------------------
(* reload, step by step (model checking) *)

\* the file is not there: nothing to do if no version was ever loaded or the defaults are in
\* place already; otherwise the map is to be replaced by the defaults
GoneNews == ~Exists(Conf) /\ lastSeen \notin {Never, Gone}

RlStat ==
  /\ rl.pc = "idle" /\ ~Dead
  /\ IF Changed
       THEN /\ lastSeen' = IF StampAt = "after" THEN lastSeen ELSE Stamp(Conf)
            /\ rl' = [RlIdle EXCEPT !.pc = "parse"]
            /\ UNCHANGED fresh
       ELSE IF GoneNews
         THEN /\ lastSeen' = Gone
              /\ rl' = [RlIdle EXCEPT !.pc = "gone", !.from = mem, !.to = opt.defs]
              /\ UNCHANGED fresh
         ELSE /\ fresh' = TRUE
              /\ UNCHANGED <<lastSeen, rl>>
  /\ UNCHANGED <<fsvars, mem, note, nnote, busy, fatal, opt, wkv>>

RlParse ==
  /\ rl.pc = "parse" /\ ~Dead
  /\ Exists(Conf) /\ Loadable(File)
  /\ rl' = [rl EXCEPT !.pc = IF StampAt = "after" THEN "restat" ELSE "apply", !.snap = Parsed, !.todo = DOMAIN Parsed,
                      !.from = mem, !.to = Merge(mem, Parsed)]
  /\ UNCHANGED <<fsvars, mem, lastSeen, note, nnote, busy, fatal, fresh, opt, wkv>>

\* the file vanished between the stat and the read, or the parser rejects it: the parser fails, the
\* poll is over (the stamp of the version that could not be read stays remembered; the next poll
\* finds the file missing / unchanged)
RlParseFail ==
  /\ rl.pc = "parse" /\ ~Dead
  /\ ~Exists(Conf) \/ ~Loadable(File)
  /\ rl' = RlIdle
  /\ UNCHANGED <<fsvars, mem, lastSeen, note, nnote, busy, fatal, fresh, opt, wkv>>

\* the defaults replace the map: one critical section (GoneApply = "atomic"), or one that
\* empties the map and a second one that fills it ("split")
RlGoneBegin ==
  /\ rl.pc \in {"gone", "gone2"} /\ ~Dead /\ ~busy
  /\ busy' = TRUE
  /\ UNCHANGED <<fsvars, mem, lastSeen, note, nnote, rl, fatal, fresh, opt, wkv>>

RlGoneEnd ==
  /\ rl.pc \in {"gone", "gone2"} /\ ~Dead /\ busy
  /\ busy' = FALSE
  /\ IF rl.pc = "gone" /\ GoneApply = "split"
       THEN /\ mem' = <<>>
            /\ rl' = [rl EXCEPT !.pc = "gone2"]
            /\ UNCHANGED fresh
       ELSE /\ mem' = IF rl.pc = "gone" THEN opt.defs ELSE Merge(mem, opt.defs)
            /\ rl' = RlIdle
            /\ fresh' = ~rl.dirty
  /\ UNCHANGED <<fsvars, lastSeen, note, nnote, fatal, opt, wkv>>

\* (StampAt = "after" only) the second stat: whatever the file is NOW is remembered as loaded
RlRestat ==
  /\ rl.pc = "restat" /\ ~Dead
  /\ Exists(Conf)
  /\ lastSeen' = Stamp(Conf)
  /\ rl' = [rl EXCEPT !.pc = "apply"]
  /\ UNCHANGED <<fsvars, mem, note, nnote, busy, fatal, fresh, opt, wkv>>

\* all map assignments of the reload at once (trace validation of a reload taken apart: the
\* harness stops the real reload before and after its parse and inside the notification,
\* not between two assignments)
RlApplyAll ==
  /\ rl.pc = "apply" /\ ~Dead /\ ~busy
  /\ mem' = Merge(mem, rl.snap)
  /\ rl' = [rl EXCEPT !.todo = {}]
  /\ UNCHANGED <<fsvars, lastSeen, note, nnote, busy, fatal, fresh, opt, wkv>>

\* one map assignment: a window in which the map is inconsistent
RlApplyBegin ==
  /\ rl.pc = "apply" /\ ~Dead /\ ~busy /\ rl.todo # {}
  /\ busy' = TRUE
  /\ UNCHANGED <<fsvars, mem, lastSeen, note, nnote, rl, fatal, fresh, opt, wkv>>

RlApplyEnd ==
  /\ rl.pc = "apply" /\ ~Dead /\ busy
  /\ \E k \in rl.todo :
       /\ mem' = Merge(mem, [x \in {k} |-> rl.snap[k]])
       /\ rl' = [rl EXCEPT !.todo = @ \ {k}]
  /\ busy' = FALSE
  /\ UNCHANGED <<fsvars, lastSeen, note, nnote, fatal, fresh, opt, wkv>>

RlNotify ==
  /\ rl.pc = "apply" /\ ~Dead /\ ~busy /\ rl.todo = {}
  /\ note' = Told(mem)
  /\ nnote' = nnote + 1
  /\ rl' = RlIdle
  /\ fresh' = ~rl.dirty
  /\ UNCHANGED <<fsvars, mem, lastSeen, busy, fatal, opt, wkv>>

\* a getter on another goroutine.  With the lock it waits for the mutation to end;
\* without, meeting a mutation is the Go runtime's fatal "concurrent map read and map write"
Get ==
  /\ ~Dead
  /\ Locking => ~busy
  /\ fatal' = (fatal \/ busy)
  /\ UNCHANGED <<fsvars, mem, lastSeen, note, nnote, rl, busy, fresh, opt, wkv>>

---------------------------------------------------------------------------
(* reload as one step (trace validation, where nothing interleaves).       *)
(* ch: whether the poller noticed a change.                                *)

ReloadAtomic ==
  /\ rl.pc = "idle" /\ ~Dead
  /\ IF Changed /\ Loadable(File)
       THEN /\ lastSeen' = Stamp(Conf)
            /\ mem' = Merge(mem, Parsed)
            /\ note' = Told(Merge(mem, Parsed))
            /\ nnote' = nnote + 1
       ELSE IF Changed            \* the parser rejects the file: the configuration stays as it is
         THEN /\ lastSeen' = Stamp(Conf)
              /\ UNCHANGED <<mem, note, nnote>>
       ELSE IF GoneNews
         THEN /\ lastSeen' = Gone
              /\ mem' = opt.defs
              /\ UNCHANGED <<note, nnote>>
         ELSE UNCHANGED <<lastSeen, mem, note, nnote>>
  /\ fresh' = TRUE
  /\ UNCHANGED <<fsvars, rl, busy, fatal, opt, wkv>>

---------------------------------------------------------------------------
(* write-back *)

SvBegin(kv) ==
  /\ ~Dead /\ w.pc = "idle" /\ Exists(Conf)
  /\ \E order \in Perms(NewKeys(File, Eff(kv))) :
       LET new == Render(File, Eff(kv), order)
       IN \E cut \in {Len(new) \div 2, Len(new)} : WbBegin(new, cut)
  /\ wkv' = Eff(kv)
  /\ UNCHANGED <<mem, lastSeen, note, nnote, rl, busy, fatal, fresh, opt>>

SvStep == /\ ~Dead
          /\ WbStep
          /\ Touched
          /\ UNCHANGED <<mem, lastSeen, note, nnote, busy, fatal, opt, wkv>>

SvEnd == /\ ~Dead
         /\ WbEnd
         /\ UNCHANGED cvars

SvCrash == /\ Crash
           /\ UNCHANGED cvars

\* the uninterrupted write-back as one step (trace validation of SetValues at the level of
\* logical lines; the system-call level is judged separately by Trace_FsWrite)
SvAtomic(kv, after, stamp) ==
  /\ ~Dead /\ w.pc \in {"idle", "done"} /\ Exists(Conf)
  /\ RenderOK(File, Eff(kv), after)
  /\ data' = [data EXCEPT ![dir[Conf]] = after]
  /\ mt' = [mt EXCEPT ![dir[Conf]] = stamp]
  /\ w' = [pc |-> "done", old |-> File, new |-> after, cut |-> 0]
  /\ wkv' = Eff(kv)
  /\ Touched
  /\ UNCHANGED <<dir, fdt, sec, modn, mem, lastSeen, note, nnote, busy, fatal, opt>>

\* a write-back when the file is not there: its read fails, nothing is written
SvGone ==
  /\ ~Dead /\ w.pc \in {"idle", "done"} /\ ~Exists(Conf)
  /\ UNCHANGED vars

---------------------------------------------------------------------------
(* the property *)

\* (a file the parser rejects has no key=value pairs: the property is silent about it)
Visible(m) == Loadable(File) => \A k \in KeysOf(File) : k \in DOMAIN m /\ m[k] = ParseMap(File)[k]

\* once the file stopped changing and one reload ran, every key=value of it is in the map
\* (and so is what the getters below compute from)
EventuallyVisible == (fresh /\ ~Dead) => Visible(mem)

\* ... and through the getters: a key the file sets is answered from the file, also when the
\* file sets it to the empty value and the environment has a variable of that name
VisibleThroughGetters == (fresh /\ ~Dead /\ Loadable(File)) => \A k \in KeysOf(File) : GetValue(k) = Trim(ParseMap(File)[k])

\* ... and every observer that is registered now and was registered when the last notification
\* round ran -- under a new name or in place of another one -- has been shown a configuration
\* that shows it
ObserversNotified == (fresh /\ ~Dead) => \A i \in note.due \cap Ids : i \in DOMAIN note.m /\ Visible(note.m[i])

\* a file that disappeared (after it had been loaded): the configuration is the defaults
DefaultsWhenGone == (fresh /\ ~Dead /\ ~Exists(Conf) /\ lastSeen = Gone) => mem = opt.defs

\* whenever the lock is free -- whenever a getter can run -- every key has the value it had before
\* the reload in progress began to write the map or the value it will have when it is done: no
\* getter sees a configuration that is neither (e.g. the empty map between "emptied" and "defaults
\* filled in")
Look(m, k) == IF k \in DOMAIN m THEN <<m[k]>> ELSE <<>>
NoTornState == (~busy /\ rl.pc \in {"apply", "gone", "gone2"}) =>
                  \A k \in DOMAIN mem \cup DOMAIN rl.from \cup DOMAIN rl.to : Look(mem, k) \in {Look(rl.from, k), Look(rl.to, k)}

\* getters never meet a half-updated map
NoFatal == ~fatal

IsCanon(s) == IsDecInt(s) /\ Canon(s) = s
\* every getter has a value of its type for every key, whatever the file said
GettersTotalOn(K) ==
  \A k \in K :
    /\ GetBoolean(k, TRUE) \in BOOLEAN
    /\ GetBoolean(k, FALSE) = TRUE => Raw(k) \in BoolTrue
    /\ IsCanon(GetInt(k, <<45,49>>)) /\ IsCanon(GetLong(k, <<55>>))
    /\ (GetInt(k, <<45,49>>) # <<45,49>> => IsInt(Raw(k), 32))
    /\ FloatOK(k, <<63,128,0,0>>, IF Raw(k) \in DOMAIN FloatTab /\ FloatTab[Raw(k)] # <<>> THEN FloatTab[Raw(k)] ELSE <<63,128,0,0>>)
    /\ GetValueDef(k, <<100>>) # <<>>
    /\ \A x \in GetIntSet(k, <<>>, {44}) : IsCanon(x)
GettersTotal == GettersTotalOn(DOMAIN mem)

\* write-back, judged on the old content, the written map and the new content
WbOld == w.old
WbNew == w.new
OtherKeys == (KeysOf(WbOld) \cup KeysOf(WbNew)) \ DOMAIN wkv
MergeKeepsOthers == Active => \A k \in OtherKeys : Val(WbNew, k) = Val(WbOld, k)

Comments(L) == LET C == SelectSeq(L, LAMBDA ln : ln.t = "c") IN [i \in 1..Len(C) |-> C[i].v]
Skeleton(L, S) == LET K == SelectSeq(L, LAMBDA ln : ln.t = "c" \/ (IsKv(ln) /\ ln.k \in S))
                  IN [i \in 1..Len(K) |-> IF K[i].t = "c" THEN <<"c", K[i].v>> ELSE <<"k", K[i].k>>]
CommentsAndOrderSurvive ==
  Active => /\ Comments(WbNew) = Comments(WbOld)
            /\ LET S == KeysOf(WbOld) \cap KeysOf(WbNew)
               IN Skeleton(WbNew, S) = Skeleton(WbOld, S)

WriteReadBack == Active => \A k \in DOMAIN wkv : Val(WbNew, k) = wkv[k]

InvFile == MergeKeepsOthers /\ CommentsAndOrderSurvive /\ WriteReadBack
InvAll == EventuallyVisible /\ VisibleThroughGetters /\ ObserversNotified /\ DefaultsWhenGone /\ NoTornState /\ NoFatal
          /\ GettersTotal /\ InvFile /\ AtomicOnDisk /\ WriteInstalls
=============================================================================
