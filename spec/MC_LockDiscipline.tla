------------------------- MODULE MC_LockDiscipline -------------------------
(***************************************************************************)
(* Exhaustive exploration of LockDiscipline over the lock table extracted  *)
(* from the tree under test: for every collection type, every public       *)
(* method alone (self-deadlock, leaked lock, a point operation made of     *)
(* several critical sections) and every pair of point operations on two    *)
(* threads, all interleavings (data race, mutual wait).                    *)
(*                                                                         *)
(* MC_LockDiscipline.cfg checks the property as invariants.                *)
(* MC_LockDiscipline_predict.cfg checks nothing and instead LISTS every    *)
(* state that breaks the property (PrintT lines "PRED ..."): the runner    *)
(* uses the list to confront each predicted defect with the behaviour of   *)
(* the real code (watchdog / race detector) before anything is reported.   *)
(***************************************************************************)
EXTENDS LockDiscipline

\* NoSplit is not checked as an invariant (its refutation is a hint, not a
\* verdict): the configurations list the point operations made of several
\* critical sections (scenarios "alone" only, so that each is listed once or
\* twice) and the runner lets exactly those calls meet each other in directed
\* concurrent histories judged by Trace_Linearize.
\* ... and the public methods (of any kind) that run caller code between two critical sections (OpenCallback): the
\* gated histories of that type get more cases.
ReportSplit == /\ (Len(scen.ms) = 1 /\ Split(1)) => PrintT(<<"PRED", "SPLIT", scen.ty, scen.ms[1], Top(1).m>>)
               /\ (Len(scen.ms) = 1 /\ scen.kind = "alone" /\ OpenCallback(1)) =>
                      PrintT(<<"PRED", "OPENCB", scen.ty, scen.ms[1], Cur(1).b>>)

Report ==
  /\ \A t \in Threads : SelfDeadlock(t) =>
        PrintT(<<"PRED", "SELFDEADLOCK", scen.ty, scen.ms[t], scen.kind, Top(t).m, ObjOf(t)>>)
  /\ \A t1, t2 \in Threads : (t1 < t2 /\ BothPoint /\ ConflictOn(t1, t2) # {}) =>
        PrintT(<<"PRED", "DATARACE", scen.ty, scen.ms[t1], scen.ms[t2], ConflictOn(t1, t2), ObjOf(t1)>>)
  /\ ~NoMutualDeadlock => PrintT(<<"PRED", "MUTUALDEADLOCK", scen.ty, scen.kind, scen.ms>>)
  /\ ~NoLeak => PrintT(<<"PRED", "LEAK", scen.ty, scen.ms>>)
  /\ ReportSplit

=============================================================================
