------------------------- MODULE MC_LockDiscipline -------------------------
(***************************************************************************)
(* Exhaustive exploration of LockDiscipline over the lock table extracted  *)
(* from the tree under test: for every collection type, every public       *)
(* method alone (self-deadlock, leaked lock) and every pair of point       *)
(* operations on two threads, all interleavings (data race, mutual wait).  *)
(*                                                                         *)
(* MC_LockDiscipline.cfg checks the property as invariants.                *)
(* MC_LockDiscipline_predict.cfg checks nothing and instead LISTS every    *)
(* state that breaks the property (PrintT lines "PRED ..."): the runner    *)
(* uses the list to confront each predicted defect with the behaviour of   *)
(* the real code (watchdog / race detector) before anything is reported.   *)
(***************************************************************************)
EXTENDS LockDiscipline

Report ==
  /\ \A t \in Threads : SelfDeadlock(t) =>
        PrintT(<<"PRED", "SELFDEADLOCK", scen.ty, scen.ms[t], Top(t).m, Top(t).o>>)
  /\ \A t1, t2 \in Threads : (t1 < t2 /\ BothPoint /\ ConflictOn(t1, t2) # {}) =>
        PrintT(<<"PRED", "DATARACE", scen.ty, scen.ms[t1], scen.ms[t2], ConflictOn(t1, t2), Top(t1).o>>)
  /\ ~NoMutualDeadlock => PrintT(<<"PRED", "MUTUALDEADLOCK", scen.ty, scen.ms>>)
  /\ ~NoLeak => PrintT(<<"PRED", "LEAK", scen.ty, scen.ms>>)
=============================================================================
