SPECIFICATION MCSpec
CONSTANTS Proc <- MCProc
          WakeOnPut = TRUE
          NP = 2
          NE = 2
          NC = 2
          NOps = 1
          NAdmin = 0
          CapSet = {0, 1, 2}
          TSet = {2}
          LaneSet = {1}
          MaxClock = 0
          TagSet = {}
          GetKinds = {"Get", "GetNoWait"}
INVARIANTS SwallowOnlyNil TypeOK Fifo Conservation RefusalInert PerProducerOrder WaitingImpliesEmpty
PROPERTIES AllStepProps
CHECK_DEADLOCK FALSE
