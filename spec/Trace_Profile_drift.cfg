SPECIFICATION TraceSpec
CONSTANTS
  Strict = TRUE
CONSTRAINT Hwm
POSTCONDITION TraceAccepted
CHECK_DEADLOCK FALSE
