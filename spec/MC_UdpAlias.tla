---------------------------- MODULE MC_UdpAlias -----------------------------
(***************************************************************************)
(* C07 part 1, law Stable, on the design: an encoder entry point hands     *)
(* back a byte string; the caller may keep several of them (a send queue)  *)
(* and read them later.  Where the bytes live is the encoder's business:   *)
(*   Mode = "fresh"         every call writes into a buffer of its own;    *)
(*   Mode = "scratch_copy"  calls share a scratch buffer and hand out a    *)
(*                          copy;                                          *)
(*   Mode = "scratch_alias" calls share a scratch buffer and hand out the  *)
(*                          buffer itself (the shape of a pooled           *)
(*                          DataOutputX whose backing slice is returned    *)
(*                          uncopied) -> TLC refutes Stable.               *)
(* bufs = the backing arrays, ref[id] = the array the id-th kept output    *)
(* points into.                                                            *)
(***************************************************************************)
EXTENDS UdpPack, TLC

CONSTANT Mode, MaxKept

MCNotCleared == {}
VARIABLES bufs, ref
Vals == {<<1>>, <<2, 2>>, <<3, 3, 3>>}

MCInit == Init /\ bufs = <<>> /\ ref = <<>>

MCEncode ==
  /\ Len(kept) < MaxKept
  /\ \E val \in Vals :
       LET scratch == Mode # "fresh" /\ Len(bufs) > 0
           afterWrite == IF scratch THEN [bufs EXCEPT ![1] = val] ELSE Append(bufs, val)
           \* where the handed-out bytes live
           target == IF Mode = "scratch_alias" /\ scratch THEN 1
                     ELSE IF Mode = "scratch_copy" THEN Len(afterWrite) + 1
                     ELSE Len(afterWrite)
       IN /\ bufs' = IF target > Len(afterWrite) THEN Append(afterWrite, val) ELSE afterWrite
          /\ ref' = Append(ref, target)
          /\ UWrite("Relay", 50100, [Data |-> val], {"Data"}, <<>>, val, Len(val), TRUE)

MCPeek == \E id \in DOMAIN kept : /\ UPeek("bytes", id, bufs[ref[id]])
                                  /\ UNCHANGED <<bufs, ref>>

MCNext == MCEncode \/ MCPeek
MCSpec == MCInit /\ [][MCNext]_<<vars, bufs, ref>>
=============================================================================
