---------------------------- MODULE MC_ValueLaws -----------------------------
(***************************************************************************)
(* C20, mode M: the laws of ValueLaws are checked on the specification's   *)
(* OWN reference equality/comparison (ValueOrder) over a universe of small *)
(* values: every non-container type with several payloads (equal, adjacent,*)
(* -0/+0, infinities, NaN members that the laws must skip), summaries that *)
(* differ only in count or only in min/max, every container of at most two *)
(* items over the small scalars (lists, maps and int maps: equal size with *)
(* different keys, same keys in both insertion orders, same keys with      *)
(* values of different types) and containers of containers.                *)
(* All pairs and triples: the first index is the model's state (spread     *)
(* over the workers), the others are quantified.                           *)
(* Every eighth member occurs a second time (its "fresh twin": law Fresh), *)
(* and after the first judgement a round of mutators turns every eighth    *)
(* member into its right neighbour of the same type (and its twin with it) *)
(* for a second judgement of the same universe (laws again, and Stable):   *)
(* the reference relations are functions of the values, so they must pass. *)
(* With AsIsMaps = TRUE (MC_ValueLaws_asis.cfg) TLC refutes PAntisym: the  *)
(* map comparison golib had is not a lawful order.                         *)
(***************************************************************************)
EXTENDS ValueLaws, ValueEnum, TLC

F1 == <<63, 128, 0, 0>>
D1 == <<63, 240, 0, 0, 0, 0, 0, 0>>
D2 == <<64, 0, 0, 0, 0, 0, 0, 0>>
ExtraScalars ==
  <<VDecimal(W(1)), VDecimal(W(2)), VInt(W(1)), VInt(Fill(8, 255)), VLong(W(0)), VLong(W(128)),
    VFloat(<<128, 0, 0, 0>>), VFloat(F1), VFloat(<<191, 128, 0, 0>>), VFloat(<<127, 128, 0, 0>>), VFloat(<<255, 128, 0, 0>>),
    VFloat(<<0, 0, 0, 1>>), VFloat(<<128, 0, 0, 1>>),
    VDouble(<<128, 0, 0, 0, 0, 0, 0, 0>>), VDouble(D1), VDouble(<<191, 240, 0, 0, 0, 0, 0, 0>>), VDouble(<<127, 240, 0, 0, 0, 0, 0, 0>>),
    VDoubleSummary(D1, W(3), Zeros(8), D2), VDoubleSummary(D1, W(2), D1, D1), VDoubleSummary(D2, W(1), D1, D1),
    VDoubleSummary(Zeros(8), W(1), D1, D1), VDoubleSummary(<<128, 0, 0, 0, 0, 0, 0, 0>>, W(1), D1, D1),
    VLongSummary(W(7), W(1), W(0), W(9)), VLongSummary(W(7), MinI32, W(1), W(2)), VLongSummary(W(8), MinI32, W(1), W(2)),
    VText(<<98>>), VText(<<97, 98>>), VText(<<97, 0>>), VText(<<195, 169>>), VTextHash(W(1)),
    VBlob(<<0>>), VBlob(<<1>>), VBlob(<<1, 0>>), VBlob(<<255>>), VIP4(<<0, 0, 0, 1>>), VIP4(<<10, 0, 0, 0>>),
    VIntArray(<<W(1)>>), VIntArray(<<W(1), W(0)>>), VIntArray(<<Fill(8, 255)>>),
    VFloatArray(<< <<0, 0, 0, 0>> >>), VFloatArray(<< <<128, 0, 0, 0>> >>), VFloatArray(<< F1, F1 >>),
    VTextArray(<< <<97>> >>), VTextArray(<< <<>> >>), VLongArray(<<W(3)>>), VLongArray(<<MinI64>>)>>

\* containers of containers: equal shapes whose inner maps differ in keys / order / value types
InnerAll == <<VList(<<>>), VMap(<< <<<<97>>, VDecimal(W(1))>> >>), VMap(<< <<<<>>, VDecimal(W(1))>> >>),
           VIntMap(<< <<W(5), VNull>>, <<Fill(8, 255), VText(<<97>>)>> >>), VIntMap(<< <<Fill(8, 255), VText(<<97>>)>>, <<W(5), VNull>> >>)>>

Inner == SubSeq(InnerAll, 1, IF SmallN < 5 THEN SmallN ELSE 5)

U0 == FullScalars \o ExtraScalars \o Containers(SmallScalars) \o Containers(Inner)
N0 == Len(U0)
ND == (N0 + 7) \div 8
U == U0 \o [k \in 1..ND |-> U0[8 * (k - 1) + 1]]
N == Len(U)
TwinU == Tup([i \in 1..N |-> IF i > N0 THEN 8 * (i - N0 - 1) + 1 ELSE IF i % 8 = 1 THEN N0 + ((i - 1) \div 8) + 1 ELSE 0])

EU == Tup([i \in 1..N |-> Tup([j \in 1..N |-> IF RefEquals(U[i], U[j]) THEN 1 ELSE 0])])
CU == Tup([i \in 1..N |-> Tup([j \in 1..N |-> RefCompare(U[i], U[j])])])
\* the spec's own decoder returns the very value (MC_Value), so "the decoded copy of i" is i
DecU == Tup([i \in 1..N |-> IF RoundTrips(U[i]) THEN i ELSE 0])
PoolU == MkPoolT(U, EU, CU, DecU, TwinU)

\* the second judgement: the members of Mut were mutated into their right neighbours (same type), their twins with them
Mut == {i \in 1..(N0 - 1) : i % 8 = 1 /\ U[i].t = U[i + 1].t}
Sigma == Tup([i \in 1..N |-> IF i \in Mut THEN i + 1 ELSE IF i > N0 /\ TwinU[i] \in Mut THEN TwinU[i] + 1 ELSE i])
V == Tup([i \in 1..N |-> U[Sigma[i]]])
EV == Tup([i \in 1..N |-> Bind(EU[Sigma[i]], LAMBDA row : Tup([j \in 1..N |-> row[Sigma[j]]]))])
CV == Tup([i \in 1..N |-> Bind(CU[Sigma[i]], LAMBDA row : Tup([j \in 1..N |-> row[Sigma[j]]]))])
PoolV == MkPoolT(V, EV, CV, DecU, TwinU)
MutSeq == SelectSeq([i \in 1..N0 |-> i], LAMBDA i : i \in Mut)
OpsM == [k \in 1..Len(MutSeq) |-> [i |-> MutSeq[k], op |-> CHOOSE o \in Mutators(U[MutSeq[k]].t) : TRUE]]

\* The first index is chosen in two steps (a block, then a member of the block) so that TLC's
\* workers share the universe: focus = {-b} marks "block b chosen, nothing judged yet".
NBlocks == 32
MCInit == LInit
PickBlock == pool.n = 0 /\ focus = {} /\ focus' \in {{-b} : b \in 1..NBlocks} /\ UNCHANGED <<pool, prev, cont, muts>>
MCNext == \/ PickBlock
          \/ /\ pool.n = 0 /\ focus # {}
             /\ \E i \in Members(PoolU) : {-((i % NBlocks) + 1)} = focus /\ Judge(PoolU, {i})
          \/ pool.n > 0 /\ prev.n = 0 /\ ~cont /\ Mutate(OpsM)
          \/ cont /\ Judge(PoolV, focus)
MCSpec == MCInit /\ [][MCNext]_lvars

ASSUME \A i \in 1..N : IsValue(U[i]) /\ DecU[i] = i
ASSUME Mut # {} /\ \E i \in Mut : TwinU[i] # 0
ASSUME {U[i].t : i \in 1..N} = TypeCodes
ASSUME \E i \in 1..N : PoolU.nan[i]
ASSUME \A i \in 1..N : PoolU.nan[i] <=> U[i].t \in {TFloat, TDouble} /\ HasNaN(U[i])
ASSUME PrintT(<<"MC_ValueLaws universe", N, "members", Cardinality(Members(PoolU))>>)
=============================================================================
