SPECIFICATION MCSpec
CONSTANTS MaxN = 3
          ByteVals = {0, 1, 2, 255}
          MaxOps = 4
          Slot = 16
          K = 16
          C = 8
          DetachFirst = TRUE
          PreSize = FALSE
INVARIANTS StickyFailure NoFabrication2 BoundedAlloc2
CHECK_DEADLOCK FALSE
