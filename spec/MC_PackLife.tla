---------------------------- MODULE MC_PackLife -----------------------------
(***************************************************************************)
(* Model checking of Part 5 of PackCodec (objects that live on) on the     *)
(* small world of MC_PackCodec: two live objects, each either a PACK       *)
(* object (the hit-map pack of the small world: written, changed through   *)
(* its hit cell, written again, decoded) or a zip / log-sink zip CONTAINER *)
(* (built over registered items, looked at again later, unpacked), in      *)
(* every interleaving.  What a writer or the compressor hands out lives in *)
(* a small memory model so that designs that share state between calls can *)
(* be expressed:                                                           *)
(*   Pooled     the compressor and the pack writer return a view of ONE    *)
(*              re-used buffer instead of bytes of their own (the design:  *)
(*              FALSE).  The next call overwrites what the earlier caller  *)
(*              still holds: refuted by ZipLaw / Stable / CarriedRestored. *)
(*   StaleKeep  the writer keeps the cell it sent last in the object and   *)
(*              refreshes it only from a non-zero field (the design:       *)
(*              FALSE): a pack written with a non-zero cell, reset to 0    *)
(*              and written again sends the old cell: refuted by           *)
(*              CarriedRestored at the second write.                       *)
(***************************************************************************)
EXTENDS MC_PackCodec

CONSTANTS Pooled, StaleKeep, Objects, MaxWrites, SeqLen

VARIABLES objs,   \* pack objects: id -> [p |-> abstract pack, kept |-> the cell the writer sent last, n |-> writes so far]
          mem,    \* the re-used buffer (Pooled designs)
          loc     \* id -> where the blob handed out for that object lives (bytes of its own, or a view of the first len bytes of mem)
                  \*       plus, for a container, its type, header, count and status byte
lvars == <<mcvars, objs, mem, loc>>

LInit == MCInit /\ objs = NoObjects /\ mem = <<>> /\ loc = NoObjects

Put(f, k, v) == [x \in DOMAIN f \cup {k} |-> IF x = k THEN v ELSE f[x]]
Read(o) == IF loc[o].view THEN SubSeq(mem, 1, loc[o].len) ELSE loc[o].own
\* a call hands out the bytes b: its own, or a view of the re-used buffer
MemAfter(b) == IF Pooled THEN b \o From(mem, Len(b) + 1) ELSE mem
Own(b)   == [view |-> FALSE, own |-> b, len |-> Len(b)]
Where(b) == IF Pooled THEN [view |-> TRUE, own |-> <<>>, len |-> Len(b)] ELSE Own(b)

IsPack(o) == o \in DOMAIN objs
IsBox(o)  == o \in DOMAIN loc /\ o \notin DOMAIN objs

\* ---- a pack object ----
\* what the writer sends for the object: the design sends the content
Sent(ob) == IF StaleKeep /\ ob.p.f[1] = Zeros(8) THEN [ob.p EXCEPT !.f = <<ob.kept, ob.p.f[2]>>] ELSE ob.p
MsgB(p, b) == [MsgFor(p) EXCEPT !.bytes = b]

LNew == /\ cur \notin DOMAIN loc /\ cur \notin DOMAIN objs /\ store = <<>>
        /\ \E p \in {q \in CellPacks : q.f[2] = Zeros(8)} : objs' = Put(objs, cur, [p |-> p, kept |-> Zeros(8), n |-> 0])
        /\ UNCHANGED <<mcvars, mem, loc>>

LWrite == /\ IsPack(cur) /\ objs[cur].n < MaxWrites
          /\ LET ob == objs[cur]
                 b  == RefEnc(Sent(ob)) IN
               /\ IF msg = None THEN Encode(MsgB(ob.p, b)) ELSE Rewrite(MsgB(ob.p, b))
               /\ objs' = Put(objs, cur, [ob EXCEPT !.kept = Sent(ob).f[1], !.n = @ + 1])
               /\ mem' = MemAfter(b) /\ loc' = Put(loc, cur, Where(b))
          /\ UNCHANGED <<dp, its>>

LMutate == /\ IsPack(cur) /\ msg # None
           /\ \E c \in CellNs :
                LET p2 == [objs[cur].p EXCEPT !.f = <<CellOf(c), @[2]>>] IN
                /\ p2 # objs[cur].p
                /\ objs' = Put(objs, cur, [objs[cur] EXCEPT !.p = p2])
                /\ Mutate([x \in {"Hit"} |-> Leaves(p2)["Hit"]], {})
           /\ UNCHANGED <<dp, its, mem, loc>>

\* the reader is given the slice the writer handed out, as it is now
LDecode == /\ IsPack(cur) /\ msg # None /\ dec = None
           /\ LET d == RefDec(Read(cur) \o Trailer, 1) IN
                IF d.ok THEN Decode(d.p.type, Leaves(d.p), d.next - 1)
                ELSE Decode("unreadable", [x \in {} |-> 0], 0)
           /\ UNCHANGED <<dp, its, objs, mem, loc>>

LPeekBytes == /\ IsPack(cur) /\ msg # None /\ held = None
              /\ Peek([what |-> {"bytes"}, bytes |-> Read(cur), r |-> <<>>, d |-> <<>>, status |-> 0, gz |-> FALSE, same |-> FALSE])
              /\ UNCHANGED <<dp, its, objs, mem, loc>>

\* ---- a container ----
LRegister == /\ Len(store) < MaxItems /\ objs = NoObjects /\ loc = NoObjects /\ cur = 0
             /\ \E p \in LeafPacks : Register(MsgFor(p)) /\ its' = Append(its, p)
             /\ UNCHANGED <<dp, objs, mem, loc>>

ItemSeqs == {s \in SeqsUpTo(1..Len(its), SeqLen) : s # <<>>}
PlainOf(items) == Concat([i \in 1..Len(items) |-> RefEnc(its[items[i]])])
Seen(o, items) == LET rb == Read(o) IN
  [gz |-> IsGz(rb), same |-> (IF IsGz(rb) THEN UnGz(rb) ELSE rb) = PlainOf(items)]

LBuild ==
  /\ cur \notin DOMAIN loc /\ cur \notin DOMAIN objs /\ box = None /\ Len(its) > 0
  /\ \E kind \in {"zip", "lszip"}, h \in HeadersC, items \in ItemSeqs, minsize \in {0, 1000} :
       LET plain == PlainOf(items)
           st    == ZipStatus(0, minsize, Len(plain))
           z     == IF st = 1 THEN Gz(plain) ELSE plain
       IN /\ mem' = IF st = 1 THEN MemAfter(z) ELSE mem
          /\ loc' = Put(loc, cur, Merge(IF st = 1 THEN Where(z) ELSE Own(z),
                                        [type |-> IF kind = "zip" THEN "ZipPack" ELSE "LogSinkZipPack", h |-> h,
                                         count |-> Len(items), status |-> st]))
          /\ Build([kind |-> kind, items |-> items, id |-> [f \in Identity |-> h[f]], status0 |-> 0,
                    minsize |-> minsize, plainlen |-> Len(plain), status |-> st, gz |-> IsGz(z),
                    same |-> (IF IsGz(z) THEN UnGz(z) ELSE z) = plain])
  /\ UNCHANGED <<dp, its, objs>>

\* the records blob the container holds, looked at again
LPeekBox == /\ IsBox(cur) /\ box # None /\ held = None
            /\ Peek([what |-> {"box"}, bytes |-> <<>>, r |-> <<>>, d |-> <<>>, status |-> loc[cur].status,
                     gz |-> Seen(cur, box.items).gz, same |-> Seen(cur, box.items).same])
            /\ UNCHANGED <<dp, its, objs, mem, loc>>

\* the container goes over the wire with the blob it holds NOW and is unpacked
LUnpack == /\ IsBox(cur) /\ box # None /\ out = None
           /\ LET c == [type |-> loc[cur].type, h |-> loc[cur].h,
                        f |-> [status |-> loc[cur].status, count |-> loc[cur].count, records |-> Read(cur)]]
                  d == RefDec(RefEnc(c), 1)
                  u == IF d.ok THEN RefUnpack(d.p) ELSE <<>>
              IN Unpack([i \in 1..Len(u) |-> [type |-> u[i].type, r |-> Leaves(u[i])]])
           /\ UNCHANGED <<dp, its, objs, mem, loc>>

LUse == /\ \E o \in Objects \ {cur} : Use(o)
        /\ UNCHANGED <<dp, its, objs, mem, loc>>

LNext == LNew \/ LWrite \/ LMutate \/ LDecode \/ LPeekBytes \/ LRegister \/ LBuild \/ LPeekBox \/ LUnpack \/ LUse
LSpec == LInit /\ [][LNext]_lvars
=============================================================================
