------------------------------ MODULE PackObj -------------------------------
(***************************************************************************)
(* C05 -- the pack OBJECT between writes.  PackWire says what the bytes of *)
(* a pack with given content are; a pack object is written more than once  *)
(* in its life (re-sent, re-used, decoded and forwarded) and changed in    *)
(* between through its public surface.  The property quantifies over all   *)
(* field values: every write must be the reference encoding of the content *)
(* the object has AT THAT MOMENT.  This module is the state machine of one  *)
(* object: New (built through the constructors), Mut (one call of a public *)
(* mutator or one assignment to an exported field), Write (ToBytesPack).   *)
(* The content after a mutator is written here from what the call is       *)
(* documented / named to do, not from its code.                            *)
(*                                                                         *)
(* The only state a pack keeps besides its content is the TAG HASH of the  *)
(* tag-count and log-sink packs (the 64-bit hash of the encoded tag map,   *)
(* sent in front of it so that a collector can intern tag sets):           *)
(*   tag-count: private; it always describes the tags (PackWire!Wire).     *)
(*   log-sink : an exported field.  0 = "compute at the next write";       *)
(*              non-zero = sent as it is.  Every library call that changes *)
(*              the tags (TransferOidToTag when it adds a tag) puts it     *)
(*              back to 0; ResetTagHash recomputes it; a caller who edits  *)
(*              the exported tag map or the field himself owns the result. *)
(* Ghost `lib` = the hash is the library's own (nobody assigned the field  *)
(* or edited the exported map under a cached hash).  Invariant HashOwned:  *)
(* a library-owned hash is 0 or the hash of the CURRENT tags -- so what a  *)
(* collector receives in front of a tag map describes that tag map.        *)
(*                                                                         *)
(* A mutation m is a record with field op:                                 *)
(*   set field val        assignment to an exported field / its setter     *)
(*                        (SetPCODE .. SetTime, SetContent); header fields *)
(*                        for every kind                                   *)
(*   mapPut field key val Put on an exported map (tags, data, fields);     *)
(*                        tag-count Put(name, v) is mapPut on data         *)
(*   mapClear field       Clear on an exported map (tag-count Clear())     *)
(*   putTag key val       tag-count PutTag (text value)                    *)
(*   transfer             log-sink TransferOidToTag                        *)
(*   resetHash            log-sink ResetTagHash; result = encoded tag map  *)
(*   contentBytes d       log-sink SetContentBytes                         *)
(*   addTexts recs        text AddText / AddTexts                          *)
(*   put key val          parameter Put / PutString / PutLong              *)
(*   putAll map           parameter SetMapValue                            *)
(*   toResponse           parameter ToResponse                             *)
(*   attrPut k v, attrRemove k   event: the exported attribute map         *)
(*   setUuid uuid         event SetUuid; uuid = the value found afterwards *)
(*   setRecords items     zip SetRecords(inner packs)                      *)
(*   cell idx hit err     hit-map: assignment to one cell                  *)
(*   add time isError     hit-map Add                                      *)
(***************************************************************************)
EXTENDS PackWire

VARIABLES cur,   \* <<>> = no object, else [kind |-> .., p |-> the content]
          lib,   \* ghost: the tag hash is the library's own
          out    \* the bytes of the last write if nothing changed since, else <<>>

ovars == <<cur, lib, out>>

ObjInit == cur = <<>> /\ lib = TRUE /\ out = <<>>

KOid   == <<111, 105, 100>>              \* "oid"
KOkind == <<111, 107, 105, 110, 100>>    \* "okind"
KOnode == <<111, 110, 111, 100, 101>>    \* "onode"

HeaderFields == {"pcode", "oid", "okind", "onode", "time"}
Hashed == {"tagcount", "logsink"}

\* ---- maps (a map value is [t |-> 80, v |-> sequence of <<key, value>>], insertion order;
\* a key that is present keeps its place)
HasKey(m, k) == \E i \in 1..Len(m.v) : m.v[i][1] = k
MapPut(m, k, x) ==
  IF HasKey(m, k)
  THEN [m EXCEPT !.v = [i \in 1..Len(m.v) |-> IF m.v[i][1] = k THEN <<k, x>> ELSE m.v[i]] \o <<>>]
  ELSE [m EXCEPT !.v = Append(m.v, <<k, x>>)]

\* the parameter table: sequence of [key, value]
TabPut(tab, k, x) ==
  IF \E i \in 1..Len(tab) : tab[i].key = k
  THEN [i \in 1..Len(tab) |-> IF tab[i].key = k THEN [key |-> k, value |-> x] ELSE tab[i]] \o <<>>
  ELSE Append(tab, [key |-> k, value |-> x])
RECURSIVE TabPutAll(_, _, _)
TabPutAll(tab, pairs, i) == IF i > Len(pairs) THEN tab
                            ELSE Bind(TabPut(tab, pairs[i][1], pairs[i][2]), LAMBDA t : TabPutAll(t, pairs, i + 1))

\* ---- log-sink: object id, kind and node become decimal tags when they are
\* non-zero and the tag is not there yet; the hash is void iff a tag was added
Transfer(p) ==
  Bind(IF p.oid # Z8 /\ ~HasKey(p.tags, KOid) THEN MapPut(p.tags, KOid, VDecimal(p.oid)) ELSE p.tags, LAMBDA t1 :
  Bind(IF p.okind # Z8 /\ ~HasKey(t1, KOkind) THEN MapPut(t1, KOkind, VDecimal(p.okind)) ELSE t1, LAMBDA t2 :
  Bind(IF p.onode # Z8 /\ ~HasKey(t2, KOnode) THEN MapPut(t2, KOnode, VDecimal(p.onode)) ELSE t2, LAMBDA t3 :
       [p EXCEPT !.tags = t3, !.tagHash = IF t3 = p.tags THEN @ ELSE Z8])))

\* log-sink content blob: version 1, content text, decimal line; anything else is ignored
ContentDec(d) ==
  Bind(DX!Dec("Text", d, 2), LAMBDA t :
    IF ~t.ok THEN [ok |-> FALSE, content |-> <<>>, line |-> Z8]
    ELSE Bind(DX!Dec("Decimal", d, t.next), LAMBDA n :
           IF ~n.ok THEN [ok |-> FALSE, content |-> <<>>, line |-> Z8]
           ELSE [ok |-> TRUE, content |-> t.v, line |-> n.v]))
\* (IF, not \/: inside an action TLC explores both sides of a disjunction)
ContentIgnored(d) == IF Len(d) = 0 THEN TRUE ELSE d[1] # 1

\* ---- hit-map: the response-time axis.  40 cells of 125 ms up to 5 s, 20 of
\* 250 ms up to 10 s, 20 of 500 ms up to 20 s, 20 of 1 s up to 40 s, 20 of 2 s
\* up to 80 s (the last cell takes everything beyond); 0-based cell number
HitIndex(t) ==
  IF t < 5000 THEN t \div 125
  ELSE IF t < 10000 THEN 40 + (t - 5000) \div 250
  ELSE IF t < 20000 THEN 60 + (t - 10000) \div 500
  ELSE IF t < 40000 THEN 80 + (t - 20000) \div 1000
  ELSE IF t < 80000 THEN 100 + (t - 40000) \div 2000
  ELSE 119
RECURSIVE IncFrom(_, _)
IncFrom(v, i) == IF i = 0 THEN v
                 ELSE IF v[i] < 255 THEN [v EXCEPT ![i] = @ + 1]
                 ELSE IncFrom([v EXCEPT ![i] = 0], i - 1)
\* a 32-bit counter (as W8) plus one
Inc32(w) == SignExt(Low(IncFrom(w, Len(w)), 4), 8)

\* ---- what can be assigned
Settable(kind, p) ==
  HeaderFields \cup
  (CASE kind = "tagcount" -> {"category", "tags", "data"}
     [] kind = "logsink"  -> {"category", "tagHash", "tags", "line", "content", "fields"}
     [] kind = "text"     -> {}
     [] kind = "param"    -> {"id", "request", "response"}
     [] kind = "event"    -> {"uuid", "escalation", "level", "title", "message", "status", "otype", "attrs"}
     [] kind = "zip"      -> {"status", "recordCount", "records"}
     [] kind = "hitmap"   -> {"cells"}
     [] kind = "counter"  -> DOMAIN p)
MapFields(kind) == CASE kind = "tagcount" -> {"tags", "data"}
                     [] kind = "logsink"  -> {"tags", "fields"}
                     [] OTHER -> {}

\* the tag hash of a tag-count pack is private: its exported tag map is the
\* caller's only while no hash is cached (a documented limit of the check)
TagsFree(kind, p, f) == (kind = "tagcount" /\ f = "tags") => p.tagHash = Z8

OpKinds == [set |-> Kinds, mapPut |-> Hashed, mapClear |-> Hashed, putTag |-> {"tagcount"},
            transfer |-> {"logsink"}, resetHash |-> {"logsink"}, contentBytes |-> {"logsink"},
            addTexts |-> {"text"}, put |-> {"param"}, putAll |-> {"param"}, toResponse |-> {"param"},
            attrPut |-> {"event"}, attrRemove |-> {"event"}, setUuid |-> {"event"},
            setRecords |-> {"zip"}, cell |-> {"hitmap"}, add |-> {"hitmap"}]

CanApply(kind, p, m) ==
  /\ m.op \in DOMAIN OpKinds
  /\ kind \in OpKinds[m.op]
  /\ CASE m.op = "set" -> m.field \in Settable(kind, p) /\ m.field \in DOMAIN p /\ TagsFree(kind, p, m.field)
       [] m.op \in {"mapPut", "mapClear"} -> m.field \in MapFields(kind) /\ TagsFree(kind, p, m.field)
       [] m.op = "contentBytes" -> IF ContentIgnored(m.d) THEN TRUE ELSE ContentDec(m.d).ok
       [] m.op = "setUuid" -> IF Len(p.uuid) > 0 THEN m.uuid = p.uuid ELSE Len(m.uuid) > 0
       [] m.op = "setRecords" -> \A i \in 1..Len(m.items) : m.items[i].kind \in Kinds /\ Fits(m.items[i].kind, m.items[i].p)
       [] m.op = "cell" -> m.idx \in 0..(HitMapCells - 1)
       [] m.op = "add" -> m.time \in Nat
       [] OTHER -> TRUE

Apply(kind, p, m) ==
  CASE m.op = "set" -> [p EXCEPT ![m.field] = m.val]
    [] m.op = "mapPut" -> [p EXCEPT ![m.field] = MapPut(@, m.key, m.val)]
    [] m.op = "mapClear" -> [p EXCEPT ![m.field] = [@ EXCEPT !.v = <<>>]]
    [] m.op = "putTag" -> [p EXCEPT !.tags = MapPut(@, m.key, VText(m.val)), !.tagHash = Z8]
    [] m.op = "transfer" -> Transfer(p)
    [] m.op = "resetHash" -> [p EXCEPT !.tagHash = Hash64(EncValue(p.tags))]
    [] m.op = "contentBytes" -> IF ContentIgnored(m.d) THEN p
                                ELSE Bind(ContentDec(m.d), LAMBDA c : [p EXCEPT !.content = c.content, !.line = c.line])
    [] m.op = "addTexts" -> [p EXCEPT !.records = @ \o m.recs]
    [] m.op = "put" -> [p EXCEPT !.table = TabPut(@, m.key, m.val)]
    [] m.op = "putAll" -> [p EXCEPT !.table = TabPutAll(@, m.map.v, 1)]
    [] m.op = "toResponse" -> IF p.request = Z8 THEN p ELSE [p EXCEPT !.response = p.request, !.request = Z8]
    [] m.op = "attrPut" -> [p EXCEPT !.attrs = Upsert(@, m.k, m.v)]
    [] m.op = "attrRemove" -> [p EXCEPT !.attrs = SelectSeq(@, LAMBDA a : a.k # m.k)]
    [] m.op = "setUuid" -> [p EXCEPT !.uuid = m.uuid]
    [] m.op = "setRecords" -> [p EXCEPT !.recordCount = NatW8(Len(m.items)),
                                        !.records = Flat([i \in 1..Len(m.items) |-> PackBytes(m.items[i].kind, m.items[i].p)])]
    [] m.op = "cell" -> [p EXCEPT !.cells[m.idx + 1] = [hit |-> m.hit, err |-> m.err]]
    [] m.op = "add" -> [p EXCEPT !.cells[HitIndex(m.time) + 1] =
                           [hit |-> Inc32(@.hit), err |-> IF m.isError THEN Inc32(@.err) ELSE @.err]]

\* what the call returns (where it returns something about the pack)
HasResult(m) == m.op = "resetHash"
Result(kind, p, m) == EncValue(p.tags)

\* the ghost after mutation m of content p (q = the content afterwards)
Owner(kind, p, m, q, was) ==
  IF kind \notin Hashed THEN was
  ELSE CASE m.op \in {"putTag", "resetHash"} -> TRUE
         [] m.op = "transfer" -> was \/ q.tagHash = Z8
         [] m.op = "set" /\ m.field = "tagHash" -> m.val = Z8
         [] m.op \in {"set", "mapPut", "mapClear"} /\ m.field = "tags" -> was /\ (p.tagHash = Z8 \/ q.tags = p.tags)
         [] OTHER -> was

\* ---- actions
New(kind, p) ==
  /\ kind \in Kinds
  /\ Fits(kind, p)
  /\ cur' = [kind |-> kind, p |-> p]
  /\ lib' = (kind \in Hashed => p.tagHash = Z8)
  /\ out' = <<>>

Mut(m) ==
  /\ cur # <<>>
  /\ CanApply(cur.kind, cur.p, m)
  /\ \E q \in {Apply(cur.kind, cur.p, m)} :
       /\ Fits(cur.kind, q)
       /\ cur' = [cur EXCEPT !.p = q]
       /\ lib' = Owner(cur.kind, cur.p, m, q, lib)
  /\ out' = <<>>

\* ToBytesPack: the reference encoding of the content of this moment; what the
\* writer derived (the tag hash, the reserved event attributes) stays in the object
Write(bytes) ==
  /\ cur # <<>>
  /\ bytes = PackBytes(cur.kind, cur.p)
  /\ cur' = [cur EXCEPT !.p = AfterWrite(cur.kind, cur.p)]
  /\ out' = bytes
  /\ UNCHANGED lib

Drop == cur' = <<>> /\ lib' = TRUE /\ out' = <<>>

\* The object's own Read is handed the message `bytes` of ANOTHER pack of its kind with
\* content p2 (a receiver that decodes every message into one object and forwards it):
\* from then on the object IS that pack -- nothing the object held or derived before
\* (content, a cached hash, cached encodings) has a say in a later write.  For the kinds
\* whose reader restores the content as it is.
RereadKinds == {"tagcount", "logsink", "text", "param", "zip"}
ReadInto(kind, p2, bytes) ==
  /\ cur # <<>> /\ kind = cur.kind /\ kind \in RereadKinds
  /\ Fits(kind, p2)
  /\ bytes = PackBytes(kind, p2)
  /\ cur' = [cur EXCEPT !.p = AfterWrite(kind, p2)]
  /\ lib' = (kind \in Hashed => p2.tagHash = Z8)
  /\ out' = <<>>

\* ---- properties
\* a hash the library is responsible for is void or describes the current tags
HashOwned == (cur # <<>> /\ cur.kind \in Hashed /\ lib) =>
                (cur.p.tagHash = Z8 \/ cur.p.tagHash = Hash64(EncValue(cur.p.tags)))

\* the bytes just written decode, by the layout alone, to the content the object has
\* (so a second write would be the same bytes), and a library-owned hash in them
\* is the hash of exactly the tag section that follows it
Written == out # <<>> =>
  /\ Decodes(cur.kind, cur.p, out)
  /\ out = PackBytes(cur.kind, cur.p)
  /\ (cur.kind \in Hashed /\ lib) =>
        Bind(DecPack(out, 1), LAMBDA d :
          d.ok /\ (d.v.tagHash = Hash64(EncValue(d.v.tags)) \/ (d.v.tagHash = Z8 /\ Len(d.v.tags.v) = 0)))
=============================================================================
