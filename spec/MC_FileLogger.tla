---------------------------- MODULE MC_FileLogger ----------------------------
(***************************************************************************)
(* Exhaustive exploration of the FileLogger design for small constants:    *)
(* two days, at most MaxLogs log calls of three families, MaxCycles        *)
(* periodic cycles split in their two halves (so a Log between the halves  *)
(* is explored), a directory with the four file-name shapes retention must *)
(* tell apart, and every Read window over a 10-byte file.                  *)
(*                                                                         *)
(* MC_FileLogger.cfg       Design = "repaired": all properties hold        *)
(* MC_FileLogger_asis.cfg  Design = "asis": TLC refutes LinesWholeInOrder  *)
(*                         (a line logged between close and reopen is lost)*)
(***************************************************************************)
EXTENDS FileLogger

CONSTANTS MaxLogs, MaxCycles, MaxAdv, MaxReads

VARIABLES calls, cycles, advs, reads
mcvars == <<vars, calls, cycles, advs, reads>>

Id    == <<119>>                 \* "w"
Oname == <<98>>                  \* "b"
D0    == 9                       \* 2000-01-10
St    == <<50,48,48,48,47,48,49,47,48,49,32,48,48,58,48,48,58,48,48,32>>   \* "2000/01/01 00:00:00 "
C0    == [level |-> 2, iv |-> 2, keep |-> 2, rot |-> TRUE, id |-> Id, oname |-> Oname]
T0    == [d |-> D0, ms |-> DayMs - 30000]                                  \* half a minute to midnight

Own(day) == Id \o <<DASH>> \o Oname \o <<DASH>> \o YMD(day) \o DotLog
OldOwn   == Own(D0 - 3)                                                    \* older than keep-days
YoungOwn == Own(D0 - 1)                                                    \* within keep-days
Foreign  == <<119, 120, 45, 98, 45>> \o YMD(D0 - 5) \o DotLog              \* "wx-b-<old date>.log"
NonDate  == <<119, 45, 100, 97, 116, 97, 98, 97, 115, 101>> \o DotLog      \* "w-database.log"
TenFile  == <<114>>                                                        \* "r": ten bytes to read
Ten      == <<1, 2, 3, 4, 5, 6, 7, 8, 9, 10>>
Survivors == {YoungOwn, Foreign, NonDate, TenFile}

MCBanner == BannerOf(Oname, now, St, St, St, <<48>>)

MCInit == /\ now = T0 /\ conf = C0
          /\ files = (OldOwn :> <<111>>) @@ (YoungOwn :> <<121>>) @@ (Foreign :> <<102>>) @@ (NonDate :> <<110>>)
                     @@ (TenFile :> Ten) @@ (Own(D0) :> BannerOf(Oname, T0, St, St, St, <<48>>))
          /\ dirs = {} /\ cur = Own(D0) /\ lastDay = D0 /\ lastRot = TRUE
          /\ retainAt = T0 /\ recent = EmptyFn /\ phase = "run"
          /\ acc = 0 /\ wrote = EmptyFn /\ gone = {} /\ fresh = TRUE /\ supp = NoSupp
          /\ deleted = {} /\ rd = NoRead
          /\ calls = 0 /\ cycles = 0 /\ advs = 0 /\ reads = 0

Msgs == {<<97>>}
Pids == {<<120>>}

MCLog == /\ calls < MaxLogs /\ calls' = calls + 1 /\ UNCHANGED <<cycles, advs, reads>>
         /\ \E kind \in {"W", "I", "P"}, s \in Msgs, pid \in Pids :
              \/ LogDrop(kind)
              \/ LogSuppress(kind, pid, s)
              \/ LogEmit(kind, pid, s, St, 2)
              \/ LogLose(kind, pid, s)

MCAdvance == /\ advs < MaxAdv /\ advs' = advs + 1 /\ UNCHANGED <<calls, cycles, reads>>
             /\ \E dt \in {1000, 61000} : AddMs(now, dt).d <= D0 + 1 /\ Advance(AddMs(now, dt))

MCCycle == \/ /\ cycles < MaxCycles /\ cycles' = cycles + 1 /\ UNCHANGED <<calls, advs, reads>>
              /\ \/ CycleA("none", <<>>, {})
                 \/ Design = "repaired" /\ CycleA("swap", MCBanner, {})
                 \/ Design = "asis" /\ CycleA("close", <<>>, {})
           \/ /\ UNCHANGED <<calls, cycles, advs, reads>>
              /\ (CycleB(<<>>) \/ CycleB(MCBanner))

MCConf == /\ cycles < MaxCycles /\ calls = 0 /\ conf.rot
          /\ Configure(2, 2, 2, FALSE) /\ UNCHANGED <<calls, cycles, advs, reads>>

ReadNames == {TenFile, <<46, 46, 47>> \o TenFile, <<115, 47, 46, 46, 47>> \o TenFile, <<47>> \o TenFile, <<113>>, <<>>}
MCRead == /\ reads < MaxReads /\ reads' = reads + 1 /\ UNCHANGED <<calls, cycles, advs>>
          /\ \E f \in ReadNames, e \in -1..11, ln \in -1..12 :
               LET a == ReadAnswer(f, e, ln) IN
                 Read(f, e, ln, IF a.nil THEN [nil |-> TRUE] ELSE [nil |-> FALSE, before |-> a.before, text |-> a.text, next |-> -1], <<>>, <<>>)

MCNext == MCLog \/ MCAdvance \/ MCCycle \/ MCConf \/ MCRead
MCSpec == MCInit /\ [][MCNext]_mcvars

\* retention leaves everything that is not an own dated file past keep-days
SurvivorsSurvive == Survivors \subseteq DOMAIN files
\* after a completed cycle with retention due, the old own file is gone
OldRemoved == (phase = "run" /\ cycles > 0 /\ retainAt # T0 /\ conf.rot) => OldOwn \notin DOMAIN files
\* Read answers for the names that climb out of logs/ are nil
=============================================================================
