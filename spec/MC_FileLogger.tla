---------------------------- MODULE MC_FileLogger ----------------------------
(***************************************************************************)
(* Exhaustive exploration of the FileLogger design for small constants:    *)
(* two days, at most MaxLogs log calls of three families, MaxCycles        *)
(* periodic cycles split in their two halves (so a Log between the halves, *)
(* and between the banner lines, is explored), a directory with the file-  *)
(* name shapes retention must tell apart (one of them created by an        *)
(* external writer at any moment), and Read windows over a 10-byte file    *)
(* (every window in the initial state, a border set in every other state), *)
(* under plain, dot-dot, sibling-directory and symbolic-link names.         *)
(*                                                                         *)
(* MC_FileLogger.cfg       Design = "repaired": all properties hold        *)
(* MC_FileLogger_env.cfg   the same with environment faults between the    *)
(*                         actions (somebody else appends to / removes /   *)
(*                         cuts short a file, also the output file; the    *)
(*                         logs directory is removed; a regular file is    *)
(*                         put in its place and taken away again) and the  *)
(*                         cycles that follow: lines vanish only from      *)
(*                         under a detached logger, and a rotation with    *)
(*                         logs/ missing makes it again (Recovers)         *)
(* MC_FileLogger_duo.cfg   two loggers with the same id and name in one    *)
(*                         home (one file, two writers) that take turns    *)
(*                         (Switch), one external fault                    *)
(* MC_FileLogger_asis.cfg  Design = "asis" (close, then open -- what golib *)
(*                         did before the C17 repair): TLC refutes         *)
(*                         LinesWholeInOrder (a line logged between close  *)
(*                         and reopen is lost).  Documentation of the      *)
(*                         repaired defect; not part of the check.         *)
(***************************************************************************)
EXTENDS FileLogger

CONSTANTS MaxLogs, MaxCycles, MaxAdv, MaxReads, MaxExt, MaxFaults, MaxLoggers, MaxSwitch,
          Slim      \* TRUE: one family of log calls, no separate banner lines, no settings change (the fault / two-logger configurations)

VARIABLES calls, cycles, advs, reads, exts, faults, switches,
          fday       \* the day of the last external fault (-1: none)
cnt == <<calls, cycles, advs, reads, exts, faults, switches, fday>>
mcvars == <<vars, cnt>>

Id    == <<119>>                 \* "w"
Oname == <<98>>                  \* "b"
D0    == 9                       \* 2000-01-10
St    == <<50,48,48,48,47,48,49,47,48,49,32,48,48,58,48,48,58,48,48,32>>   \* "2000/01/01 00:00:00 "
T0    == [d |-> D0, ms |-> DayMs - 30000]                                  \* half a minute to midnight

Own(day) == Id \o <<DASH>> \o Oname \o <<DASH>> \o YMD(day) \o DotLog
OldOwn   == Own(D0 - 8)                                                    \* older than keep-days (7)
EdgeOwn  == Own(D0 - 7)                                                    \* exactly keep-days old today
YoungOwn == Own(D0 - 1)                                                    \* within keep-days
Foreign  == <<119, 120, 45, 98, 45>> \o YMD(D0 - 9) \o DotLog              \* "wx-b-<old date>.log"
NonDate  == <<119, 45, 100, 97, 116, 97, 98, 97, 115, 101>> \o DotLog      \* "w-database.log"
BadDate  == <<119, 45, 98, 45, 50, 48, 48, 48, 49, 51, 52, 48>> \o DotLog  \* "w-b-20001340.log"
TenFile  == <<114>>                                                        \* "r": ten bytes to read
Ten      == <<1, 2, 3, 4, 5, 6, 7, 8, 9, 10>>
Survivors == {YoungOwn, Foreign, BadDate, TenFile}
\* symbolic links in logs/: "l" leads to the directory <home>/logs2, "k" to a file beside <home>,
\* "j" to the ten-byte file of logs/ itself
Logs2   == <<108, 111, 103, 115, 50>>
Seven   == <<7, 7, 7, 7, 7, 7, 7>>
MCLinks == (<<108>> :> [to |-> <<HomeMark, Logs2>>, file |-> FALSE, data |-> <<>>])
           @@ (<<107>> :> [to |-> <<HomeMark, <<46, 46>>, <<120>>>>, file |-> TRUE, data |-> Seven])
           @@ (<<106>> :> [to |-> <<HomeMark, LogsName, TenFile>>, file |-> TRUE, data |-> Ten])
\* files that are not below logs/: <home>/logs2/r, <home>/r, <home>/../x
Beyond  == (Logs2 \o <<47>> \o TenFile :> <<9, 9, 9>>) @@ (TenFile :> <<8, 8>>) @@ (<<46, 46, 47, 120>> :> Seven)

MCBanner == BannerOf(Oname, now, St, St, St, <<48>>)

MCInit == /\ now = T0 /\ logsSt = "dir" /\ self = 1 /\ parked = EmptyFn /\ att = TRUE
          /\ conf = Conf0
          /\ files = (OldOwn :> <<111>>) @@ (EdgeOwn :> <<101>>) @@ (YoungOwn :> <<121>>) @@ (Foreign :> <<102>>)
                     @@ (BadDate :> <<98>>) @@ (TenFile :> Ten)
          /\ dirs = {} /\ links = MCLinks /\ cur = Closed /\ lastDay = 0 /\ lastRot = TRUE
          /\ retainAt = T0 /\ recent = EmptyFn /\ phase = "new" /\ bleft = 0
          /\ acc = 0 /\ wrote = EmptyFn /\ gone = {} /\ fresh = FALSE /\ vanished = {} /\ faulted = FALSE /\ supp = NoSupp
          /\ deleted = {} /\ rd = NoRead
          /\ calls = 0 /\ cycles = 0 /\ advs = 0 /\ reads = 0 /\ exts = 0 /\ faults = 0 /\ switches = 0 /\ fday = -1

Msgs == {<<97>>}
Pids == {<<120>>}
Live == reads = 0                    \* a Read is a leaf of the exploration

MCOpen == Live /\ Open(Id, Oname, 2, FALSE, MCBanner) /\ UNCHANGED cnt

MCLog == /\ Live /\ calls < MaxLogs /\ calls' = calls + 1 /\ UNCHANGED <<cycles, advs, reads, exts, faults, switches, fday>>
         /\ \E kind \in (IF Slim THEN {"P"} ELSE {"W", "I", "P"}), s \in Msgs, pid \in Pids :
              \/ LogDrop(kind)
              \/ LogSuppress(kind, pid, s)
              \/ LogEmit(kind, pid, s, St, 2)
              \/ LogLose(kind, pid, s)
              \/ LogVanish(kind, pid, s)

MCAdvance == /\ Live /\ phase # "new" /\ advs < MaxAdv /\ advs' = advs + 1 /\ UNCHANGED <<calls, cycles, reads, exts, faults, switches, fday>>
             /\ \E dt \in {1000, 61000} : AddMs(now, dt).d <= D0 + 1 /\ Advance(AddMs(now, dt))

MCCycle == /\ Live
           /\ \/ /\ cycles < MaxCycles /\ cycles' = cycles + 1 /\ UNCHANGED <<calls, advs, reads, exts, faults, switches, fday>>
                 /\ \E ran \in BOOLEAN :
                      \/ CycleA("none", <<>>, {}, ran)
                      \/ Design = "repaired" /\ CycleA("swap", MCBanner, {}, ran)
                      \/ Design = "repaired" /\ ~ Slim /\ CycleA("swap", <<>>, {}, ran)
                      \/ Design = "asis" /\ CycleA("close", <<>>, {}, ran)
                      \/ CycleA("down", <<>>, {}, ran)
              \/ /\ UNCHANGED cnt
                 /\ \/ CycleB(<<>>) \/ CycleB(MCBanner)
                    \/ BannerLine(St \o <<NL>>)
                    \/ BannerLine(BannerMid(Oname, now, St, <<48>>))

\* keep-days 2, interval 2 s, lines also printed to standard output; rotation on or off
MCConf == /\ Live /\ ~ Slim /\ cycles < MaxCycles /\ calls = 0 /\ conf.keep = 7
          /\ \E rot \in BOOLEAN : Configure(2, 2, 2, rot, TRUE)
          /\ UNCHANGED cnt

MCExt == /\ Live /\ exts < MaxExt /\ exts' = exts + 1 /\ UNCHANGED <<calls, cycles, advs, reads, faults, switches, fday>>
         /\ ExternalFile(NonDate, <<110>>)

\* r  ../r  s/../r  /r  q  ""   ../logs2/r  ../logs/r  l/r  l  k  j
ReadNames == {TenFile, <<46, 46, 47>> \o TenFile, <<115, 47, 46, 46, 47>> \o TenFile, <<47>> \o TenFile, <<113>>, <<>>,
              <<46, 46, 47>> \o Logs2 \o <<47>> \o TenFile, <<46, 46, 47>> \o LogsName \o <<47>> \o TenFile,
              <<108, 47>> \o TenFile, <<108>>, <<107>>, <<106>>}
Wide == calls + cycles + advs + exts = 0
\* the reference answer; where the statement leaves the answer open (a symbolic link), no answer as well
MCRead == /\ phase = "run" /\ reads < MaxReads /\ reads' = reads + 1 /\ UNCHANGED <<calls, cycles, advs, exts, faults, switches, fday>>
          /\ \E f \in (IF Wide THEN ReadNames ELSE {cur, <<46, 46, 47>> \o TenFile}),
                e \in (IF Wide THEN -1..11 ELSE {-1, 25}),
                ln \in (IF Wide THEN -1..12 ELSE {30}) :
               LET a == ReadAnswer(f, e, ln, Beyond) IN
                 \/ Read(f, e, ln, IF a.nil THEN [nil |-> TRUE] ELSE [nil |-> FALSE, before |-> a.before, text |-> a.text], <<>>, <<>>, Beyond, logsSt)
                 \/ a.und /\ Read(f, e, ln, [nil |-> TRUE], <<>>, <<>>, Beyond, logsSt)
                 \/ logsSt = "none" /\ Read(f, e, ln, [nil |-> TRUE], <<>>, <<>>, Beyond, "dir")

\* somebody else: one byte appended to the output file / the output file or another own file removed /
\* the output file or the ten-byte file cut short / logs/ removed / a regular file in its place / taken away again
MCFault == /\ Live /\ faults < MaxFaults /\ faults' = faults + 1 /\ UNCHANGED <<calls, cycles, advs, reads, exts, switches>> /\ fday' = now.d
           /\ \/ cur # Closed /\ ExternalAppend(cur, <<120>>)
              \/ \E n \in {cur, YoungOwn} : ExternalRemove(n)
              \/ \E n \in {cur, TenFile} : ExternalTruncate(n, 0)
              \/ ExternalRemoveLogs
              \/ ExternalBlock
              \/ ExternalUnblock

\* another logger of the same home takes its turn (a new one is constructed by MCOpen: same id, same name)
MCSwitch == /\ Live /\ switches < MaxSwitch /\ switches' = switches + 1 /\ UNCHANGED <<calls, cycles, advs, reads, exts, faults, fday>>
            /\ \E i \in 1..MaxLoggers : Switch(i)

MCNext == MCOpen \/ MCLog \/ MCAdvance \/ MCCycle \/ MCConf \/ MCExt \/ MCRead \/ MCFault \/ MCSwitch
MCSpec == MCInit /\ [][MCNext]_mcvars

\* retention leaves everything that is not an own dated file past keep-days
SurvivorsSurvive == faults = 0 =>
                    /\ Survivors \subseteq DOMAIN files
                    /\ (exts > 0 => NonDate \in DOMAIN files)
                    /\ (switches = 0 /\ conf.keep = 7 /\ now.d = D0 => EdgeOwn \in DOMAIN files)
\* after a completed cycle in which retention was due, the old own file is gone
OldRemoved == (phase = "run" /\ cycles > 0 /\ retainAt # T0 /\ conf.rot /\ switches = 0 /\ faults = 0) => OldOwn \notin DOMAIN files
\* whatever was taken away on an earlier day: once a cycle has completed since the date changed and no regular
\* file stood where logs/ should be, the logger is on the file of the day again, and that file exists
Recovers == (phase = "run" /\ fresh /\ fday < now.d) =>
              (att /\ logsSt = "dir" /\ cur = NameOf(conf, conf.rot, now.d) /\ cur \in DOMAIN files)
=============================================================================
