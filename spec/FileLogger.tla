----------------------------- MODULE FileLogger ------------------------------
(***************************************************************************)
(* C17 -- the file logger of logger/logfile.                               *)
(*                                                                         *)
(* A logger owns one output file under <home>/logs.  The directory is      *)
(* modelled as `files` (relative path |-> bytes), `dirs` and `links`       *)
(* (symbolic links and where they really lead); names and                  *)
(* contents are byte tuples, so the specification can take file names      *)
(* apart (retention) and cut windows out of contents (Read).               *)
(*                                                                         *)
(* Time is virtual: now = [d |-> days since 2000-01-01, ms |-> ms of day]. *)
(* The calendar (yyyymmdd of a day index, validity of a date) is computed  *)
(* here from the leap-year rule.                                           *)
(*                                                                         *)
(* Environment inputs the specification does not predict are arguments of  *)
(* the actions: the 20-byte wall-clock stamp the Go log package puts in    *)
(* front of every line (real time, not the virtual clock), the number of   *)
(* millisecond digits of the banner time stamp (C19's business), and the   *)
(* text of a diagnostic line Read may log about its own failure.           *)
(*                                                                         *)
(* The periodic cycle has two halves so that a Log between them is part of *)
(* the state space:                                                        *)
(* Design = "asis"     the first half closes the old file, the second      *)
(*                     opens the new one; a line logged in between is lost *)
(*                     (LogLose) -- TLC refutes LinesWholeInOrder          *)
(* Design = "repaired" the first half opens the new file and points the    *)
(*                     output at it; the second closes the old file.       *)
(* The trace specification runs with "repaired": LogLose never explains a  *)
(* recorded behaviour.                                                     *)
(*                                                                         *)
(* Several loggers may live in one <home> (also on the same file): exactly *)
(* one is "active" -- its state is in the per-logger variables -- and the  *)
(* others are parked; Switch(i) exchanges them.  Every logger appends, so  *)
(* lines of several writers of one file (other loggers, ExternalAppend)    *)
(* never overwrite each other.                                             *)
(*                                                                         *)
(* Environment faults are actions too: a file is removed, cut short or     *)
(* appended to by somebody else, the whole logs directory is removed (or   *)
(* moved away), a regular file is put where the directory was.  What the   *)
(* logger does then is the deliberate behaviour of the code as it stands:  *)
(* an open output handle keeps pointing at the file it was opened on, so a *)
(* logger whose file (or directory) was taken away is "detached" (att =    *)
(* FALSE) and its lines vanish with the file -- until the next rotation    *)
(* (date or rotation flag changed, or no handle), which creates the logs   *)
(* directory again if it is missing and opens the file of the day; while a *)
(* regular file stands where the directory should be, the open fails (the  *)
(* logger is down: cur = Closed) and every later cycle tries again.        *)
(*                                                                         *)
(* The three banner lines written when a file is opened are either part of *)
(* the opening step (sequential use) or three separate BannerLine steps    *)
(* (other goroutines may log in between).                                  *)
(***************************************************************************)
EXTENDS Bytes, TLC

CONSTANT Design

VARIABLES now,       \* virtual clock [d, ms]
          logsSt,    \* what stands at <home>/logs: "dir" | "none" | "file" (a regular file: the directory cannot be made)
          self,      \* index of the active logger
          parked,    \* index |-> the per-logger variables of the other loggers (and the day they were parked on)
          \* ---- per-logger variables (of the active logger) ----
          att,       \* the output handle leads to a file that is (still) in the directory
          conf,      \* [level, iv, keep, rot, so, id, oname]; so = the "also print to standard output" option: it
                     \* is part of the settings and of no consequence for the files -- an accepted line is
                     \* appended to the output file under every value of it, from every entry point
          files,     \* relative path (bytes) |-> content (bytes), regular files under logs/
          dirs,      \* set of relative paths of directories under logs/
          links,     \* relative path of a symbolic link under logs/ |-> [to, file, data]: where it really
                     \* leads (stack of segments from HomeMark, ".." segments first if beside <home>;
                     \* <<>> = nowhere), whether that is a regular file, and the bytes of that file
          cur,       \* name the logger's output points at, or Closed
          lastDay,   \* day the output file was chosen for
          lastRot,   \* rotation flag the output file was chosen under
          retainAt,  \* time from which the retention period is counted
          recent,    \* id |-> time of the last emitted line with that id
          phase,     \* "new" (no logger yet) | "run" | "gate" (between the two halves of a cycle)
          bleft,     \* banner lines still to be written to cur (0..3)
          \* ---- history variables (properties only) ----
          acc,       \* number of lines accepted so far (at/above level, not suppressed)
          wrote,     \* name |-> sequence numbers of the accepted lines appended to it
          gone,      \* sequence numbers of lines in files removed by retention
          fresh,     \* (per logger) a full cycle has run since the date / rotation flag last changed
          vanished,  \* sequence numbers of lines that went with a file / directory somebody else took away
          faulted,   \* the environment (or another logger's retention) has taken a file away from under a logger
          supp,      \* the last suppression: [t, last, iv] or NoSupp
          deleted,   \* everything retention ever removed: [n, keep, must, may, on]
          rd         \* the last Read: [nil, inside, len, before, text, content] or NoRead

vars == <<now, logsSt, self, parked, att, conf, files, dirs, links, cur, lastDay, lastRot, retainAt, recent, phase, bleft,
          acc, wrote, gone, fresh, vanished, faulted, supp, deleted, rd>>

Closed  == <<0>>                       \* not a legal file name
EmptyFn == [x \in {} |-> 0]
NoSupp  == [iv |-> 0]
NoRead  == [nil |-> TRUE, inside |-> TRUE, len |-> 0]
Put(f, k, v) == IF k \in DOMAIN f THEN [f EXCEPT ![k] = v] ELSE f @@ (k :> v)
Max(a, b) == IF a > b THEN a ELSE b
Min(a, b) == IF a < b THEN a ELSE b

(* ------------------------------ characters ------------------------------ *)
NL == 10
DASH == 45
DOT == 46
SLASH == 47
DotLog  == <<46, 108, 111, 103>>                                   \* ".log"
RedOn   == <<27, 91, 51, 49, 109>>                                 \* ESC[31m
RedOff  == <<27, 91, 48, 109>>                                     \* ESC[0m
TagE    == <<91, 69, 114, 114, 111, 114, 93, 32>>                  \* "[Error] "
TagW    == <<91, 87, 97, 114, 110, 93, 32, 32>>                    \* "[Warn]  "
TagI    == <<91, 73, 110, 102, 111, 93, 32, 32>>                   \* "[Info]  "
TagD    == <<91, 68, 101, 98, 117, 103, 93, 32, 32>>               \* "[Debug]  "
OpenTxt == <<35, 35, 32, 79, 80, 69, 78, 32, 76, 79, 71, 32, 70, 73, 76, 69, 32, 32>>  \* "## OPEN LOG FILE  "
EndTxt  == <<32, 35, 35, 10>>                                      \* " ##\n"

IsDigit(b) == b \in 48..57
IsDigits(s) == \A i \in 1..Len(s) : IsDigit(s[i])
Dig(n, w) == [i \in 1..w |-> 48 + ((n \div (10 ^ (w - i))) % 10)]
RECURSIVE Num(_)
Num(s) == IF s = <<>> THEN 0 ELSE Num(SubSeq(s, 1, Len(s) - 1)) * 10 + (s[Len(s)] - 48)

(* ------------------------------- calendar ------------------------------- *)
DayMs == 86400000
\* days from 0001-01-01 to the first of January of year y (proleptic Gregorian)
DBY(y) == 365 * (y - 1) + ((y - 1) \div 4) - ((y - 1) \div 100) + ((y - 1) \div 400)
E2000 == DBY(2000)
IsLeap(y) == (y % 4 = 0 /\ y % 100 # 0) \/ y % 400 = 0
MLen(y, m) == IF m = 2 THEN (IF IsLeap(y) THEN 29 ELSE 28)
              ELSE IF m \in {4, 6, 9, 11} THEN 30 ELSE 31
RECURSIVE DBM(_, _)
DBM(y, m) == IF m = 1 THEN 0 ELSE DBM(y, m - 1) + MLen(y, m - 1)
\* day index (0 = 2000-01-01) of a calendar date
DayIdx(y, m, d) == DBY(y) + DBM(y, m) + (d - 1) - E2000
YearOf(day)     == CHOOSE y \in 2000..2100 : DayIdx(y, 1, 1) <= day /\ day < DayIdx(y + 1, 1, 1)
MonthOf(y, day) == CHOOSE m \in 1..12 : DayIdx(y, m, 1) <= day /\ day < DayIdx(y, m, 1) + MLen(y, m)
YMD(day) == Bind(YearOf(day), LAMBDA y :
            Bind(MonthOf(y, day), LAMBDA m :
              Dig(y, 4) \o Dig(m, 2) \o Dig(day - DayIdx(y, m, 1) + 1, 2)))

\* eight characters that are the digits of a real calendar date (year >= 1)
ValidDate(s) == /\ Len(s) = 8 /\ IsDigits(s)
                /\ LET y == Num(SubSeq(s, 1, 4))
                       m == Num(SubSeq(s, 5, 6))
                       d == Num(SubSeq(s, 7, 8))
                   IN  y >= 1 /\ m \in 1..12 /\ d >= 1 /\ d <= MLen(y, m)
DateDay(s) == DayIdx(Num(SubSeq(s, 1, 4)), Num(SubSeq(s, 5, 6)), Num(SubSeq(s, 7, 8)))

\* time comparison / addition on [d, ms]; k < 2^31 - DayMs
TLt(a, b) == a.d < b.d \/ (a.d = b.d /\ a.ms < b.ms)
TLe(a, b) == a = b \/ TLt(a, b)
AddMs(t, k) == [d |-> t.d + ((t.ms + k) \div DayMs), ms |-> (t.ms + k) % DayMs]
HMS(ms) == Dig(ms \div 3600000, 2) \o <<58>> \o Dig((ms \div 60000) % 60, 2) \o <<58>> \o Dig((ms \div 1000) % 60, 2)

(* --------------------------- names of log files -------------------------- *)
NameOf(c, rot, day) == IF rot THEN c.id \o <<DASH>> \o c.oname \o <<DASH>> \o YMD(day) \o DotLog
                       ELSE c.id \o <<DASH>> \o c.oname \o DotLog

HasSuffix(n, q) == Len(q) <= Len(n) /\ SubSeq(n, Len(n) - Len(q) + 1, Len(n)) = q
TopLevel(n) == \A i \in 1..Len(n) : n[i] # SLASH
OwnPrefix(n) == IsPrefixOf(conf.id \o <<DASH>>, n)

\* <id>-...-<8 characters>.log : the eight characters are preceded by a dash
Shape(n) == /\ OwnPrefix(n)
            /\ Len(n) >= Len(conf.id) + 13
            /\ HasSuffix(n, DotLog)
            /\ n[Len(n) - 12] = DASH
DatePart(n) == SubSeq(n, Len(n) - 11, Len(n) - 4)
Dated(n) == Shape(n) /\ ValidDate(DatePart(n))
\* retention must remove exactly these
MustDelete(n) == TopLevel(n) /\ Dated(n) /\ now.d - DateDay(DatePart(n)) > conf.keep

\* names the property statement does not decide: own prefix, "-<8 digits>." right
\* before the last dot, and either the year 0000 or an extension other than .log
LastDot(n) == LET S == {i \in 1..Len(n) : n[i] = DOT} IN IF S = {} THEN 0 ELSE CHOOSE i \in S : \A j \in S : j <= i
MayDelete(n) == /\ TopLevel(n) /\ OwnPrefix(n) /\ ~ Dated(n)
                /\ LET x == LastDot(n) IN
                     /\ x >= Len(conf.id) + 10
                     /\ n[x - 9] = DASH
                     /\ LET dt == SubSeq(n, x - 8, x - 1) IN
                          /\ IsDigits(dt)
                          /\ \/ Num(SubSeq(dt, 1, 4)) = 0
                             \/ ValidDate(dt) /\ now.d - DateDay(dt) > conf.keep

RetainOn == conf.rot /\ conf.keep > 0
RetainEveryMs == 60000

(* ------------------------------ line format ------------------------------ *)
\* the stamp of the Go log package: "YYYY/MM/DD HH:MM:SS " in real (not virtual) time
StampOK(s) == /\ Len(s) = 20
              /\ \A i \in {1, 2, 3, 4, 6, 7, 9, 10, 12, 13, 15, 16, 18, 19} : IsDigit(s[i])
              /\ s[5] = SLASH /\ s[8] = SLASH /\ s[11] = 32 /\ s[14] = 58 /\ s[17] = 58 /\ s[20] = 32

\* Error*, Warn*, Info*, Debug*, Print* (explicit id) families, PrintlnStd (raw)
Kinds == {"E", "W", "I", "D", "P", "S"}
Gate(kind) == CASE kind = "W" -> conf.level <= 2
                [] kind = "I" -> conf.level <= 1
                [] kind = "D" -> conf.level <= 0
                [] OTHER -> TRUE                 \* errors, id-carrying and raw lines are never gated
Cached(kind) == kind \notin {"D", "S"}
\* the id of a line: explicit for the Print family, else the first ten bytes of the message
IdOf(kind, pid, s) == IF kind = "P" THEN pid ELSE High(s, Min(10, Len(s)))
IdTag(pid) == <<91>> \o pid \o <<93, 32>>
\* what one call appends after the stamp; s = the formatted message; k = number of
\* "[id] " prefixes (the code builds the prefix twice; one is accepted as well)
Payload(kind, pid, s, k) ==
  CASE kind = "E" -> RedOn \o TagE \o s \o RedOff \o <<NL>>
    [] kind = "W" -> TagW \o s \o <<NL>>
    [] kind = "I" -> TagI \o s \o <<NL>>
    [] kind = "D" -> TagD \o s \o <<NL>>
    [] kind = "P" -> (IF k = 2 THEN IdTag(pid) ELSE <<>>) \o IdTag(pid) \o s \o <<NL>>
    [] kind = "S" -> s \o <<NL>>

MaySuppress(kind, id) == /\ Cached(kind) /\ conf.iv > 0 /\ id \in DOMAIN recent
                         /\ TLt(now, AddMs(recent[id], conf.iv * 1000))

\* the banner written when a file is opened: three stamped lines
BannerMid(oname, t, s2, msd) ==
  s2 \o OpenTxt \o oname \o <<32, 32>> \o YMD(t.d) \o <<32>> \o HMS(t.ms) \o <<DOT>> \o msd \o EndTxt
MidFixed(oname) == 20 + Len(OpenTxt) + Len(oname) + 2 + 8 + 1 + 8 + 1 + Len(EndTxt)
IsBlankLine(b) == Len(b) = 21 /\ StampOK(SubSeq(b, 1, 20)) /\ b[21] = NL
IsMidLine(b, oname, t) ==
  LET nd == Len(b) - MidFixed(oname) IN
    /\ nd \in 1..3
    /\ LET s2  == SubSeq(b, 1, 20)
           o   == 20 + Len(OpenTxt) + Len(oname) + 2 + 8 + 1 + 8 + 1
           msd == SubSeq(b, o + 1, o + nd)
       IN  StampOK(s2) /\ IsDigits(msd) /\ b = BannerMid(oname, t, s2, msd)
\* line i of the banner
IsBannerLine(i, b, oname, t) == IF i = 2 THEN IsMidLine(b, oname, t) ELSE IsBlankLine(b)
BannerOf(oname, t, s1, s2, s3, msd) == s1 \o <<NL>> \o BannerMid(oname, t, s2, msd) \o s3 \o <<NL>>
IsBanner(b, oname, t) == /\ Len(b) > 42
                         /\ IsBlankLine(SubSeq(b, 1, 21))
                         /\ IsBlankLine(SubSeq(b, Len(b) - 20, Len(b)))
                         /\ IsMidLine(SubSeq(b, 22, Len(b) - 21), oname, t)


(* --------------------------------- Init --------------------------------- *)
Conf0 == [level |-> 2, iv |-> 10, keep |-> 7, rot |-> TRUE, so |-> FALSE, id |-> <<>>, oname |-> <<>>]
T00   == [d |-> 0, ms |-> 0]
Init == /\ now = T00 /\ logsSt = "none" /\ self = 1 /\ parked = EmptyFn /\ att = TRUE
        /\ conf = Conf0
        /\ files = EmptyFn /\ dirs = {} /\ links = EmptyFn /\ cur = Closed /\ lastDay = 0 /\ lastRot = TRUE
        /\ retainAt = T00 /\ recent = EmptyFn /\ phase = "new" /\ bleft = 0
        /\ acc = 0 /\ wrote = EmptyFn /\ gone = {} /\ fresh = FALSE /\ vanished = {} /\ faulted = FALSE /\ supp = NoSupp
        /\ deleted = {} /\ rd = NoRead

\* groups of variables for UNCHANGED
lgv   == <<att, conf, cur, lastDay, lastRot, retainAt, recent, phase, bleft, fresh>>   \* the active logger
histv == <<acc, wrote, gone, vanished, faulted, supp, deleted, rd>>

Without(f, D) == [n \in DOMAIN f \ D |-> f[n]]
SeqRange(s) == {s[i] : i \in 1..Len(s)}
WroteOf(n) == IF n \in DOMAIN wrote THEN wrote[n] ELSE <<>>
GoneOf(D) == UNION {SeqRange(WroteOf(n)) : n \in D}
Append1(fs, n, b) == IF n \in DOMAIN fs THEN [fs EXCEPT ![n] = @ \o b] ELSE fs @@ (n :> b)

(* ------------------------- several loggers in one home ------------------- *)
Me == [att |-> att, conf |-> conf, cur |-> cur, lastDay |-> lastDay, lastRot |-> lastRot, retainAt |-> retainAt,
       recent |-> recent, phase |-> phase, bleft |-> bleft, fresh |-> fresh, day |-> now.d]
Blank == [att |-> TRUE, conf |-> Conf0, cur |-> Closed, lastDay |-> 0, lastRot |-> TRUE, retainAt |-> T00,
          recent |-> EmptyFn, phase |-> "new", bleft |-> 0, fresh |-> FALSE, day |-> 0]
\* the loggers (active and parked) whose output file is one of D lose it: their handle stays on the removed file
ParkedDetached(D) == [i \in DOMAIN parked |-> IF parked[i].cur \in D THEN [parked[i] EXCEPT !.att = FALSE] ELSE parked[i]]
HeldBy(D) == cur \in D \/ \E i \in DOMAIN parked : parked[i].cur \in D /\ parked[i].phase # "new"

\* logger i becomes the active one (never inside a cycle); a parked logger has not seen the days that passed
Switch(i) ==
  /\ i # self /\ phase # "gate"
  /\ LET p == IF i \in DOMAIN parked THEN parked[i] ELSE Blank IN
       /\ att' = p.att /\ conf' = p.conf /\ cur' = p.cur /\ lastDay' = p.lastDay /\ lastRot' = p.lastRot
       /\ retainAt' = p.retainAt /\ recent' = p.recent /\ phase' = p.phase /\ bleft' = p.bleft
       /\ fresh' = (p.fresh /\ p.day = now.d)
  /\ parked' = Put(Without(parked, {i}), self, Me)
  /\ self' = i
  /\ UNCHANGED <<now, logsSt, files, dirs, links, histv>>

(* ------------------------------ environment ----------------------------- *)
\* the clock moves forward to t (never inside a cycle)
Advance(t) == /\ phase # "gate" /\ TLe(now, t)
              /\ now' = t
              /\ fresh' = (fresh /\ t.d = now.d)
              /\ UNCHANGED <<logsSt, self, parked, att, conf, files, dirs, links, cur, lastDay, lastRot, retainAt, recent, phase, bleft, histv>>

\* somebody else creates a file / a directory / a symbolic link under logs/ (and logs/ itself if it is missing)
ExternalFile(n, data) == /\ phase # "gate" /\ n \notin DOMAIN files /\ n \notin dirs /\ n \notin DOMAIN links /\ n # Closed
                         /\ logsSt # "file" /\ logsSt' = "dir"
                         /\ files' = files @@ (n :> data)
                         /\ UNCHANGED <<now, self, parked, dirs, links, lgv, histv>>
ExternalDir(n) == /\ phase # "gate" /\ n \notin DOMAIN files /\ n \notin DOMAIN links
                  /\ logsSt # "file" /\ logsSt' = "dir"
                  /\ dirs' = dirs \cup {n}
                  /\ UNCHANGED <<now, self, parked, files, links, lgv, histv>>
\* lk = [to, file, data]: the link leads to `to`; if that is a regular file, `data` are its bytes.
\* What a link leads to never changes afterwards (the targets are not log files).
ExternalLink(n, lk) == /\ phase # "gate" /\ n \notin DOMAIN files /\ n \notin dirs /\ n \notin DOMAIN links /\ n # Closed
                       /\ logsSt = "dir"
                       /\ (lk.file \/ lk.data = <<>>)
                       /\ links' = links @@ (n :> lk)
                       /\ UNCHANGED <<now, logsSt, self, parked, files, dirs, lgv, histv>>

\* somebody else appends to a file of logs/ (also to a logger's current file): every writer appends,
\* nothing that is there is touched
ExternalAppend(n, data) == /\ phase # "gate" /\ n \in DOMAIN files /\ data # <<>>
                           /\ files' = [files EXCEPT ![n] = @ \o data]
                           /\ UNCHANGED <<now, logsSt, self, parked, dirs, links, lgv, histv>>

\* somebody else removes a regular file; a logger that has it open keeps writing to the removed file
ExternalRemove(n) == /\ phase # "gate" /\ n \in DOMAIN files
                     /\ files' = Without(files, {n})
                     /\ vanished' = vanished \cup GoneOf({n})
                     /\ wrote' = Without(wrote, {n})
                     /\ att' = (att /\ cur # n)
                     /\ parked' = ParkedDetached({n})
                     /\ faulted' = (faulted \/ HeldBy({n}) \/ WroteOf(n) # <<>>)
                     /\ UNCHANGED <<now, logsSt, self, dirs, links, conf, cur, lastDay, lastRot, retainAt, recent, phase, bleft, fresh,
                                    acc, gone, supp, deleted, rd>>

\* somebody else cuts a file down to its first k bytes; the loggers append, so their next line follows byte k
ExternalTruncate(n, k) == /\ phase # "gate" /\ n \in DOMAIN files /\ k \in 0..(Len(files[n]) - 1)
                          /\ files' = [files EXCEPT ![n] = High(@, k)]
                          /\ vanished' = vanished \cup GoneOf({n})
                          /\ wrote' = Without(wrote, {n})
                          /\ faulted' = (faulted \/ WroteOf(n) # <<>>)
                          /\ UNCHANGED <<now, logsSt, self, parked, dirs, links, lgv, acc, gone, supp, deleted, rd>>

\* the whole logs directory is removed (or moved elsewhere): every logger is detached
ExternalRemoveLogs == /\ phase # "gate" /\ logsSt = "dir"
                      /\ logsSt' = "none"
                      /\ files' = EmptyFn /\ dirs' = {} /\ links' = EmptyFn
                      /\ vanished' = vanished \cup GoneOf(DOMAIN wrote)
                      /\ wrote' = EmptyFn
                      /\ att' = FALSE
                      /\ parked' = [i \in DOMAIN parked |-> [parked[i] EXCEPT !.att = FALSE]]
                      /\ faulted' = TRUE
                      /\ UNCHANGED <<now, self, conf, cur, lastDay, lastRot, retainAt, recent, phase, bleft, fresh,
                                     acc, gone, supp, deleted, rd>>
\* a regular file is put where the logs directory was / is taken away again
ExternalBlock == /\ phase # "gate" /\ logsSt = "none" /\ logsSt' = "file"
                 /\ UNCHANGED <<now, self, parked, files, dirs, links, lgv, histv>>
ExternalUnblock == /\ phase # "gate" /\ logsSt = "file" /\ logsSt' = "none"
                   /\ UNCHANGED <<now, self, parked, files, dirs, links, lgv, histv>>

(* ------------------------------ the logger ------------------------------ *)
\* construction: defaults (rotation on, 7 days, 10 s), the given id / name / level / standard-output option
\* (the caller of the action passes the documented defaults for options that were not given);
\* makes logs/ if it is missing, opens today's file (appending if it exists) and writes the banner
Open(id, oname, level, so, banner) ==
  /\ phase = "new" /\ logsSt # "file" /\ logsSt' = "dir" /\ so \in BOOLEAN
  /\ LET c == [level |-> level, iv |-> 10, keep |-> 7, rot |-> TRUE, so |-> so, id |-> id, oname |-> oname]
         n == NameOf(c, TRUE, now.d)
     IN  /\ IsBanner(banner, oname, now)
         /\ n \notin dirs /\ n \notin DOMAIN links
         /\ conf' = c /\ cur' = n
         /\ files' = Append1(files, n, banner)
  /\ lastDay' = now.d /\ lastRot' = TRUE /\ retainAt' = now /\ phase' = "run" /\ fresh' = TRUE /\ att' = TRUE
  /\ UNCHANGED <<now, self, parked, dirs, links, recent, bleft, histv>>

\* settings change (level / interval / keep-days / rotation / standard-output option); takes effect at once,
\* the output file follows at the next cycle
Configure(level, iv, keep, rot, so) ==
  /\ phase = "run" /\ so \in BOOLEAN
  /\ conf' = [conf EXCEPT !.level = level, !.iv = iv, !.keep = keep, !.rot = rot, !.so = so]
  /\ fresh' = (fresh /\ rot = conf.rot)
  /\ UNCHANGED <<now, logsSt, self, parked, att, files, dirs, links, cur, lastDay, lastRot, retainAt, recent, phase, bleft, histv>>

\* a call below the configured level leaves no trace
LogDrop(kind) == /\ phase \in {"run", "gate"} /\ ~ Gate(kind)
                 /\ UNCHANGED vars

\* suppression is permitted only inside the interval after an emitted line of the same id
LogSuppress(kind, pid, s) ==
  /\ phase \in {"run", "gate"} /\ Gate(kind)
  /\ LET id == IdOf(kind, pid, s) IN
       /\ MaySuppress(kind, id)
       /\ supp' = [t |-> now, last |-> recent[id], iv |-> conf.iv]
  /\ UNCHANGED <<now, logsSt, self, parked, files, dirs, links, lgv, acc, wrote, gone, vanished, faulted, deleted, rd>>

\* otherwise the line is appended whole to the current file
LogEmit(kind, pid, s, stamp, k) ==
  /\ phase \in {"run", "gate"} /\ Gate(kind) /\ cur # Closed /\ att
  /\ StampOK(stamp) /\ k \in 1..2
  /\ files' = Append1(files, cur, stamp \o Payload(kind, pid, s, k))
  /\ recent' = IF Cached(kind) THEN Put(recent, IdOf(kind, pid, s), now) ELSE recent
  /\ acc' = acc + 1
  /\ wrote' = Put(wrote, cur, WroteOf(cur) \o <<acc + 1>>)
  /\ UNCHANGED <<now, logsSt, self, parked, att, conf, dirs, links, cur, lastDay, lastRot, retainAt, phase, bleft, fresh,
                 gone, vanished, faulted, supp, deleted, rd>>

\* a detached logger: the line goes where its file went
LogVanish(kind, pid, s) ==
  /\ phase \in {"run", "gate"} /\ Gate(kind) /\ ~ att
  /\ recent' = IF Cached(kind) THEN Put(recent, IdOf(kind, pid, s), now) ELSE recent
  /\ acc' = acc + 1
  /\ vanished' = vanished \cup {acc + 1}
  /\ UNCHANGED <<now, logsSt, self, parked, att, conf, files, dirs, links, cur, lastDay, lastRot, retainAt, phase, bleft, fresh,
                 wrote, gone, faulted, supp, deleted, rd>>

\* the as-is design only: output points at a closed file, the accepted line vanishes
LogLose(kind, pid, s) ==
  /\ Design = "asis" /\ phase = "gate" /\ Gate(kind) /\ cur = Closed /\ att
  /\ recent' = IF Cached(kind) THEN Put(recent, IdOf(kind, pid, s), now) ELSE recent
  /\ acc' = acc + 1
  /\ UNCHANGED <<now, logsSt, self, parked, att, conf, files, dirs, links, cur, lastDay, lastRot, retainAt, phase, bleft, fresh,
                 wrote, gone, vanished, faulted, supp, deleted, rd>>

(* retention: it runs when more than RetainEveryMs have passed since retainAt (it
   may run earlier -- the period is not part of the property); when it runs, and
   rotation is on and keep-days positive, it removes exactly MustDelete (and
   possibly some of the undecided names `extra`).  It does not know about other
   loggers: one that still has a removed file open is detached.                  *)
RetainDue == TLt(AddMs(retainAt, RetainEveryMs), now)
RotationNeeded == lastRot # conf.rot \/ lastDay # now.d \/ cur = Closed

\* first half of the periodic cycle.  mode "swap": (make logs/ if it is missing,) open the new
\* file and point the output at it (banner = the whole banner, or <<>>: three BannerLine steps
\* follow); mode "down": a regular file stands where logs/ should be, nothing can be opened;
\* mode "close": close the old file (output dangling until CycleB); "none": no
\* rotation needed.  ran: retention ran in this cycle.
CycleA(mode, banner, extra, ran) ==
  /\ phase = "run" /\ bleft = 0
  /\ extra \subseteq {n \in DOMAIN files : MayDelete(n)}
  /\ (ran => RetainOn) /\ (RetainDue /\ RetainOn => ran) /\ (extra # {} => ran)
  /\ LET D  == IF ran THEN {n \in DOMAIN files : MustDelete(n)} \cup extra ELSE {}
         f1 == Without(files, D)
         n  == NameOf(conf, conf.rot, now.d)
         pk == \E i \in DOMAIN parked : parked[i].cur \in D /\ parked[i].phase # "new"
     IN  /\ deleted' = deleted \cup {[n |-> x, keep |-> conf.keep, must |-> MustDelete(x), may |-> MayDelete(x), on |-> RetainOn] : x \in D}
         /\ gone' = gone \cup GoneOf(D)
         /\ wrote' = Without(wrote, D)
         /\ parked' = ParkedDetached(D)
         /\ retainAt' = IF ran \/ RetainDue THEN now ELSE retainAt
         /\ IF ~ RotationNeeded
            THEN /\ files' = f1 /\ banner = <<>> /\ mode = "none"
                 /\ att' = (att /\ cur \notin D)
                 /\ faulted' = (faulted \/ pk \/ (att /\ cur \in D))
                 /\ UNCHANGED <<cur, lastDay, lastRot, bleft, logsSt>>
            ELSE /\ lastDay' = now.d /\ lastRot' = conf.rot /\ faulted' = (faulted \/ pk)
                 /\ \/ /\ mode = "swap" /\ IsBanner(banner, conf.oname, now) /\ logsSt # "file"
                       /\ n \notin dirs /\ n \notin DOMAIN links
                       /\ files' = Append1(f1, n, banner) /\ cur' = n /\ bleft' = 0 /\ att' = TRUE /\ logsSt' = "dir"
                    \/ /\ mode = "swap" /\ banner = <<>> /\ logsSt # "file"
                       /\ n \notin dirs /\ n \notin DOMAIN links
                       /\ files' = Append1(f1, n, <<>>) /\ cur' = n /\ bleft' = 3 /\ att' = TRUE /\ logsSt' = "dir"
                    \/ /\ mode = "down" /\ banner = <<>> /\ logsSt = "file" /\ Design = "repaired"
                       /\ files' = f1 /\ cur' = Closed /\ bleft' = 0 /\ att' = FALSE /\ UNCHANGED logsSt
                    \/ /\ mode = "close" /\ banner = <<>>
                       /\ files' = f1 /\ cur' = Closed /\ bleft' = 0 /\ UNCHANGED <<att, logsSt>>
  /\ phase' = "gate"
  /\ UNCHANGED <<now, self, conf, dirs, links, recent, acc, fresh, vanished, supp, rd>>

\* one banner line on its own
BannerLine(b) ==
  /\ phase = "gate" /\ bleft > 0 /\ cur # Closed
  /\ IsBannerLine(4 - bleft, b, conf.oname, now)
  /\ files' = Append1(files, cur, b)
  /\ bleft' = bleft - 1
  /\ UNCHANGED <<now, logsSt, self, parked, att, conf, dirs, links, cur, lastDay, lastRot, retainAt, recent, phase, fresh, histv>>

\* second half: (re)open if the output is dangling -- which fails again while logs/ cannot be made
CycleB(banner) ==
  /\ phase = "gate" /\ bleft = 0
  /\ IF cur = Closed /\ logsSt # "file"
     THEN LET n == NameOf(conf, conf.rot, now.d) IN
            /\ IsBanner(banner, conf.oname, now)
            /\ files' = Append1(files, n, banner) /\ cur' = n /\ att' = TRUE /\ logsSt' = "dir" /\ fresh' = TRUE
     ELSE /\ banner = <<>> /\ fresh' = (cur # Closed) /\ UNCHANGED <<files, cur, att, logsSt>>
  /\ phase' = "run"
  /\ UNCHANGED <<now, self, parked, conf, dirs, links, lastDay, lastRot, retainAt, recent, bleft, histv>>

(* ----------------------------------- Read -------------------------------- *)
(* Where a caller-supplied name joined below <home>/logs leads.  Lexically, as a
   path join does: the name is walked from <<HomeMark, "logs">>, "." and empty
   segments vanish, ".." pops; what lies above <home> is unknown, so a walk that
   leaves <home> is lost for good (the stack <<>>).  Physically: the cleaned path
   is followed from <home> down, and a symbolic link below logs/ replaces the path
   so far by where the link really leads (a stack from HomeMark that may begin
   with ".." segments: beside <home>; <<>>: nowhere).                             *)
HomeMark == <<0>>
LogsName == <<108, 111, 103, 115>>
RECURSIVE SplitAt(_, _, _, _)
SplitAt(s, i, curseg, out) ==
  IF i > Len(s) THEN Append(out, curseg)
  ELSE IF s[i] = SLASH THEN SplitAt(s, i + 1, <<>>, Append(out, curseg))
  ELSE SplitAt(s, i + 1, Append(curseg, s[i]), out)
RECURSIVE Walk(_, _, _)
Walk(segs, i, st) ==
  IF st = <<>> \/ i > Len(segs) THEN st
  ELSE LET g == segs[i] IN
       IF g = <<>> \/ g = <<DOT>> THEN Walk(segs, i + 1, st)
       ELSE IF g = <<DOT, DOT>>
            THEN Walk(segs, i + 1, SubSeq(st, 1, Len(st) - 1))
            ELSE Walk(segs, i + 1, Append(st, g))
RECURSIVE JoinSegs(_)
JoinSegs(st) == IF st = <<>> THEN <<>>
                ELSE IF Len(st) = 1 THEN st[1]
                ELSE st[1] \o <<SLASH>> \o JoinSegs(Tail(st))
UnderLogs(st) == Len(st) >= 2 /\ st[1] = HomeMark /\ st[2] = LogsName
Below(st) == JoinSegs(SubSeq(st, 3, Len(st)))       \* path relative to logs/
RECURSIVE Follow(_, _, _)
Follow(segs, i, st) ==
  IF st = <<>> \/ i > Len(segs) THEN st
  ELSE Bind(Append(st, segs[i]), LAMBDA s2 :
         IF UnderLogs(s2) /\ Len(s2) >= 3 /\ Below(s2) \in DOMAIN links
         THEN Follow(segs, i + 1, links[Below(s2)].to)
         ELSE Follow(segs, i + 1, s2))
Lexical(file) == Walk(SplitAt(file, 1, <<>>, <<>>), 1, <<HomeMark, LogsName>>)
Physical(lx)  == Follow(Tail(lx), 1, <<HomeMark>>)
\* the name of an entry of logs/ itself, as GetLogFiles lists them
Plain(file) == file # <<>> /\ TopLevel(file) /\ file # <<DOT>> /\ file # <<DOT, DOT>>

\* the window of at most len bytes that starts len bytes before `end` (end < 0: the end)
Window(content, end, len, und) ==
  LET size == Len(content) IN
    IF end > size THEN [nil |-> TRUE, inside |-> TRUE, und |-> und]
    ELSE LET e     == IF end < 0 THEN size ELSE end
             start == Max(0, e - len)
             n     == Min(size - start, len)
         IN  [nil |-> FALSE, inside |-> TRUE, und |-> und, content |-> content, size |-> size,
              before |-> start, text |-> Slice(content, start + 1, n)]

(* The reference answer of Read(file, end, len): nil, or a window of the file the name
   leads to.  beyond = the regular files of <home> (and beside it) that are not below
   logs/, path relative to <home> |-> bytes.
   - a name that lexically leaves logs/ has no answer (inside = FALSE);
   - a name that stays in logs/ and meets no symbolic link is answered from `files`;
   - a name that stays in logs/ lexically but goes through a symbolic link: the statement
     does not decide whether that is a path of the logs directory (und = TRUE); if it is
     answered, then from the file it really leads to.                                    *)
ReadAnswer(file, end, len, beyond) ==
  Bind(Lexical(file), LAMBDA lx :
    IF ~ UnderLogs(lx) THEN [nil |-> TRUE, inside |-> FALSE, und |-> FALSE]
    ELSE Bind(Physical(lx), LAMBDA ph :
      LET und == ph # lx IN
      IF file = <<>> \/ len <= 0 THEN [nil |-> TRUE, inside |-> TRUE, und |-> und]
      ELSE IF UnderLogs(ph) /\ Below(ph) \in DOMAIN files THEN Window(files[Below(ph)], end, len, und)
      ELSE IF ph # <<>> /\ ~ UnderLogs(ph) /\ JoinSegs(Tail(ph)) \in DOMAIN beyond
           THEN Window(beyond[JoinSegs(Tail(ph))], end, len, und)
      ELSE [nil |-> TRUE, inside |-> TRUE, und |-> und]))

(* Read(file, end, len) answered res = [nil] or [nil, before, text].  What is pinned:
   whether there is an answer at all for a plain name that is no symbolic link; that
   any other name is answered only from the file it leads to (or not at all), and a
   name that lexically leaves logs/ never.  Where the window lies is judged by
   ReadHonest alone.  Read may log one error line about its own failure (diag), and it
   may make the logs directory if that is missing (ls = what stands there afterwards). *)
Read(file, end, len, res, diagStamp, diag, beyond, ls) ==
  /\ phase = "run"
  /\ ls \in {logsSt} \cup (IF logsSt = "none" THEN {"dir"} ELSE {})
  /\ logsSt' = ls
  /\ LET a == ReadAnswer(file, end, len, beyond) IN
       /\ (Plain(file) /\ ~ a.und => res.nil = a.nil)
       /\ (~ res.nil => ~ a.nil)
       /\ rd' = IF res.nil THEN [nil |-> TRUE, inside |-> a.inside, len |-> len]
                ELSE [nil |-> FALSE, inside |-> a.inside, len |-> len, before |-> res.before,
                      text |-> res.text, content |-> a.content]
       /\ IF diag = <<>> THEN UNCHANGED <<files, recent, acc, wrote>>
          ELSE /\ res.nil /\ cur # Closed /\ att /\ StampOK(diagStamp)
               /\ files' = Append1(files, cur, diagStamp \o Payload("E", <<>>, diag, 1))
               /\ recent' = Put(recent, IdOf("E", <<>>, diag), now)
               /\ acc' = acc + 1
               /\ wrote' = Put(wrote, cur, WroteOf(cur) \o <<acc + 1>>)
  /\ UNCHANGED <<now, self, parked, att, conf, dirs, links, cur, lastDay, lastRot, retainAt, phase, bleft, gone, fresh,
                 vanished, faulted, supp, deleted>>

(* ------------------------------- properties ------------------------------ *)
\* every accepted line is in exactly one place (a file, a file retention removed, a file somebody else
\* took away), and each file holds its lines in call order
AllWrote == UNION {SeqRange(wrote[n]) : n \in DOMAIN wrote}
RECURSIVE SumLen(_, _)
SumLen(f, D) == IF D = {} THEN 0 ELSE LET n == CHOOSE x \in D : TRUE IN Len(f[n]) + SumLen(f, D \ {n})
NoLineLost == /\ AllWrote \cup gone \cup vanished = 1..acc
              /\ AllWrote \cap gone = {} /\ AllWrote \cap vanished = {} /\ gone \cap vanished = {}
              /\ SumLen(wrote, DOMAIN wrote) = Cardinality(AllWrote)
InOrder == \A n \in DOMAIN wrote : \A i \in 1..(Len(wrote[n]) - 1) : wrote[n][i] < wrote[n][i + 1]
LinesWholeInOrder == NoLineLost /\ InOrder /\ DOMAIN wrote \subseteq DOMAIN files

\* the output file is the one named from id, name and the date it was chosen for
FileNameRight == phase # "new" => /\ cur \in {Closed, NameOf(conf, lastRot, lastDay)}
                                  /\ lastDay <= now.d
                                  /\ (phase = "run" /\ cur = Closed => ~ att /\ ~ fresh /\ faulted)
                                  /\ (phase = "run" /\ att => cur # Closed /\ cur \in DOMAIN files)

\* as long as nobody took a file away from under a logger, no line vanishes and the logger stays on its file
NoFaultNoLoss == ~ faulted => vanished = {} /\ (phase = "run" => att)

\* once the date (or the rotation flag) has changed and a cycle has run, output goes to the new file
RotatesAfterCycle == (phase = "run" /\ fresh) => cur = NameOf(conf, conf.rot, now.d)

SuppressedOnlyWithin == supp # NoSupp => supp.iv > 0 /\ TLt(supp.t, AddMs(supp.last, supp.iv * 1000))

\* retention never removed anything but own dated files past keep-days (or undecided names)
RetentionExact == \A x \in deleted : x.on /\ (x.must \/ x.may)

ReadHonest == /\ ~ rd.inside => rd.nil
              /\ ~ rd.nil => /\ rd.inside /\ rd.before >= 0 /\ Len(rd.text) <= rd.len
                             /\ rd.before + Len(rd.text) <= Len(rd.content)
                             /\ rd.text = Slice(rd.content, rd.before + 1, Len(rd.text))

InvAll == LinesWholeInOrder /\ FileNameRight /\ RotatesAfterCycle /\ SuppressedOnlyWithin
          /\ RetentionExact /\ ReadHonest /\ NoFaultNoLoss
=============================================================================
