SPECIFICATION LSpec
CONSTANTS
  PcodeNs = {0}
  Okinds = {0}
  Onodes = {0, 2}
  BlobIds = {"one", "nil"}
  MaxItems = 2
  Marker = 9
  NoStamp = {}
  Reverse = FALSE
  CellNs = {0, 32768}
  CellRead = "unsigned"
  FreshNs = {0, 7}
  KeepFresh = FALSE
  Objects = {0, 1}
  MaxWrites = 2
  SeqLen = 2
  Pooled = FALSE
  StaleKeep = FALSE
INVARIANTS
  SameType
  CarriedRestored
  ExactConsumption
  ReEncodeIdentical
  ZipLaw
  UnpackLaw
  Stable
CHECK_DEADLOCK FALSE
