SPECIFICATION MCSpec
CONSTANTS
  NotCleared <- MCNotCleared
  MaxToks = 3
INVARIANTS NoSecretLeft MaskedForm
CHECK_DEADLOCK FALSE
