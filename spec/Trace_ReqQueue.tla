--------------------------- MODULE Trace_ReqQueue ---------------------------
(***************************************************************************)
(* Trace validation of the real util/queue RequestQueue and                *)
(* RequestDoubleQueue against the OBJECT layer of ReqQueue (QPut,           *)
(* QPutForce, QTake, QClear, QSetCap and the result functions).             *)
(*                                                                          *)
(* Events (harness/c11).  An element is [producer, seq] or, for a nothing-   *)
(* like value, [producer, seq, tag] (ReqQueue, VALUES); what comes OUT of    *)
(* the queue (results, callback arguments) is logged as the VALUE the        *)
(* harness saw: [producer, seq], [tag], or [] for nil / empty-handed.        *)
(*   Reset cap cb              new queue: capacities [c1,c2]; cb = the       *)
(*                             failure/overflow callbacks are installed      *)
(*   Call p o ...              a call made while no other call is running:   *)
(*                             takes effect and is compared in one step      *)
(*   Inv  p o k e T            goroutine p starts a call (possibly           *)
(*                             concurrent with others)                       *)
(*   Ret  p o ok|out [cb] [T el]   the call returned with this result        *)
(*   Size size                 [Size1, Size2] read while no mutator runs     *)
(*   Inv/Ret p "Size" k n      a size read that MAY overlap other calls      *)
(*                             (k = 0: Size(), 1: Size1(), 2: Size2()): it   *)
(*                             takes the lock, so it is linearizable too     *)
(*   Logs failed overflow      every callback argument so far, in the order  *)
(*                             the callbacks ran (they run under the lock)   *)
(*   Timeout / Panic           a call that did not return / panicked: the    *)
(*                             specification has NO action for these         *)
(*                                                                          *)
(* Inv and Ret are stamped by one atomic log in the harness, so "Ret of A   *)
(* before Inv of B" in the file means A really returned before B began.     *)
(* Between the Inv and the Ret of a call the silent step Lin(p) lets it     *)
(* take effect atomically (its linearization point).  A blocking Get can    *)
(* only take effect when something is queued; a get that comes back         *)
(* empty-handed took effect when nothing was queued; a timed get may come   *)
(* back empty-handed only if el >= T, both read from the millisecond clock  *)
(* the queue itself uses, start before the call and end after it.           *)
(* A timed get is NOT one atomic step when nil-valued elements are about:   *)
(* each of its polls is (deviation NilSwallowed of ReqQueue); Lin(p) then    *)
(* swallows one nil-valued element and the call either goes on polling or    *)
(* comes back empty-handed (only with el >= T).  The harness therefore logs  *)
(* every timed get as Inv/Ret, also in single-goroutine histories (the Ret   *)
(* then carries the sizes).                                                  *)
(* Callback-held schedules (gen "held"): a failure/overflow callback blocks  *)
(* -- inside the queue's critical section -- until the other goroutines of   *)
(* the schedule have been invoked and have returned or a bounded wait is     *)
(* over.  Nothing new for the specification: the recorded history must be    *)
(* linearizable like any other (a call that answers "nothing" while the      *)
(* lock holder keeps the content non-empty has no linearization point).      *)
(* The search over linearization points is TLC's (DFS queue, high-water     *)
(* mark of the cursor).                                                     *)
(***************************************************************************)
EXTENDS ReqQueue, TraceLib

VARIABLES l,      \* cursor
          pend,   \* pend[p]: the call goroutine p is in, and its result once it took effect
          cbon    \* callbacks installed in this history

tvars == <<vars, l, pend, cbon>>

Idle == [st |-> "idle", o |-> "none", k |-> 0, e |-> Nil, c |-> <<0, 0>>, ok |-> FALSE, out |-> Nil, cb |-> <<>>, n |-> 0]

TraceInit == Init /\ l = 1 /\ HwmInit /\ pend = [p \in Proc |-> Idle] /\ cbon = TRUE

Ev == Trace[l]
At(e) == IsEv(l, e) /\ l' = l + 1

OpNames == {"Put", "PutForce", "Get", "GetNoWait", "GetTimeout", "Clear", "SetCap", "Size"}
Puts == {"Put", "PutForce"}
Gets == {"Get", "GetNoWait", "GetTimeout"}

\* the call described by event/record c is well formed
WellFormed(c) ==
  /\ Has(c, "p") /\ c.p \in Proc
  /\ Has(c, "o") /\ c.o \in OpNames
  /\ c.o \in Puts => Has(c, "k") /\ c.k \in Lanes /\ Has(c, "e") /\ Len(c.e) \in {2, 3}
  /\ c.o = "Size" => Has(c, "k") /\ c.k \in {0, 1, 2}
  /\ c.o = "SetCap" => Has(c, "c") /\ Len(c.c) = 2

AsCall(c) == [Idle EXCEPT !.st = "inv", !.o = c.o,
                          !.k = IF c.o \in Puts \cup {"Size"} THEN c.k ELSE 0,
                          !.e = IF c.o \in Puts THEN c.e ELSE Nil,
                          !.c = IF c.o = "SetCap" THEN c.c ELSE <<0, 0>>]

\* result of call c if it takes effect in the current state
Result(c) ==
  CASE c.o = "Put"      -> [c EXCEPT !.st = "done", !.ok = PutRet(c.k),
                                     !.cb = IF PutRet(c.k) THEN <<>> ELSE <<c.e>>]
    [] c.o = "PutForce" -> [c EXCEPT !.st = "done", !.ok = ForceRet(c.k),
                                     !.cb = [i \in 1..NEvict(c.k) |-> q[c.k][i]]]
    [] c.o \in Gets     -> [c EXCEPT !.st = "done", !.out = NextOut]
    [] c.o = "Size"     -> [c EXCEPT !.st = "done", !.n = IF c.k = 0 THEN Len(q[1]) + Len(q[2]) ELSE Len(q[c.k])]
    [] OTHER            -> [c EXCEPT !.st = "done"]

\* the call takes effect (p: the goroutine that receives a delivered element)
Apply(p, c) ==
  CASE c.o = "Put"      -> QPut(c.k, c.e)
    [] c.o = "PutForce" -> QPutForce(c.k, c.e)
    [] c.o = "Get"      -> QTake(p)                       \* enabled only when something is queued
    [] c.o \in {"GetNoWait", "GetTimeout"} ->
          IF FrontLane = 0 THEN UNCHANGED dvars ELSE QTake(p)
    [] c.o = "Clear"    -> QClear
    [] c.o = "SetCap"   -> QSetCap(c.c)
    [] c.o = "Size"     -> UNCHANGED dvars

\* the next poll of timed get c draws a nil-valued element (NilSwallowed)
Swallows(c) == c.o = "GetTimeout" /\ FrontLane # 0 /\ NilValued(NextOut)

Vals(s) == [i \in 1..Len(s) |-> Val(s[i])]
ValLog(s) == [i \in 1..Len(s) |-> <<s[i][1], Val(s[i][2])>>]

\* the logged result e equals the result r the specification computed
Match(e, r) ==
  /\ r.o \in Puts =>
       /\ Has(e, "ok") /\ e.ok = r.ok
       /\ (cbon /\ Has(e, "cb")) => e.cb = Vals(r.cb)      \* callback arguments of this call, in order
       /\ ~cbon => (Has(e, "cb") => e.cb = <<>>)
  /\ r.o \in Gets =>
       /\ Has(e, "out") /\ e.out = Val(r.out)              \* the VALUE of the element taken
       /\ r.o = "Get" => r.out # Nil                        \* a blocking get took an element (whatever its value)
       /\ (r.o = "GetTimeout" /\ r.out = Nil) =>             \* TimedGetHonest
             Has(e, "T") /\ Has(e, "el") /\ e.el >= e.T
  /\ r.o = "Size" => Has(e, "n") /\ e.n = r.n

SizeMatch(e) == Has(e, "size") => e.size = <<Len(q'[1]), Len(q'[2])>>

TraceReset ==
  /\ At("Reset")
  /\ Has(Ev, "cap") /\ Len(Ev.cap) = 2 /\ Has(Ev, "cb")
  /\ q' = [k \in Lanes |-> <<>>] /\ cap' = Ev.cap
  /\ failedLog' = <<>> /\ overflowLog' = <<>> /\ offered' = {}
  /\ accepted' = [k \in Lanes |-> <<>>] /\ removed' = [k \in Lanes |-> <<>>]
  /\ delivered' = [p \in Proc |-> <<>>]
  /\ pend' = [p \in Proc |-> Idle] /\ cbon' = Ev.cb
  /\ UNCHANGED pvars

\* a call while nothing else runs: effect and comparison in one step
TraceCall ==
  /\ At("Call") /\ WellFormed(Ev)
  /\ \A p \in Proc : pend[p].st = "idle"
  /\ LET c == AsCall(Ev) IN
       /\ ~Swallows(c)                 \* (a timed get that swallows is not one step: logged as Inv/Ret)
       /\ Apply(Ev.p, c)
       /\ Match(Ev, Result(c))
  /\ SizeMatch(Ev)
  /\ UNCHANGED <<pvars, pend, cbon>>

TraceInv ==
  /\ At("Inv") /\ WellFormed(Ev)
  /\ pend[Ev.p].st = "idle"
  /\ pend' = [pend EXCEPT ![Ev.p] = AsCall(Ev)]
  /\ UNCHANGED <<vars, cbon>>

\* silent: the pending call of p takes effect now; a timed get whose poll draws a
\* nil-valued element swallows it and either polls on or comes back empty-handed
Lin(p) ==
  /\ l <= NTrace
  /\ pend[p].st = "inv"
  /\ IF Swallows(pend[p])
       THEN /\ QSwallow(p)
            /\ \/ UNCHANGED pend
               \/ pend' = [pend EXCEPT ![p] = [@ EXCEPT !.st = "done", !.out = Nil]]
       ELSE /\ Apply(p, pend[p])
            /\ pend' = [pend EXCEPT ![p] = Result(pend[p])]
  /\ UNCHANGED <<pvars, l, cbon>>

TraceRet ==
  /\ At("Ret")
  /\ Has(Ev, "p") /\ Ev.p \in Proc /\ Has(Ev, "o")
  /\ pend[Ev.p].st = "done" /\ pend[Ev.p].o = Ev.o
  /\ Match(Ev, pend[Ev.p])
  /\ Has(Ev, "size") => Ev.size = <<Len(q[1]), Len(q[2])>>     \* logged only when nothing else was in flight
  /\ pend' = [pend EXCEPT ![Ev.p] = Idle]
  /\ UNCHANGED <<vars, cbon>>

\* sizes read while no mutating call is in flight (parked blocking gets may be pending)
TraceSize ==
  /\ At("Size")
  /\ \A p \in Proc : pend[p].st = "idle" \/ (pend[p].st = "inv" /\ pend[p].o = "Get")
  /\ Has(Ev, "size") /\ Ev.size = <<Len(q[1]), Len(q[2])>>
  /\ UNCHANGED <<vars, pend, cbon>>

\* all callback arguments so far, in callback order (= order of the critical sections)
TraceLogs ==
  /\ At("Logs")
  /\ cbon
  /\ Has(Ev, "failed") /\ Ev.failed = ValLog(failedLog)
  /\ Has(Ev, "overflow") /\ Ev.overflow = ValLog(overflowLog)
  /\ UNCHANGED <<vars, pend, cbon>>

\* state invariants of ReqQueue re-evaluated after every step (the quadratic
\* PerProducerOrder is replaced by its step form)
InvAll == TypeOK /\ Fifo /\ Conservation /\ RefusalInert /\ SwallowOnlyNil

TraceNext ==
  /\ \/ TraceReset
     \/ /\ \/ TraceCall \/ TraceInv \/ (\E p \in Proc : Lin(p)) \/ TraceRet \/ TraceSize \/ TraceLogs
        /\ DataStepProps
  /\ InvAll'

TraceSpec == TraceInit /\ [][TraceNext]_tvars

Hwm == HwmNote(l)
TraceAccepted == Accepted
=============================================================================
