---------------------------- MODULE MC_ZipSender ----------------------------
(***************************************************************************)
(* Exhaustive exploration of the ZipSender design for small constants:     *)
(* up to NRec records with sizes from Sizes and times from Times, created  *)
(* with explicit settings from Choices or with none (defaults), at most    *)
(* Reconfig configuration updates, queue path / Append calls / one         *)
(* SendDirect call, a client that keeps or consumes each pack, a stop      *)
(* request at any moment (through every way the creation allows); every    *)
(* interleaving of the producer, the worker's steps, the direct caller,    *)
(* the stop request, configuration updates and the reference clock.        *)
(* A record of size n with id i is the byte string <<i, i, ..., i>>; with  *)
(* Bad, records that cannot be encoded are offered too.                    *)
(***************************************************************************)
EXTENDS ZipSender, TLC

CONSTANTS Modes, NRec, Sizes, Times, MaxBufs, MaxWaits, ZipMins, QCaps, Keeps, MaxDirect, Reconfig,
          EarlyFlush,     \* TRUE: an append may flush although no limit is reached (the property does not forbid it)
          WithDefaults,   \* TRUE: creation without settings is explored too
          Bad,            \* TRUE: records that cannot be encoded are offered as well
          CtxKinds        \* what the creator passes as context: subset of {"none", "ctx", "both"}

VARIABLES ncfg,   \* configuration updates so far (at most Reconfig)
          nid     \* the next record id

Choices == {[maxBuf |-> b, maxWait |-> w, zipMin |-> z, qCap |-> q] :
              b \in MaxBufs, w \in MaxWaits, z \in ZipMins, q \in QCaps}

\* configuration updates: every subset of the settings named, values from the choices
Updates == UNION {[ks -> MaxBufs] : ks \in SUBSET {"maxBuf", "zipMin"}}

NextId == nid
NewRec(i, sz, t) == IF sz < 0 THEN [id |-> i, time |-> t, bytes |-> <<>>, ok |-> FALSE]     \* cannot be encoded
                    ELSE [id |-> i, time |-> t, bytes |-> [j \in 1..sz |-> i], ok |-> TRUE]
AllSizes == Sizes \cup (IF Bad THEN {-1} ELSE {})

\* argument lists of a SendDirect call: 0..MaxDirect fresh records
MinTime == CHOOSE t \in Times : \A u \in Times : t <= u
RECURSIVE Batches(_, _)
Batches(i, n) == IF n = 0 THEN {<<>>}
                 ELSE {<<>>} \cup {<<NewRec(i, sz, MinTime)>> \o rest : sz \in AllSizes, rest \in Batches(i + 1, n - 1)}

\* the flush decision: the design flushes exactly when a limit is reached
AppendDue == LET r == live[Len(live)] IN MustFlush(blen, IF firstTime = 0 THEN r.time ELSE firstTime, r)
Fl == IF EarlyFlush THEN BOOLEAN ELSE {AppendDue}

MCStep ==
  \/ /\ \E m \in Modes, ck \in CtxKinds : (WithDefaults /\ New(m, FALSE, Defaults, ck)) \/ \E c \in Choices : New(m, TRUE, c, ck)
     /\ UNCHANGED nid
  \/ /\ \E sz \in AllSizes, t \in Times :
          NextId <= NRec /\ (Add(NewRec(NextId, sz, t)) \/ AppendCall(NewRec(NextId, sz, t)))
     /\ nid' = nid + 1
  \/ \E rs \in Batches(NextId, MaxDirect) :
        MaxDirect > 0 /\ drid = 0 /\ NextId + Len(rs) <= NRec + 1 /\ DirectBegin(rs) /\ nid' = nid + Len(rs)
  \/ /\ \/ \E saw \in BOOLEAN : WTop(saw, stopped)
        \/ WTake \/ WIdle(TRUE) \/ WAppend \/ WRefuse \/ WReset \/ WExit
        \/ wpc = "dec" /\ \E fl \in Fl : WDecide(fl)
        \/ \E k \in Keeps : WSend(k) \/ DSend(k)
        \/ DirectEnd \/ DirectAbort
        \/ \E via \in {"own", "given", "parent"} : StopCall(via)
        \/ StopRet
        \/ IdleSlack > 0 /\ Waiting /\ Tick(RefPeriod)
     /\ UNCHANGED nid

MCNext ==
  \/ MCStep /\ UNCHANGED ncfg
  \/ \E g \in Updates : ncfg < Reconfig /\ Resolve(g) # settings /\ ApplyConfig(g) /\ ncfg' = ncfg + 1 /\ UNCHANGED nid

MCInit == Init /\ ncfg = 0 /\ nid = 1
MCSpec == MCInit /\ [][MCNext]_<<vars, ncfg, nid>>

FlushWhenDue == [][FlushWhenDueStep]_<<vars, ncfg, nid>>
=============================================================================
