---------------------------- MODULE MC_ZipSender ----------------------------
(***************************************************************************)
(* Exhaustive exploration of the ZipSender design for small constants:     *)
(* up to NRec records with sizes from Sizes and times from Times, created  *)
(* with explicit settings from Choices or with none (defaults), at most    *)
(* one ApplyConfig, queue path / Append calls / one SendDirect call, a     *)
(* client that keeps or consumes each pack and may hold the worker, stop   *)
(* at any moment; every interleaving of producer, worker and direct caller.*)
(***************************************************************************)
EXTENDS ZipSender, TLC

CONSTANTS Modes, NRec, Sizes, Times, MaxBufs, MaxWaits, ZipMins, QCaps, Keeps, Gates, MaxDirect, Reconfig,
          EarlyFlush,     \* TRUE: an append may flush although no limit is reached (the property does not forbid it)
          WithDefaults    \* TRUE: creation without settings is explored too

VARIABLE ncfg    \* configuration updates so far (at most Reconfig)

Choices == {[maxBuf |-> b, maxWait |-> w, zipMin |-> z, qCap |-> q] :
              b \in MaxBufs, w \in MaxWaits, z \in ZipMins, q \in QCaps}

NextId == Len(accB) + Len(accD) + Cardinality(refused) + 1
NewRec(i, sz, t) == [id |-> i, size |-> sz, time |-> t, eh |-> 0]

\* argument lists of a SendDirect call: 0..MaxDirect fresh records
MinTime == CHOOSE t \in Times : \A u \in Times : t <= u
RECURSIVE Batches(_, _)
Batches(i, n) == IF n = 0 THEN {<<>>}
                 ELSE {<<>>} \cup {<<NewRec(i, sz, t)>> \o rest :
                                     sz \in Sizes, t \in {MinTime}, rest \in Batches(i + 1, n - 1)}

\* the flush decision of an appending step: the design flushes exactly when a limit is reached
Fl(due) == IF EarlyFlush THEN BOOLEAN ELSE {due}

MCStep ==
  \/ \E m \in Modes : (WithDefaults /\ New(m, FALSE, Defaults)) \/ \E c \in Choices : New(m, TRUE, c)
  \/ \E sz \in Sizes, t \in Times :
        NextId <= NRec /\ (Add(NewRec(NextId, sz, t)) \/ AppendBegin(NewRec(NextId, sz, t)))
  \/ \E rs \in Batches(NextId, MaxDirect) : MaxDirect > 0 /\ drid = 0 /\ NextId + Len(rs) <= NRec + 1 /\ DirectBegin(rs)
  \/ \E k \in Keeps :
        \/ \E g \in Gates :
              \/ queue # <<>> /\ \E fl \in Fl(AppendDue(Head(queue))) : Take(k, g, fl)
              \/ Idle(k, g) \/ Finish(k, g)
        \/ acall # <<>> /\ \E fl \in Fl(AppendDue(acall[1])) : AppendExec(k, fl)
        \/ dactive /\ dq # <<>> /\ \E fl \in Fl(DirectDue) : DStep(k, fl)
        \/ DTail(k)
  \/ DirectEnd
  \/ Stop
  \/ Release

MCNext ==
  \/ MCStep /\ UNCHANGED ncfg
  \/ \E c \in Choices : ncfg < Reconfig /\ c # settings /\ ApplyConfig(c) /\ ncfg' = ncfg + 1

MCInit == Init /\ ncfg = 0
MCSpec == MCInit /\ [][MCNext]_<<vars, ncfg>>

FlushWhenDue == [][FlushWhenDueStep]_<<vars, ncfg>>
=============================================================================
