SPECIFICATION MCSpec
CONSTANTS MaxN = 4
          ByteVals = {0, 1, 3, 255}
          MaxProg = 3
          Slot = 16
          K = 16
          C = 8
          ZeroFill = FALSE
          TagCodes = {0, 1}
          LenientTags = FALSE
INVARIANTS NoFabrication WithinInput BoundedAlloc TagsKnown PrefixFails
CHECK_DEADLOCK FALSE
