--------------------------- MODULE MC_DataXKeep -----------------------------
(***************************************************************************)
(* Exhaustive exploration of DataXKeep for small constants: every program  *)
(* of at most MaxLen writes over a boundary value set, the reader opened,  *)
(* and from then on matching reads interleaved in every order with up to   *)
(* one further write call on the output (every kind in LateOps).  Checks   *)
(* that results once read never change, that the reader's view (all DataX  *)
(* invariants) is untouched by late writes and that the output accounts    *)
(* for all of its bytes.                                                   *)
(***************************************************************************)
EXTENDS MC_DataX, DataXKeep

CONSTANT LateOps

KNext == \/ \E c \in Choices : Len(prog) < MaxLen /\ Pairable(c) /\ KW(c[1], c[2])
         \/ (Len(prog) > 0 /\ KOpen)
         \/ KR
         \/ \E c \in Choices : c[1] \in LateOps /\ late = <<>> /\ WLate(c[1], c[2])

KSpec == KInit /\ [][KNext]_kvars

OutOK == OutSize = Len(OutBytes) /\ IsPrefixOf(buf, OutBytes)
\* whatever the interleaving, a finished reader has returned the program and nothing of the late bytes
KComplete == (rpos > 0 /\ Len(rd) = Len(prog)) =>
                /\ rpos = Len(buf) + 1
                /\ \A i \in 1..Len(rd) : Kept(i) = prog[i][2]
=============================================================================
