SPECIFICATION MCSpec
CONSTANTS MaxLen = 2
          BlobLens = {0, 1, 253, 254, 255, 256}
INVARIANTS SizeOK ReadBack ExactConsumption NoStuck Canonical SelfDelimiting Complete
CHECK_DEADLOCK FALSE
