SPECIFICATION MCSpec
CONSTANTS Mode = "linked"
          Vals = {0, 1, 2}
          MaxLen = 4
          MaxHeld = 0
VIEW View
ACTION_CONSTRAINT DumpT
INVARIANTS TypeOK Bounded EndsLaw
PROPERTIES Frame AddAppends AddFirstP PutBeforeP RemoveP RemoveEnds ClearP
CHECK_DEADLOCK FALSE
