SPECIFICATION MCSpec
CONSTANTS MaxSteps = 5
          Focus = "hash"
          Deep = FALSE
INVARIANTS HashOwned Written
CHECK_DEADLOCK FALSE
