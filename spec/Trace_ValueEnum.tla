-------------------------- MODULE Trace_ValueEnum ---------------------------
(***************************************************************************)
(* C02, mode B (spec -> code): the real codec is driven through EVERY value*)
(* of the specification's small-scope enumeration ValueEnum!AllValues.     *)
(* The harness (harness/valgen) transliterates the indexing, builds value  *)
(* number i through golib's public constructors and runs a one-value       *)
(* history on it.  A trace history covers one block of consecutive indices:*)
(*   Reset                                                                 *)
(*   EnumSize n smalln block per   the harness' idea of the enumeration;   *)
(*                                 this history covers indices             *)
(*                                 block*per+1 .. min((block+1)*per, n)    *)
(*   RTi  i v out ret avail again  like Trace_Value's RT, but the value is *)
(*                                 the SPEC's value number i and the       *)
(*                                 harness' v must be that value; indices  *)
(*                                 are consecutive                         *)
(*   EnumEnd                       the block is complete                   *)
(***************************************************************************)
EXTENDS Trace_Value, ValueEnum

VARIABLES cur,     \* last index done in this block (0: none yet)
          range    \* <<first, last>> index of this block, <<>> before EnumSize
evars == <<tvars, cur, range>>

EnumInit == TraceInit /\ cur = 0 /\ range = <<>>

EnumReset == TraceReset /\ cur' = 0 /\ range' = <<>>

TraceEnumSize == /\ Step("EnumSize")
                 /\ range = <<>>
                 /\ LET e == Trace[l] IN
                      /\ e.n = NAll /\ e.smalln = SmallN
                      /\ e.per > 0 /\ e.block >= 0 /\ e.block * e.per < NAll
                      /\ range' = <<e.block * e.per + 1,
                                    IF (e.block + 1) * e.per < NAll THEN (e.block + 1) * e.per ELSE NAll>>
                 /\ UNCHANGED <<vars, cur>>

TraceRTi == /\ Step("RTi")
            /\ range # <<>>
            /\ LET e == Trace[l] IN
                 /\ e.i = (IF cur = 0 THEN range[1] ELSE cur + 1)
                 /\ e.i <= range[2]
                 /\ SameValue(e.v, AllValues[e.i])    \* the transliterated enumeration is the spec's
                 /\ RT(AllValues[e.i])
                 /\ RTObserved(e)
                 /\ cur' = e.i
            /\ UNCHANGED range

TraceEnumEnd == /\ Step("EnumEnd")
                /\ range # <<>> /\ cur = range[2]
                /\ UNCHANGED <<vars, cur, range>>

EnumNext == (EnumReset \/ TraceEnumSize \/ TraceRTi \/ TraceEnumEnd) /\ InvAll'
EnumSpec == EnumInit /\ [][EnumNext]_evars
=============================================================================
