SPECIFICATION MCSpec
CONSTANTS
  PcodeNs = {0}
  Okinds = {0, 1}
  Onodes = {0}
  BlobIds = {"one"}
  MaxItems = 1
  Marker = 9
  NoStamp = {}
  Reverse = FALSE
  CellNs = {0, 32767, 32768}
  CellRead = "unsigned"
  FreshNs = {0, 7}
  KeepFresh = TRUE
INVARIANTS
  SameType
  CarriedRestored
  ExactConsumption
  ReEncodeIdentical
  ZipLaw
  UnpackLaw
CHECK_DEADLOCK FALSE
