SPECIFICATION TraceSpec
CONSTANTS
  NotCleared <- TrNotCleared
  Strict = FALSE
CONSTRAINT Hwm
POSTCONDITION TraceAccepted
CHECK_DEADLOCK FALSE
