SPECIFICATION MCSpec
CONSTANTS MaxFrames = 1
          Level = "msg"
INVARIANTS Intact Cursor NoStuck HistOK MsgFrame MsgDecodes MsgDelimits MsgPrefixes MsgHeader MsgTagHash MsgStable CounterSkippable
CHECK_DEADLOCK FALSE
