---------------------------- MODULE Trace_PackOut ---------------------------
(***************************************************************************)
(* Trace validation of golib's real encoder entry points against PackOut:  *)
(* the harness keeps what the calls hand back UNCOPIED (the slice          *)
(* ToBytesPack returned, the ToByteArray of its own outputs), goes on      *)
(* calling encoders (same pack, other packs, other outputs, other          *)
(* goroutines, the reader) and looks again.                                *)
(* Events (harness/c05/hold.go):                                           *)
(*   Reset                    new history: no outputs, no views            *)
(*   Out pre                  a DataOutputX of the caller, pre = bytes he  *)
(*                            has written into it                          *)
(*   WriteTo o kind p now     pack.WritePack(output o, p); now = the whole *)
(*                            output afterwards; the caller keeps          *)
(*                            ToByteArray() as the next view               *)
(*   ToBytes kind p bytes     pack.ToBytesPack(p) = bytes; the caller      *)
(*                            keeps the returned slice as the next view    *)
(*   Read id type             pack.ToPack(view id) gave a pack of that     *)
(*                            type number (a reader call in between)       *)
(*   Peek id v                the bytes in view id NOW                     *)
(* p is the projection of the pack as in Trace_PackWire.  Counter packs in *)
(* these histories carry at most one entry per pool map (no bag order).    *)
(***************************************************************************)
EXTENDS PackOut, TraceLib

VARIABLE l
tvars == <<vars, pvars, l>>

TraceInit == Init /\ OutInit /\ l = 1 /\ HwmInit

Step(e) == IsEv(l, e) /\ l' = l + 1 /\ UNCHANGED vars

TraceReset == Step("Reset") /\ DropOuts

TraceOut == /\ Step("Out")
            /\ NewOut(Trace[l].pre)

TraceWriteTo ==
  /\ Step("WriteTo")
  /\ LET e == Trace[l] IN
       /\ e.o \in DOMAIN outs
       /\ e.kind \in Kinds
       /\ LET old == Len(outs[e.o])
              seg == IF Len(e.now) > old THEN SubSeq(e.now, old + 1, Len(e.now)) ELSE <<>>
          IN /\ IF Len(e.now) >= old /\ High(e.now, old) = outs[e.o] /\ seg = PackBytes(e.kind, e.p) THEN TRUE
                ELSE PrintT(<<"line", l, "WriteTo", e.kind, "reference output", outs[e.o] \o PackBytes(e.kind, e.p)>>) /\ FALSE
             /\ WriteTo(e.o, e.kind, e.p, seg)

TraceToBytes ==
  /\ Step("ToBytes")
  /\ LET e == Trace[l] IN
       /\ e.kind \in Kinds
       /\ IF e.bytes = PackBytes(e.kind, e.p) THEN TRUE
          ELSE PrintT(<<"line", l, "ToBytes", e.kind, "reference bytes", PackBytes(e.kind, e.p)>>) /\ FALSE
       /\ ToBytes(e.kind, e.p, e.bytes)

TraceRead ==
  /\ Step("Read")
  /\ LET e == Trace[l] IN
       /\ e.id \in DOMAIN views
       /\ Len(Held(e.id)) >= 2
       /\ e.type = Held(e.id)[1] * 256 + Held(e.id)[2]
  /\ UNCHANGED pvars

TracePeek ==
  /\ Step("Peek")
  /\ LET e == Trace[l] IN
       /\ e.id \in DOMAIN views
       /\ IF e.v = Held(e.id) THEN TRUE
          ELSE PrintT(<<"line", l, "Peek", e.id, "the bytes handed out", Held(e.id)>>) /\ FALSE
       /\ Peek(e.id, e.v)

InvAll == HeldStable /\ ViewsOK

TraceNext == (TraceReset \/ TraceOut \/ TraceWriteTo \/ TraceToBytes \/ TraceRead \/ TracePeek) /\ InvAll'

TraceSpec == TraceInit /\ [][TraceNext]_tvars

Hwm == HwmNote(l)
TraceAccepted == Accepted
=============================================================================
