\* every program of two writes over a reduced boundary set, read over a connection under every cutting into pieces
SPECIFICATION NSpec
CONSTANTS MaxLen = 2
          BlobLens = {0, 1, 9}
          KSet = {7}
          LateOps = {}
          Design = "fill"
INVARIANTS SizeOK ReadBack ExactConsumption NoStuck Assembled TakenOK NetComplete NetNoStuck KComplete
CHECK_DEADLOCK FALSE
