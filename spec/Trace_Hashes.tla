---------------------------- MODULE Trace_Hashes -----------------------------
(***************************************************************************)
(* Trace validation of the real util/hash, util/hll murmur, stringutil     *)
(* HashCode, util/hexa32, util/bitutil and util/iputil functions against   *)
(* Hashes.tla (harness/c15).  One event per input; `outs` is the record of *)
(* what every golib entry point of the family returned for it, projected   *)
(* to byte tuples; TLC recomputes the record with the reference operators. *)
(*   Reset                                  new history (memo emptied)     *)
(*   Bytes   arg seed plen outs rep [ref]   the hashes of a byte string    *)
(*   Long    v outs rep [ref]               MurmurHashLong(v)              *)
(*   Int     v outs rep                     MurmurHash(uint32 v)           *)
(*   Hexa    v outs rep [ref]               ToString32(v), ToLong32 of it  *)
(*   HexaDec t outs rep [ref]               ToLong32(t), t a readable text *)
(*   Bit     hi lo src outs rep             Composite/Get*/Set* of a width *)
(*   Ip      a outs rep [ref]               the IPv4 conversions of a      *)
(*   IpParse t outs rep                     ToBytes(t), t a readable text  *)
(*   Scribble fam <key fields> f before after   the caller overwrote slice *)
(*           f of an evaluation of that key ("input": the slice it passed) *)
(*   Held    fam <key fields> outs   slices of an earlier evaluation, kept  *)
(*           untouched by the caller, read again                           *)
(* Every event carries `i`, its position in the history.                   *)
(* `rep`: the records returned by further evaluations of the same input    *)
(* (the same goroutine again, two other goroutines concurrently; gen conc:  *)
(* every DISTINCT record any of `nrep` evaluations by many goroutines, each *)
(* working through inputs of its own, returned): each                      *)
(* must equal `outs`.  The same input met again later in the history must  *)
(* return what the memo holds.  `ref`: what the harness's transliteration  *)
(* of the reference operators (used by the sweeps) computes; it must agree *)
(* with the specification on every field it has.                           *)
(***************************************************************************)
EXTENDS Hashes, TraceLib

VARIABLES l,      \* cursor into the trace
          cnt     \* events of the current history so far (every event carries its position `i`:
                  \* the record of a history is complete, nothing was dropped on the way)
tvars == <<vars, l, cnt>>

TraceInit == Init /\ l = 1 /\ cnt = 0 /\ HwmInit

Step(e) == /\ IsEv(l, e) /\ l' = l + 1
           /\ IF e = "Reset" THEN cnt' = 0
              ELSE Has(Trace[l], "i") /\ Trace[l].i = cnt + 1 /\ cnt' = cnt + 1

TraceReset == Step("Reset") /\ memo' = <<>>

RepOK(e) == /\ Has(e, "outs") /\ Has(e, "rep")
            /\ \A i \in 1..Len(e.rep) : e.rep[i] = e.outs
            /\ Has(e, "nrep") => e.nrep >= Len(e.rep)
\* evaluated after the step's Eval action holds, i.e. when e.outs IS the reference record
RefOK(e) == Has(e, "ref") => \A f \in DOMAIN e.ref : f \in DOMAIN e.outs /\ e.ref[f] = e.outs[f]

TraceBytes == /\ Step("Bytes")
              /\ LET e == Trace[l] IN
                   /\ RepOK(e)
                   /\ EvalBytes(e.arg, e.seed, e.plen, e.outs)
                   /\ RefOK(e)
TraceLong == /\ Step("Long")
             /\ LET e == Trace[l] IN RepOK(e) /\ EvalLong(e.v, e.outs) /\ RefOK(e)
TraceInt == /\ Step("Int")
            /\ LET e == Trace[l] IN RepOK(e) /\ EvalInt(e.v, e.outs) /\ RefOK(e)
TraceHexa == /\ Step("Hexa")
             /\ LET e == Trace[l] IN RepOK(e) /\ EvalHexa(e.v, e.outs) /\ RefOK(e)
TraceHexaDec == /\ Step("HexaDec")
                /\ LET e == Trace[l] IN RepOK(e) /\ EvalHexaDec(e.t, e.outs) /\ RefOK(e)
TraceBit == /\ Step("Bit")
            /\ LET e == Trace[l] IN RepOK(e) /\ EvalBit(e.hi, e.lo, e.src, e.outs) /\ RefOK(e)
TraceIp == /\ Step("Ip")
           /\ LET e == Trace[l] IN RepOK(e) /\ EvalIp(e.a, e.outs) /\ RefOK(e)
TraceIpParse == /\ Step("IpParse")
                /\ LET e == Trace[l] IN RepOK(e) /\ EvalIpParse(e.t, e.outs) /\ RefOK(e)

\* the key of the evaluation a Scribble / Held event refers to (fam + the family's argument fields)
HasAll(e, fs) == \A f \in fs : Has(e, f)
KeyOK(e) == /\ Has(e, "fam")
            /\ CASE e.fam = "bytes"   -> HasAll(e, {"arg", "seed", "plen"})
                 [] e.fam = "ip"      -> Has(e, "a")
                 [] e.fam = "ipparse" -> Has(e, "t")
                 [] OTHER -> FALSE            \* the other families neither take nor return slices
KeyOf(e) == CASE e.fam = "bytes"   -> <<"bytes", <<e.arg, e.seed, <<e.plen>>>>>>
              [] e.fam = "ip"      -> <<"ip", <<e.a>>>>
              [] e.fam = "ipparse" -> <<"ipparse", <<e.t>>>>
TraceScribble == /\ Step("Scribble")
                 /\ LET e == Trace[l] IN
                      /\ KeyOK(e) /\ HasAll(e, {"f", "before", "after"})
                      /\ Scribble(KeyOf(e), e.f, e.before, e.after)
TraceHeld == /\ Step("Held")
             /\ LET e == Trace[l] IN
                  /\ KeyOK(e) /\ Has(e, "outs") /\ DOMAIN e.outs # {}
                  /\ Held(KeyOf(e), e.outs)

Families == {"bytes", "long", "int", "hexa", "hexadec", "bit", "ip", "ipparse"}
InvAll == \A k \in DOMAIN memo : k[1] \in Families

TraceNext == (TraceReset \/ TraceBytes \/ TraceLong \/ TraceInt \/ TraceHexa \/ TraceHexaDec
              \/ TraceBit \/ TraceIp \/ TraceIpParse \/ TraceScribble \/ TraceHeld) /\ InvAll'

TraceSpec == TraceInit /\ [][TraceNext]_tvars

Hwm == HwmNote(l)
TraceAccepted == Accepted
=============================================================================
