SPECIFICATION MCSpec
CONSTANTS MaxN = 3
          ByteVals = {0, 1, 2, 255}
          MaxProg = 2
          Slot = 16
          K = 16
          C = 8
          ZeroFill = TRUE
          TagCodes = {0, 1}
          LenientTags = FALSE
INVARIANTS NoFabrication WithinInput BoundedAlloc TagsKnown PrefixFails
CHECK_DEADLOCK FALSE
