------------------------------- MODULE Value --------------------------------
(***************************************************************************)
(* C02 / C20 -- the tagged value model of golib (lang/value) as PURE       *)
(* operators: no variables, so every module that embeds tagged values      *)
(* (packs, steps, records) can EXTENDS or INSTANCE it.                     *)
(*                                                                         *)
(* A value is a record [t |-> type code, v |-> payload]:                   *)
(*   code  type            payload                                         *)
(*    0    null            <<>>                                            *)
(*   10    boolean         BOOLEAN                                         *)
(*   20    decimal         W8            (8-byte two's complement tuple)   *)
(*   21    int             W8 that fits 32 signed bits                     *)
(*   22    long            W8                                              *)
(*   30    float           4-byte IEEE bit pattern                         *)
(*   40    double          8-byte IEEE bit pattern                         *)
(*   45    double summary  [sum |-> 8 bytes, count |-> W8 (32 bit),        *)
(*                          min |-> 8 bytes, max |-> 8 bytes]              *)
(*   46    long summary    same shape, sum/min/max are W8                  *)
(*   50    text            byte tuple (UTF-8)                              *)
(*   51    text hash       W8 that fits 32 signed bits                     *)
(*   60    blob            byte tuple                                      *)
(*   61    IPv4            4-byte tuple                                    *)
(*   70    list            sequence of values                              *)
(*   71    int array       sequence of W8 (32 bit)                         *)
(*   72    float array     sequence of 4-byte patterns                     *)
(*   73    text array      sequence of byte tuples                         *)
(*   74    long array      sequence of W8                                  *)
(*   80    map             sequence of <<key bytes, value>>  (insertion    *)
(*   81    int map         sequence of <<W8 key (32 bit), value>>  order)  *)
(* Code 47 (float summary) is reserved by the format but has no value      *)
(* type: it is an unknown tag like every other unlisted byte.              *)
(*                                                                         *)
(* Wire format (written from the value format, not from the Go code):      *)
(*   tagged value = type code byte, then the body                          *)
(*   null: nothing; boolean: 1 byte; decimal: DataX decimal; int/text hash:*)
(*   4 bytes; long/double: 8 bytes; float: 4 bytes; summaries: sum 8,      *)
(*   count 4, min 8, max 8; text/blob: DataX blob; IPv4: 4 raw bytes;      *)
(*   list: decimal count then tagged values; arrays: 16-bit count then     *)
(*   elements (text array elements are DataX blobs); map: decimal count    *)
(*   then (text key, tagged value)*; int map: decimal count then (4-byte   *)
(*   key, tagged value)*.                                                  *)
(*                                                                         *)
(* Exported: the T* codes, TypeCodes/ScalarCodes/ArrayCodes/ContainerCodes,*)
(*   constructors V*, IsValue, SameValue, Depth, EncValue, EncBody,        *)
(*   DecValue, DecBody                                                     *)
(*   (results are [ok, v, next] like DataX!Dec; ok = FALSE on short input, *)
(*   unknown tag or a count the remaining input cannot hold).              *)
(* Long sequences are handled by divide and conquer (O(n log n), recursion *)
(* depth log n): lists of 40 000 items and maps of 300 entries are cheap.  *)
(***************************************************************************)
EXTENDS Bytes

\* the primitive codec (C01); its stream variables are irrelevant here
DX == INSTANCE DataX WITH buf <- <<>>, written <- 0, prog <- <<>>, rpos <- 0, rd <- <<>>

TNull == 0
TBool == 10
TDecimal == 20
TInt == 21
TLong == 22
TFloat == 30
TDouble == 40
TDoubleSummary == 45
TLongSummary == 46
TText == 50
TTextHash == 51
TBlob == 60
TIP4 == 61
TList == 70
TIntArray == 71
TFloatArray == 72
TTextArray == 73
TLongArray == 74
TMap == 80
TIntMap == 81

ContainerCodes == {TList, TMap, TIntMap}
ArrayCodes == {TIntArray, TFloatArray, TTextArray, TLongArray}
ScalarCodes == {TNull, TBool, TDecimal, TInt, TLong, TFloat, TDouble, TDoubleSummary, TLongSummary,
                TText, TTextHash, TBlob, TIP4}
TypeCodes == ScalarCodes \cup ArrayCodes \cup ContainerCodes

\* ---- constructors --------------------------------------------------------
Val(t, p) == [t |-> t, v |-> p]
VNull == Val(TNull, <<>>)
VBool(b) == Val(TBool, b)
VDecimal(w8) == Val(TDecimal, w8)
VInt(w8) == Val(TInt, w8)
VLong(w8) == Val(TLong, w8)
VFloat(b4) == Val(TFloat, b4)
VDouble(b8) == Val(TDouble, b8)
VDoubleSummary(sum, count, min, max) == Val(TDoubleSummary, [sum |-> sum, count |-> count, min |-> min, max |-> max])
VLongSummary(sum, count, min, max) == Val(TLongSummary, [sum |-> sum, count |-> count, min |-> min, max |-> max])
VText(bs) == Val(TText, bs)
VTextHash(w8) == Val(TTextHash, w8)
VBlob(bs) == Val(TBlob, bs)
VIP4(b4) == Val(TIP4, b4)
VList(items) == Val(TList, items)
VIntArray(xs) == Val(TIntArray, xs)
VFloatArray(xs) == Val(TFloatArray, xs)
VTextArray(xs) == Val(TTextArray, xs)
VLongArray(xs) == Val(TLongArray, xs)
VMap(pairs) == Val(TMap, pairs)
VIntMap(pairs) == Val(TIntMap, pairs)

\* n (0 <= n < 2^31) as W8
NatW8(n) == NatToBytes(n, 8)

\* ---- well-formedness -----------------------------------------------------
IsSeq(s) == DOMAIN s = 1..Len(s)
IsW8(x)  == IsBytes(x) /\ Len(x) = 8
IsI32(x) == IsW8(x) /\ FitsSigned(x, 4)
IsBn(x, n) == IsBytes(x) /\ Len(x) = n
MaxArrayLen == 32767          \* 16-bit signed count

IsSummary(p, wsum) ==
  /\ DOMAIN p = {"sum", "count", "min", "max"}
  /\ IsBn(p.sum, 8) /\ IsI32(p.count) /\ IsBn(p.min, 8) /\ IsBn(p.max, 8)

RECURSIVE IsValue(_)
IsValue(x) ==
  /\ DOMAIN x = {"t", "v"}
  /\ x.t \in TypeCodes
  /\ LET t == x.t
         p == x.v
     IN CASE t = TNull -> p = <<>>
          [] t = TBool -> p \in BOOLEAN
          [] t \in {TDecimal, TLong} -> IsW8(p)
          [] t \in {TInt, TTextHash} -> IsI32(p)
          [] t \in {TFloat, TIP4} -> IsBn(p, 4)
          [] t = TDouble -> IsBn(p, 8)
          [] t \in {TDoubleSummary, TLongSummary} -> IsSummary(p, 8)
          [] t \in {TText, TBlob} -> IsBytes(p)
          [] t = TIntArray -> IsSeq(p) /\ Len(p) <= MaxArrayLen /\ \A i \in 1..Len(p) : IsI32(p[i])
          [] t = TLongArray -> IsSeq(p) /\ Len(p) <= MaxArrayLen /\ \A i \in 1..Len(p) : IsW8(p[i])
          [] t = TFloatArray -> IsSeq(p) /\ Len(p) <= MaxArrayLen /\ \A i \in 1..Len(p) : IsBn(p[i], 4)
          [] t = TTextArray -> IsSeq(p) /\ Len(p) <= MaxArrayLen /\ \A i \in 1..Len(p) : IsBytes(p[i])
          [] t = TList -> IsSeq(p) /\ \A i \in 1..Len(p) : IsValue(p[i])
          [] t = TMap -> /\ IsSeq(p)
                         /\ \A i \in 1..Len(p) : Len(p[i]) = 2 /\ IsBytes(p[i][1]) /\ IsValue(p[i][2])
                         /\ Cardinality({p[i][1] : i \in 1..Len(p)}) = Len(p)      \* keys are unique
          [] t = TIntMap -> /\ IsSeq(p)
                            /\ \A i \in 1..Len(p) : Len(p[i]) = 2 /\ IsI32(p[i][1]) /\ IsValue(p[i][2])
                            /\ Cardinality({p[i][1] : i \in 1..Len(p)}) = Len(p)

\* Structural equality that looks at the type codes FIRST.  TLC's own `=` on two
\* records may compare the payloads first and stops with an error when they
\* are of different kinds (BOOLEAN against a tuple): use SameValue wherever the
\* two sides might be of different types, and never put values of different
\* types into one TLC set (enumerate them as sequences).
RECURSIVE SameValue(_, _)
SameItems(a, b) == Len(a) = Len(b) /\ \A i \in 1..Len(a) : SameValue(a[i], b[i])
SamePairs(a, b) == Len(a) = Len(b) /\ \A i \in 1..Len(a) : a[i][1] = b[i][1] /\ SameValue(a[i][2], b[i][2])
SameValue(a, b) ==
  /\ a.t = b.t
  /\ IF a.t = TList THEN SameItems(a.v, b.v)
     ELSE IF a.t \in {TMap, TIntMap} THEN SamePairs(a.v, b.v)
     ELSE a.v = b.v

\* the children of a container value
Children(x) == IF x.t = TList THEN x.v
               ELSE IF x.t \in {TMap, TIntMap} THEN [i \in 1..Len(x.v) |-> x.v[i][2]]
               ELSE <<>>

Max2(a, b) == IF a >= b THEN a ELSE b
RECURSIVE Depth(_), MaxDepthOf(_, _, _)
MaxDepthOf(xs, lo, hi) == IF lo > hi THEN 0
                          ELSE IF lo = hi THEN Depth(xs[lo])
                          ELSE Max2(MaxDepthOf(xs, lo, (lo + hi) \div 2), MaxDepthOf(xs, (lo + hi) \div 2 + 1, hi))
\* scalars and arrays have depth 0, a container one more than its deepest child (empty: 1)
Depth(x) == IF x.t \in ContainerCodes
            THEN 1 + Bind(Children(x), LAMBDA cs : MaxDepthOf(cs, 1, Len(cs)))
            ELSE 0

\* ---- reference encoder ---------------------------------------------------
EncCount(n) == DX!EncDecimal(NatW8(n))

RECURSIVE EncValue(_), EncRange(_, _, _, _)

\* one item of a sequence body; kind says what the items are
EncItem(kind, x) ==
  CASE kind = "val"  -> EncValue(x)
    [] kind = "map"  -> DX!EncBlob(x[1]) \o EncValue(x[2])
    [] kind = "imap" -> Low(x[1], 4) \o EncValue(x[2])
    [] kind = "text" -> DX!EncBlob(x)

\* the items xs[lo..hi], concatenated, by halving
EncRange(kind, xs, lo, hi) ==
  IF lo > hi THEN <<>>
  ELSE IF lo = hi THEN EncItem(kind, xs[lo])
  ELSE EncRange(kind, xs, lo, (lo + hi) \div 2) \o EncRange(kind, xs, (lo + hi) \div 2 + 1, hi)

EncItems(kind, xs) == Bind(xs, LAMBDA s : EncRange(kind, s, 1, Len(s)))

EncSummary(p) == p.sum \o Low(p.count, 4) \o p.min \o p.max

\* the body of a value (everything after the type code byte)
EncBody(x) ==
  LET t == x.t
      p == x.v
  IN CASE t = TNull -> <<>>
       [] t = TBool -> DX!Enc("Bool", p)
       [] t = TDecimal -> DX!Enc("Decimal", p)
       [] t \in {TInt, TTextHash} -> DX!Enc("Int", p)
       [] t = TLong -> DX!Enc("Long", p)
       [] t = TFloat -> DX!Enc("Float", p)
       [] t = TDouble -> DX!Enc("Double", p)
       [] t \in {TDoubleSummary, TLongSummary} -> EncSummary(p)
       [] t = TText -> DX!Enc("Text", p)
       [] t = TBlob -> DX!Enc("Blob", p)
       [] t = TIP4 -> p
       [] t = TList -> EncCount(Len(p)) \o EncItems("val", p)
       [] t = TIntArray -> DX!Enc("IntArr", p)
       [] t = TFloatArray -> DX!Enc("FloatArr", p)
       [] t = TLongArray -> DX!Enc("LongArr", p)
       [] t = TTextArray -> NatToBytes(Len(p), 2) \o EncItems("text", p)
       [] t = TMap -> EncCount(Len(p)) \o EncItems("map", p)
       [] t = TIntMap -> EncCount(Len(p)) \o EncItems("imap", p)

EncValue(x) == <<x.t>> \o EncBody(x)

\* ---- reference decoder (fail closed) ---------------------------------------
Have(b, p, n) == n >= 0 /\ p + n - 1 <= Len(b)
Bad == [ok |-> FALSE, v |-> <<>>, next |-> 0]
Good(v, next) == [ok |-> TRUE, v |-> v, next |-> next]

\* a decimal count that the rest of the input could possibly hold
CountOK(w8) == High(w8, 4) = Zeros(4) /\ w8[5] < 128

RECURSIVE DecV(_, _), DecRange(_, _, _, _)

DecItem(kind, b, p) ==
  CASE kind = "val"  -> DecV(b, p)
    [] kind = "text" -> DX!DecBlobAt(b, p)
    [] kind = "map"  -> Bind(DX!DecBlobAt(b, p), LAMBDA k :
                          IF ~k.ok THEN Bad
                          ELSE Bind(DecV(b, k.next), LAMBDA d :
                                 IF d.ok THEN Good(<<k.v, d.v>>, d.next) ELSE Bad))
    [] kind = "imap" -> IF ~Have(b, p, 4) THEN Bad
                        ELSE Bind(DecV(b, p + 4), LAMBDA d :
                               IF d.ok THEN Good(<<SignExt(Slice(b, p, 4), 8), d.v>>, d.next) ELSE Bad)

\* n consecutive items starting at p, by halving: [ok, v = sequence of items, next]
DecRange(kind, b, p, n) ==
  IF n = 0 THEN Good(<<>>, p)
  ELSE IF n = 1 THEN Bind(DecItem(kind, b, p), LAMBDA d : IF d.ok THEN Good(<<d.v>>, d.next) ELSE Bad)
  ELSE Bind(DecRange(kind, b, p, n \div 2), LAMBDA l :
         IF ~l.ok THEN Bad
         ELSE Bind(DecRange(kind, b, l.next, n - (n \div 2)), LAMBDA r :
                IF r.ok THEN Good(l.v \o r.v, r.next) ELSE Bad))

\* n items starting at p, refused at once when fewer than n bytes remain
\* (every item takes at least one byte): work stays proportional to input
DecItems(kind, b, p, n) == IF n > Len(b) - p + 1 THEN Bad ELSE DecRange(kind, b, p, n)

\* decimal count, then that many items
DecCounted(kind, b, p) ==
  Bind(DX!Dec("Decimal", b, p), LAMBDA c :
    IF ~c.ok THEN Bad
    ELSE IF ~CountOK(c.v) THEN Bad
    ELSE DecItems(kind, b, c.next, BytesToNat(Low(c.v, 4))))

DecSummary(b, p) ==
  IF ~Have(b, p, 28) THEN Bad
  ELSE Good([sum |-> Slice(b, p, 8), count |-> SignExt(Slice(b, p + 8, 4), 8),
             min |-> Slice(b, p + 12, 8), max |-> Slice(b, p + 20, 8)], p + 28)

\* the body of a value of type code t starting at p: [ok, v = payload, next]
DecBody(t, b, p) ==
  CASE t = TNull -> Good(<<>>, p)
    [] t = TBool -> DX!Dec("Bool", b, p)
    [] t = TDecimal -> DX!Dec("Decimal", b, p)
    [] t \in {TInt, TTextHash} -> DX!Dec("Int", b, p)
    [] t = TLong -> DX!Dec("Long", b, p)
    [] t = TFloat -> DX!Dec("Float", b, p)
    [] t = TDouble -> DX!Dec("Double", b, p)
    [] t \in {TDoubleSummary, TLongSummary} -> DecSummary(b, p)
    [] t = TText -> DX!Dec("Text", b, p)
    [] t = TBlob -> DX!Dec("Blob", b, p)
    [] t = TIP4 -> IF Have(b, p, 4) THEN Good(Slice(b, p, 4), p + 4) ELSE Bad
    [] t = TList -> DecCounted("val", b, p)
    [] t = TIntArray -> DX!Dec("IntArr", b, p)
    [] t = TFloatArray -> DX!Dec("FloatArr", b, p)
    [] t = TLongArray -> DX!Dec("LongArr", b, p)
    [] t = TTextArray -> IF ~Have(b, p, 2) THEN Bad
                         ELSE IF b[p] >= 128 THEN Bad
                         ELSE DecItems("text", b, p + 2, BytesToNat(Slice(b, p, 2)))
    [] t = TMap -> DecCounted("map", b, p)
    [] t = TIntMap -> DecCounted("imap", b, p)
    [] OTHER -> Bad                                   \* unknown type code

DecV(b, p) ==
  IF ~Have(b, p, 1) THEN Bad
  ELSE Bind(DecBody(b[p], b, p + 1), LAMBDA d : IF d.ok THEN Good(Val(b[p], d.v), d.next) ELSE Bad)

\* the tagged value starting at position p (1-based) of the byte tuple b:
\* [ok |-> BOOLEAN, v |-> value, next |-> position after it]
DecValue(b, p) == Bind(b, LAMBDA bb : DecV(bb, p))

\* ---- what the codec promises (C02), as predicates on one value -------------
RoundTrips(x) == LET e == EncValue(x)
                     d == DecValue(e, 1)
                 IN d.ok /\ SameValue(d.v, x) /\ d.next = Len(e) + 1
ReEncodes(x) == LET d == DecValue(EncValue(x), 1) IN d.ok /\ EncValue(d.v) = EncValue(x)
SelfDelimits(x) == LET e == EncValue(x)
                       d == DecValue(e \o <<7, 0, 255>>, 1)
                   IN d.ok /\ SameValue(d.v, x) /\ d.next = Len(e) + 1
\* no proper prefix of an encoding decodes
PrefixesFail(x) == LET e == EncValue(x) IN \A k \in 0..(Len(e) - 1) : ~DecValue(High(e, k), 1).ok
=============================================================================
