SPECIFICATION LiveSpec
CONSTANTS Sender = {"s1", "s2"}
          MaxFaults = 1
          MaxCfg = 0
          Addr = {"A"}
          Stall = FALSE
          QueueMode = TRUE
          QCap = 2
          MaxConn = 3
          Broken = "none"
          NPacks = 3
PROPERTIES NoLossWhenHealthy
INVARIANTS TypeOK MutualExclusion FramesWhole FreshStart InOrderAtMostOnce HeaderRight ErrMeansNotDelivered NoLossSafe Recovers WriterErrorJustified
CHECK_DEADLOCK FALSE
