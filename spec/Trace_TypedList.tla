--------------------------- MODULE Trace_TypedList ---------------------------
(***************************************************************************)
(* Trace validation of the real typed lists (IntList, LongList, FloatList, *)
(* DoubleList, StringList) and of LinkedList of golib util/list against    *)
(* TypedList.  One event per public call (harness/c13):                    *)
(*                                                                         *)
(*   Reset  t ctor cap            new object of kind t                     *)
(*   Add    v [via]               Add<via>(v); v in the list's own         *)
(*                                representation                           *)
(*   AddAll / AddAllArray  vs [self]   the argument's elements             *)
(*   Set    i v fail   Get  i ret      fail / ret = <<>>: index reported   *)
(*   ToArray arr       Size n          Proj arr                            *)
(*   Write  bytes back            bytes written / list read back from them *)
(*   Sort   asc two perm rk dist [ct carr crk cdist casc]                  *)
(*   Filter idx ret               ret = <<elements>> or <<>> (reported)    *)
(*   AddFirst AddLast PutBefore Remove RemoveFirst RemoveLast Clear Walk   *)
(*                                (LinkedList; positions 0-based)          *)
(*   a call that hands something out / is handed something may carry       *)
(*   keep = h: the caller retains that thing in slot h (ToArray: the array *)
(*   returned; Sort: the index slice; Filter: the list returned; Write:    *)
(*   the list read back; AddAll / AddAllArray: the argument list / array)  *)
(*   Held    h arr                the retained thing h, read again         *)
(*   HeldSet h i v                the caller wrote arr[i] = v / Set(i, v)  *)
(*                                into the retained array / list h         *)
(*   HeldAdd h v                  the caller called Add(v) on retained     *)
(*                                list h                                   *)
(*   Swap    h                    retained list h becomes the list the     *)
(*                                calls go to, the list becomes retained h *)
(*   every event may carry held = ALL retained things, read after the call *)
(*   every event: size = Size() after the call; LinkedList events also     *)
(*   first / last = value of GetFirst() / GetLast() as a result tuple      *)
(*                                                                         *)
(* A panic anywhere else is an event "Panic" for which there is no action. *)
(***************************************************************************)
EXTENDS TypedList, TraceLib

VARIABLE l
tvars == <<vars, l>>

TraceInit == InitWith("Abs") /\ l = 1 /\ HwmInit

Step(n) == IsEv(l, n) /\ l' = l + 1
e == Trace[l]

\* observations taken after every call
Obs == /\ Has(e, "size") /\ e.size = Len(xs')
       /\ Has(e, "all") => e.all = xs'          \* the complete contents (graph replay)
       /\ Has(e, "held") => e.held = held'      \* every retained thing, read again
       /\ T' = "Linked" => /\ Has(e, "first") /\ Has(e, "last")
                           /\ e.first = (IF xs' = <<>> THEN <<>> ELSE <<xs'[1]>>)
                           /\ e.last = (IF xs' = <<>> THEN <<>> ELSE <<xs'[Len(xs')]>>)

TraceReset == /\ Step("Reset")
              /\ Has(e, "t") /\ e.t \in TypedKinds \cup {"Linked"}
              /\ xs' = <<>> /\ T' = e.t /\ held' = <<>>
              /\ Obs

Typed  == T \in TypedKinds
Linked == T = "Linked"

\* the caller retains the thing this call returned / was given (value s) in slot e.keep
Keep(s) == IF Has(e, "keep") THEN KeepAt(e.keep, s) ELSE NoKeep

TraceAdd == /\ Step("Add") /\ Has(e, "v") /\ Add(e.v) /\ NoKeep /\ Obs
            /\ Has(e, "ret") => e.ret = TRUE          \* LinkedList.Add answers true
TraceAddAll == /\ Step("AddAll") /\ Typed /\ Has(e, "vs") /\ Has(e, "self")
               /\ e.self => (e.vs = xs /\ ~Has(e, "keep"))     \* list.AddAll(list)
               /\ AddAll(e.vs) /\ Keep(e.vs) /\ Obs
TraceAddAllArray == Step("AddAllArray") /\ Typed /\ Has(e, "vs") /\ AddAll(e.vs) /\ Keep(e.vs) /\ Obs
TraceSet == /\ Step("Set") /\ Typed /\ Has(e, "i") /\ Has(e, "v") /\ Has(e, "fail")
            /\ Set(e.i, e.v) /\ e.fail = SetFails(e.i) /\ NoKeep /\ Obs
TraceGet == /\ Step("Get") /\ Typed /\ Has(e, "i") /\ Has(e, "ret")
            /\ e.ret = GetRes(e.i) /\ UNCHANGED vars /\ Obs
TraceToArray == Step("ToArray") /\ Has(e, "arr") /\ e.arr = xs /\ UNCHANGED lvars /\ Keep(xs) /\ Obs
TraceProj == Step("Proj") /\ Has(e, "arr") /\ e.arr = xs /\ UNCHANGED vars /\ Obs
TraceSize == Step("Size") /\ Has(e, "n") /\ e.n = Len(xs) /\ UNCHANGED vars /\ Obs
\* the bytes Write produced are the wire form; a fresh list that Read them holds xs
TraceWrite == /\ Step("Write") /\ Typed /\ Has(e, "bytes") /\ Has(e, "back")
              /\ e.bytes = Wire(T, xs) /\ e.back = xs
              /\ UNCHANGED lvars /\ Keep(xs) /\ Obs

\* sorting: the logged ranks are bound to the stored elements (and the child's
\* to the child list) by the order of the element type, then the relation decides
TraceSort ==
  /\ Step("Sort") /\ Typed
  /\ Has(e, "asc") /\ Has(e, "two") /\ Has(e, "perm") /\ Has(e, "rk") /\ Has(e, "dist")
  /\ RanksOK(T, xs, e.rk, e.dist)
  /\ IF e.two
     THEN /\ Has(e, "ct") /\ Has(e, "carr") /\ Has(e, "crk") /\ Has(e, "cdist") /\ Has(e, "casc")
          /\ e.ct \in TypedKinds
          /\ RanksOK(e.ct, e.carr, e.crk, e.cdist)
          /\ IsOrderingPermutation(e.perm, e.rk, e.crk, e.asc, e.casc)
     ELSE IsOrderingPermutation(e.perm, e.rk, NoChild(Len(xs)), e.asc, TRUE)
  /\ UNCHANGED lvars /\ Keep(e.perm) /\ Obs

TraceFilter == /\ Step("Filter") /\ Typed /\ Has(e, "idx") /\ Has(e, "ret")
               /\ e.ret = FilterRes(e.idx)
               /\ e.ret # <<>> => (Has(e, "osize") /\ e.osize = Len(e.idx))    \* Size() of the returned list
               /\ UNCHANGED lvars
               /\ IF FilterOK(e.idx) THEN Keep(Filtering(e.idx)) ELSE (~Has(e, "keep") /\ NoKeep)
               /\ Obs

\* ---- retained things --------------------------------------------------------
TraceHeld == /\ Step("Held") /\ Has(e, "h") /\ Has(e, "arr")
             /\ IsHeld(e.h) /\ e.arr = held[e.h]
             /\ UNCHANGED vars /\ Obs
TraceHeldSet == /\ Step("HeldSet") /\ Has(e, "h") /\ Has(e, "i") /\ Has(e, "v")
                /\ HeldWrite(e.h, e.i, e.v) /\ Obs
TraceHeldAdd == /\ Step("HeldAdd") /\ Typed /\ Has(e, "h") /\ Has(e, "v")
                /\ HeldAppend(e.h, e.v) /\ Obs
TraceSwap == Step("Swap") /\ Typed /\ Has(e, "h") /\ SwapHeld(e.h) /\ Obs

\* ---- LinkedList ------------------------------------------------------------
TraceAddFirst == Step("AddFirst") /\ Linked /\ Has(e, "v") /\ AddFirst(e.v) /\ NoKeep /\ Obs
TraceAddLast == Step("AddLast") /\ Linked /\ Has(e, "v") /\ AddLast(e.v) /\ NoKeep /\ Obs
\* the successor node was reached by e.p GetNext hops from GetFirst; the call
\* answers the new node, whose value (e.nv) and successor value (e.sv) are logged
TracePutBefore == /\ Step("PutBefore") /\ Linked /\ Has(e, "v") /\ Has(e, "p") /\ Has(e, "nv") /\ Has(e, "sv")
                  /\ InRange(e.p) /\ e.nv = <<e.v>> /\ e.sv = <<At(e.p)>>
                  /\ PutBefore(e.v, e.p) /\ NoKeep /\ Obs
TraceRemove == /\ Step("Remove") /\ Linked /\ Has(e, "p") /\ Has(e, "ret")
               /\ InRange(e.p) /\ e.ret = <<At(e.p)>>
               /\ Remove(e.p) /\ NoKeep /\ Obs
TraceRemoveFirst == Step("RemoveFirst") /\ Linked /\ Has(e, "ret") /\ e.ret = FirstRes /\ RemoveFirst /\ NoKeep /\ Obs
TraceRemoveLast == Step("RemoveLast") /\ Linked /\ Has(e, "ret") /\ e.ret = LastRes /\ RemoveLast /\ NoKeep /\ Obs
TraceClear == Step("Clear") /\ Linked /\ Clear /\ NoKeep /\ Obs
\* GetFirst, then GetNext until nil: the values met
TraceWalk == Step("Walk") /\ Linked /\ Has(e, "arr") /\ e.arr = xs /\ UNCHANGED vars /\ Obs

TraceNext ==
  ( \/ TraceReset
    \/ TraceAdd \/ TraceAddAll \/ TraceAddAllArray \/ TraceSet \/ TraceGet
    \/ TraceToArray \/ TraceProj \/ TraceSize \/ TraceWrite \/ TraceSort \/ TraceFilter
    \/ TraceAddFirst \/ TraceAddLast \/ TracePutBefore \/ TraceRemove
    \/ TraceRemoveFirst \/ TraceRemoveLast \/ TraceClear \/ TraceWalk
    \/ TraceHeld \/ TraceHeldSet \/ TraceHeldAdd \/ TraceSwap )
  /\ InvAll'

TraceSpec == TraceInit /\ [][TraceNext]_tvars

Hwm == HwmNote(l)
TraceAccepted == Accepted
=============================================================================
