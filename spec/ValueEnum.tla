----------------------------- MODULE ValueEnum ------------------------------
(***************************************************************************)
(* C02 / C20 -- the small-scope enumeration of the tagged value domain:    *)
(* every value of container depth <= 2 whose containers hold at most two   *)
(* items.  Shared by MC_Value (the design is checked on every one of them),*)
(* Trace_ValueEnum (the real codec is driven through every one of them by  *)
(* index: harness/valgen transliterates the indexing and TLC checks the    *)
(* transliteration value by value) and MC_ValueLaws (comparison laws).     *)
(*                                                                         *)
(*   AllValues = FullScalars                     every non-container type  *)
(*            \o Containers(FullScalars)         depth 1, all type codes   *)
(*            \o Containers(Small1)              depth 2, small domain     *)
(*   Small1    = SmallScalars \o Containers(SmallScalars)                  *)
(*   Containers(S) = lists of <= 2 items of S, maps and int maps of <= 2   *)
(*                   entries over two keys, both insertion orders          *)
(*                                                                         *)
(* Values of different types must not meet in one TLC set (see             *)
(* Value!SameValue): every enumeration is a SEQUENCE, ranged over by index.*)
(***************************************************************************)
EXTENDS Value

CONSTANT SmallN     \* how many scalars the nested level ranges over (1..6)

W(n) == NatW8(n)
MinI32 == SignExt(<<128, 0, 0, 0>>, 8)
MinI64 == <<128, 0, 0, 0, 0, 0, 0, 0>>
Pay(n) == [i \in 1..n |-> (i * 11) % 256]

FullScalars ==
  <<VNull, VBool(TRUE), VBool(FALSE),
    VDecimal(W(0)), VDecimal(W(128)), VDecimal(Fill(8, 255)), VDecimal(MinI64),
    VInt(W(0)), VInt(MinI32), VLong(W(1)), VLong(MinI64),
    VFloat(<<0, 0, 0, 0>>), VFloat(<<127, 192, 0, 1>>), VDouble(Zeros(8)), VDouble(<<255, 248, 0, 0, 0, 0, 0, 1>>),
    VDoubleSummary(<<63, 240, 0, 0, 0, 0, 0, 0>>, W(2), Zeros(8), <<64, 0, 0, 0, 0, 0, 0, 0>>),
    VLongSummary(W(7), MinI32, Fill(8, 255), W(9)),
    VText(<<>>), VText(<<97>>), VText(Pay(254)), VTextHash(W(0)), VTextHash(Fill(8, 255)),
    VBlob(<<>>), VBlob(Pay(253)), VBlob(Pay(256)), VIP4(<<0, 0, 0, 0>>), VIP4(<<192, 168, 0, 255>>),
    VIntArray(<<>>), VIntArray(<<W(1), MinI32>>), VFloatArray(<<>>), VFloatArray(<< <<63, 128, 0, 0>> >>),
    VTextArray(<<>>), VTextArray(<< <<>>, <<97, 98>> >>), VLongArray(<<>>), VLongArray(<<MinI64, W(3)>>)>>

SmallSeq == <<VNull, VDecimal(W(1)), VText(<<97>>), VBool(TRUE), VBlob(<<>>), VIntArray(<<W(2)>>)>>
SmallScalars == SubSeq(SmallSeq, 1, SmallN)

SKeys == << <<97>>, <<>> >>             \* "a" and the empty key
IKeys == <<W(5), Fill(8, 255)>>         \* 5 and -1

\* force a function over 1..n into a tuple (evaluated once)
Tup(f) == f \o <<>>

\* all sequences of at most two items of S: <<>>, the n singletons, the n*n pairs
UpTo2(S) == LET n == Len(S) IN
  << <<>> >> \o [i \in 1..n |-> <<S[i]>>]
             \o [k \in 1..(n * n) |-> <<S[((k - 1) \div n) + 1], S[((k - 1) % n) + 1]>>]
\* all maps of at most two entries with distinct keys (K has two keys): the empty map, the 2n one-entry
\* maps (key 1 first), the 2*n*n two-entry maps (first n*n: key 1 inserted first, then key 2 first)
Maps2(K, S) == LET n == Len(S) IN
  << <<>> >> \o [k \in 1..(2 * n) |-> << <<K[((k - 1) \div n) + 1], S[((k - 1) % n) + 1]>> >>]
             \o [k \in 1..(2 * n * n) |->
                   LET o == (k - 1) \div (n * n)
                       r == (k - 1) % (n * n)
                   IN << <<K[1 + o], S[(r \div n) + 1]>>, <<K[2 - o], S[(r % n) + 1]>> >>]

Containers(S) ==
  Bind(S, LAMBDA s :
    Bind(UpTo2(s), LAMBDA ls : Tup([i \in 1..Len(ls) |-> VList(ls[i])]))
    \o Bind(Maps2(SKeys, s), LAMBDA ms : Tup([i \in 1..Len(ms) |-> VMap(ms[i])]))
    \o Bind(Maps2(IKeys, s), LAMBDA ms : Tup([i \in 1..Len(ms) |-> VIntMap(ms[i])])))

Small1 == SmallScalars \o Containers(SmallScalars)

AllValues == FullScalars \o Containers(FullScalars) \o Containers(Small1)
NAll == Len(AllValues)
=============================================================================
