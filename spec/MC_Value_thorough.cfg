SPECIFICATION MCSpec
CONSTANTS MaxDepth = 2
          SmallN = 6
          MaxLen = 2
INVARIANTS ReadBack ExactConsumption AllConsumed ReEncodeIdentical NoStuck TagFirst SelfDelimiting Truncated UnknownTag Complete
CHECK_DEADLOCK FALSE
