SPECIFICATION MCSpec
CONSTANTS SmallN = 4
          MaxLen = 3
INVARIANTS ReadBack ExactConsumption AllConsumed WireOK ReEncodeIdentical NoStuck TagFirst SelfDelimiting Truncated Complete RTisComposition
CHECK_DEADLOCK FALSE
