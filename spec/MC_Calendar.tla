---------------------------- MODULE MC_Calendar -----------------------------
(***************************************************************************)
(* The calendar specification validates itself.  The initial states are    *)
(* the 100 new-year midnights; from each a behaviour walks through all     *)
(* days of the year (first and, if DayEdges, last millisecond of each,      *)
(* stepping into the next day), and on every WalkEvery-th day (leap-day    *)
(* neighbourhood and both ends of the century) through every minute        *)
(* boundary -1 / 0 / +1 ms.  All 36 525 days are visited.  On every state  *)
(*   * Civil(day) (table lookup) of the first day is Saturday 2000-01-01   *)
(*     and Civil(day + 1) is the successor date of Civil(day) computed     *)
(*     from month lengths only: by induction Civil is the day-by-day walk  *)
(*     through the calendar, which ends on Thursday 2099-12-31;            *)
(*   * a closed-form days-from-civil formula (era arithmetic, no tables)   *)
(*     and Zeller's congruence map the date back to the day index and the  *)
(*     weekday (an independent inverse);                                   *)
(*   * the helper texts name the instant, the units are nested and         *)
(*     monotone step functions (action property Monotone over every        *)
(*     transition, day boundaries included);                               *)
(*   * the pattern format is read back by the fixed-width parser, and the  *)
(*     lenience set Required of DateFormat is sound and tight with respect *)
(*     to date normalisation for a set of clock dates (the two expensive   *)
(*     families are evaluated on every HeavyEvery-th day resp. on the four *)
(*     years 2000..2003, which contain every (leap, month, day) case).     *)
(***************************************************************************)
EXTENDS DateFormat, TLC

CONSTANTS WalkEvery, HeavyEvery, DayEdges

\* the civil date of the current day
walk == Civil(now.day)

SuccDate(c) == IF c.d < MonthLen(c.y, c.m) THEN [c EXCEPT !.d = c.d + 1, !.w = (c.w + 1) % 7]
               ELSE IF c.m < 12 THEN [y |-> c.y, m |-> c.m + 1, d |-> 1, w |-> (c.w + 1) % 7]
               ELSE [y |-> c.y + 1, m |-> 1, d |-> 1, w |-> (c.w + 1) % 7]

\* independent inverse: days from civil by era arithmetic (March-based year, 400-year eras)
ClosedDays1970(y, m, d) ==
  LET yy  == IF m <= 2 THEN y - 1 ELSE y
      era == yy \div 400
      yoe == yy - era * 400
      mp  == IF m > 2 THEN m - 3 ELSE m + 9
      doy == (153 * mp + 2) \div 5 + d - 1
      doe == yoe * 365 + yoe \div 4 - yoe \div 100 + doy
  IN era * 146097 + doe - 719468
ClosedDays(y, m, d) == ClosedDays1970(y, m, d) - ClosedDays1970(2000, 1, 1)

\* Zeller's congruence, converted to 0 = Monday .. 6 = Sunday
Zeller(y, m, d) ==
  LET mm == IF m <= 2 THEN m + 12 ELSE m
      yy == IF m <= 2 THEN y - 1 ELSE y
      K  == yy % 100
      J  == yy \div 100
      h  == (d + (13 * (mm + 1)) \div 5 + K + K \div 4 + J \div 4 + 5 * J) % 7    \* 0 = Saturday
  IN (h + 5) % 7

SpecialDays == {0, 59, 60, 365, 366, NDays - 1}
IsWalkDay(d) == d % WalkEvery = 0 \/ d \in SpecialDays

NextMs(ms) == IF ms % 60000 = 1 THEN ms + 59998 ELSE ms + 1      \* ..0 -> ..1 -> 59999 -> 60000
NextInstant(t) ==
  IF t.ms = MsPerDay - 1 THEN [day |-> t.day + 1, ms |-> 0]
  ELSE IF IsWalkDay(t.day) THEN [day |-> t.day, ms |-> NextMs(t.ms)]
  ELSE IF DayEdges THEN [day |-> t.day, ms |-> MsPerDay - 1]
  ELSE [day |-> t.day + 1, ms |-> 0]

MCInit == \E y \in Years : now = [day |-> YearStart(y), ms |-> 0] /\ obs = Helpers(now)
MCNext == LET n == NextInstant(now) IN n.day < NDays /\ Observe(n)
MCSpec == MCInit /\ [][MCNext]_vars

---------------------------------------------------------------------------
Century == NDays = 36525 /\ YearStart(2001) = 366 /\ YearStart(2100) = 36525

\* Civil is the successor walk from Saturday 2000-01-01
CivilAgrees == /\ now.day = 0 => walk = [y |-> 2000, m |-> 1, d |-> 1, w |-> 5]
               /\ now.day + 1 < NDays => Civil(now.day + 1) = SuccDate(walk)

InverseAgrees == /\ ValidDate(walk.y, walk.m, walk.d)
                 /\ ClosedDays(walk.y, walk.m, walk.d) = now.day
                 /\ DayIndex(walk.y, walk.m, walk.d) = now.day

WeekdayAgrees == Zeller(walk.y, walk.m, walk.d) = walk.w /\ WeekdayOf(now.day) = walk.w

\* Thursday 2099-12-31 is the last day
EndOfCentury == now.day = NDays - 1 => walk = [y |-> 2099, m |-> 12, d |-> 31, w |-> 3]

---------------------------------------------------------------------------
iy == <<LY>>   im == <<LMo>>  id == <<LD>>  iH == <<LH>>  iM == <<LMi>>  iS == <<LS>>  is == <<LMs>>
dash == <<45>>  col == <<58>>  dot == <<46>>  sl == <<47>>  sp == <<32>>
nyeon == <<235, 133, 132>>  wol == <<236, 155, 148>>  il == <<236, 157, 188>>     \* three-byte literals

MCPatterns == {
  <<iy, dash, im, dash, id>>,
  <<iy, im, id, iH, iM, iS, is>>,
  <<iy, dash, im, dash, id, sp, iH, col, iM, col, iS, dot, is>>,
  <<id, sl, im, sl, iy>>,
  <<iH, iM>>, <<is>>, <<iy, iy>>, <<id, id, im>>,
  <<iy, nyeon, im, wol, id, il>>,
  <<im, dash, id>>, <<id>>, <<iy, sp, im>>, <<dash>>, <<>> }

FormatRoundTrip ==
  (now.ms \in {0, 1, 43200000, MsPerDay - 1} /\ (now.day % HeavyEvery = 0 \/ now.day \in SpecialDays)) =>
     \A p \in MCPatterns : /\ IsPattern(p)
                           /\ RoundTripModel(p, now)
                           /\ RoundTripOK(p, now, now)
                           /\ Len(Format(p, now)) = TextLen(p)

\* how the implementation's date constructor normalises day-of-month overflow
Normalise(y, m, d) == IF d <= MonthLen(y, m) THEN [y |-> y, m |-> m, d |-> d]
                      ELSE [y |-> y, m |-> m + 1, d |-> d - MonthLen(y, m)]   \* December never overflows
ClockDates == { [y |-> 2026, m |-> 9, d |-> 29], [y |-> 2028, m |-> 2, d |-> 29], [y |-> 2027, m |-> 12, d |-> 31],
                [y |-> 2027, m |-> 2, d |-> 10], [y |-> 2027, m |-> 1, d |-> 31], [y |-> 2030, m |-> 4, d |-> 30] }
Filled(P, c, k) == Normalise(IF LY \in P THEN c.y ELSE k.y, IF LMo \in P THEN c.m ELSE k.m, IF LD \in P THEN c.d ELSE k.d)
DF(f, c) == CASE f = LY -> c.y [] f = LMo -> c.m [] f = LD -> c.d

\* Required is sound (a required field survives whatever the clock supplies for the absent ones)
\* and tight (a present date field that is not required is changed by some clock date)
RequiredExact ==
  (now.ms = 0 /\ now.day < YearStart(2004)) =>
    \A P \in SUBSET DateLetters :
      /\ \A f \in Required(P, walk) : \A k \in ClockDates : DF(f, Filled(P, walk, k)) = DF(f, walk)
      /\ \A f \in P \ Required(P, walk) : \E k \in ClockDates : DF(f, Filled(P, walk, k)) # DF(f, walk)
---------------------------------------------------------------------------
\* (order) The helpers are functions of the instant alone: whatever was asked before, and in
\* whatever order (ascending, descending, repeated, far apart), the answer is Helpers(t).  The
\* walk above only ever moves forward; this second model visits a set of boundary instants in
\* EVERY order (the complete graph over them), so that the invariants and both directions of
\* MonotoneStep are known to hold of the specification itself on every ordered pair -- a real
\* history in adversarial order that Trace_Calendar rejects is then never an artefact of the spec.
OrdDays == {0, 58, 59, 60, 365, 366, 24855, NDays - 2, NDays - 1}   \* 24855: 2^31 s after the base instant
OrdMs   == {0, 1, 999, 1000, 59999, 60000, 299999, 300000, 3599999, 3600000, 43200000, MsPerDay - 2, MsPerDay - 1}
OrdSet  == {[day |-> d, ms |-> m] : d \in OrdDays, m \in OrdMs}
OrdInit == now \in OrdSet /\ obs = Helpers(now)
OrdNext == \E t \in OrdSet : Observe(t)
OrdSpec == OrdInit /\ [][OrdNext]_vars
\* the answer does not depend on the path that led to the instant
FunctionOfInstant == obs = Helpers(now)
=============================================================================
