SPECIFICATION MCSpec
CONSTANTS Strategy = "rename"
          Granularity = "full"
          Locking = TRUE
          KeepEmpty = TRUE
          StampAt = "stat"
          ObsFanout = "map"
          GoneApply = "atomic"
          EnvWhen = "absent"
          MaxObs = 2
          Deletes = TRUE
          WriteBacks = FALSE
          MaxSec = 0
          MaxMod = 3
INVARIANTS EventuallyVisible VisibleThroughGetters ObserversNotified DefaultsWhenGone NoTornState NoFatal GettersTotal MergeKeepsOthers CommentsAndOrderSurvive WriteReadBack WriteReadBackMem AtomicOnDisk WriteInstalls
PROPERTY NotifyAfterApply
CHECK_DEADLOCK FALSE
