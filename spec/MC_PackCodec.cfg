SPECIFICATION MCSpec
CONSTANTS
  PcodeNs = {0, 99}
  Okinds = {0, 1}
  Onodes = {0, 2}
  BlobIds = {"nil", "one"}
  MaxItems = 2
  Marker = 9
  NoStamp = {}
  Reverse = FALSE
  CellNs = {0, 32767, 32768, 65535, 65541, 1000001}
  CellRead = "unsigned"
  FreshNs = {0, 7}
  KeepFresh = FALSE
INVARIANTS
  SameType
  CarriedRestored
  ExactConsumption
  ReEncodeIdentical
  ZipLaw
  UnpackLaw
  HeaderFormsDisjoint
  RegistryOK
CHECK_DEADLOCK FALSE
