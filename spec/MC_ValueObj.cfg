SPECIFICATION MCSpec
CONSTANTS MaxSteps = 2
INVARIANTS CurIsValue CurRoundTrips WroteCurrent ReadBack ExactConsumption AllConsumed WireOK ReEncodeIdentical TagFirst
CHECK_DEADLOCK FALSE
