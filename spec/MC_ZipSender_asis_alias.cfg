SPECIFICATION MCSpec
CONSTANTS Design = "alias"
          StopPolicy = "drain"
          Creation = "defaults"
          Modes = {"queue"}
          NRec = 3
          Sizes = {1, 6, 20}
          Times = {1, 7}
          MaxBufs = {0, 10}
          MaxWaits = {5}
          ZipMins = {0, 10}
          QCaps = {2}
          Keeps = {TRUE}
          MaxDirect = 0
          Reconfig = 0
          EarlyFlush = FALSE
          WithDefaults = TRUE
          Bad = FALSE
          CtxKinds = {"none"}
          IdleSlack = 0
          MinPeriod = 1
INVARIANTS ExactlyOnceInOrder CountMatches Decodable ZipIff DefaultsInForce HandedOverIsImmutable IdleWaitBounded
PROPERTIES FlushWhenDue
CHECK_DEADLOCK FALSE
