---------------------------- MODULE MC_ReqQueue -----------------------------
(***************************************************************************)
(* Exhaustive exploration of ReqQueue for small programs: NP producers each *)
(* offering NE elements (plain or forced put, any lane of LaneSet), NC       *)
(* consumers each making NOps calls (blocking / no-wait / timed get), one    *)
(* administrator making up to NAdmin calls (Clear, SetCapacity), every       *)
(* initial capacity of CapSet, all interleavings of the critical sections,   *)
(* the clock ticking while a timed get is in progress.  TagSet: the          *)
(* nothing-like values a producer may offer besides an ordinary element      *)
(* (0 = the nil interface value, > 0 other zero values; {} = none).          *)
(***************************************************************************)
EXTENDS ReqQueue

CONSTANTS NP, NE, NC, NOps, NAdmin, CapSet, TSet, LaneSet, MaxClock, GetKinds, TagSet

VARIABLE cnt            \* cnt[p]: calls process p has started

Producer == 1..NP
Consumer == (NP + 1)..(NP + NC)
Admin    == {NP + NC + 1}
MCProc   == 1..(NP + NC + 1)

mcvars == <<vars, cnt>>

CapPairs == IF 2 \in LaneSet THEN CapSet \X CapSet ELSE {<<c, 0>> : c \in CapSet}

MCInit == /\ \E c \in CapPairs : DInit(c)
          /\ PInit
          /\ cnt = [p \in MCProc |-> 0]

Start(p, o) == Invoke(p, o) /\ cnt' = [cnt EXCEPT ![p] = @ + 1]

TimedGetRunning == \E p \in MCProc : pc[p] \in {"gt_try", "gt_sleep"}

\* one named action per call kind and per critical section, so that -coverage
\* reports each of them (an action never taken in ANY configuration is vacuity)
NextElems(p) == {<<p, cnt[p] + 1>>} \cup {<<p, cnt[p] + 1, t>> : t \in TagSet}
CallPut(p)        == cnt[p] < NE /\ \E k \in LaneSet, e \in NextElems(p) : Start(p, OpPut(k, e))
CallPutForce(p)   == cnt[p] < NE /\ \E k \in LaneSet, e \in NextElems(p) : Start(p, OpPutForce(k, e))
CallGet(p)        == cnt[p] < NOps /\ "Get" \in GetKinds /\ Start(p, OpGet)
CallGetNoWait(p)  == cnt[p] < NOps /\ "GetNoWait" \in GetKinds /\ Start(p, OpGetNoWait)
CallGetTimeout(p) == cnt[p] < NOps /\ "GetTimeout" \in GetKinds /\ \E T \in TSet : Start(p, OpGetTimeout(T))
CallClear(p)      == cnt[p] < NAdmin /\ Start(p, OpClear)
CallSetCap(p)     == cnt[p] < NAdmin /\ \E c \in CapPairs : c # cap /\ Start(p, OpSetCap(c))

DoPut(p)        == PutStep(p) /\ UNCHANGED cnt
DoPutForce(p)   == PutForceStep(p) /\ UNCHANGED cnt
DoGet(p)        == GetStep(p) /\ UNCHANGED cnt
DoGetRecheck(p) == GetRecheck(p) /\ UNCHANGED cnt
DoGetNoWait(p)  == GetNoWaitStep(p) /\ UNCHANGED cnt
DoGtTry(p)      == GtTry(p) /\ UNCHANGED cnt
DoGtWake(p)     == GtWake(p) /\ UNCHANGED cnt
DoClear(p)      == ClearStep(p) /\ UNCHANGED cnt
DoSetCap(p)     == SetCapStep(p) /\ UNCHANGED cnt
DoTick          == clock < MaxClock /\ TimedGetRunning /\ Tick /\ UNCHANGED cnt

MCNext ==
  \/ \E p \in Producer : CallPut(p)
  \/ \E p \in Producer : CallPutForce(p)
  \/ \E p \in Consumer : CallGet(p)
  \/ \E p \in Consumer : CallGetNoWait(p)
  \/ \E p \in Consumer : CallGetTimeout(p)
  \/ \E p \in Admin : CallClear(p)
  \/ \E p \in Admin : CallSetCap(p)
  \/ \E p \in MCProc : DoPut(p)
  \/ \E p \in MCProc : DoPutForce(p)
  \/ \E p \in MCProc : DoGet(p)
  \/ \E p \in MCProc : DoGetRecheck(p)
  \/ \E p \in MCProc : DoGetNoWait(p)
  \/ \E p \in MCProc : DoGtTry(p)
  \/ \E p \in MCProc : DoGtWake(p)
  \/ \E p \in MCProc : DoClear(p)
  \/ \E p \in MCProc : DoSetCap(p)
  \/ DoTick

MCSpec == MCInit /\ [][MCNext]_mcvars

\* weak fairness of the woken consumer's re-check only: nothing else is assumed to ever run
MCLiveSpec == MCSpec /\ \A p \in Consumer : WF_mcvars(DoGetRecheck(p))

AllStepProps == [][StepProps]_mcvars

\* NOT a property: refuted by MC_ReqQueue_nilreach.cfg, which shows that the deviation
\* NilSwallowed is really reachable in the model (the nil configurations are not vacuous)
NoSwallowEver == NSwallowed = 0

\* the histories do not influence behaviour: hiding them leaves the reachable
\* process/content states unchanged (used only by the liveness configuration)
NoHistoryView == <<q, cap, clock, pc, op, ret, waiting, cnt>>
=============================================================================
