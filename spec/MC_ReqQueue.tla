---------------------------- MODULE MC_ReqQueue -----------------------------
(***************************************************************************)
(* Exhaustive exploration of ReqQueue for small programs: NP producers each *)
(* offering NE elements (plain or forced put, any lane of LaneSet), NC       *)
(* consumers each making NOps calls (blocking / no-wait / timed get), one    *)
(* administrator making up to NAdmin calls (Clear, SetCapacity), every       *)
(* initial capacity of CapSet, all interleavings of the critical sections,   *)
(* the clock ticking while a timed get is in progress.                       *)
(***************************************************************************)
EXTENDS ReqQueue

CONSTANTS NP, NE, NC, NOps, NAdmin, CapSet, TSet, LaneSet, MaxClock, GetKinds

VARIABLE cnt            \* cnt[p]: calls process p has started

Producer == 1..NP
Consumer == (NP + 1)..(NP + NC)
Admin    == {NP + NC + 1}
MCProc   == 1..(NP + NC + 1)

mcvars == <<vars, cnt>>

CapPairs == IF 2 \in LaneSet THEN CapSet \X CapSet ELSE {<<c, 0>> : c \in CapSet}

ConsumerCalls == (IF "Get" \in GetKinds THEN {OpGet} ELSE {})
                 \cup (IF "GetNoWait" \in GetKinds THEN {OpGetNoWait} ELSE {})
                 \cup (IF "GetTimeout" \in GetKinds THEN {OpGetTimeout(T) : T \in TSet} ELSE {})

MCInit == /\ \E c \in CapPairs : DInit(c)
          /\ PInit
          /\ cnt = [p \in MCProc |-> 0]

Start(p, o) == Invoke(p, o) /\ cnt' = [cnt EXCEPT ![p] = @ + 1]

TimedGetRunning == \E p \in MCProc : pc[p] \in {"gt_try", "gt_sleep"}

MCNext ==
  \/ \E p \in Producer : /\ cnt[p] < NE
                         /\ \E k \in LaneSet : \/ Start(p, OpPut(k, <<p, cnt[p] + 1>>))
                                               \/ Start(p, OpPutForce(k, <<p, cnt[p] + 1>>))
  \/ \E p \in Consumer : cnt[p] < NOps /\ \E o \in ConsumerCalls : Start(p, o)
  \/ \E p \in Admin : /\ cnt[p] < NAdmin
                      /\ \/ Start(p, OpClear)
                         \/ \E c \in CapPairs : c # cap /\ Start(p, OpSetCap(c))
  \/ \E p \in MCProc : Step(p) /\ UNCHANGED cnt
  \/ clock < MaxClock /\ TimedGetRunning /\ Tick /\ UNCHANGED cnt

MCSpec == MCInit /\ [][MCNext]_mcvars

\* weak fairness of the woken consumer's re-check only: nothing else is assumed to ever run
MCLiveSpec == MCSpec /\ \A p \in Consumer : WF_mcvars(GetRecheck(p) /\ UNCHANGED cnt)

AllStepProps == [][StepProps]_mcvars

\* the histories do not influence behaviour: hiding them leaves the reachable
\* process/content states unchanged (used only by the liveness configuration)
NoHistoryView == <<q, cap, clock, pc, op, ret, waiting, cnt>>
=============================================================================
