SPECIFICATION MCSpec
CONSTANTS Design = "copy"
          StopPolicy = "drain"
          Creation = "defaults"
          Modes = {"queue"}
          NRec = 2
          Sizes = {1, 6, 20}
          Times = {1}
          MaxBufs = {0, 10}
          MaxWaits = {5}
          ZipMins = {0, 10}
          QCaps = {1}
          Keeps = {TRUE}
          MaxDirect = 2
          Reconfig = 0
          EarlyFlush = FALSE
          WithDefaults = TRUE
INVARIANTS ExactlyOnceInOrder CountMatches Decodable ZipIff DefaultsInForce HandedOverIsImmutable
PROPERTIES FlushWhenDue
CHECK_DEADLOCK FALSE
