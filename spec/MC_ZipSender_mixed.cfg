SPECIFICATION MCSpec
CONSTANTS Design = "copy"
          StopPolicy = "drain"
          Creation = "defaults"
          Modes = {"queue"}
          NRec = 2
          Sizes = {6, 20}
          Times = {1}
          MaxBufs = {0, 10}
          MaxWaits = {5}
          ZipMins = {0, 10}
          QCaps = {1}
          Keeps = {TRUE}
          MaxDirect = 2
          Reconfig = 0
          EarlyFlush = FALSE
          WithDefaults = TRUE
          Bad = TRUE
          CtxKinds = {"ctx", "both"}
          IdleSlack = 0
          MinPeriod = 1
INVARIANTS ExactlyOnceInOrder CountMatches Decodable ZipIff DefaultsInForce HandedOverIsImmutable IdleWaitBounded
PROPERTIES FlushWhenDue
CHECK_DEADLOCK FALSE
