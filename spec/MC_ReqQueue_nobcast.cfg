SPECIFICATION MCLiveSpec
CONSTANTS Proc <- MCProc
          WakeOnPut = FALSE
          NP = 1
          NE = 1
          NC = 1
          NOps = 1
          NAdmin = 0
          CapSet = {0}
          TSet = {2}
          LaneSet = {1}
          MaxClock = 0
          TagSet = {}
          GetKinds = {"Get"}
PROPERTIES NoLostWakeup
CHECK_DEADLOCK FALSE
