SPECIFICATION MCSpec
CONSTANTS Strategy = "rename"
          Granularity = "full"
          Locking = TRUE
          KeepEmpty = TRUE
          StampAt = "stat"
          MaxSec = 1
          MaxMod = 4
INVARIANTS EventuallyVisible ObserversNotified NoFatal GettersTotal MergeKeepsOthers CommentsAndOrderSurvive WriteReadBack WriteReadBackMem AtomicOnDisk WriteInstalls
PROPERTY NotifyAfterApply
CHECK_DEADLOCK FALSE
