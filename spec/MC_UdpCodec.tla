---------------------------- MODULE MC_UdpCodec -----------------------------
(***************************************************************************)
(* C07 part 1 on the design: for every pack type, every version of the gate *)
(* neighbourhoods and family borders, and four value profiles, the          *)
(* reference writer followed by the reference reader of the same version    *)
(* restores every carried field (capped text up to its cap) and consumes    *)
(* exactly the written bytes.                                               *)
(***************************************************************************)
EXTENDS UdpPack, TLC

CONSTANT Versions, Profiles

MCNotCleared == {}

Text(n, salt) == [i \in 1..n |-> 97 + ((i + salt) % 26)]
MaxI64 == <<127, 255, 255, 255, 255, 255, 255, 255>>
MinI64 == <<128, 0, 0, 0, 0, 0, 0, 0>>
MinI32 == <<255, 255, 255, 255, 128, 0, 0, 0>>
Small(i) == <<0, 0, 0, 0, 0, 0, i \div 256, i % 256>>

\* value of the i-th field of the layout under a profile
Val(prof, type, f, kind, i) ==
  CASE kind \in {"Long", "Dec"} ->
         (CASE prof = 1 -> Zeros(8) [] prof = 2 -> Small(1000 + i * 37)
            [] prof = 3 -> (IF i % 2 = 0 THEN MinI64 ELSE Neg(Small(i + 9))) [] prof = 4 -> MaxI64)
    [] kind = "Int" ->
         (CASE prof = 1 -> Zeros(8) [] prof = 2 -> Small(i + 1)
            [] prof = 3 -> MinI32 [] prof = 4 -> <<0, 0, 0, 0, 127, 255, 255, 255>>)
    [] kind = "Text" ->
         (CASE prof = 1 -> <<>> [] prof = 2 -> Text(1 + (i % 5), i)
            [] prof = 3 -> <<48 + (i % 10)>>
            [] prof = 4 -> LET c == CapOf(Caps(type), f) IN
                           IF c = 0 THEN Text(300, i) ELSE Text(Caps(type)[c][2] + 1 + (i % 3), i))
    [] kind = "Csv" ->
         (CASE prof = 1 -> <<>> [] prof = 2 -> <<Small(1), Small(2), Small(3), Small(4), Small(5)>>
            [] prof = 3 -> <<Neg(Small(1)), Zeros(8), Small(32767), Neg(Small(32768)), Small(7)>>
            [] prof = 4 -> <<Zeros(8), Zeros(8), Zeros(8), Zeros(8), Zeros(8)>>)
    [] kind = "Raw" ->
         (CASE prof = 1 -> <<>> [] prof = 2 -> <<1, 2, 3>> [] prof = 3 -> <<0>> [] prof = 4 -> Text(70, 3))

FieldsFor(type, ver, prof) ==
  LET L == Layout(type, ver)
      idx(f) == CHOOSE i \in DOMAIN L : L[i][1] = f
  IN [f \in CarriedOf(L) |-> Val(prof, type, f, L[idx(f)][2], idx(f))]

MCWrite == /\ wire = None
           /\ \E type \in PackTypes, ver \in Versions, prof \in Profiles :
                LET fs == FieldsFor(type, ver, prof)
                    b == EncUdp(type, ver, fs) IN
                UWrite(type, ver, fs, CarriedOf(Layout(type, ver)), Caps(type), b, Len(b), FALSE)

MCRead == /\ wire # None /\ got = None
          /\ LET d == DecUdp(wire.type, wire.ver, wire.bytes) IN
               /\ d.ok
               /\ URead(d.fields, None, d.next - 1)

MCNext == MCWrite \/ MCRead
MCSpec == Init /\ [][MCNext]_vars

\* the reference reader never fails on what the reference writer produced
ReadsBack == (wire # None /\ got = None) => DecUdp(wire.type, wire.ver, wire.bytes).ok
\* field names of a layout are distinct (a layout is a function of the version)
DistinctFields == wire # None =>
   LET L == Layout(wire.type, wire.ver) IN \A i, j \in DOMAIN L : L[i][1] = L[j][1] => i = j
\* decimal text round trip, including zero-as-empty and both extremes
DecimalLaw == \A v \in {Zeros(8), Small(1), Small(65), Neg(Small(1)), MaxI64, MinI64, MinI32, Small(10), Neg(Small(10))} :
                 /\ ParseDec(DecZE(v)) = v
                 /\ ParseDec(Dec0(v)) = v
                 /\ (v = Zeros(8) <=> DecZE(v) = <<>>)
ASSUME DecimalLaw
=============================================================================
