SPECIFICATION MCSpec
CONSTANTS
  NotCleared <- MCNotCleared
  FailOutcomes = {"leak", "clean"}
  MaxObjs = 3
  MaxSteps = 6
INVARIANTS NoResidue PoolTypeOK
PROPERTIES AcquireClean
CHECK_DEADLOCK FALSE
