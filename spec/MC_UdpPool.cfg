SPECIFICATION MCSpec
CONSTANTS
  NotCleared <- MCNotCleared
  MaxSteps = 6
INVARIANTS NoResidue PoolTypeOK
PROPERTIES AcquireClean
CHECK_DEADLOCK FALSE
