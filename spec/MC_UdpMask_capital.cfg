SPECIFICATION MCSpec
CONSTANTS
  NotCleared <- MCNotCleared
  MaxToks = 1
INVARIANTS CapitalAlsoMasked
CHECK_DEADLOCK FALSE
