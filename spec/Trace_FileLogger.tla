--------------------------- MODULE Trace_FileLogger --------------------------
(***************************************************************************)
(* Trace validation of the real logger/logfile.FileLogger against          *)
(* FileLogger (Design = "repaired": a lost line is never explained).       *)
(*                                                                         *)
(* Events (harness/c17); every name / content / message is a byte tuple:   *)
(*   Reset                       new history: empty home, no logger        *)
(*   Home   out                  files of <home> outside logs/ (must stay) *)
(*   Ext n data | ExtDir n       somebody else creates a file / directory  *)
(*   ExtLink n to file data      ... a symbolic link below logs/; to = the *)
(*                               real place it leads to, as segments from  *)
(*                               <<0>> = <home> (<<>>: nowhere)            *)
(*   Clock  d ms                 the virtual clock is set                  *)
(*   Open   id oname level so cur obs the logger is constructed (so: the   *)
(*                               "also to standard output" option)         *)
(*   Conf   level iv keep rot so ApplyConfig / SetLevel                    *)
(*   Log    kind pid s obs       one logging call, sequential              *)
(*   Log    kind pid s em stamp raw g seq   one call of a concurrent burst *)
(*                               in the order the file itself gives; raw = *)
(*                               the whole entry as found in the file      *)
(*   CycleA obs | del split      first half of a cycle (up to the gate)    *)
(*   Banner line                 one banner line found between burst lines *)
(*   CycleB cur obs              rest of the cycle                         *)
(*   Read   file end len res obs                                           *)
(*   Sync   obs                  observation after a burst                 *)
(*   Switch to                   the following events are logger `to`'s    *)
(*   ExtAppend n data | ExtRemove n | ExtTrunc n k      somebody else      *)
(*                               appends to / removes / cuts short a file  *)
(*   ExtRmLogs | ExtBlock | ExtUnblock   the logs directory is removed (or *)
(*                               moved away) / a regular file is put where *)
(*                               it was / that file is taken away again    *)
(* obs = [files: <<[n, size, add, whole]>>, dirs: <<n>>, out: <<[n, data]>>,*)
(*        links: <<[n, to, file, data]>>, logs: "dir" | "none" | "file"]   *)
(* is the directory listing taken with the standard library after the      *)
(* action: every regular file below logs/ with its size and the bytes      *)
(* added since the previous observation (whole: its complete content).     *)
(***************************************************************************)
EXTENDS FileLogger, TraceLib

VARIABLES l,         \* cursor
          gseq,      \* goroutine |-> sequence number of its last call seen
          outside    \* files of <home> that are not below logs/
tvars == <<vars, l, gseq, outside>>

TraceInit == Init /\ l = 1 /\ gseq = EmptyFn /\ outside = <<>> /\ HwmInit

Step(e) == IsEv(l, e) /\ l' = l + 1

Range(s) == {s[i] : i \in 1..Len(s)}
ObsNames(o) == {x.n : x \in Range(o.files)}
\* the bytes the observation says were added to file n
AddOf(o, n) == LET S == {x \in Range(o.files) : x.n = n} IN
               IF S = {} THEN <<>> ELSE (CHOOSE x \in S : TRUE).add
\* the primed directory is exactly what was observed
ObsOK(o) == /\ ObsNames(o) = DOMAIN files'
            /\ Len(o.files) = Cardinality(ObsNames(o))
            /\ \A x \in Range(o.files) :
                 /\ Len(files'[x.n]) = x.size
                 /\ Len(x.add) <= x.size
                 /\ IF x.whole THEN files'[x.n] = x.add ELSE Low(files'[x.n], Len(x.add)) = x.add
            /\ Range(o.dirs) = dirs'
            /\ {x.n : x \in Range(o.links)} = DOMAIN links'
            /\ Len(o.links) = Cardinality(DOMAIN links')
            /\ \A x \in Range(o.links) : links'[x.n] = [to |-> x.to, file |-> x.file, data |-> x.data]
            /\ o.out = outside
            /\ o.logs = logsSt'

TraceReset == /\ Step("Reset")
              /\ now' = T00 /\ logsSt' = "none" /\ self' = 1 /\ parked' = EmptyFn /\ att' = TRUE
              /\ conf' = Conf0
              /\ files' = EmptyFn /\ dirs' = {} /\ links' = EmptyFn /\ cur' = Closed /\ lastDay' = 0 /\ lastRot' = TRUE
              /\ retainAt' = [d |-> 0, ms |-> 0] /\ recent' = EmptyFn /\ phase' = "new" /\ bleft' = 0
              /\ acc' = 0 /\ wrote' = EmptyFn /\ gone' = {} /\ fresh' = FALSE /\ vanished' = {} /\ faulted' = FALSE /\ supp' = NoSupp
              /\ deleted' = {} /\ rd' = NoRead
              /\ gseq' = EmptyFn /\ outside' = <<>>

TraceHome == /\ Step("Home") /\ outside' = Trace[l].out /\ UNCHANGED <<vars, gseq>>

TraceExt == /\ Step("Ext") /\ ExternalFile(Trace[l].n, Trace[l].data) /\ UNCHANGED <<gseq, outside>>
TraceExtDir == /\ Step("ExtDir") /\ ExternalDir(Trace[l].n) /\ UNCHANGED <<gseq, outside>>
TraceExtLink == /\ Step("ExtLink")
                /\ LET e == Trace[l] IN ExternalLink(e.n, [to |-> e.to, file |-> e.file, data |-> e.data])
                /\ UNCHANGED <<gseq, outside>>

TraceSwitch == /\ Step("Switch") /\ Trace[l].to \in 1..8 /\ Switch(Trace[l].to) /\ UNCHANGED <<gseq, outside>>
TraceExtAppend == /\ Step("ExtAppend") /\ ExternalAppend(Trace[l].n, Trace[l].data) /\ UNCHANGED <<gseq, outside>>
TraceExtRemove == /\ Step("ExtRemove") /\ ExternalRemove(Trace[l].n) /\ UNCHANGED <<gseq, outside>>
TraceExtTrunc == /\ Step("ExtTrunc") /\ ExternalTruncate(Trace[l].n, Trace[l].k) /\ UNCHANGED <<gseq, outside>>
TraceExtRmLogs == /\ Step("ExtRmLogs") /\ ExternalRemoveLogs /\ UNCHANGED <<gseq, outside>>
TraceExtBlock == /\ Step("ExtBlock") /\ ExternalBlock /\ UNCHANGED <<gseq, outside>>
TraceExtUnblock == /\ Step("ExtUnblock") /\ ExternalUnblock /\ UNCHANGED <<gseq, outside>>

TraceClock == /\ Step("Clock")
              /\ Trace[l].ms \in 0..(DayMs - 1)
              /\ Advance([d |-> Trace[l].d, ms |-> Trace[l].ms])
              /\ UNCHANGED <<gseq, outside>>

TraceOpen == /\ Step("Open")
             /\ LET e == Trace[l]
                    n == e.id \o <<DASH>> \o e.oname \o <<DASH>> \o YMD(now.d) \o DotLog
                IN  /\ Open(e.id, e.oname, e.level, e.so, AddOf(e.obs, n))
                    /\ ObsOK(e.obs)
                    /\ e.cur = cur'
             /\ UNCHANGED <<gseq, outside>>

TraceConf == /\ Step("Conf")
             /\ LET e == Trace[l] IN Configure(e.level, e.iv, e.keep, e.rot, e.so)
             /\ UNCHANGED <<gseq, outside>>

TraceLog ==
  /\ Step("Log")
  /\ LET e == Trace[l]
         seqd  == Has(e, "obs")
         delta == IF seqd THEN AddOf(e.obs, cur) ELSE <<>>
         em    == IF seqd THEN delta # <<>> ELSE e.em
         stamp == IF seqd THEN High(delta, Min(20, Len(delta))) ELSE e.stamp
     IN  /\ e.kind \in Kinds
         /\ IF em
            THEN \E k \in 1..2 : /\ LogEmit(e.kind, e.pid, e.s, stamp, k)
                                  /\ (Has(e, "raw") => e.raw = stamp \o Payload(e.kind, e.pid, e.s, k))
            ELSE LogDrop(e.kind) \/ LogSuppress(e.kind, e.pid, e.s) \/ LogVanish(e.kind, e.pid, e.s)
         /\ (seqd => ObsOK(e.obs))
         \* calls of one goroutine appear in program order
         /\ IF Has(e, "g")
            THEN /\ e.seq = (IF e.g \in DOMAIN gseq THEN gseq[e.g] ELSE 0) + 1
                 /\ gseq' = Put(gseq, e.g, e.seq)
            ELSE gseq' = gseq
  /\ UNCHANGED outside

TraceCycleA ==
  /\ Step("CycleA")
  /\ LET e      == Trace[l]
         seqd   == Has(e, "obs")
         n      == NameOf(conf, conf.rot, now.d)
         goneNs == IF seqd THEN DOMAIN files \ ObsNames(e.obs) ELSE Range(e.del)
         extra  == {x \in goneNs : x \in DOMAIN files /\ MayDelete(x)}
         ran    == (RetainDue /\ RetainOn) \/ goneNs # {}
     IN  /\ IF seqd
            THEN /\ \/ CycleA("none", <<>>, extra, ran)
                    \/ CycleA("close", <<>>, extra, ran)
                    \/ CycleA("down", <<>>, extra, ran)
                    \/ CycleA("swap", AddOf(e.obs, n), extra, ran)
                 /\ ObsOK(e.obs)
            ELSE /\ goneNs \subseteq DOMAIN files
                 /\ IF e.split THEN CycleA("swap", <<>>, extra, ran) ELSE CycleA("none", <<>>, extra, ran)
                 /\ DOMAIN files' \cap goneNs \subseteq {n}
  /\ UNCHANGED <<gseq, outside>>

TraceBanner == /\ Step("Banner") /\ BannerLine(Trace[l].line) /\ UNCHANGED <<gseq, outside>>

TraceCycleB ==
  /\ Step("CycleB")
  /\ LET e == Trace[l] IN
       /\ CycleB(IF cur = Closed /\ logsSt # "file" THEN AddOf(e.obs, NameOf(conf, conf.rot, now.d)) ELSE <<>>)
       /\ ObsOK(e.obs)
       /\ e.cur = cur'
  /\ UNCHANGED <<gseq, outside>>

DiagFixed == 20 + Len(RedOn) + Len(TagE) + Len(RedOff) + 1
TraceRead ==
  /\ Step("Read")
  /\ LET e     == Trace[l]
         delta == AddOf(e.obs, cur)
         diag  == IF Len(delta) > DiagFixed
                  THEN SubSeq(delta, 21 + Len(RedOn) + Len(TagE), Len(delta) - Len(RedOff) - 1)
                  ELSE <<>>
         bey   == [n \in {x.n : x \in Range(outside)} |-> (CHOOSE x \in Range(outside) : x.n = n).data]
     IN  /\ Read(e.file, e.end, e.len, e.res, High(delta, Min(20, Len(delta))), diag, bey, e.obs.logs)
         /\ ObsOK(e.obs)
  /\ UNCHANGED <<gseq, outside>>

TraceSync == /\ Step("Sync") /\ UNCHANGED <<vars, gseq, outside>> /\ ObsOK(Trace[l].obs)

TraceNext == (\/ TraceReset \/ TraceHome \/ TraceExt \/ TraceExtDir \/ TraceExtLink \/ TraceClock \/ TraceOpen \/ TraceConf
              \/ TraceSwitch \/ TraceExtAppend \/ TraceExtRemove \/ TraceExtTrunc \/ TraceExtRmLogs \/ TraceExtBlock \/ TraceExtUnblock
              \/ TraceLog \/ TraceCycleA \/ TraceBanner \/ TraceCycleB \/ TraceRead \/ TraceSync) /\ InvAll'

TraceSpec == TraceInit /\ [][TraceNext]_tvars

Hwm == HwmNote(l)
TraceAccepted == Accepted
=============================================================================
