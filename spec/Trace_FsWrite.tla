---------------------------- MODULE Trace_FsWrite ----------------------------
(***************************************************************************)
(* Trace validation of the system calls the real write-back issues         *)
(* (recorded with strace in a child process) against FsWrite.  One history *)
(* per SetValues call:                                                     *)
(*   Reset                                                                 *)
(*   FsBegin old new        content (bytes) before, and after the call     *)
(*                          returned                                       *)
(*   Open name fd creat excl trunc app | Write fd data | Pwrite fd data off*)
(*   | Lseek fd off | Ftruncate fd len | Fsync fd | Close fd               *)
(*   | Rename from to | Unlink name     the calls on the directory of the  *)
(*                          configuration file, in order, successful ones  *)
(*   FsEnd                  the call returned                              *)
(* AtomicOnDisk is evaluated on the state after EVERY call: every system   *)
(* call boundary is an instant at which the process could stop.  A write   *)
(* on the inode the name refers to is additionally judged cut short at     *)
(* three places (WriteTornOK): write(2) is not atomic against a crash.     *)
(***************************************************************************)
EXTENDS FsWrite, TraceLib

VARIABLE l
tvars == <<fsvars, l>>

TraceInit == FsInit(<<>>) /\ l = 1 /\ HwmInit

Step(e) == IsEv(l, e) /\ l' = l + 1

TraceReset == /\ Step("Reset")
              /\ dir' = (Conf :> 1) /\ data' = << <<>> >> /\ mt' = << <<0, 0>> >> /\ fdt' = <<>>
              /\ sec' = 0 /\ modn' = 1 /\ w' = Idle

TraceBegin == /\ Step("FsBegin")
              /\ w.pc = "idle"
              /\ LET e == Trace[l] IN
                   /\ dir' = (Conf :> 1) /\ data' = <<e.old>> /\ mt' = << <<0, 0>> >> /\ fdt' = <<>>
                   /\ w' = [pc |-> "run", old |-> e.old, new |-> e.new, cut |-> 0]
              /\ UNCHANGED <<sec, modn>>

Running == w.pc = "run"

TraceOpen == /\ Step("Open") /\ Running
             /\ LET e == Trace[l] IN SysOpen(e.name, e.fd, e.creat, e.excl, e.trunc, e.app)
TraceWrite == /\ Step("Write") /\ Running
              /\ LET e == Trace[l] IN
                   /\ SysWrite(e.fd, e.data)
                   /\ WriteTornOK(e.fd, IF fdt[e.fd].app THEN Len(data[fdt[e.fd].ino]) ELSE fdt[e.fd].pos, e.data)
TracePwrite == /\ Step("Pwrite") /\ Running
               /\ LET e == Trace[l] IN
                    /\ SysPwrite(e.fd, e.data, e.off)
                    /\ WriteTornOK(e.fd, e.off, e.data)
TraceLseek == /\ Step("Lseek") /\ Running
              /\ LET e == Trace[l] IN SysLseek(e.fd, e.off)
TraceFtruncate == /\ Step("Ftruncate") /\ Running
                  /\ LET e == Trace[l] IN SysFtruncate(e.fd, e.len)
TraceFsync == /\ Step("Fsync") /\ Running
              /\ LET e == Trace[l] IN SysFsync(e.fd)
TraceClose == /\ Step("Close") /\ Running
              /\ LET e == Trace[l] IN SysClose(e.fd)
TraceRename == /\ Step("Rename") /\ Running
               /\ LET e == Trace[l] IN SysRename(e.from, e.to)
TraceUnlink == /\ Step("Unlink") /\ Running
               /\ LET e == Trace[l] IN SysUnlink(e.name)

\* the call returned: the new content is installed and no temporary name is left behind
TraceEnd == /\ Step("FsEnd") /\ Running
            /\ Exists(Conf) /\ Content(Conf) = w.new
            /\ DOMAIN dir = {Conf}
            /\ w' = Idle
            /\ UNCHANGED <<dir, data, mt, fdt, sec, modn>>

InvAll == AtomicOnDisk

TraceNext == (TraceReset \/ TraceBegin \/ TraceOpen \/ TraceWrite \/ TracePwrite \/ TraceLseek \/ TraceFtruncate
              \/ TraceFsync \/ TraceClose \/ TraceRename \/ TraceUnlink \/ TraceEnd) /\ InvAll'

TraceSpec == TraceInit /\ [][TraceNext]_tvars

Hwm == HwmNote(l)
TraceAccepted == Accepted
=============================================================================
