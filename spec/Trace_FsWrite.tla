---------------------------- MODULE Trace_FsWrite ----------------------------
(***************************************************************************)
(* Trace validation of the system calls the real write-back issues         *)
(* (recorded with strace in a child process) against FsWrite.  One history *)
(* per SetValues call:                                                     *)
(*   Reset                                                                 *)
(*   FsBegin old new file links                                            *)
(*                          content (bytes) before, and after the call     *)
(*                          returned; `file` = the directory entry that    *)
(*                          holds the content; `links` = the symbolic      *)
(*                          links of the layout, <<entry, entry it points  *)
(*                          to>> ("conf" is the entry the configuration    *)
(*                          path names: the file itself or a link)         *)
(*   Open name fd creat excl trunc app nofollow | Write fd data            *)
(*   | Pwrite fd data off | Lseek fd off | Ftruncate fd len | Fsync fd     *)
(*   | Close fd | Rename from to | Unlink name | Symlink name to           *)
(*   | Link from to         the calls on the directories of the layout, in *)
(*                          order, successful ones.  Entries are named     *)
(*                          WITHOUT following a symbolic link in the last  *)
(*                          path component (the harness resolves the       *)
(*                          directory part); open follows it here.         *)
(*   FsEnd                  the call returned                              *)
(* A call this module has no action for (Truncate by path, ...) stops the  *)
(* validation: such a call is never part of an atomic replacement.         *)
(* AtomicOnDisk is evaluated -- on the entry the configuration path leads  *)
(* to through the symbolic links as they are at that instant, i.e. on what *)
(* a reader opening the configuration path gets -- on the state after      *)
(* EVERY call: every system call boundary is an instant at which the       *)
(* process could stop.  A write on the inode that entry refers to is       *)
(* additionally judged cut short at three places (WriteTornAt): write(2)   *)
(* is not atomic against a crash.                                          *)
(***************************************************************************)
EXTENDS FsWrite, TraceLib

VARIABLES l,
          lnk,     \* symbolic links: entry -> entry it points to
          names0   \* the entries that existed when the write-back began
tvars == <<fsvars, l, lnk, names0>>

TraceInit == FsInit(<<>>) /\ l = 1 /\ lnk = <<>> /\ names0 = {Conf} /\ HwmInit

Step(e) == IsEv(l, e) /\ l' = l + 1

\* follow symbolic links (at most 8, as many as a layout of the harness can have; a longer
\* chain or a loop resolves to a name that does not exist)
RECURSIVE Follow(_, _, _)
Follow(lk, n, fuel) == IF n \in DOMAIN lk THEN (IF fuel = 0 THEN "(loop)" ELSE Follow(lk, lk[n], fuel - 1)) ELSE n
Res(n) == Follow(lnk, n, 8)
\* what a reader opening the configuration path gets
Target == Res(Conf)
Names == DOMAIN dir \cup DOMAIN lnk

Pairs(q) == [k \in {q[i][1] : i \in 1..Len(q)} |-> (CHOOSE p \in {q[i] : i \in 1..Len(q)} : p[1] = k)[2]]

TraceReset == /\ Step("Reset")
              /\ dir' = (Conf :> 1) /\ data' = << <<>> >> /\ mt' = << <<0, 0>> >> /\ fdt' = <<>>
              /\ sec' = 0 /\ modn' = 1 /\ w' = Idle /\ lnk' = <<>> /\ names0' = {Conf}

TraceBegin == /\ Step("FsBegin")
              /\ w.pc = "idle"
              /\ LET e == Trace[l] IN
                   /\ dir' = (e.file :> 1) /\ data' = <<e.old>> /\ mt' = << <<0, 0>> >> /\ fdt' = <<>>
                   /\ lnk' = Pairs(e.links)
                   /\ names0' = {e.file} \cup DOMAIN Pairs(e.links)
                   /\ Follow(Pairs(e.links), Conf, 8) = e.file       \* (harness obligation: the path leads to the file)
                   /\ w' = [pc |-> "run", old |-> e.old, new |-> e.new, cut |-> 0]
              /\ UNCHANGED <<sec, modn>>

Running == w.pc = "run"
Keep == UNCHANGED <<lnk, names0>>

\* open(2) follows a symbolic link in the last component unless O_NOFOLLOW (then it fails on a
\* link) or O_CREAT|O_EXCL (then it fails on any existing entry)
TraceOpen == /\ Step("Open") /\ Running /\ Keep
             /\ LET e == Trace[l] IN
                  /\ (e.nofollow \/ (e.creat /\ e.excl)) => e.name \notin DOMAIN lnk
                  /\ SysOpen(Res(e.name), e.fd, e.creat, e.excl, e.trunc, e.app)
TraceWrite == /\ Step("Write") /\ Running /\ Keep
              /\ LET e == Trace[l] IN
                   /\ SysWrite(e.fd, e.data)
                   /\ WriteTornAt(Target, e.fd, IF fdt[e.fd].app THEN Len(data[fdt[e.fd].ino]) ELSE fdt[e.fd].pos, e.data)
TracePwrite == /\ Step("Pwrite") /\ Running /\ Keep
               /\ LET e == Trace[l] IN
                    /\ SysPwrite(e.fd, e.data, e.off)
                    /\ WriteTornAt(Target, e.fd, e.off, e.data)
TraceLseek == /\ Step("Lseek") /\ Running /\ Keep
              /\ LET e == Trace[l] IN SysLseek(e.fd, e.off)
TraceFtruncate == /\ Step("Ftruncate") /\ Running /\ Keep
                  /\ LET e == Trace[l] IN SysFtruncate(e.fd, e.len)
TraceFsync == /\ Step("Fsync") /\ Running /\ Keep
              /\ LET e == Trace[l] IN SysFsync(e.fd)
TraceClose == /\ Step("Close") /\ Running /\ Keep
              /\ LET e == Trace[l] IN SysClose(e.fd)

\* rename(2), unlink(2) act on the entry itself, also when it is a symbolic link
TraceRename ==
  /\ Step("Rename") /\ Running /\ names0' = names0
  /\ LET e == Trace[l] IN
       IF e.from \in DOMAIN lnk
         THEN /\ lnk' = [x \in (DOMAIN lnk \ {e.from}) \cup {e.to} |-> IF x = e.to THEN lnk[e.from] ELSE lnk[x]]
              /\ dir' = Restrict(dir, DOMAIN dir \ {e.to})
              /\ UNCHANGED <<data, mt, fdt, sec, modn, w>>
         ELSE /\ SysRename(e.from, e.to)
              /\ lnk' = Restrict(lnk, DOMAIN lnk \ {e.to})
TraceUnlink ==
  /\ Step("Unlink") /\ Running /\ names0' = names0
  /\ LET e == Trace[l] IN
       IF e.name \in DOMAIN lnk
         THEN /\ lnk' = Restrict(lnk, DOMAIN lnk \ {e.name})
              /\ UNCHANGED fsvars
         ELSE /\ SysUnlink(e.name)
              /\ lnk' = lnk
TraceSymlink ==
  /\ Step("Symlink") /\ Running /\ names0' = names0
  /\ LET e == Trace[l] IN
       /\ e.name \notin Names
       /\ lnk' = (e.name :> e.to) @@ lnk
  /\ UNCHANGED fsvars
\* link(2): a second name for the inode
TraceLink ==
  /\ Step("Link") /\ Running /\ Keep
  /\ LET e == Trace[l] IN
       /\ Exists(e.from) /\ e.to \notin Names
       /\ dir' = (e.to :> dir[e.from]) @@ dir
  /\ UNCHANGED <<data, mt, fdt, sec, modn, w>>

\* the call returned: a reader of the configuration path gets the new content and no
\* temporary name is left behind (the entries are those that were there before)
TraceEnd == /\ Step("FsEnd") /\ Running /\ Keep
            /\ Exists(Target) /\ Content(Target) = w.new
            /\ Names = names0
            /\ w' = Idle
            /\ UNCHANGED <<dir, data, mt, fdt, sec, modn>>

InvAll == AtomicAt(Target)

TraceNext == (TraceReset \/ TraceBegin \/ TraceOpen \/ TraceWrite \/ TracePwrite \/ TraceLseek \/ TraceFtruncate
              \/ TraceFsync \/ TraceClose \/ TraceRename \/ TraceUnlink \/ TraceSymlink \/ TraceLink \/ TraceEnd) /\ InvAll'

TraceSpec == TraceInit /\ [][TraceNext]_tvars

Hwm == HwmNote(l)
TraceAccepted == Accepted
=============================================================================
