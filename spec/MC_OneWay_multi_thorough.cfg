SPECIFICATION MCSpec
CONSTANTS Sender = {"s1"}
          MaxFaults = 3
          MaxCfg = 1
          Addr = {"A", "B"}
          Stall = TRUE
          QueueMode = FALSE
          QCap = 2
          MaxConn = 3
          Broken = "none"
          NPacks = 3
CONSTRAINT ConnBound
VIEW MCView
INVARIANTS TypeOK MutualExclusion FramesWhole FreshStart InOrderAtMostOnce HeaderRight ErrMeansNotDelivered NoLossSafe Recovers WriterErrorJustified
CHECK_DEADLOCK FALSE
