SPECIFICATION MCSpec
CONSTANTS MaxLen = 3
          BlobLens = {0, 253, 254, 65535, 65536}
INVARIANTS SizeOK ReadBack ExactConsumption NoStuck Canonical SelfDelimiting Complete
CHECK_DEADLOCK FALSE
