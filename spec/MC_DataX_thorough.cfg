\* (FastAgree is checked by MC_DataX.cfg and MC_DataX_thorough3.cfg; here it would decode every 64 KB payload twice more)
\* thorough (a): every program of two writes, with the real 16-bit / 32-bit length thresholds as payloads (a payload
\* of that size is paired with the other heavy payloads and with the partner kinds of MC_DataX!Partner)
SPECIFICATION MCSpec
CONSTANTS MaxLen = 2
          BlobLens = {0, 1, 253, 254, 255, 256, 65535, 65536}
          KSet = {7, 15, 23, 31, 39, 63}
INVARIANTS SizeOK ReadBack ExactConsumption NoStuck Canonical SelfDelimiting Complete
CHECK_DEADLOCK FALSE
