-------------------------- MODULE Trace_FailClosed --------------------------
(***************************************************************************)
(* Trace validation of golib's real decoders against FailClosed.           *)
(* Events (harness/c04), one history per valid encoding:                   *)
(*   Reset kind sub                                                        *)
(*   Obj via len full consumed okcuts overrun whole                        *)
(*        full decode outcome and bytes consumed; okcuts = EVERY strict    *)
(*        prefix length whose decode returned an object; overrun = max     *)
(*        over those of (bytes the decoder claims consumed - prefix length)*)
(*        via = "buffer", or "conn/<how the peer ends the stream>/<chunk>" *)
(*        when the same reads pull from a connection that delivers the     *)
(*        prefix and then ends (clean close, error, close with last data)  *)
(*        whole = the len bytes are the complete output of the writer that *)
(*        is paired with this decoder, for ONE object of a self-delimiting *)
(*        format (FALSE only where the frame around the object tells the   *)
(*        reader how much to take): then the VALID ENCODING of the property*)
(*        is all len bytes, whatever the decoder chose to read of them     *)
(*   Lazy len n0 n seqs maxalloc at accalloc accat                         *)
(*        second stage.  On every object a decode of this encoding or of a *)
(*        hostile variant returned (n0 objects) every public accessor was  *)
(*        called; for the valid encoding, and for every hostile variant on *)
(*        whose object an accessor failed that does not fail on the valid  *)
(*        one, every accessor A got a fresh object for the call sequence   *)
(*        A, A, Write, decode(written), A (n sequences); seqs = every      *)
(*        distinct <<A, r1, r2, w, r3>> observed with the first input      *)
(*        showing it; maxalloc = largest allocation of one whole sequence, *)
(*        accalloc = largest allocation of a single accessor call          *)
(*   Tag reg pos w nest acc n okcodes                                      *)
(*        a position holding a type tag by construction (the object's own  *)
(*        or a nested object's), overwritten with n codes: okcodes = the   *)
(*        codes for which the decode (and accessor acc, if the tag lies in *)
(*        a lazily decoded blob) returned normally                         *)
(*   Hostile len patch n outcomes maxalloc atpos overrun                   *)
(*        one overwrite pattern tried at n offsets: set of outcomes,       *)
(*        largest allocation of a single decode (exact when above 256 KiB, *)
(*        else the runtime's lagging counter), largest overrun             *)
(*   Died how at   the child decoding this object crashed fatally or hung: *)
(*        there is NO action for it.                                       *)
(* The per-decode judgement AdmissibleRun is monotone in alloc and overrun *)
(* so judging the maximum judges every decode of the group.                *)
(***************************************************************************)
EXTENDS FailClosed, TraceLib

VARIABLE l
tvars == <<vars, l>>

\* formats whose shorter message is a complete older version: none at the outer level
OlderComplete == {}

TraceInit == /\ input = <<>> /\ prog = <<>> /\ cursor = 0 /\ alloc = 0 /\ outcome = "running" /\ got = <<>> /\ tags = <<>>
             /\ l = 1 /\ HwmInit

Step1(e) == IsEv(l, e) /\ l' = l + 1 /\ UNCHANGED vars

TraceReset == Step1("Reset")

\* the registries (codes the factories of the format create a decoder for)
CONSTANTS ValueCodes, StepCodes, PackCodes, ServiceCodes
Registry(reg) == CASE reg = "value" -> ValueCodes [] reg = "step" -> StepCodes
                   [] reg = "pack" -> PackCodes [] reg = "service" -> ServiceCodes [] OTHER -> {}

TraceObj == /\ Step1("Obj")
            /\ LET e == Trace[l] IN
                 /\ e.full \in {"ok", "failed"}
                 \* a decode that returns an object never claims more bytes than it was given
                 /\ e.full = "ok" => e.consumed <= e.len
                 \* PrefixFails, for every truncation point
                 /\ e.full = "ok" =>
                      \A i \in 1..Len(e.okcuts) : PrefixRunOK(e.okcuts[i], e.consumed, OlderComplete, "ok")
                 /\ Len(e.okcuts) > 0 => e.overrun <= 0
                 \* the valid encoding is the writer's whole output: its decoder needs all of it, and EVERY strict
                 \* prefix of it fails (a reader that stops short of what its writer wrote accepts a prefix)
                 /\ (Has(e, "whole") /\ e.whole = TRUE /\ e.full = "ok") =>
                      /\ WholeRunOK(e.len, e.consumed)
                      /\ \A i \in 1..Len(e.okcuts) : PrefixRunOK(e.okcuts[i], e.len, OlderComplete, "ok")

TraceHostile == /\ Step1("Hostile")
                /\ LET e == Trace[l] IN
                     /\ \A i \in 1..Len(e.outcomes) : e.outcomes[i] \in {"ok", "failed"}
                     /\ AdmissibleRun(e.len, "failed", 0, e.maxalloc)
                     /\ e.overrun <= 0

TraceLazy == /\ Step1("Lazy")
             /\ LET e == Trace[l] IN
                  /\ \A i \in 1..Len(e.seqs) :
                        LET r == e.seqs[i].r IN Len(r) = 4 /\ LazySeqOK(r[1], r[2], r[3], r[4])
                  \* one accessor call is a decode of the bytes the object kept: the bound of a decode
                  /\ AdmissibleRun(e.len, "failed", 0, e.accalloc)
                  \* a whole sequence = decode, A, A, write, decode, A
                  /\ AdmissibleSeq(e.len, 6, e.maxalloc)

TraceTag == /\ Step1("Tag")
            /\ LET e == Trace[l] IN
                 /\ e.reg \in {"value", "step", "pack", "service"}
                 /\ \A i \in 1..Len(e.okcodes) : TagRunOK(e.okcodes[i], Registry(e.reg), "ok")

TraceNext == TraceReset \/ TraceObj \/ TraceHostile \/ TraceLazy \/ TraceTag

TraceSpec == TraceInit /\ [][TraceNext]_tvars
Hwm == HwmNote(l)
TraceAccepted == Accepted
=============================================================================
