-------------------------- MODULE Trace_FailClosed --------------------------
(***************************************************************************)
(* Trace validation of golib's real decoders against FailClosed.           *)
(* Events (harness/c04), one history per valid encoding:                   *)
(*   Reset kind sub                                                        *)
(*   Obj len full consumed okcuts overrun                                  *)
(*        full decode outcome and bytes consumed; okcuts = EVERY strict    *)
(*        prefix length whose decode returned an object; overrun = max     *)
(*        over those of (bytes the decoder claims consumed - prefix length)*)
(*   Hostile len patch n outcomes maxalloc atpos overrun                   *)
(*        one overwrite pattern tried at n offsets: set of outcomes,       *)
(*        largest allocation of a single decode, largest overrun           *)
(*   Died how at   the child decoding this object crashed fatally or hung: *)
(*        there is NO action for it.                                       *)
(* The per-decode judgement AdmissibleRun is monotone in alloc and overrun *)
(* so judging the maximum judges every decode of the group.                *)
(***************************************************************************)
EXTENDS FailClosed, TraceLib

VARIABLE l
tvars == <<vars, l>>

\* formats whose shorter message is a complete older version: none at the outer level
OlderComplete == {}

TraceInit == /\ input = <<>> /\ prog = <<>> /\ cursor = 0 /\ alloc = 0 /\ outcome = "running" /\ got = <<>>
             /\ l = 1 /\ HwmInit

Step1(e) == IsEv(l, e) /\ l' = l + 1 /\ UNCHANGED vars

TraceReset == Step1("Reset")

TraceObj == /\ Step1("Obj")
            /\ LET e == Trace[l] IN
                 /\ e.full \in {"ok", "failed"}
                 \* a decode that returns an object never claims more bytes than it was given
                 /\ e.full = "ok" => e.consumed <= e.len
                 \* PrefixFails, for every truncation point
                 /\ e.full = "ok" =>
                      \A i \in 1..Len(e.okcuts) : PrefixRunOK(e.okcuts[i], e.consumed, OlderComplete, "ok")
                 /\ Len(e.okcuts) > 0 => e.overrun <= 0

TraceHostile == /\ Step1("Hostile")
                /\ LET e == Trace[l] IN
                     /\ \A i \in 1..Len(e.outcomes) : e.outcomes[i] \in {"ok", "failed"}
                     /\ AdmissibleRun(e.len, "failed", 0, e.maxalloc)
                     /\ e.overrun <= 0

TraceNext == TraceReset \/ TraceObj \/ TraceHostile

TraceSpec == TraceInit /\ [][TraceNext]_tvars
Hwm == HwmNote(l)
TraceAccepted == Accepted
=============================================================================
