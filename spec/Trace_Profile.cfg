SPECIFICATION TraceSpec
CONSTANTS
  Strict = FALSE
CONSTRAINT Hwm
POSTCONDITION TraceAccepted
CHECK_DEADLOCK FALSE
