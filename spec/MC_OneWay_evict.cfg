SPECIFICATION MCSpec
CONSTANTS Sender = {"s1", "s2"}
          MaxFaults = 2
          MaxCfg = 0
          Addr = {"A"}
          Stall = FALSE
          QueueMode = TRUE
          QCap = 2
          MaxConn = 3
          Broken = "evict"
          NPacks = 3
CONSTRAINT ConnBound
VIEW MCView
INVARIANTS TypeOK NoLossSafe
CHECK_DEADLOCK FALSE
