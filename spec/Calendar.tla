------------------------------ MODULE Calendar ------------------------------
(***************************************************************************)
(* The calendar helpers of util/dateutil (C19) over the century            *)
(* 2000-01-01 .. 2099-12-31 UTC.                                           *)
(*                                                                         *)
(* An instant is [day, ms]: day index counted from 2000-01-01 (= 0) and    *)
(* millisecond of that day, both below 2^31 (TLC integers are 32 bit; the  *)
(* epoch millisecond the Go functions take does not fit).                  *)
(*                                                                         *)
(* The civil date of a day index is derived from the Gregorian leap rule   *)
(* only: year lengths are summed into a table of year starts, month        *)
(* lengths into a table of month starts, and Civil(day) is the unique      *)
(* year / month whose interval holds the index.  MC_Calendar checks this   *)
(* derivation against two other formulations (a day by day successor walk  *)
(* and a closed-form inverse) for all 36 525 days.                         *)
(*                                                                         *)
(* Texts are byte tuples built from digits here (48 + digit), never        *)
(* strings, so that a wrong pad or a swapped field changes a byte the      *)
(* spec pins.  Weekday names are the library's own spelling ("Thr").       *)
(***************************************************************************)
EXTENDS Bytes

Y0       == 2000
NYears   == 100
Years    == Y0 .. (Y0 + NYears - 1)
MsPerDay == 86400000

---------------------------------------------------------------------------
\* the Gregorian rule
IsLeap(y) == (y % 4 = 0 /\ y % 100 # 0) \/ y % 400 = 0
YearLen(y) == IF IsLeap(y) THEN 366 ELSE 365
MonthLenL(leap, m) == CASE m = 2 -> (IF leap THEN 29 ELSE 28)
                        [] m \in {4, 6, 9, 11} -> 30
                        [] OTHER -> 31
MonthLen(y, m) == MonthLenL(IsLeap(y), m)

\* YearStartTab[y] = day index of January 1st of year y: 365 days for every earlier year of the
\* century and one more for every earlier leap year.  (No RECURSIVE here: TLC evaluates a
\* non-recursive constant definition once and keeps the value.)
YearStartTab == [y \in Y0 .. (Y0 + NYears) |->
                   365 * (y - Y0) + Cardinality({z \in Y0 .. (y - 1) : IsLeap(z)})]
YearStart(y) == YearStartTab[y]

NDays == YearStart(Y0 + NYears)          \* 36525
Days  == 0 .. (NDays - 1)

\* MonthStartTab[leap][m] = days of the year before month m (m in 1 .. 13): the number of
\* (month, day of month) pairs of the earlier months
MonthStartTab == [leap \in BOOLEAN |-> [m \in 1..13 |->
                    Cardinality({md \in (1..12) \X (1..31) : md[1] < m /\ md[2] <= MonthLenL(leap, md[1])})]]
MonthStart(y, m) == MonthStartTab[IsLeap(y)][m]

YearOf(day)     == CHOOSE y \in Years : YearStart(y) <= day /\ day < YearStart(y + 1)
MonthOf(y, doy) == CHOOSE m \in 1..12 : MonthStart(y, m) <= doy /\ doy < MonthStart(y, m + 1)

\* weekday index: 0 = Monday .. 6 = Sunday; 2000-01-01 was a Saturday
WeekdayOf(day) == (day + 5) % 7

\* year, month, day of month, weekday of a day index
Civil(day) ==
  Bind(YearOf(day), LAMBDA y :
    Bind(day - YearStart(y), LAMBDA doy :
      Bind(MonthOf(y, doy), LAMBDA m :
        [y |-> y, m |-> m, d |-> doy - MonthStart(y, m) + 1, w |-> WeekdayOf(day)])))

ValidDate(y, m, d) == y \in Years /\ m \in 1..12 /\ d >= 1 /\ d <= MonthLen(y, m)
\* the forward direction, from the same tables
DayIndex(y, m, d) == YearStart(y) + MonthStart(y, m) + d - 1

\* hour, minute, second, millisecond of a millisecond of day
Tod(ms) == [H |-> ms \div 3600000, M |-> (ms \div 60000) % 60, S |-> (ms \div 1000) % 60, s |-> ms % 1000]
MsOf(H, M, S, s) == H * 3600000 + M * 60000 + S * 1000 + s

IsInstant(t) == t.day \in Days /\ t.ms >= 0 /\ t.ms < MsPerDay

---------------------------------------------------------------------------
\* decimal text
Dg(n, w) == [i \in 1..w |-> 48 + ((n \div (10 ^ (w - i))) % 10)]
IsDigits(s) == \A i \in 1..Len(s) : s[i] >= 48 /\ s[i] <= 57
RECURSIVE Num(_)
Num(s) == IF s = <<>> THEN 0 ELSE Num(SubSeq(s, 1, Len(s) - 1)) * 10 + (s[Len(s)] - 48)

SP    == <<32>>
COLON == <<58>>
DOT   == <<46>>

\* the library's weekday names, Monday first: Mon Tue Wed Thr Fri Sat Sun
WeekdayName == << <<77,111,110>>, <<84,117,101>>, <<87,101,100>>, <<84,104,114>>,
                  <<70,114,105>>, <<83,97,116>>, <<83,117,110>> >>

YmdText(c) == Dg(c.y, 4) \o Dg(c.m, 2) \o Dg(c.d, 2)

\* what every helper returns for the instant t
HelpersOf(t, c, h) ==
  [ ymd    |-> YmdText(c),                                                      \* YYYYMMDD
    dt     |-> YmdText(c) \o SP \o Dg(h.H, 2) \o COLON \o Dg(h.M, 2) \o COLON \o Dg(h.S, 2),   \* DateTime
    ts     |-> YmdText(c) \o SP \o Dg(h.H, 2) \o COLON \o Dg(h.M, 2) \o COLON \o Dg(h.S, 2)
                          \o DOT \o Dg(h.s, 3),                                 \* TimeStamp: 3-digit millisecond
    ymdhms |-> YmdText(c) \o Dg(h.H, 2) \o Dg(h.M, 2) \o Dg(h.S, 2),            \* Ymdhms
    hms    |-> Dg(h.H, 2) \o Dg(h.M, 2) \o Dg(h.S, 2),                          \* HHMMSS
    hm     |-> Dg(h.H, 2) \o Dg(h.M, 2),                                        \* HHMM
    wd     |-> WeekdayName[c.w + 1],                                            \* WeekDay
    du     |-> t.day,                                                           \* GetDateUnit
    mu     |-> t.day * 1440 + t.ms \div 60000,                                  \* GetMinUnit
    fu     |-> t.day * 288 + t.ms \div 300000 ]                                 \* GetFiveMinUnit
Helpers(t) == Bind(Civil(t.day), LAMBDA c : Bind(Tod(t.ms), LAMBDA h : HelpersOf(t, c, h)))

\* GetYmdTime: the instant a date text "yyyymmdd" names (start of that day)
YmdOK(text) == /\ Len(text) = 8 /\ IsDigits(text)
               /\ ValidDate(Num(SubSeq(text, 1, 4)), Num(SubSeq(text, 5, 6)), Num(SubSeq(text, 7, 8)))
YmdTime(text) == [day |-> DayIndex(Num(SubSeq(text, 1, 4)), Num(SubSeq(text, 5, 6)), Num(SubSeq(text, 7, 8))),
                  ms  |-> 0]

---------------------------------------------------------------------------
\* the "system": the last instant handed to the helpers and what they returned
VARIABLES now, obs
vars == <<now, obs>>

Origin == [day |-> 0, ms |-> 0]
Init == now = Origin /\ obs = Helpers(Origin)

Observe(t) == /\ IsInstant(t)
              /\ now' = t
              /\ obs' = Helpers(t)

Next == \E d \in Days : \E ms \in 0..(MsPerDay - 1) : Observe([day |-> d, ms |-> ms])

---------------------------------------------------------------------------
\* properties

\* the units are nested step functions of one clock: a day is 1440 minute units, a
\* five-minute unit is five minute units, and every unit is 0 at 2000-01-01 00:00
UnitsNested == /\ obs.du = obs.mu \div 1440
               /\ obs.fu = obs.mu \div 5
               /\ obs.du >= 0

\* the texts name the instant: reading the digits back gives the instant truncated to
\* the precision of the text
TextsNameInstant ==
  /\ YmdOK(obs.ymd) /\ YmdTime(obs.ymd) = [day |-> now.day, ms |-> 0]
  /\ Len(obs.ts) = 21 /\ SubSeq(obs.ts, 1, 17) = obs.dt /\ SubSeq(obs.dt, 1, 8) = obs.ymd
  /\ obs.ts[9] = 32 /\ obs.ts[12] = 58 /\ obs.ts[15] = 58 /\ obs.ts[18] = 46
  /\ MsOf(Num(SubSeq(obs.ts, 10, 11)), Num(SubSeq(obs.ts, 13, 14)), Num(SubSeq(obs.ts, 16, 17)),
          Num(SubSeq(obs.ts, 19, 21))) = now.ms
  /\ obs.ymdhms = obs.ymd \o obs.hms
  /\ obs.hms = SubSeq(obs.ts, 10, 11) \o SubSeq(obs.ts, 13, 14) \o SubSeq(obs.ts, 16, 17)
  /\ obs.hm = SubSeq(obs.hms, 1, 4)
  /\ obs.wd = WeekdayName[((now.day + 5) % 7) + 1]

\* order of instants
Leq(a, b) == a.day < b.day \/ (a.day = b.day /\ a.ms <= b.ms)
\* b is the millisecond after a
IsSucc(a, b) == \/ (a.day = b.day /\ b.ms = a.ms + 1)
                \/ (b.day = a.day + 1 /\ a.ms = MsPerDay - 1 /\ b.ms = 0)

\* action property: the units never decrease with time, and from one millisecond to the next
\* each unit steps by exactly one exactly when the later millisecond is a multiple of its step
MonotoneStep ==
  /\ Leq(now, now') => (obs.du <= obs'.du /\ obs.mu <= obs'.mu /\ obs.fu <= obs'.fu)
  /\ Leq(now', now) => (obs'.du <= obs.du /\ obs'.mu <= obs.mu /\ obs'.fu <= obs.fu)
  /\ IsSucc(now, now') =>
       /\ obs'.du - obs.du = (IF now'.ms = 0 THEN 1 ELSE 0)
       /\ obs'.mu - obs.mu = (IF now'.ms % 60000 = 0 THEN 1 ELSE 0)
       /\ obs'.fu - obs.fu = (IF now'.ms % 300000 = 0 THEN 1 ELSE 0)
Monotone == [][MonotoneStep]_vars
=============================================================================
