------------------------------ MODULE DataXNet ------------------------------
(***************************************************************************)
(* C01 -- the reader over a CONNECTION (NewDataInputNet).  The produced    *)
(* bytes reach the reader through a transport that hands them over in      *)
(* pieces of its own choosing: a Read call of the reader offers a window   *)
(* of `want` bytes and receives any k of them, 1 <= k <= want.  The        *)
(* property ("read back identically and in order ... consuming exactly     *)
(* those bytes") does not mention the transport: how the bytes are cut     *)
(* into pieces must be invisible.  That is stated here as                  *)
(*                                                                         *)
(*  * the reader assembles the bytes of the element being read in a window *)
(*    of exactly the element's length, each piece placed BEHIND what has   *)
(*    been received (Assembled: the window filled so far is the prefix of  *)
(*    the element's bytes);                                                *)
(*  * the window it offers never reaches beyond the element being read     *)
(*    (Recv: want <= need - fill): nothing of a following field is taken   *)
(*    ahead of the read that owns it, and the reader never waits for bytes *)
(*    a peer has no reason to send yet;                                    *)
(*  * when the read returns the transport has handed over exactly the      *)
(*    bytes up to the end of the element (NRNet: taken = rpos' - 1), and   *)
(*    the result is the result of DataX!R -- the same as over a buffer.    *)
(*                                                                         *)
(* How many bytes the element has (need) is the framing of DataX (DecFor   *)
(* over the produced bytes): the cell-by-cell parse of the implementation  *)
(* is abstracted to "one element, need bytes".                             *)
(*                                                                         *)
(* RecvRestart is the REFUTED design (MC_DataXNet_restart.cfg): every Read *)
(* call offers the whole window again from its first byte -- after a short *)
(* piece the next one overwrites it, and bytes of the following elements   *)
(* are swallowed.                                                          *)
(***************************************************************************)
EXTENDS DataXKeep

VARIABLES net,     \* the reader is connection backed
          taken,   \* bytes the transport has handed to the reader so far
          need,    \* length of the element being assembled (0: none in progress)
          fill,    \* bytes of it received so far
          win      \* the window as far as it has been written: in the intended design the first `fill` bytes of the element

nv    == <<net, taken, need, fill, win>>
nvars == <<kvars, nv>>

NInit == KInit /\ net = FALSE /\ taken = 0 /\ need = 0 /\ fill = 0 /\ win = <<>>

NW(op, v)     == KW(op, v) /\ UNCHANGED nv
NWLate(op, v) == WLate(op, v) /\ UNCHANGED nv
NOpenBuf      == KOpen /\ UNCHANGED nv                       \* reader over a byte slice
NOpenNet      == KOpen /\ net' = TRUE /\ UNCHANGED <<taken, need, fill, win>>
NRBuf         == KR /\ ~net /\ UNCHANGED nv

\* number of bytes of the element the next matching read claims (-1: the stream is broken there)
NextNeed == LET d == DecFor(prog[Len(rd) + 1][1], prog[Len(rd) + 1][2], buf, rpos)
            IN IF d.ok THEN d.next - rpos ELSE -1

\* the next k bytes of the stream are placed into the window at offset off (0-based), over what was there
\* (SubSeq and \o only: windows of 2^16 and more bytes are within the stated range)
Place(off, k) ==
  SubSeq(win, 1, off) \o SubSeq(buf, taken + 1, taken + k) \o SubSeq(win, off + k + 1, Len(win))

\* one Read call of the reader answered by the transport: a window of `want` bytes offered, k delivered
Recv(want, k) ==
  /\ net /\ rpos > 0 /\ Len(rd) < Len(prog)
  /\ k >= 1 /\ k <= want
  /\ taken + k <= Len(buf)
  /\ \E nd \in {IF fill = 0 THEN NextNeed ELSE need} :        \* (bound by value)
        /\ want <= nd - fill             \* the window is what the element still lacks: never beyond it
        /\ need' = nd
        /\ win' = Place(fill, k)         \* behind what has been received
  /\ fill' = fill + k
  /\ taken' = taken + k
  /\ UNCHANGED <<kvars, net>>

\* REFUTED design: the whole window is offered again from its first byte
RecvRestart(k) ==
  /\ net /\ rpos > 0 /\ Len(rd) < Len(prog)
  /\ k >= 1
  /\ taken + k <= Len(buf)
  /\ \E nd \in {IF fill = 0 THEN NextNeed ELSE need} :
        /\ fill < nd
        /\ k <= nd
        /\ need' = nd
        /\ win' = Place(0, k)
  /\ fill' = fill + k
  /\ taken' = taken + k
  /\ UNCHANGED <<kvars, net>>

\* the matching read returns: the element is complete, nothing else has been taken
NRNet ==
  /\ net
  /\ KR
  /\ taken = rpos' - 1
  /\ fill = rpos' - rpos
  /\ need' = 0 /\ fill' = 0 /\ win' = <<>>
  /\ UNCHANGED <<net, taken>>

\* ---- properties ---------------------------------------------------------
\* what has been assembled of the element is the prefix of its bytes, whatever the pieces were
Assembled == (net /\ fill > 0) =>
                /\ fill <= need /\ Len(win) = fill
                /\ rpos - 1 + fill <= Len(buf)
                /\ win = SubSeq(buf, rpos, rpos - 1 + fill)   \* (tuple equality: a loop, not a recursion)
\* exactly the bytes of the elements read and of the part of the current one received have left the transport
TakenOK == net => taken = (rpos - 1) + fill
\* a finished connection reader has drained exactly the produced bytes
NetComplete == (net /\ rpos > 0 /\ Len(rd) = Len(prog)) => taken = Len(buf)
=============================================================================
