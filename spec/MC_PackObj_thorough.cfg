SPECIFICATION MCSpec
CONSTANTS MaxSteps = 6
          Focus = "hash"
          Deep = TRUE
INVARIANTS HashOwned Written
CHECK_DEADLOCK FALSE
