SPECIFICATION MCSpec
CONSTANTS MaxSteps = 7
          Focus = "hash"
          Deep = TRUE
INVARIANTS HashOwned Written
CHECK_DEADLOCK FALSE
