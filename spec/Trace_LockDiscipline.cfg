SPECIFICATION TraceSpec
CONSTANTS Threads = {1, 2}
          PairWith = "point"
CONSTRAINT Hwm
POSTCONDITION TraceAccepted
CHECK_DEADLOCK FALSE
