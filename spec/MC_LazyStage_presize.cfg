SPECIFICATION MCSpec
CONSTANTS MaxN = 3
          ByteVals = {0, 1, 2, 255}
          MaxOps = 4
          Slot = 16
          K = 16
          C = 8
          DetachFirst = FALSE
          PreSize = TRUE
INVARIANTS NoFabrication2 StickyFailure BoundedAlloc2
CHECK_DEADLOCK FALSE
