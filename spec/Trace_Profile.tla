--------------------------- MODULE Trace_Profile ----------------------------
(***************************************************************************)
(* Trace validation of the real lang/step, lang/service code (and of the   *)
(* packs that carry a profile) against Profile.                            *)
(* Events (harness/c08), one history = one stream:                         *)
(*  Reset                                                                  *)
(*  W  fam kind tag w carried bytes size                                   *)
(*        the real writer (WriteStep / service.ToBytes / TxRecord.Write;   *)
(*        fam "bare": the body writer alone) appended `bytes` to the       *)
(*        stream for an object of Go type `kind` whose exported fields are *)
(*        the leaves w; tag = the tag the object reports; carried = the    *)
(*        fields the bytes depend on at this point (derived from the real  *)
(*        writer by changing one field at a time); size = Size() after it. *)
(*        The law demands back `carried` AND the fields the reference      *)
(*        format carries at this content (Profile!Demanded): a writer that *)
(*        stops carrying a field in some state is answered by a rejected R *)
(*  Whole via bytes   the same steps through ToBytesStep: the whole stream *)
(*  Carry pack out    the stream after SetProfile / Write / Read of a pack *)
(*  R  kind r cur     the real reader returned an object of Go type `kind` *)
(*        with the leaves r; cur = length - Available() afterwards         *)
(*  End n len         n items were read from a stream of len bytes         *)
(*  Keep h            the output handed back for the stream written so far *)
(*        is put aside (the h-th of the history); a new stream begins      *)
(*  Peek h via bytes  kept output h is taken up again after later calls of *)
(*        the encoder / decoder: `bytes` is what it holds NOW (via = which *)
(*        handed-back thing was looked at: the DataOutputX, the slice      *)
(*        ToBytesStep / TxRecord.ToBytes returned, the pack); R follow     *)
(*  RO kind r         TxRecord.ToObject on the kept slice of the next      *)
(*        record (exactly its own bytes; no cursor to observe)             *)
(*  Again j kind r    the j-th object the reader returned in this history, *)
(*        projected again NOW                                              *)
(*  New j kind w      the caller built the j-th object of the history (its *)
(*        running number among New / R / RO without `into`): Go type and   *)
(*        exported fields                                                  *)
(*  Mut j how fs w    the caller changed object j (how = "assign", a       *)
(*        setter's name, "Put"...) touching the fields fs; w = its content *)
(*        now                                                              *)
(*  W ... o           (optional) the object given to the writer is object  *)
(*        o of the history: w must be its content of this moment           *)
(*  R / RO ... into   (optional) the reader was called ON object `into`    *)
(*        (a receiver that already holds an earlier decode or the caller's *)
(*        own values) instead of a new object                              *)
(*  Another           the stream at hand has been read; a new one begins   *)
(*        (objects and kept outputs stay)                                  *)
(*  Create fam tag kind reports    the factory's answer for a tag          *)
(*  TagOf fam kind tag back        the tag a type reports and what the     *)
(*        factory creates for it                                           *)
(*  End0 n            end of a history without a stream                    *)
(*                                                                         *)
(* Strict = FALSE: the verdict (the law of the property only).             *)
(* Strict = TRUE : additionally the real bytes, carried sets and registry  *)
(*   must equal the TRANSCRIBED reference format of Profile.tla; a         *)
(*   rejection there alone is spec drift (exit 2), not a violation.        *)
(***************************************************************************)
EXTENDS Profile, TraceLib

CONSTANT Strict

VARIABLES l, cnt
tvars == <<vars, l, cnt>>

TraceInit == Init /\ l = 1 /\ cnt = 0 /\ HwmInit

Step(e) == IsEv(l, e) /\ l' = l + 1

TraceReset == /\ Step("Reset")
              /\ stream' = <<>> /\ items' = <<>> /\ cursor' = 0 /\ rd' = <<>> /\ shelf' = <<>> /\ objs' = <<>> /\ cnt' = 0

TraceW ==
  /\ Step("W")
  /\ LET e == Trace[l] IN
       /\ Range(e.carried) \subseteq DOMAIN e.w
       /\ Write(e.fam, e.kind, e.tag, e.w, Demanded(e.kind, e.w, Range(e.carried)), e.bytes)
       /\ Has(e, "o") => ObjIs(e.o, e.kind, e.w)
       /\ e.size = Len(stream')
       /\ Strict => /\ e.kind \in KnownKinds
                    /\ e.tag = TagOfKind(e.fam, e.kind)
                    /\ Range(e.carried) = SpecCarried(e.kind, e.w)
                    /\ e.bytes = EncItemBytes(e.fam, e.kind, e.w)
  /\ cnt' = cnt

TraceWhole == /\ Step("Whole") /\ Whole(Trace[l].bytes) /\ cnt' = cnt
TraceCarry == /\ Step("Carry") /\ Whole(Trace[l].out) /\ cnt' = cnt

TraceR ==
  /\ Step("R")
  /\ LET e == Trace[l] IN IF Has(e, "into") THEN ReadInto(e.into, e.kind, e.r, e.cur) ELSE Read(e.kind, e.r, e.cur)
  /\ cnt' = cnt + 1

\* the objects of the caller
TraceNew == /\ Step("New") /\ LET e == Trace[l] IN New(e.kind, e.w) /\ e.j = Len(objs') /\ cnt' = cnt
TraceMut == /\ Step("Mut") /\ LET e == Trace[l] IN Mut(e.j, Range(e.fs), e.w) /\ cnt' = cnt
TraceAnother == /\ Step("Another") /\ Another /\ cnt' = 0

\* the output handed back for the stream written so far is put aside under handle h (= their running number)
TraceKeep == /\ Step("Keep") /\ Keep /\ Trace[l].h = Len(shelf') /\ cnt' = 0
\* kept output h, as it is NOW (after everything that was encoded and decoded since), is taken up again and read
TracePeek == /\ Step("Peek") /\ Peek(Trace[l].h, Trace[l].bytes) /\ cnt' = 0
\* the j-th object the reader returned in this history, as it is NOW
TraceAgain == /\ Step("Again") /\ LET e == Trace[l] IN Again(e.j, e.kind, e.r) /\ cnt' = cnt

\* TxRecord.ToObject on the kept slice of one record: the reader is given exactly the record's own bytes and shows
\* no cursor
TraceRO ==
  /\ Step("RO")
  /\ Len(rd) < Len(items)
  /\ LET e == Trace[l]
         cur == cursor + items[Len(rd) + 1].len
     IN IF Has(e, "into") THEN ReadInto(e.into, e.kind, e.r, cur) ELSE Read(e.kind, e.r, cur)
  /\ cnt' = cnt + 1

TraceEnd ==
  /\ Step("End")
  /\ LET e == Trace[l] IN
       /\ cnt = e.n /\ Len(rd) = e.n /\ Len(items) = e.n
       /\ e.len = Len(stream)
  /\ UNCHANGED <<vars, cnt>>

TraceCreate ==
  /\ Step("Create")
  /\ LET e == Trace[l] IN
       /\ Created(e.fam, e.tag, e.kind, e.reports)
       /\ Strict => e.kind = CreateOf(e.fam, e.tag)
  /\ cnt' = cnt + 1
  /\ UNCHANGED vars

\* a type that can be written must be the type the factory creates for its tag
TraceTagOf ==
  /\ Step("TagOf")
  /\ LET e == Trace[l] IN
       /\ e.back = e.kind
       /\ Strict => e.tag = TagOfKind(e.fam, e.kind)
  /\ cnt' = cnt + 1
  /\ UNCHANGED vars

TraceEnd0 == /\ Step("End0") /\ cnt = Trace[l].n /\ UNCHANGED <<vars, cnt>>

\* rd only grows: the per-item laws are evaluated for the item read last
InvLast == /\ (rd # <<>> => ReadBackAt(Len(rd)) /\ TxNormalizeAt(Len(rd)))
           /\ CursorExact /\ AllConsumed /\ WireOK /\ KeptWire

TraceNext == (TraceReset \/ TraceW \/ TraceWhole \/ TraceCarry \/ TraceR \/ TraceEnd
              \/ TraceKeep \/ TracePeek \/ TraceAgain \/ TraceRO
              \/ TraceNew \/ TraceMut \/ TraceAnother
              \/ TraceCreate \/ TraceTagOf \/ TraceEnd0) /\ InvLast'

TraceSpec == TraceInit /\ [][TraceNext]_tvars

Hwm == HwmNote(l)
TraceAccepted == Accepted
=============================================================================
