---------------------------- MODULE Trace_DataX -----------------------------
(***************************************************************************)
(* Trace validation of the real DataOutputX/DataInputX against DataX.      *)
(* Events (harness/c01):                                                   *)
(*   Reset                                   new stream                    *)
(*   W  op v [out size]  one write call: value, bytes it appended, Size()  *)
(*                       (histories that do not look at the output between *)
(*                       the writes carry neither: Open then carries all)  *)
(*   Open [bytes size]   reader opened over the bytes produced so far;     *)
(*                       bytes = ToByteArray() as a whole, size = Size()   *)
(*   R  ret avail        matching read: returned value, Available() after  *)
(*   Open net segs       the reader is opened over a CONNECTION carrying   *)
(*                       the produced bytes (segs: how the transport cuts  *)
(*                       them, informative); then                          *)
(*   Recv want got [data]  Read calls of the reader on the connection      *)
(*                       during the next read: window(s) of `want` bytes   *)
(*                       offered, `got` delivered (consecutive calls that  *)
(*                       were satisfied in full are logged as one), and    *)
(*   R  ret taken        the matching read over the connection: returned   *)
(*                       value, bytes the transport has handed over so far *)
(*   Again i kept        the result of the i-th read, kept by the caller,  *)
(*                       looked at again now (after later reads / writes)  *)
(*   WLate op v out size a write call on the output AFTER the reader was   *)
(*                       opened over its bytes: appended bytes, Size()     *)
(*   End [obytes osize]  all elements read; the output as it is now        *)
(*   LE op in ret        little-endian helper applied to the bytes `in`    *)
(*   Static op v out back   static helpers ToBytesX(v) = out, ToX(out) = back *)
(*   SKept op v kept     the slice an earlier ToBytesX(v) returned, now    *)
(*   SetAt op v off before after   SetBytesX(before, off, v) = after       *)
(*   W and LE may carry `ref`: the output of the harness's transliteration *)
(*   of Enc/DecLE used by the pattern sweeps; it must equal the spec's.    *)
(***************************************************************************)
EXTENDS DataXNet, TraceLib

VARIABLE l
tvars == <<nvars, l>>

TraceInit == NInit /\ l = 1 /\ HwmInit

Step(e) == IsEv(l, e) /\ l' = l + 1

TraceReset == Step("Reset") /\ buf' = <<>> /\ written' = 0 /\ prog' = <<>> /\ rpos' = 0 /\ rd' = <<>> /\ late' = <<>>
              /\ net' = FALSE /\ taken' = 0 /\ need' = 0 /\ fill' = 0 /\ win' = <<>>

TraceW == /\ Step("W")
          /\ LET e == Trace[l] IN
               /\ NW(e.op, e.v)
               /\ (Has(e, "out") => e.out = SubSeq(buf', Len(buf) + 1, Len(buf')))
                                                \* byte for byte the reference encoder (buf' = buf \o Enc(op, v))
               /\ (Has(e, "size") => e.size = written')         \* Size() = bytes produced
               /\ (Has(e, "ref") => e.ref = EncFor(e.op, e.v))  \* the sweep's transliteration agrees with the spec

TraceOpen == /\ Step("Open")
             /\ LET e == Trace[l] IN
                  /\ (IF Has(e, "net") THEN NOpenNet ELSE NOpenBuf)
                  /\ (Has(e, "bytes") => e.bytes = buf)
                  /\ (Has(e, "size") => e.size = written)

TraceR == /\ Step("R")
          /\ LET e == Trace[l] IN
               /\ IF Has(e, "taken")
                  THEN NRNet /\ e.taken = taken       \* over a connection: exactly the bytes up to the end of the element
                  ELSE NRBuf /\ e.avail = Len(buf) - (rpos' - 1)
               /\ e.ret = rd'[Len(rd')]

\* Read calls of the reader on the connection: never beyond the element being read; what the transport
\* delivered are the next bytes of the stream (the harness's own connection: a sanity binding)
TraceRecv == /\ Step("Recv")
             /\ LET e == Trace[l] IN
                  /\ Recv(e.want, e.got)
                  /\ (Has(e, "data") => e.data = SubSeq(buf, taken + 1, taken + e.got))

\* a kept result is the value that was read, whatever happened since
TraceAgain == /\ Step("Again")
              /\ LET e == Trace[l] IN
                   /\ e.i \in 1..Len(rd)
                   /\ e.kept = Kept(e.i)
              /\ UNCHANGED nvars

TraceWLate == /\ Step("WLate")
              /\ LET e == Trace[l] IN
                   /\ NWLate(e.op, e.v)
                   /\ e.out = SubSeq(late', Len(late) + 1, Len(late'))
                   /\ e.size = written + Len(late')

TraceEnd == /\ Step("End")
            /\ rpos > 0 /\ Len(rd) = Len(prog)
            /\ LET e == Trace[l] IN
                 /\ (Has(e, "obytes") => e.obytes = OutBytes)
                 /\ (Has(e, "osize") => e.osize = OutSize)
            /\ UNCHANGED nvars

TraceLE == /\ Step("LE")
           /\ LET e == Trace[l] IN
                /\ Len(e.in) = LEWidth[e.op]
                /\ e.ret = DecLE(e.op, e.in)
                /\ (Has(e, "ref") => e.ref = DecLE(e.op, e.in))
           /\ UNCHANGED nvars

\* the static helpers ToBytesX / ToX on one value: same bytes, same value back
TraceStatic == /\ Step("Static")
               /\ LET e == Trace[l] IN
                    /\ InRange(e.op, e.v)
                    /\ e.out = Enc(e.op, e.v)
                    /\ Dec(e.op, e.out, 1).ok
                    /\ e.back = Dec(e.op, e.out, 1).v
                    /\ e.back = Canon(e.op, e.v)
               /\ UNCHANGED nvars

\* the slice a static helper returned earlier is still the encoding of its value
TraceSKept == /\ Step("SKept")
              /\ LET e == Trace[l] IN
                   /\ InRange(e.op, e.v)
                   /\ e.kept = Enc(e.op, e.v)
              /\ UNCHANGED nvars

\* SetBytesX(before, off, v): the encoding at off, every other byte as it was
TraceSetAt == /\ Step("SetAt")
              /\ LET e == Trace[l]
                     w == Len(Enc(e.op, e.v)) IN
                   /\ InRange(e.op, e.v)
                   /\ e.off >= 0 /\ e.off + w <= Len(e.before)
                   /\ e.after = [i \in 1..Len(e.before) |->
                                   IF i > e.off /\ i <= e.off + w THEN Enc(e.op, e.v)[i - e.off] ELSE e.before[i]]
                   /\ (Has(e, "ret") => e.ret = e.after)      \* the slice handed back is the buffer
              /\ UNCHANGED nvars

\* every invariant of DataX is re-evaluated on the state after each event
InvAll == SizeOK /\ ReadBack /\ ExactConsumption /\ NoStuck /\ Assembled /\ TakenOK /\ NetComplete

TraceNext == (TraceReset \/ TraceW \/ TraceOpen \/ TraceR \/ TraceRecv \/ TraceAgain \/ TraceWLate \/ TraceEnd
                \/ TraceLE \/ TraceStatic \/ TraceSKept \/ TraceSetAt) /\ InvAll'

TraceSpec == TraceInit /\ [][TraceNext]_tvars

Hwm == HwmNote(l)
TraceAccepted == Accepted
=============================================================================
