---------------------------- MODULE Trace_DataX -----------------------------
(***************************************************************************)
(* Trace validation of the real DataOutputX/DataInputX against DataX.      *)
(* Events (harness/c01):                                                   *)
(*   Reset                                   new stream                    *)
(*   W  op v [out size]  one write call: value, bytes it appended, Size()  *)
(*                       (histories that do not look at the output between *)
(*                       the writes carry neither: Open then carries all)  *)
(*   Open [bytes size]   reader opened over the bytes produced so far;     *)
(*                       bytes = ToByteArray() as a whole, size = Size()   *)
(*   R  ret avail        matching read: returned value, Available() after  *)
(*   Again i kept        the result of the i-th read, kept by the caller,  *)
(*                       looked at again now (after later reads / writes)  *)
(*   WLate op v out size a write call on the output AFTER the reader was   *)
(*                       opened over its bytes: appended bytes, Size()     *)
(*   End [obytes osize]  all elements read; the output as it is now        *)
(*   LE op in ret        little-endian helper applied to the bytes `in`    *)
(*   Static op v out back   static helpers ToBytesX(v) = out, ToX(out) = back *)
(*   SKept op v kept     the slice an earlier ToBytesX(v) returned, now    *)
(*   SetAt op v off before after   SetBytesX(before, off, v) = after       *)
(*   W and LE may carry `ref`: the output of the harness's transliteration *)
(*   of Enc/DecLE used by the pattern sweeps; it must equal the spec's.    *)
(***************************************************************************)
EXTENDS DataXKeep, TraceLib

VARIABLE l
tvars == <<kvars, l>>

TraceInit == KInit /\ l = 1 /\ HwmInit

Step(e) == IsEv(l, e) /\ l' = l + 1

TraceReset == Step("Reset") /\ buf' = <<>> /\ written' = 0 /\ prog' = <<>> /\ rpos' = 0 /\ rd' = <<>> /\ late' = <<>>

TraceW == /\ Step("W")
          /\ LET e == Trace[l] IN
               /\ KW(e.op, e.v)
               /\ (Has(e, "out") => e.out = SubSeq(buf', Len(buf) + 1, Len(buf')))
                                                \* byte for byte the reference encoder (buf' = buf \o Enc(op, v))
               /\ (Has(e, "size") => e.size = written')         \* Size() = bytes produced
               /\ (Has(e, "ref") => e.ref = EncFor(e.op, e.v))  \* the sweep's transliteration agrees with the spec

TraceOpen == /\ Step("Open") /\ KOpen
             /\ LET e == Trace[l] IN
                  /\ (Has(e, "bytes") => e.bytes = buf)
                  /\ (Has(e, "size") => e.size = written)

TraceR == /\ Step("R")
          /\ KR
          /\ LET e == Trace[l] IN
               /\ e.ret = rd'[Len(rd')]
               /\ e.avail = Len(buf) - (rpos' - 1)

\* a kept result is the value that was read, whatever happened since
TraceAgain == /\ Step("Again")
              /\ LET e == Trace[l] IN
                   /\ e.i \in 1..Len(rd)
                   /\ e.kept = Kept(e.i)
              /\ UNCHANGED kvars

TraceWLate == /\ Step("WLate")
              /\ LET e == Trace[l] IN
                   /\ WLate(e.op, e.v)
                   /\ e.out = SubSeq(late', Len(late) + 1, Len(late'))
                   /\ e.size = written + Len(late')

TraceEnd == /\ Step("End")
            /\ rpos > 0 /\ Len(rd) = Len(prog)
            /\ LET e == Trace[l] IN
                 /\ (Has(e, "obytes") => e.obytes = OutBytes)
                 /\ (Has(e, "osize") => e.osize = OutSize)
            /\ UNCHANGED kvars

TraceLE == /\ Step("LE")
           /\ LET e == Trace[l] IN
                /\ Len(e.in) = LEWidth[e.op]
                /\ e.ret = DecLE(e.op, e.in)
                /\ (Has(e, "ref") => e.ref = DecLE(e.op, e.in))
           /\ UNCHANGED kvars

\* the static helpers ToBytesX / ToX on one value: same bytes, same value back
TraceStatic == /\ Step("Static")
               /\ LET e == Trace[l] IN
                    /\ InRange(e.op, e.v)
                    /\ e.out = Enc(e.op, e.v)
                    /\ Dec(e.op, e.out, 1).ok
                    /\ e.back = Dec(e.op, e.out, 1).v
                    /\ e.back = Canon(e.op, e.v)
               /\ UNCHANGED kvars

\* the slice a static helper returned earlier is still the encoding of its value
TraceSKept == /\ Step("SKept")
              /\ LET e == Trace[l] IN
                   /\ InRange(e.op, e.v)
                   /\ e.kept = Enc(e.op, e.v)
              /\ UNCHANGED kvars

\* SetBytesX(before, off, v): the encoding at off, every other byte as it was
TraceSetAt == /\ Step("SetAt")
              /\ LET e == Trace[l]
                     w == Len(Enc(e.op, e.v)) IN
                   /\ InRange(e.op, e.v)
                   /\ e.off >= 0 /\ e.off + w <= Len(e.before)
                   /\ e.after = [i \in 1..Len(e.before) |->
                                   IF i > e.off /\ i <= e.off + w THEN Enc(e.op, e.v)[i - e.off] ELSE e.before[i]]
                   /\ (Has(e, "ret") => e.ret = e.after)      \* the slice handed back is the buffer
              /\ UNCHANGED kvars

\* every invariant of DataX is re-evaluated on the state after each event
InvAll == SizeOK /\ ReadBack /\ ExactConsumption /\ NoStuck

TraceNext == (TraceReset \/ TraceW \/ TraceOpen \/ TraceR \/ TraceAgain \/ TraceWLate \/ TraceEnd
                \/ TraceLE \/ TraceStatic \/ TraceSKept \/ TraceSetAt) /\ InvAll'

TraceSpec == TraceInit /\ [][TraceNext]_tvars

Hwm == HwmNote(l)
TraceAccepted == Accepted
=============================================================================
