---------------------------- MODULE Trace_DataX -----------------------------
(***************************************************************************)
(* Trace validation of the real DataOutputX/DataInputX against DataX.      *)
(* Events (harness/c01):                                                   *)
(*   Reset                                   new stream                    *)
(*   W  op v out size   one write call: value, bytes it appended, Size()   *)
(*   Open                                    reader opened over the bytes  *)
(*   R  ret avail       matching read: returned value, Available() after   *)
(*   End                all elements read                                  *)
(*   LE op in ret       little-endian helper applied to the bytes `in`     *)
(*   Static op v out back   static helpers ToBytesX(v) = out, ToX(out) = back *)
(*   W and LE may carry `ref`: the output of the harness's transliteration *)
(*   of Enc/DecLE used by the pattern sweeps; it must equal the spec's.    *)
(***************************************************************************)
EXTENDS DataX, TraceLib

VARIABLE l
tvars == <<vars, l>>

TraceInit == Init /\ l = 1 /\ HwmInit

Step(e) == IsEv(l, e) /\ l' = l + 1

TraceReset == Step("Reset") /\ buf' = <<>> /\ written' = 0 /\ prog' = <<>> /\ rpos' = 0 /\ rd' = <<>>

TraceW == /\ Step("W")
          /\ LET e == Trace[l] IN
               /\ W(e.op, e.v)
               /\ e.out = Enc(e.op, e.v)        \* byte for byte the reference encoder
               /\ e.size = written'             \* Size() = bytes produced
               /\ (Has(e, "ref") => e.ref = Enc(e.op, e.v))   \* the sweep's transliteration agrees with the spec

TraceOpen == Step("Open") /\ Open

TraceR == /\ Step("R")
          /\ R
          /\ LET e == Trace[l] IN
               /\ e.ret = rd'[Len(rd')]
               /\ e.avail = Len(buf) - (rpos' - 1)

TraceEnd == /\ Step("End")
            /\ rpos > 0 /\ Len(rd) = Len(prog)
            /\ UNCHANGED vars

TraceLE == /\ Step("LE")
           /\ LET e == Trace[l] IN
                /\ Len(e.in) = LEWidth[e.op]
                /\ e.ret = DecLE(e.op, e.in)
                /\ (Has(e, "ref") => e.ref = DecLE(e.op, e.in))
           /\ UNCHANGED vars

\* the static helpers ToBytesX / ToX on one value: same bytes, same value back
TraceStatic == /\ Step("Static")
               /\ LET e == Trace[l] IN
                    /\ InRange(e.op, e.v)
                    /\ e.out = Enc(e.op, e.v)
                    /\ Dec(e.op, e.out, 1).ok
                    /\ e.back = Dec(e.op, e.out, 1).v
                    /\ e.back = Canon(e.op, e.v)
               /\ UNCHANGED vars

\* every invariant of DataX is re-evaluated on the state after each event
InvAll == SizeOK /\ ReadBack /\ ExactConsumption /\ NoStuck

TraceNext == (TraceReset \/ TraceW \/ TraceOpen \/ TraceR \/ TraceEnd \/ TraceLE \/ TraceStatic) /\ InvAll'

TraceSpec == TraceInit /\ [][TraceNext]_tvars

Hwm == HwmNote(l)
TraceAccepted == Accepted
=============================================================================
