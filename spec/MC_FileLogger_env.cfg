SPECIFICATION MCSpec
CONSTANTS Design = "repaired"
          MaxLogs = 2
          MaxCycles = 2
          MaxAdv = 1
          MaxReads = 0
          MaxExt = 0
          MaxFaults = 2
          MaxLoggers = 1
          MaxSwitch = 0
INVARIANTS LinesWholeInOrder FileNameRight RotatesAfterCycle SuppressedOnlyWithin RetentionExact ReadHonest NoFaultNoLoss SurvivorsSurvive OldRemoved Recovers
CHECK_DEADLOCK FALSE
