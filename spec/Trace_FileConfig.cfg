SPECIFICATION TraceSpec
CONSTANTS Strategy = "rename"
          Granularity = "full"
          Locking = TRUE
          KeepEmpty = TRUE
          StampAt = "stat"
          ObsFanout = "map"
          GoneApply = "atomic"
          EnvWhen = "absent"
CONSTRAINT Hwm
POSTCONDITION TraceAccepted
CHECK_DEADLOCK FALSE
