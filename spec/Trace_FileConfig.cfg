SPECIFICATION TraceSpec
CONSTANTS Strategy = "rename"
          Granularity = "full"
          Locking = TRUE
          KeepEmpty = TRUE
          StampAt = "stat"
CONSTRAINT Hwm
POSTCONDITION TraceAccepted
CHECK_DEADLOCK FALSE
