----------------------------- MODULE MC_UdpPool -----------------------------
(***************************************************************************)
(* C07 part 2 on the design: every acquire / fill / release history of at   *)
(* most MaxSteps steps over two pack types and two fields.  sync.Pool may   *)
(* drop objects, so a fresh object is always a possible answer of Acquire.  *)
(* MC_UdpPool.cfg: Release clears every field -> NoResidue holds.           *)
(* MC_UdpPool_bug.cfg: one field of one type is not cleared (the shape of   *)
(* the UdpRelayPack.Data / UdpConfigPack.MapData defects) -> TLC refutes    *)
(* NoResidue: the invariant has teeth.                                      *)
(* Acquisition also happens inside the reader entry points: ReadOk, and a  *)
(* read that fails half way (FailOutcomes = what it may do with the pack   *)
(* it took).  Design: {"leak", "clean"}.  MC_UdpPool_failbug.cfg: a failed *)
(* read puts the half-filled pack back as it is -> TLC refutes NoResidue.  *)
(***************************************************************************)
EXTENDS UdpPack, TLC

CONSTANT MaxSteps, MaxObjs, FailOutcomes
VARIABLE steps

MCTypes == {"TxSql", "Relay"}
MCFields == {"Dbc", "Data"}
MCNotCleared == {}
MCNotClearedBug == {<<"Relay", "Data">>}

MCInit == Init /\ steps = 0
MCNext == /\ steps < MaxSteps
          /\ steps' = steps + 1
          /\ \/ \E t \in MCTypes : \/ \E o \in bag[t] : PAcquire(t, o, TRUE)
                                   \/ PAcquire(t, Len(obj) + 1, FALSE)
             \/ \E o \in DOMAIN obj : \E fs \in (SUBSET MCFields) \ {{}} : PFill(o, fs)
             \/ \E o \in DOMAIN obj : PRelease(o)
             \* a read writes the fields of the datagram: one choice of fields is enough here,
             \* the subsets are explored by Fill
             \/ \E t \in MCTypes :
                   \/ \E o \in bag[t] : PReadOk(t, o, TRUE, MCFields)
                   \/ PReadOk(t, Len(obj) + 1, FALSE, MCFields)
                   \/ \E how \in FailOutcomes :
                         \/ \E o \in bag[t] : PFailedReadX(t, o, TRUE, MCFields, how)
                         \/ PFailedReadX(t, Len(obj) + 1, FALSE, MCFields, how)
          /\ Len(obj') <= MaxObjs
MCSpec == MCInit /\ [][MCNext]_<<vars, steps>>

\* an object handed out to a caller is clean, or holds exactly what the read that handed it out
\* wrote (never more than this one step's fill): checked on the transition
AcquireClean == [][\A o \in DOMAIN obj' :
                     ((o \notin DOMAIN obj \/ ~obj[o].held) /\ obj'[o].held /\ ~obj'[o].lost)
                        => \/ obj'[o].dirty = {}
                           \/ (o \in DOMAIN obj => obj[o].dirty = {})]_<<vars, steps>>
=============================================================================
