----------------------------- MODULE MC_UdpPool -----------------------------
(***************************************************************************)
(* C07 part 2 on the design: every acquire / fill / release history of at   *)
(* most MaxSteps steps over two pack types and two fields.  sync.Pool may   *)
(* drop objects, so a fresh object is always a possible answer of Acquire.  *)
(* MC_UdpPool.cfg: Release clears every field -> NoResidue holds.           *)
(* MC_UdpPool_bug.cfg: one field of one type is not cleared (the shape of   *)
(* the UdpRelayPack.Data / UdpConfigPack.MapData defects) -> TLC refutes    *)
(* NoResidue: the invariant has teeth.                                      *)
(***************************************************************************)
EXTENDS UdpPack, TLC

CONSTANT MaxSteps
VARIABLE steps

MCTypes == {"TxSql", "Relay"}
MCFields == {"Dbc", "Data"}
MCNotCleared == {}
MCNotClearedBug == {<<"Relay", "Data">>}

MCInit == Init /\ steps = 0
MCNext == /\ steps < MaxSteps
          /\ steps' = steps + 1
          /\ \/ \E t \in MCTypes : \/ \E o \in bag[t] : PAcquire(t, o, TRUE)
                                   \/ PAcquire(t, Len(obj) + 1, FALSE)
             \/ \E o \in DOMAIN obj : \E fs \in (SUBSET MCFields) \ {{}} : PFill(o, fs)
             \/ \E o \in DOMAIN obj : PRelease(o)
MCSpec == MCInit /\ [][MCNext]_<<vars, steps>>

\* an object handed out by Acquire is clean: checked on the transition
AcquireClean == [][\A o \in DOMAIN obj' :
                     ((o \notin DOMAIN obj \/ ~obj[o].held) /\ obj'[o].held) => obj'[o].dirty = {}]_<<vars, steps>>
=============================================================================
