SPECIFICATION MCSpec
CONSTANTS Design = "copy"
          StopPolicy = "drain"
          Creation = "defaults"
          Modes = {"queue"}
          NRec = 2
          Sizes = {1, 6, 20}
          Times = {1, 7}
          MaxBufs = {0, 10}
          MaxWaits = {5}
          ZipMins = {0, 10}
          QCaps = {1}
          Keeps = {TRUE}
          MaxDirect = 0
          Reconfig = 1
          EarlyFlush = TRUE
          WithDefaults = TRUE
          Bad = FALSE
          CtxKinds = {"none"}
          IdleSlack = 1
          MinPeriod = 1
INVARIANTS ExactlyOnceInOrder CountMatches Decodable ZipIff DefaultsInForce HandedOverIsImmutable IdleWaitBounded
PROPERTIES FlushWhenDue
CHECK_DEADLOCK FALSE
