SPECIFICATION MCSpec
CONSTANTS Design = "repaired"
          MaxLogs = 2
          MaxCycles = 2
          MaxAdv = 2
          MaxReads = 1
          MaxExt = 0
          MaxFaults = 3
          MaxLoggers = 1
          MaxSwitch = 0
          Slim = TRUE
INVARIANTS LinesWholeInOrder FileNameRight RotatesAfterCycle SuppressedOnlyWithin RetentionExact ReadHonest NoFaultNoLoss SurvivorsSurvive OldRemoved Recovers
CHECK_DEADLOCK FALSE
