---------------------------- MODULE MC_DataXNet -----------------------------
(***************************************************************************)
(* Exhaustive exploration of DataXNet for small constants: every program   *)
(* of at most MaxLen writes over a reduced boundary set, the reader opened *)
(* over a connection, and every way the transport can cut the bytes into   *)
(* pieces of 1, 2, all-but-one or all of what the element still lacks,     *)
(* against windows that are as long as the piece or as long as the rest.   *)
(* Design "fill" (the intended reader): every piece lands behind the       *)
(* received part, the results and the consumption are those of the reader  *)
(* over a buffer.  Design "restart" (refuted): the window is offered again *)
(* from its first byte after a short piece.                                *)
(***************************************************************************)
EXTENDS MC_DataXKeep, DataXNet

CONSTANT Design

Rest == IF fill = 0 THEN NextNeed ELSE need - fill
Pieces == {k \in {1, 2, Rest - 1, Rest} : k >= 1 /\ k <= Rest}

NNext == \/ \E c \in Choices : Len(prog) < MaxLen /\ Pairable(c) /\ NW(c[1], c[2])
         \/ (Len(prog) > 0 /\ NOpenNet)
         \/ (Design = "fill" /\ net /\ rpos > 0 /\ Len(rd) < Len(prog)
               /\ \E k \in Pieces : \E want \in {k, Rest} : Recv(want, k))
         \/ (Design = "restart" /\ net /\ rpos > 0 /\ Len(rd) < Len(prog)
               /\ \E k \in {1, 2, 3, 8} : RecvRestart(k))
         \/ NRNet

NSpec == NInit /\ [][NNext]_nvars

\* the connection reader can always go on: a piece is deliverable or the element is complete
NetNoStuck == (net /\ rpos > 0 /\ Len(rd) < Len(prog)) => (Rest >= 0 /\ (Rest = 0 => ENABLED NRNet))
=============================================================================
