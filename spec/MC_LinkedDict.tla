---------------------------- MODULE MC_LinkedDict ----------------------------
(***************************************************************************)
(* Exhaustive exploration of the LinkedDict design for small constants:    *)
(* every public operation from every reachable state over Keys x Vals and  *)
(* the bounds Maxes -- set at any time to any of them (below, at or above   *)
(* the current size, 0, negative).  The state space is finite (values are capped by      *)
(* MaxVal: an Add that would exceed it is not taken), so TLC explores ALL  *)
(* operation sequences, not a depth-bounded prefix.                        *)
(*                                                                         *)
(* `act` records the label of the last step so that the clauses of the     *)
(* property statement can be checked as ACTION properties, formulated      *)
(* independently of the operators used to define the actions.              *)
(***************************************************************************)
EXTENDS LinkedDict, Json

CONSTANTS Keys, Vals, Maxes, MaxVal, IsSet, None, Rej, EK,
          Nones   \* arguments of SetNullValue (a set of integers, may be empty)

VARIABLE act
mcvars == <<vars, act>>

Cfg == [set |-> IsSet, none |-> None, none0 |-> None, rej |-> Rej, ek |-> EK]

MCInit == InitWith(Cfg) /\ act = <<"Init", 0, 0>>

Lbl(n, k, v) == act' = <<n, k, v>>

AddFits(k, v) == IF Present(k) THEN val[k] + v <= MaxVal ELSE TRUE

DirSeq == <<"asc", "desc", "par">>
ObsOps == {"GetFirstKey", "GetLastKey", "GetFirstValue", "GetLastValue", "IsEmpty", "IsFull",
           "ToString", "Keys", "KeyArray", "Values", "Entries",
           "ToFormatString", "ValueIterator", "GetKeySet", "ToKeySet", "ToBytes"}

MCNext ==
  \/ \E k \in Keys, v \in Vals :
       \/ Put(k, v) /\ Lbl("Put", k, v)
       \/ PutFirst(k, v) /\ Lbl("PutFirst", k, v)
       \/ PutLast(k, v) /\ Lbl("PutLast", k, v)
       \/ ~IsSet /\ AddFits(k, v) /\ Add(k, v) /\ Lbl("Add", k, v)
       \/ ~IsSet /\ AddFits(k, v) /\ AddFirst(k, v) /\ Lbl("AddFirst", k, v)
       \/ ~IsSet /\ AddFits(k, v) /\ AddLast(k, v) /\ Lbl("AddLast", k, v)
       \/ ~IsSet /\ AddFits(k, v) /\ AddNoOver(k, v) /\ Lbl("AddNoOver", k, v)
       \/ IsSet /\ Put(k, v) /\ Lbl("Unipoint", k, 0)
  \/ \E k \in Keys :
       \/ Get(k) /\ Lbl("Get", k, 0)
       \/ GetLRU(k) /\ Lbl("GetLRU", k, 0)
       \/ Remove(k) /\ Lbl("Remove", k, 0)
  \/ RemoveFirst /\ Lbl("RemoveFirst", 0, 0)
  \/ RemoveLast /\ Lbl("RemoveLast", 0, 0)
  \/ Clear /\ Lbl("Clear", 0, 0)
  \/ \E i \in 1..Len(DirSeq) : Sort(DirSeq[i]) /\ Lbl("Sort", i, 0)
  \/ \E n \in Maxes : SetMax(n) /\ Lbl("SetMax", n, 0)
  \/ \E n \in Nones : SetNone(n) /\ Lbl("SetNullValue", n, 0)
  \* read-only calls: stuttering steps, labelled so that the dumped state graph
  \* (below) makes the replayer issue them from every reachable state
  \/ \E o \in ObsOps : UNCHANGED vars /\ Lbl(o, 0, 0)
  \/ \E k \in Keys : UNCHANGED vars /\ Lbl("ContainsKey", k, 0)
  \/ \E v \in 1..(MaxVal + 1) : ~IsSet /\ UNCHANGED vars /\ Lbl("ContainsValue", 0, v)

MCSpec == MCInit /\ [][MCNext]_mcvars

\* ---- the clauses of the property statement as action properties ----------
A == act'[1]
K == act'[2]
InsertOps  == {"Put", "PutFirst", "PutLast", "Add", "AddFirst", "AddLast", "AddNoOver", "Unipoint"}
FirstOps   == {"PutFirst", "AddFirst"}
LastOps    == {"PutLast", "AddLast"}
PlainOps   == {"Put", "Add", "AddNoOver", "Unipoint"}
WasNew     == K \notin Range(ord)
Ok         == ~(Rej /\ K = EK)
IsPrefix(p, s) == Len(p) <= Len(s) /\ SubSeq(s, 1, Len(p)) = p
IsSuffix(p, s) == Len(p) <= Len(s) /\ SubSeq(s, Len(s) - Len(p) + 1, Len(s)) = p

\* put-first / put-last place OR MOVE the entry at the stated end
FirstAtHeadA == (A \in FirstOps /\ Ok) => ord'[1] = K
FirstAtHead == [][FirstAtHeadA]_mcvars
LastAtTailA == (A \in LastOps /\ Ok) => ord'[Len(ord')] = K
LastAtTail == [][LastAtTailA]_mcvars
\* a plain put of a new key appends; of an existing key leaves the order alone
PlainAppendsA == (A \in PlainOps /\ Ok /\ WasNew /\ ord' # ord) => ord'[Len(ord')] = K
PlainAppends == [][PlainAppendsA]_mcvars
PlainKeepsA == (A \in PlainOps /\ ~WasNew) => ord' = ord
PlainKeeps == [][PlainKeepsA]_mcvars
\* updating an existing key never evicts (and never grows)
UpdateKeepsKeysA == (A \in InsertOps /\ ~WasNew) => Range(ord') = Range(ord)
UpdateKeepsKeys == [][UpdateKeepsKeysA]_mcvars
\* a moved or inserted entry does not disturb the relative order of the others
OthersKeepOrderA == A \in InsertOps \cup {"GetLRU"} =>
                        LET rest == Without(ord', K) IN
                          \/ IsSuffix(rest, Without(ord, K))
                          \/ IsPrefix(rest, Without(ord, K))
OthersKeepOrder == [][OthersKeepOrderA]_mcvars
\* eviction side: inserting at the end drops a prefix, at the front a suffix;
\* and exactly as many entries as needed -- one when the structure was exactly
\* full, the whole excess when the bound had been lowered below the size
EvictOppositeA == (A \in InsertOps /\ A # "AddNoOver" /\ Ok /\ WasNew) =>
        /\ K \in Range(ord')
        /\ IF A \in FirstOps THEN IsPrefix(Tail(ord'), ord)
                             ELSE IsSuffix(SubSeq(ord', 1, Len(ord') - 1), ord)
        /\ Len(ord') = IF max > 0 /\ Len(ord) >= max THEN max ELSE Len(ord) + 1
EvictOpposite == [][EvictOppositeA]_mcvars
\* add-no-over never evicts
NoOverNeverEvictsA == A = "AddNoOver" => Range(ord) \subseteq Range(ord')
NoOverNeverEvicts == [][NoOverNeverEvictsA]_mcvars
\* sort orders the entries by the comparator and changes no value; within the
\* bound it loses nothing; with an excess (bound lowered below the size) it keeps
\* exactly max entries, each of them after every dropped one under the comparator
SortDir == DirSeq[K]
SortPermutesA == A = "Sort" =>
     /\ Range(ord') \subseteq Range(ord) /\ \A k \in Range(ord') : val'[k] = val[k]
     /\ \A i \in 1..(Len(ord') - 1) : Less(SortDir, ord'[i], ord'[i + 1])
     /\ Len(ord') = IF max > 0 /\ Len(ord) > max THEN max ELSE Len(ord)
     /\ \A d \in Range(ord) \ Range(ord'), k \in Range(ord') : Less(SortDir, d, k)
SortPermutes == [][SortPermutesA]_mcvars
\* removal removes exactly the named entry
RemoveExactA == A = "Remove" => (ord' = Without(ord, K) /\ K \notin DOMAIN val')
RemoveExact == [][RemoveExactA]_mcvars
\* a value that was put is what a lookup returns
PutThenGetA == (A \in {"Put", "PutFirst", "PutLast"} /\ Ok /\ ~IsSet) => (K \in DOMAIN val' /\ val'[K] = act'[3])
PutThenGet == [][PutThenGetA]_mcvars
\* get-LRU moves the entry to the end and changes nothing else
LRUMovesA == A = "GetLRU" => (val' = val /\ (~WasNew => ord'[Len(ord')] = K) /\ (WasNew => ord' = ord))
LRUMoves == [][LRUMovesA]_mcvars

\* ---- (B) the complete labelled state graph, one line of output per transition ---
\* Used as ACTION_CONSTRAINT (always TRUE): TLC evaluates it for EVERY successor
\* it generates, also those leading to states already seen.  checks/c09.py turns
\* the lines into harness/c09/graph_*.txt, which the Go driver replays edge by
\* edge on each real type.  Label = <<operation, key | dir index | bound, value>>.
DumpT == PrintT(ToJson(<<"T", ord, ValuesSeq, max, act', ord', ValuesSeq', max'>>))

\* LazyBound (LinkedDict): a step that brings in a new key ends within the bound;
\* an excess over the bound only stems from lowering it and no step adds to it
LazyBoundP == [][LazyBound]_mcvars
\* setting the bound (to anything, at any time) never touches the entries ...
SetMaxInertA == A = "SetMax" => (ord' = ord /\ val' = val /\ max' = K)
SetMaxInert == [][SetMaxInertA]_mcvars
\* ... and nothing but the insertion of a new key, a removal, a clear or a sort
\* of a structure above its bound (sorting re-inserts) ever changes the key set
OnlyNewKeyEvictsA == (A \notin {"Remove", "RemoveFirst", "RemoveLast", "Clear"} /\ ~(A \in InsertOps /\ WasNew)
                         /\ ~(A = "Sort" /\ max > 0 /\ Len(ord) > max))
                        => Range(ord') = Range(ord)
OnlyNewKeyEvicts == [][OnlyNewKeyEvictsA]_mcvars
\* add-no-over of a new key is dropped while size >= max (also above the bound)
NoOverDropsA == (A = "AddNoOver" /\ WasNew /\ max > 0 /\ Len(ord) >= max) => (ord' = ord /\ val' = val)
NoOverDrops == [][NoOverDropsA]_mcvars

\* the "absent" answer never touches the dictionary
NoneIsInertA == A = "SetNullValue" => (ord' = ord /\ val' = val /\ max' = max)
NoneIsInert == [][NoneIsInertA]_mcvars

\* the bounds SetMax is called with (a cfg file cannot write a negative number)
MaxesSmall == -1..3
MaxesWide  == -1..4
NoneNil  == <<>>
NoneZero == <<0>>
View == vars
=============================================================================
