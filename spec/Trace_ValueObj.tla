--------------------------- MODULE Trace_ValueObj ---------------------------
(***************************************************************************)
(* Trace validation of ONE real value object over its life against         *)
(* ValueObj (C02): built, written, changed through the public mutators on  *)
(* itself or on children obtained from it, written again.  The harness     *)
(* (harness/c02/obj.go) reports calls and arguments; the content at every  *)
(* write is the specification's.  Events:                                  *)
(*   Reset                                                                 *)
(*   New  v                        the object as built                     *)
(*   Mut  path o                   mutator o (record: op and its arguments)*)
(*                                 called on the node at path              *)
(*   WO   out see ret avail again  WriteValue(fresh output, the object):   *)
(*                                 the bytes, the object as its getters    *)
(*                                 show it after the write, the value read *)
(*                                 back, Available() after reading, the    *)
(*                                 re-encoding of the value read back      *)
(*   Look path o r                 read-only method o (op, arguments) with *)
(*                                 result r called on the node at path:    *)
(*                                 the result is the content's, the content*)
(*                                 (incl. entry order) stays what it was   *)
(*   Adopt                         go on with the object read back         *)
(*   End                                                                   *)
(* "Panic" (a recovered panic) and "Lost" (a getter returned nil on the    *)
(* way down a path) have no action.                                        *)
(***************************************************************************)
EXTENDS ValueObj, TraceLib

VARIABLE l
tvars == <<ovars, l>>

TraceInit == ObjInit /\ l = 1 /\ HwmInit

Step(e) == IsEv(l, e) /\ l' = l + 1

TraceReset == /\ Step("Reset")
              /\ vals' = <<>> /\ encs' = <<>> /\ wire' = <<>> /\ rpos' = 0 /\ backs' = <<>> /\ again' = <<>>
              /\ cur' = <<>> /\ nw' = 0 /\ fresh' = FALSE

TraceNew == /\ Step("New")
            /\ Has(Trace[l], "v")
            /\ New(Trace[l].v)

TraceMut == /\ Step("Mut")
            /\ LET e == Trace[l] IN
                 /\ Has(e, "path") /\ Has(e, "o")
                 /\ Mut(e.path, e.o)

\* the bytes are the reference encoding of the content of this moment; the getters show that
\* content; it is read back, consumed exactly and re-encoded to the same bytes
TraceWO == /\ Step("WO")
           /\ LET e == Trace[l] IN
                /\ WriteObj
                /\ IF e.out = wire' THEN TRUE
                   ELSE PrintT(<<"line", l, "WO: reference bytes of the current content", wire'>>) /\ FALSE
                /\ SameValue(e.see, cur) = TRUE
                /\ SameValue(e.ret, backs'[1]) = TRUE
                /\ e.avail = Len(wire') - (rpos' - 1)
                /\ e.again = again'[1]

\* a read-only call: what it returned is what the content defines, and the content stays
TraceLook == /\ Step("Look")
             /\ LET e == Trace[l] IN
                  /\ Has(e, "path") /\ Has(e, "o")
                  /\ Look(e.path, IF Has(e, "r") THEN [f \in DOMAIN e.o \cup {"r"} |-> IF f = "r" THEN e.r ELSE e.o[f]] ELSE e.o)

TraceAdopt == Step("Adopt") /\ Adopt

TraceEnd == Step("End") /\ cur # <<>> /\ UNCHANGED ovars

InvAll == ReadBack /\ ExactConsumption /\ AllConsumed /\ WireOK /\ ReEncodeIdentical /\ TagFirst /\ WroteCurrent

TraceNext == (TraceReset \/ TraceNew \/ TraceMut \/ TraceLook \/ TraceWO \/ TraceAdopt \/ TraceEnd) /\ InvAll'

TraceSpec == TraceInit /\ [][TraceNext]_tvars

Hwm == HwmNote(l)
TraceAccepted == Accepted
=============================================================================
