SPECIFICATION MCSpec
CONSTANTS MaxLen = 2
          Cands = "lengths3"
          Reader = "ref"
          MaxKeep = 2
          Encoder = "pooled"
INVARIANTS KeptIntact
CONSTRAINT Bounded
CHECK_DEADLOCK FALSE
