SPECIFICATION MCSpec
CONSTANTS Sender = {"s1", "s2"}
          MaxFaults = 1
          MaxCfg = 0
          Addr = {"A", "B"}
          Stall = FALSE
          QueueMode = FALSE
          QCap = 2
          MaxConn = 3
          Broken = "dialpart"
          NPacks = 3
CONSTRAINT ConnBound
VIEW MCView
INVARIANTS TypeOK Recovers
CHECK_DEADLOCK FALSE
