---------------------------- MODULE Trace_Value -----------------------------
(***************************************************************************)
(* Trace validation of the real value.WriteValue / value.ReadValue against *)
(* ValueCodec (C02, mode A).  Events (harness/c02):                        *)
(*   Reset                        new stream                               *)
(*   W    v out                   WriteValue(out, v): the value as built   *)
(*                                through the public constructors          *)
(*                                (projection of the generator's shape,    *)
(*                                never read back from golib), the bytes   *)
(*                                this call appended                       *)
(*   Open                         reader opened over ToByteArray()         *)
(*   R    ret avail               ReadValue: projection of the returned    *)
(*                                object (exported fields / public getters,*)
(*                                containers in enumeration order),        *)
(*                                Available() after the call               *)
(*   ReEnc out                    WriteValue(fresh output, value just read)*)
(*   End                          everything read back and re-encoded      *)
(*   RT   v out ret avail again   a complete one-value history in one step *)
(*   RTs  sp in out rsp rin avail again   the same for a DEEP value, given  *)
(*                                by its spine (ValueSpine!Spine): sp/in   *)
(*                                the value written, rsp/rin the object    *)
(*                                read back, walked down the same way      *)
(*   RTd  (same fields)           the same, judged level by level (depths  *)
(*                                beyond what RTs can afford)              *)
(* A panic is logged as "Panic", for which there is no action.             *)
(* Values are JSON {"t": code, "v": payload} in the representation of      *)
(* Value.tla (maps: arrays of [key, value] pairs in insertion order).      *)
(***************************************************************************)
EXTENDS ValueCodec, TraceLib

VARIABLE l
tvars == <<vars, l>>

TraceInit == Init /\ l = 1 /\ HwmInit

Step(e) == IsEv(l, e) /\ l' = l + 1

TraceReset == /\ Step("Reset")
              /\ vals' = <<>> /\ encs' = <<>> /\ wire' = <<>> /\ rpos' = 0 /\ backs' = <<>> /\ again' = <<>>

TraceW == /\ Step("W")
          /\ LET e == Trace[l] IN
               /\ Write(e.v)
               /\ e.out = encs'[Len(encs')]         \* byte for byte the reference encoder

TraceOpen == Step("Open") /\ Open

TraceR == /\ Step("R")
          /\ Read
          /\ LET e == Trace[l] IN
               /\ SameValue(e.ret, backs'[Len(backs')]) = TRUE
               /\ e.avail = Len(wire) - (rpos' - 1)

TraceReEnc == /\ Step("ReEnc")
              /\ ReEncode
              /\ Trace[l].out = again'[Len(again')]

TraceEnd == /\ Step("End")
            /\ rpos > 0 /\ Len(backs) = Len(vals) /\ Len(again) = Len(vals)
            /\ UNCHANGED vars

\* what the real code reported for a one-value history must be what RT made of it
RTObserved(e) == /\ e.out = wire'
                 /\ SameValue(e.ret, backs'[1]) = TRUE
                 /\ e.avail = Len(wire') - (rpos' - 1)
                 /\ e.again = again'[1]

TraceRT == /\ Step("RT")
           /\ LET e == Trace[l] IN RT(e.v) /\ RTObserved(e)

\* a deep value: the spine notation is expanded, then it is a value like any other
TraceRTs == /\ Step("RTs")
            /\ LET e == Trace[l] IN
                 /\ SpineOK(e.sp) = TRUE /\ SpineOK(e.rsp) = TRUE
                 /\ \E v \in {Spine(e.sp, e.in)} : \E rv \in {Spine(e.rsp, e.rin)} :
                      /\ RT(v)
                      /\ e.out = wire'
                      /\ SameValue(rv, backs'[1]) = TRUE
                      /\ e.avail = Len(wire') - (rpos' - 1)
                      /\ e.again = again'[1]

\* a deep value judged level by level (ValueSpine!SpineEnc ...: the depth TLC's recursive
\* operators can afford is a few hundred): the bytes are the reference encoding, the object read
\* back is the value written, nothing is left in the input, the re-encoding is the same bytes.
\* The stream variables are left empty: the verdict is in the step.
TraceRTd == /\ Step("RTd")
            /\ LET e == Trace[l] IN
                 \* (X = TRUE: a quantifier over 20000 levels directly in an action is unrolled by
                 \* recursion in TLC; as an operand of = it is evaluated by a loop)
                 /\ SpineIsValue(e.sp, e.in) = TRUE
                 /\ SpineOK(e.rsp) = TRUE
                 /\ e.out = SpineEnc(e.sp, e.in)
                 /\ SameSpine(e.rsp, e.rin, e.sp, e.in) = TRUE
                 /\ e.avail = 0
                 /\ e.again = e.out
            /\ vals' = <<>> /\ encs' = <<>> /\ wire' = <<>> /\ rpos' = 0 /\ backs' = <<>> /\ again' = <<>>

\* every invariant of ValueCodec that is affordable per step is re-evaluated after each event
InvAll == ReadBack /\ ExactConsumption /\ AllConsumed /\ WireOK /\ ReEncodeIdentical /\ TagFirst

TraceNextBase == TraceReset \/ TraceW \/ TraceOpen \/ TraceR \/ TraceReEnc \/ TraceEnd \/ TraceRT \/ TraceRTs \/ TraceRTd
TraceNext == TraceNextBase /\ InvAll'

TraceSpec == TraceInit /\ [][TraceNext]_tvars

Hwm == HwmNote(l)
TraceAccepted == Accepted
=============================================================================
