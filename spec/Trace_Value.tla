---------------------------- MODULE Trace_Value -----------------------------
(***************************************************************************)
(* Trace validation of the real value.WriteValue / value.ReadValue against *)
(* ValueCodec (C02, mode A).  Events (harness/c02):                        *)
(*   Reset                        new stream                               *)
(*   W    v out                   WriteValue(out, v): the value as built   *)
(*                                through the public constructors          *)
(*                                (projection of the generator's shape,    *)
(*                                never read back from golib), the bytes   *)
(*                                this call appended                       *)
(*   Open                         reader opened over ToByteArray()         *)
(*   R    ret avail               ReadValue: projection of the returned    *)
(*                                object (exported fields / public getters,*)
(*                                containers in enumeration order),        *)
(*                                Available() after the call               *)
(*   ReEnc out                    WriteValue(fresh output, value just read)*)
(*   End                          everything read back and re-encoded      *)
(*   RT   v out ret avail again   a complete one-value history in one step *)
(* A panic is logged as "Panic", for which there is no action.             *)
(* Values are JSON {"t": code, "v": payload} in the representation of      *)
(* Value.tla (maps: arrays of [key, value] pairs in insertion order).      *)
(***************************************************************************)
EXTENDS ValueCodec, TraceLib

VARIABLE l
tvars == <<vars, l>>

TraceInit == Init /\ l = 1 /\ HwmInit

Step(e) == IsEv(l, e) /\ l' = l + 1

TraceReset == /\ Step("Reset")
              /\ vals' = <<>> /\ encs' = <<>> /\ wire' = <<>> /\ rpos' = 0 /\ backs' = <<>> /\ again' = <<>>

TraceW == /\ Step("W")
          /\ LET e == Trace[l] IN
               /\ Write(e.v)
               /\ e.out = encs'[Len(encs')]         \* byte for byte the reference encoder

TraceOpen == Step("Open") /\ Open

TraceR == /\ Step("R")
          /\ Read
          /\ LET e == Trace[l] IN
               /\ SameValue(e.ret, backs'[Len(backs')])
               /\ e.avail = Len(wire) - (rpos' - 1)

TraceReEnc == /\ Step("ReEnc")
              /\ ReEncode
              /\ Trace[l].out = again'[Len(again')]

TraceEnd == /\ Step("End")
            /\ rpos > 0 /\ Len(backs) = Len(vals) /\ Len(again) = Len(vals)
            /\ UNCHANGED vars

\* what the real code reported for a one-value history must be what RT made of it
RTObserved(e) == /\ e.out = wire'
                 /\ SameValue(e.ret, backs'[1])
                 /\ e.avail = Len(wire') - (rpos' - 1)
                 /\ e.again = again'[1]

TraceRT == /\ Step("RT")
           /\ LET e == Trace[l] IN RT(e.v) /\ RTObserved(e)

\* every invariant of ValueCodec that is affordable per step is re-evaluated after each event
InvAll == ReadBack /\ ExactConsumption /\ AllConsumed /\ WireOK /\ ReEncodeIdentical /\ TagFirst

TraceNextBase == TraceReset \/ TraceW \/ TraceOpen \/ TraceR \/ TraceReEnc \/ TraceEnd \/ TraceRT
TraceNext == TraceNextBase /\ InvAll'

TraceSpec == TraceInit /\ [][TraceNext]_tvars

Hwm == HwmNote(l)
TraceAccepted == Accepted
=============================================================================
