---------------------------- MODULE Trace_OneWay ----------------------------
(***************************************************************************)
(* Trace validation of the real OneWayTcpClient against OneWay.            *)
(*                                                                         *)
(* One history = one scenario of harness/c06: a fresh client (verif        *)
(* constructor), a scripted loopback collector, sender goroutines.         *)
(* Client events come from the verif hooks at the linearization points     *)
(* (under the send lock / in the single worker) and from the harness at    *)
(* call and return; every event carries t = <<t0, t1>> taken from ONE      *)
(* atomic counter (t0 = t1 for point events) and the file order must be    *)
(* consistent with it (Tick): an event may not have finished before an     *)
(* earlier listed one started.                                             *)
(*                                                                         *)
(*   Reset    mode queue qcap deflic lics srv proph   new history; `srv` = *)
(*            the collectors ("A", "B", ...; each a scripted listener of   *)
(*            its own) the client is configured with; `proph` is what the  *)
(*            collectors recorded per connection the client established,   *)
(*            in the order of the client's successful dials: the           *)
(*            parsed frames (id, net, pcode, lh, plen, dg), the number of  *)
(*            trailing bytes of an incomplete frame (+ its header if       *)
(*            complete), and how the collector ended it (none/closed/reset)*)
(*   Call/Ret        s id ...        harness, around Send                  *)
(*   Locked Built Connect Sent Flushed Close Unlock Deq     hooks          *)
(*            Connect carries the collector that answered (addr); Sent and *)
(*            Flushed carry tmo = the error is an expired write deadline   *)
(*            (the peer stalled: it is alive but did not read) and early = *)
(*            that deadline expired sooner than Timeout after the send     *)
(*            began (no stall explains that: rejected).  Call and Enq carry*)
(*            olics = the license arguments of the per-send options in     *)
(*            their order; lic must be the one they put into effect        *)
(*   Enq             s id ... ok     harness, queue mode (interval)        *)
(*   ListenerDown/ListenerUp  addr   harness: that collector's listener    *)
(*   Config   via lic qreq srv (the collectors now configured)             *)
(*                              ->  obs_lic obs_qcap closed dial           *)
(*            harness, between sends: the configuration was changed by     *)
(*            assignment to the exported fields ("field") or by ApplyConfig*)
(*            ("apply"); what the client did inside ApplyConfig (dropped   *)
(*            the connection?  dialled, with which result?) is collected   *)
(*            from the hooks into this one event (closed, dial: none/ok/   *)
(*            fail)                                                        *)
(*   End                              scenario over: everything the        *)
(*                                    collector saw must be explained      *)
(*                                                                         *)
(* The collector's record is a PROPHECY: kernel timing is unobservable, so *)
(* whether bytes handed to the socket after/while the peer went away were  *)
(* read by the peer is taken from the record (how many units of each       *)
(* socket write arrived), and the specification decides whether that       *)
(* outcome, together with the result the writer reported, is allowed       *)
(* (OneWay!Push).  A unit that arrives must be the next frame of the       *)
(* record with the header and payload identity of its send.                *)
(*                                                                         *)
(* Spec steps without an event are taken silently and deterministically:   *)
(* bufio overflow pushes inside send() (computed from the byte counts,     *)
(* variable todo), the worker finishing a pack, and D1 (no Close after a   *)
(* failed Flush).                                                          *)
(***************************************************************************)
EXTENDS OneWay, TraceLib

VARIABLES l,        \* cursor
          proph,    \* the collector's record of this history
          lics,     \* license name -> 8 hash bytes (expected, computed by the harness with the standard library)
          clock,    \* largest start stamp seen
          nst,      \* frames started (first unit handed to the socket) on the current connection
          wbytes,   \* bytes in the buffered writer
          todo,     \* pending overflow pushes of the send in progress: sequence of unit counts
          todoErr,  \* that send reported an error which one of the pushes must produce
          todoTmo   \* ... and that error is an expired write deadline

tvars == <<vars, l, proph, lics, clock, nst, wbytes, todo, todoErr, todoTmo>>

Range(f) == {f[i] : i \in DOMAIN f}

BufSize == 2097152
HdrLen  == 22

Ev == Trace[l]

Tick == /\ Ev.t[2] >= clock
        /\ clock' = IF Ev.t[1] > clock THEN Ev.t[1] ELSE clock

Step(name) == /\ todo = <<>> /\ IsEv(l, name) /\ l' = l + 1 /\ Tick

TraceInit == /\ InitWith([queue |-> FALSE, qcap |-> 0, deflic |-> NoLic, srv |-> {}, gen |-> 0])
             /\ l = 1 /\ proph = <<>> /\ lics = <<>> /\ clock = 0 /\ nst = 0 /\ wbytes = 0
             /\ todo = <<>> /\ todoErr = FALSE /\ todoTmo = FALSE /\ HwmInit

TraceReset ==
  /\ IsEv(l, "Reset") /\ l' = l + 1
  /\ conf' = [queue |-> Ev.queue, qcap |-> Ev.qcap, deflic |-> Ev.deflic, srv |-> Range(Ev.srv) \cap Addr, gen |-> 0]
  /\ lock' = None
  /\ pc' = [a \in Actor |-> "idle"] /\ cur' = [a \in Actor |-> NoPack] /\ fr' = [a \in Actor |-> <<>>]
  /\ res' = [a \in Actor |-> "-"]
  /\ conn' = 0 /\ nconn' = 0 /\ wbuf' = <<>> /\ werr' = FALSE /\ net' = <<>> /\ wire' = <<>>
  /\ listener' = [ad \in Addr |-> "open"] /\ queue' = <<>>
  /\ reg' = <<>> /\ okset' = {} /\ errset' = {} /\ faults' = 0 /\ streak' = 0
  /\ proph' = Ev.proph /\ lics' = Ev.lics /\ clock' = 0 /\ nst' = 0 /\ wbytes' = 0
  /\ todo' = <<>> /\ todoErr' = FALSE /\ todoTmo' = FALSE

PackOf(e) == [id |-> e.id, pcode |-> e.pcode, lic |-> e.lic,
              body |-> [ptype |-> e.ptype, plen |-> e.plen, dg |-> e.dg],
              big |-> (e.plen + HdrLen > BufSize)]

\* ------------------------------------------------------- the prophecy
NoRec == [frames |-> <<>>, tail |-> 0, cut |-> "none"]
Rec(c) == IF c <= Len(proph) THEN proph[c] ELSE NoRec

\* number of first units among data[1..j]; the writer holds (rest of a split frame)? first rest first rest ...
NA(data, j) == IF data[1].k = 2 THEN j \div 2 ELSE (j + 1) \div 2

Arrives(c, data, j) ==
  LET r == Rec(c)
      fi == nst + NA(data, j) IN
  IF data[j].k = 1 THEN fi <= Len(r.frames) \/ (fi = Len(r.frames) + 1 /\ r.tail > 0)
                   ELSE fi <= Len(r.frames)

\* how many units of this socket write the collector read
Delivered(c, data) == Cardinality({j \in 1..Len(data) : Arrives(c, data, j)})

\* how the peer of a cut socket write went away: an expired write deadline (tmo, from the error the client got) means it
\* stalled; else it is what the collector says it did to the connection
KindOf(c, tmo) == IF tmo THEN "stalled" ELSE IF Rec(c).cut = "none" THEN "closed" ELSE Rec(c).cut
Tmo(e) == Has(e, "tmo") /\ e.tmo
\* `early`: the expired deadline was reported sooner than the client's Timeout after the send in progress began.  The
\* environment's stall ("the peer did not read until the deadline of this write expired") needs the deadline's whole
\* duration to pass: an early expiry is not explained by any peer -- the client ran the write under a deadline that is
\* not the one of this send (left over from an earlier write, or computed from the wrong time).
Early(e) == Has(e, "early") /\ e.early
\* (an error that is only the writer's STICKY error repeated -- a write into a writer that failed before, a flush of
\* the dead writer -- is no new expiry: `early` is judged only where a socket write of this send reports the deadline)
TmoOK(e) == Tmo(e) => e.err
NotEarly(e) == ~(Tmo(e) /\ Early(e))

\* the license argument of a send is the license its per-send options put into effect: the LAST WithLicense of the list
\* (olics = the arguments of the WithLicense options in the order they were passed, "-" = empty), whatever other
\* options stand before, between or after them; none, or an empty one, is no override
SendLic(s) == IF s = <<>> THEN NoLic ELSE s[Len(s)]
LicArgOK(e) == Has(e, "olics") => e.lic = SendLic(e.olics)

\* observed header fields f against the frame header h of the send
HdrOK(f, h) == /\ f.net = <<10, 0>>
               /\ f.pcode = h.pcode
               /\ h.lic \in DOMAIN lics /\ f.lh = lics[h.lic]
               /\ f.plen = h.body.plen

\* the j-th unit of a socket write that arrived is what the collector recorded at that place
UnitOK(c, data, j) ==
  LET r == Rec(c)
      fi == nst + NA(data, j)
      x == data[j] IN
  IF x.k = 2 THEN TRUE
  ELSE IF fi <= Len(r.frames)
       THEN LET f == r.frames[fi] IN
            /\ f.id = x.id /\ HdrOK(f, x.h)
            /\ f.ptype = x.h.body.ptype /\ f.dg = x.h.body.dg     \* decodes to exactly the pack that was sent
       ELSE /\ r.tail < x.h.body.plen + HdrLen                     \* a PROPER prefix
            /\ Has(r, "thdr") => HdrOK(r.thdr, x.h)

\* guard added to every socket write: the outcome is the recorded one, a cut needs a collector that cut (or one that
\* did not read in time: the write deadline expired)
PushAs(c, data, d, tmo) ==
  /\ d = Delivered(c, data)
  /\ \A j \in 1..d : UnitOK(c, data, j)
  /\ (net[c] = "up" /\ d < Len(data)) => (Rec(c).cut # "none" \/ tmo)
  /\ nst' = nst + NA(data, Len(data))

Quiet == UNCHANGED <<proph, lics, nst, wbytes, todo, todoErr, todoTmo>>

\* ------------------------------------------------------------- events
TraceCall == Step("Call") /\ LicArgOK(Ev) /\ Call(Ev.s, PackOf(Ev)) /\ Quiet

TraceLocked == Step("Locked") /\ Ev.s \in Sender /\ cur[Ev.s].id = Ev.id /\ Lock(Ev.s) /\ Quiet

TraceBuilt == /\ Step("Built") /\ Ev.a \in Actor /\ cur[Ev.a].id = Ev.id
              /\ Ev.flen = cur[Ev.a].body.plen + HdrLen
              /\ Build(Ev.a) /\ Quiet

TraceConnect ==
  /\ Step("Connect") /\ Ev.a \in Actor
  /\ IF Ev.ok THEN Has(Ev, "addr") /\ Ev.addr \in Addr /\ ConnectOk(Ev.a, Ev.addr) /\ nst' = 0 /\ wbytes' = 0
              ELSE ConnectFail(Ev.a) /\ UNCHANGED <<nst, wbytes>>
  /\ UNCHANGED <<proph, lics, todo, todoErr, todoTmo>>

\* bufio.Writer.Write of L bytes into a writer holding B bytes in n units: the overflow pushes
Spills(L, B, n) ==
  LET avail == BufSize - B IN
  IF L <= avail THEN <<>>
  ELSE IF B = 0 THEN <<n + 2>>                                     \* written through completely
  ELSE IF avail = 0 THEN (IF L > BufSize THEN <<n, 2>> ELSE <<n>>)
  ELSE IF L - avail > BufSize THEN <<n + 1, 1>> ELSE <<n + 1>>
AfterWrite(L, B) ==
  LET avail == BufSize - B IN
  IF L <= avail THEN B + L
  ELSE IF B = 0 THEN 0
  ELSE IF avail = 0 THEN (IF L > BufSize THEN 0 ELSE L)
  ELSE IF L - avail > BufSize THEN 0 ELSE L - avail

TraceSent ==
  /\ Step("Sent") /\ Ev.a \in Actor /\ TmoOK(Ev)
  /\ LET a == Ev.a
         L == cur[a].body.plen + HdrLen IN
     IF pc[a] = "senderr"
       THEN \* the dial failed: send() returns the error; Close() finds no connection (no event)
            /\ Ev.err /\ conn = 0 /\ CloseOnSendError(a) /\ Quiet
       ELSE /\ pc[a] = "built" /\ BufWrite(a)
            /\ IF werr THEN Ev.err /\ Quiet
               ELSE /\ NotEarly(Ev)
                    /\ todo' = Spills(L, wbytes, Len(wbuf))
                    /\ todoErr' = Ev.err /\ todoTmo' = (Ev.err /\ Tmo(Ev))
                    /\ Ev.err => todo' # <<>>          \* a healthy writer with room cannot fail
                    /\ wbytes' = AfterWrite(L, wbytes)
                    /\ UNCHANGED <<proph, lics, nst>>

\* silent: the next overflow push of the send in progress
TraceSpill ==
  /\ todo # <<>> /\ l' = l /\ UNCHANGED clock
  /\ \E a \in Actor :
       /\ pc[a] = "written"
       /\ LET u == Head(todo)
              data == SubSeq(wbuf, 1, u)
              d == Delivered(conn, data)
              ok == IF ~todoErr THEN TRUE
                    ELSE ~(d < u \/ data[u].k = 1 \/ Len(todo) = 1) IN
          /\ u <= Len(wbuf)
          /\ Spill(a, u, d, ok, IF net[conn] = "up" /\ (d < u \/ ~ok) THEN KindOf(conn, todoTmo /\ ~ok) ELSE "closed")
          /\ PushAs(conn, data, d, todoTmo /\ ~ok)
          /\ IF ok THEN todo' = Tail(todo) /\ UNCHANGED <<todoErr, todoTmo>>
                   ELSE todo' = <<>> /\ todoErr' = FALSE /\ todoTmo' = FALSE
  /\ UNCHANGED <<proph, lics, wbytes>>

TraceClose ==
  /\ Step("Close") /\ Ev.a \in Actor /\ conn # 0 /\ ~todoErr
  /\ (CloseOnSendError(Ev.a) \/ CloseOnFlushError(Ev.a))
  /\ Quiet

TraceFlushed ==
  /\ Step("Flushed") /\ Ev.a \in Actor /\ ~todoErr /\ TmoOK(Ev)
  /\ LET a == Ev.a IN
     IF pc[a] = "written"
       THEN LET d == IF wbuf = <<>> THEN 0 ELSE Delivered(conn, wbuf)
                ok == ~Ev.err
                tmo == Ev.err /\ Tmo(Ev) IN
            /\ NotEarly(Ev)
            /\ Flush(a, d, ok, IF wbuf # <<>> /\ net[conn] = "up" /\ (d < Len(wbuf) \/ ~ok) THEN KindOf(conn, tmo) ELSE "closed")
            /\ IF wbuf = <<>> THEN UNCHANGED nst ELSE PushAs(conn, wbuf, d, tmo)
            /\ wbytes' = 0
            /\ UNCHANGED <<proph, lics, todo, todoErr, todoTmo>>
       ELSE \* process(): after a failed send the worker still calls Flush on the dead writer
            /\ a = Worker /\ Ev.err /\ (werr \/ conn = 0) /\ pc[a] \in {"failed", "idle"}
            /\ UNCHANGED vars /\ Quiet

TraceUnlock == Step("Unlock") /\ Ev.s \in Sender /\ ~todoErr /\ Unlock(Ev.s) /\ Quiet

TraceRet == /\ Step("Ret") /\ Ev.s \in Sender /\ cur[Ev.s].id = Ev.id
            /\ Ev.err = (res[Ev.s] = "err")
            /\ Return(Ev.s) /\ Quiet

TraceEnq == /\ Step("Enq") /\ LicArgOK(Ev)
            /\ IF Ev.ok THEN Enqueue(Ev.s, PackOf(Ev)) ELSE EnqueueFull(Ev.s, PackOf(Ev))
            /\ Quiet

TraceDeq == /\ Step("Deq") /\ queue # <<>> /\ Head(queue).id = Ev.id
            /\ Dequeue /\ Quiet

\* a configuration change between sends.  Afterwards the client has the requested license; an assignment gives the
\* requested capacity (what ApplyConfig makes of its capacity key is taken as observed); whether ApplyConfig dropped
\* the connection and dialled is taken from the event and must be possible (Reconfig).
TraceConfig ==
  /\ Step("Config") /\ ~todoErr
  /\ Ev.obs_lic = Ev.lic
  /\ Ev.via = "field" => Ev.obs_qcap = Ev.qreq
  /\ Reconfig(Ev.via, Ev.lic, Ev.obs_qcap, Range(Ev.srv), Ev.closed, Ev.dial)
  /\ IF Ev.dial = "ok" THEN nst' = 0 /\ wbytes' = 0 ELSE UNCHANGED <<nst, wbytes>>
  /\ UNCHANGED <<proph, lics, todo, todoErr, todoTmo>>

TraceListenerDown == Step("ListenerDown") /\ ListenerDown(Ev.addr) /\ Quiet
TraceListenerUp   == Step("ListenerUp") /\ ListenerUp(Ev.addr) /\ Quiet

\* silent: D1 -- no Close follows the failed Flush
TraceSkipClose ==
  /\ todo = <<>> /\ ~IsEv(l, "Close") /\ l' = l /\ UNCHANGED clock
  /\ \E a \in Actor : SkipCloseOnFlushError(a)
  /\ Quiet

\* silent: the worker is done with a pack / goes for the next one without flushing
TraceWorkerDone ==
  /\ todo = <<>> /\ ~todoErr /\ l' = l /\ UNCHANGED clock
  /\ \/ WorkerDone
     \/ (IsEv(l, "Deq") /\ WorkerSkipFlush)
  /\ Quiet

\* everything the collector recorded on connection c has been explained
Explained(c) ==
  LET r == Rec(c)
      w == wire[c]
      nwhole == Cardinality({i \in 1..Len(w) : w[i].k = 2}) IN
  /\ nwhole = Len(r.frames)
  /\ (r.tail > 0) <=> (Len(w) > 0 /\ w[Len(w)].k = 1)

TraceEnd ==
  /\ Step("End") /\ ~todoErr
  /\ \A a \in Actor : pc[a] = "idle"
  /\ lock = None /\ queue = <<>>
  /\ nconn = Len(proph)
  /\ \A c \in 1..nconn : Explained(c)
  /\ UNCHANGED vars /\ Quiet

InvAll == /\ TypeOK /\ MutualExclusion /\ FramesWhole /\ FreshStart /\ InOrderAtMostOnce /\ HeaderRight
          /\ ErrMeansNotDelivered /\ NoLossSafe /\ Recovers /\ WriterErrorJustified

TraceNext ==
  /\ \/ TraceReset \/ TraceCall \/ TraceLocked \/ TraceBuilt \/ TraceConnect \/ TraceSent \/ TraceSpill
     \/ TraceClose \/ TraceFlushed \/ TraceUnlock \/ TraceRet \/ TraceEnq \/ TraceDeq
     \/ TraceListenerDown \/ TraceListenerUp \/ TraceConfig \/ TraceSkipClose \/ TraceWorkerDone \/ TraceEnd
  /\ InvAll'

TraceSpec == TraceInit /\ [][TraceNext]_tvars

Hwm == HwmNote(l)
TraceAccepted == Accepted
=============================================================================
