--------------------------- MODULE Trace_Calendar ---------------------------
(***************************************************************************)
(* Trace validation of the real util/dateutil helpers against Calendar and *)
(* DateFormat.  Events (harness/c19):                                      *)
(*   Reset                                  new history                    *)
(*   Obs  day ms  ymd dt ts ymdhms hms hm wd du mu fu  [ds ytd ytm] [ref]  *)
(*        one instant (day index from 2000-01-01, millisecond of day) and  *)
(*        what YYYYMMDD, DateTime, TimeStamp, Ymdhms, HHMMSS, HHMM,        *)
(*        WeekDay, GetDateUnit, GetMinUnit, GetFiveMinUnit returned for    *)
(*        it, texts as byte tuples.  ds = the date text of that day as     *)
(*        the Go standard library prints it, (ytd, ytm) = GetYmdTime(ds)   *)
(*        as (day index, ms of day).  ref = the outputs of the harness's   *)
(*        Go transliteration of Helpers used by the minute-boundary sweep: *)
(*        it must equal the spec's, which binds the sweep to the spec.     *)
(*   RT   p day ms text err rday rms text2                                 *)
(*        pattern p (items = UTF-8 bytes of each pattern character),       *)
(*        text = FormatTime(instant), (rday, rms) = Parse(text), err =     *)
(*        Parse returned an error, text2 = FormatTime(Parse(text)).        *)
(*   Fmt  p day ms text                                                    *)
(*        text = FormatTime(instant) alone: histories of gen fmtseq call   *)
(*        one formatter (and a second one of the same pattern, and one of  *)
(*        another pattern) many times in adversarial order; the spec says  *)
(*        the text is a function of (pattern, instant) alone.              *)
(*   Prs  p day ms text err rday rms                                       *)
(*        Parse alone, of a text that an EARLIER FormatTime of the same    *)
(*        pattern returned for the instant (day, ms); the text must be the *)
(*        spec's text of that instant (the input is what it claims to be). *)
(*   Now  day ymd du tsd                                                   *)
(*        the clock-reading variants YmdNow, GetDateUnitNow and the date   *)
(*        part of TimeStampNow while the library's clock (system clock +   *)
(*        SetDelta) stood at noon of day `day`: judged to the day only.    *)
(*        They are called between explicit instants because they share     *)
(*        the helpers (and whatever those remember) with them.             *)
(*   ZRT  p zone xday xms xoff text err rday rms roff text2                *)
(*        the round trip in a process whose local zone is `zone` (child    *)
(*        process started with TZ=zone): x = (xday, xms) the UTC instant,  *)
(*        xoff = the zone's offset there in ms (standard library), text =  *)
(*        FormatTime(x as local time), r = (rday, rms) = Parse(text) as    *)
(*        UTC instant, roff = the zone's offset at r, text2 =              *)
(*        FormatTime(r as local time).  Judged by the zone-free law on the *)
(*        wall-clock readings and, for full patterns, r = x.               *)
(* Every Obs / RT / ZRT / Fmt / Prs / Now event carries n = its position in the history; the trace *)
(* spec counts (variable k), so a lost event is a rejected trace.          *)
(* A panic is logged as event "Panic", for which there is no action.       *)
(***************************************************************************)
EXTENDS DateFormat, TraceLib

VARIABLES l, k
tvars == <<vars, l, k>>

TraceInit == Init /\ l = 1 /\ k = 0 /\ HwmInit

Step(e) == IsEv(l, e) /\ l' = l + 1
\* the event is the next one of its history
Numbered == Has(Trace[l], "n") /\ Trace[l].n = k + 1 /\ k' = k + 1

TraceReset == Step("Reset") /\ now' = Origin /\ obs' = Helpers(Origin) /\ k' = 0

ObsFields == {"day", "ms", "ymd", "dt", "ts", "ymdhms", "hms", "hm", "wd", "du", "mu", "fu"}
Logged(e) == [ymd |-> e.ymd, dt |-> e.dt, ts |-> e.ts, ymdhms |-> e.ymdhms, hms |-> e.hms, hm |-> e.hm,
              wd |-> e.wd, du |-> e.du, mu |-> e.mu, fu |-> e.fu]

TraceObs ==
  /\ Step("Obs") /\ Numbered
  /\ LET e == Trace[l] IN
       /\ \A f \in ObsFields : Has(e, f)
       /\ Observe([day |-> e.day, ms |-> e.ms])
       /\ Logged(e) = obs'                                    \* every helper, byte for byte
       /\ (Has(e, "ref") => e.ref = obs')                     \* the sweep's transliteration agrees with the spec
       /\ (Has(e, "ds") => /\ e.ds = obs'.ymd                 \* the standard library names the day as the spec does
                           /\ YmdOK(e.ds)
                           /\ YmdTime(e.ds) = [day |-> e.ytd, ms |-> e.ytm])
  /\ MonotoneStep                                             \* against the previous instant of the history

RTFields == {"p", "day", "ms", "text", "err", "rday", "rms", "text2"}

TraceRT ==
  /\ Step("RT") /\ Numbered
  /\ LET e == Trace[l] IN
       /\ \A f \in RTFields : Has(e, f)
       /\ LET t == [day |-> e.day, ms |-> e.ms]
              r == [day |-> e.rday, ms |-> e.rms]
          IN /\ IsInstant(t) /\ IsPattern(e.p)
             /\ e.text = Format(e.p, t)
             /\ e.err = FALSE
             /\ RoundTripOK(e.p, t, r)
             /\ (IsInstant(r) => e.text2 = Format(e.p, r))
             /\ (AllRequired(e.p, t) => e.text2 = e.text)     \* Format(p, Parse(p, Format(p, t))) = Format(p, t)
  /\ UNCHANGED vars

\* the round trip under a local zone with offset xoff at x and roff at r (gen zone)
ZRTFields == {"p", "xday", "xms", "xoff", "text", "err", "rday", "rms", "roff", "text2"}
OffOK(o) == o > -MsPerDay /\ o < MsPerDay
TraceZRT ==
  /\ Step("ZRT") /\ Numbered
  /\ LET e == Trace[l] IN
       /\ \A f \in ZRTFields : Has(e, f)
       /\ LET x == [day |-> e.xday, ms |-> e.xms]
              r == [day |-> e.rday, ms |-> e.rms]
          IN /\ IsInstant(x) /\ IsPattern(e.p) /\ OffOK(e.xoff) /\ OffOK(e.roff)
             /\ IsInstant(Shift(x, e.xoff))
             /\ e.text = Format(e.p, Shift(x, e.xoff))
             /\ e.err = FALSE
             /\ r.ms >= 0 /\ r.ms < MsPerDay
             /\ ZoneRoundTripOK(e.p, x, e.xoff, r, e.roff)
             /\ (IsInstant(Shift(r, e.roff)) => e.text2 = Format(e.p, Shift(r, e.roff)))
             /\ (AllRequired(e.p, Shift(x, e.xoff)) => e.text2 = e.text)
  /\ UNCHANGED vars

\* one formatting call: the text is a function of the pattern and the instant alone
FmtFields == {"p", "day", "ms", "text"}
TraceFmt ==
  /\ Step("Fmt") /\ Numbered
  /\ LET e == Trace[l] IN
       /\ \A f \in FmtFields : Has(e, f)
       /\ LET t == [day |-> e.day, ms |-> e.ms]
          IN IsInstant(t) /\ IsPattern(e.p) /\ e.text = Format(e.p, t)
  /\ UNCHANGED vars

\* one parsing call on a text formatted earlier (other calls in between)
PrsFields == {"p", "day", "ms", "text", "err", "rday", "rms"}
TracePrs ==
  /\ Step("Prs") /\ Numbered
  /\ LET e == Trace[l] IN
       /\ \A f \in PrsFields : Has(e, f)
       /\ LET t == [day |-> e.day, ms |-> e.ms]
              r == [day |-> e.rday, ms |-> e.rms]
          IN /\ IsInstant(t) /\ IsPattern(e.p)
             /\ e.text = Format(e.p, t)
             /\ e.err = FALSE
             /\ RoundTripOK(e.p, t, r)
  /\ UNCHANGED vars

\* the clock-reading variants, to the day
NowFields == {"day", "ymd", "du", "tsd"}
TraceNow ==
  /\ Step("Now") /\ Numbered
  /\ LET e == Trace[l] IN
       /\ \A f \in NowFields : Has(e, f)
       /\ e.day \in Days
       /\ LET h == Helpers([day |-> e.day, ms |-> 0])
          IN e.ymd = h.ymd /\ e.tsd = h.ymd /\ e.du = h.du
  /\ UNCHANGED vars

InvAll == UnitsNested /\ TextsNameInstant

TraceNext == (TraceReset \/ TraceObs \/ TraceRT \/ TraceZRT \/ TraceFmt \/ TracePrs \/ TraceNow) /\ InvAll'

TraceSpec == TraceInit /\ [][TraceNext]_tvars

Hwm == HwmNote(l)
TraceAccepted == Accepted
=============================================================================
