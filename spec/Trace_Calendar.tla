--------------------------- MODULE Trace_Calendar ---------------------------
(***************************************************************************)
(* Trace validation of the real util/dateutil helpers against Calendar and *)
(* DateFormat.  Events (harness/c19):                                      *)
(*   Reset                                  new history                    *)
(*   Obs  day ms  ymd dt ts ymdhms hms hm wd du mu fu  [ds ytd ytm] [ref]  *)
(*        one instant (day index from 2000-01-01, millisecond of day) and  *)
(*        what YYYYMMDD, DateTime, TimeStamp, Ymdhms, HHMMSS, HHMM,        *)
(*        WeekDay, GetDateUnit, GetMinUnit, GetFiveMinUnit returned for    *)
(*        it, texts as byte tuples.  ds = the date text of that day as     *)
(*        the Go standard library prints it, (ytd, ytm) = GetYmdTime(ds)   *)
(*        as (day index, ms of day).  ref = the outputs of the harness's   *)
(*        Go transliteration of Helpers used by the minute-boundary sweep: *)
(*        it must equal the spec's, which binds the sweep to the spec.     *)
(*   RT   p day ms text err rday rms text2                                 *)
(*        pattern p (items = UTF-8 bytes of each pattern character),       *)
(*        text = FormatTime(instant), (rday, rms) = Parse(text), err =     *)
(*        Parse returned an error, text2 = FormatTime(Parse(text)).        *)
(* Every Obs / RT event carries n = its position in the history; the trace *)
(* spec counts (variable k), so a lost event is a rejected trace.          *)
(* A panic is logged as event "Panic", for which there is no action.       *)
(***************************************************************************)
EXTENDS DateFormat, TraceLib

VARIABLES l, k
tvars == <<vars, l, k>>

TraceInit == Init /\ l = 1 /\ k = 0 /\ HwmInit

Step(e) == IsEv(l, e) /\ l' = l + 1
\* the event is the next one of its history
Numbered == Has(Trace[l], "n") /\ Trace[l].n = k + 1 /\ k' = k + 1

TraceReset == Step("Reset") /\ now' = Origin /\ obs' = Helpers(Origin) /\ k' = 0

ObsFields == {"day", "ms", "ymd", "dt", "ts", "ymdhms", "hms", "hm", "wd", "du", "mu", "fu"}
Logged(e) == [ymd |-> e.ymd, dt |-> e.dt, ts |-> e.ts, ymdhms |-> e.ymdhms, hms |-> e.hms, hm |-> e.hm,
              wd |-> e.wd, du |-> e.du, mu |-> e.mu, fu |-> e.fu]

TraceObs ==
  /\ Step("Obs") /\ Numbered
  /\ LET e == Trace[l] IN
       /\ \A f \in ObsFields : Has(e, f)
       /\ Observe([day |-> e.day, ms |-> e.ms])
       /\ Logged(e) = obs'                                    \* every helper, byte for byte
       /\ (Has(e, "ref") => e.ref = obs')                     \* the sweep's transliteration agrees with the spec
       /\ (Has(e, "ds") => /\ e.ds = obs'.ymd                 \* the standard library names the day as the spec does
                           /\ YmdOK(e.ds)
                           /\ YmdTime(e.ds) = [day |-> e.ytd, ms |-> e.ytm])
  /\ MonotoneStep                                             \* against the previous instant of the history

RTFields == {"p", "day", "ms", "text", "err", "rday", "rms", "text2"}

TraceRT ==
  /\ Step("RT") /\ Numbered
  /\ LET e == Trace[l] IN
       /\ \A f \in RTFields : Has(e, f)
       /\ LET t == [day |-> e.day, ms |-> e.ms]
              r == [day |-> e.rday, ms |-> e.rms]
          IN /\ IsInstant(t) /\ IsPattern(e.p)
             /\ e.text = Format(e.p, t)
             /\ e.err = FALSE
             /\ RoundTripOK(e.p, t, r)
             /\ (IsInstant(r) => e.text2 = Format(e.p, r))
             /\ (AllRequired(e.p, t) => e.text2 = e.text)     \* Format(p, Parse(p, Format(p, t))) = Format(p, t)
  /\ UNCHANGED vars

InvAll == UnitsNested /\ TextsNameInstant

TraceNext == (TraceReset \/ TraceObs \/ TraceRT) /\ InvAll'

TraceSpec == TraceInit /\ [][TraceNext]_tvars

Hwm == HwmNote(l)
TraceAccepted == Accepted
=============================================================================
