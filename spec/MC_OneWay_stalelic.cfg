SPECIFICATION MCSpec
CONSTANTS Sender = {"s1", "s2"}
          MaxFaults = 2
          MaxCfg = 1
          Addr = {"A"}
          Stall = FALSE
          QueueMode = FALSE
          QCap = 2
          MaxConn = 3
          Broken = "stalelic"
          NPacks = 3
CONSTRAINT ConnBound
VIEW MCView
INVARIANTS TypeOK HeaderRight
CHECK_DEADLOCK FALSE
