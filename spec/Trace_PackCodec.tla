-------------------------- MODULE Trace_PackCodec ---------------------------
(***************************************************************************)
(* Trace validation of the real lang/pack code against PackCodec.          *)
(* Events (harness/c03):                                                   *)
(*  Reset                                                                  *)
(*  Create codes types reports     CreatePack(code) for a block of type    *)
(*        codes: the concrete type created ("nil" for none) and the code   *)
(*        the created pack reports                                         *)
(*  Enc  type code mode hdr w wd sib carried bytes                         *)
(*        a pack of concrete type `type` holding the leaves w was written  *)
(*        by the real writer (mode "reg": ToBytesPack, "direct": its own   *)
(*        Write): bytes; wd = the leaves Write itself changed; carried =   *)
(*        the leaves the bytes depend on (derived from the real writer by  *)
(*        changing one leaf at a time); sib = sibling paths for the        *)
(*        documented defaulting rules                                      *)
(*  Dec  rtype r consumed          the real reader (ToPack / Read of a     *)
(*        fresh object) over bytes followed by a trailer                   *)
(*  ReEnc re [rep] [re2]           the decoded pack written again          *)
(*  Item ...                       like Enc: an inner pack or record that  *)
(*        is then given to a container                                     *)
(*  Build kind items id status0 minsize plainlen status gz same            *)
(*  Unpack out | outs outi         inner packs / records the decoded       *)
(*        container returned: tuple of [type, r] (long lists: the distinct *)
(*        [type, r] and the index of the one at each position)             *)
(*  Enc  ... again=true wdel       the SAME object written again: w is what *)
(*        it holds at this moment (projected just before the write),       *)
(*        carried is derived for this state of the object (the probes      *)
(*        replay the object's history); wd / wdel = leaves the write       *)
(*        changed or added / removed                                       *)
(*  Mut  op set del                the object in focus was changed through  *)
(*        its public surface (op names the call): leaves that hold another  *)
(*        value or are new afterwards / leaves that are gone                *)
(*  Use  obj                       the focus moves to live object obj       *)
(*  Peek what [bytes] [r] [d] [status gz same]   what earlier calls on the  *)
(*        object in focus handed out, looked at again now                   *)
(*  Top  type top                  union over the run of the top-level     *)
(*        fields carried by the real writer of `type`                      *)
(*  End  n                         n = number of Create+Dec+Unpack+Mut+Use  *)
(*        +Peek events                                                      *)
(*                                                                         *)
(* Strict = FALSE: the verdict (laws of the property only).                *)
(* Strict = TRUE : additionally the TRANSCRIBED tables of the spec must    *)
(*   match the real code (registry table, per-type carried fields, header  *)
(*   bytes, type tag in front); a rejection there is spec drift (exit 2).  *)
(***************************************************************************)
EXTENDS PackCodec, TraceLib

CONSTANT Strict

VARIABLES l, cnt
tvars == <<vars, l, cnt>>

TraceInit == Init /\ l = 1 /\ cnt = 0 /\ HwmInit

Step(e) == IsEv(l, e) /\ l' = l + 1

TraceReset == /\ Step("Reset")
              /\ msg' = None /\ dec' = None /\ ren' = None
              /\ store' = <<>> /\ box' = None /\ out' = None /\ cnt' = 0
              /\ cur' = 0 /\ shelf' = NoObjects /\ held' = None

TraceCreate ==
  /\ Step("Create")
  /\ LET e == Trace[l] IN
       /\ Len(e.codes) = Len(e.types) /\ Len(e.codes) = Len(e.reports)
       /\ \A i \in DOMAIN e.codes : e.types[i] # "nil" => e.reports[i] = e.codes[i]
       /\ Strict => \A i \in DOMAIN e.codes : e.types[i] = CreateOf(e.codes[i])
  /\ cnt' = cnt + 1
  /\ UNCHANGED vars

MsgOf(e) == [type |-> e.type, code |-> e.code, mode |-> e.mode, w |-> e.w, wd |-> e.wd,
             wdel |-> IF Has(e, "wdel") THEN Range(e.wdel) ELSE {}, sib |-> e.sib,
             carried |-> Range(e.carried), bytes |-> e.bytes, perm |-> e.perm]

HeaderOf(w) == [f \in HeaderFields |-> w[f].v]
\* the type tag as an unsigned 16-bit number
TagOf(code) == IF code < 0 THEN code + 65536 ELSE code

TraceEnc ==
  /\ Step("Enc")
  /\ LET e == Trace[l] IN
       /\ e.mode \in {"reg", "direct"}
       /\ IF Has(e, "again") THEN e.again = TRUE /\ Rewrite(MsgOf(e)) ELSE Encode(MsgOf(e))
       /\ Strict => /\ e.type \in KnownTypes
                    /\ e.mode = "reg" => /\ Len(e.bytes) >= 2
                                         /\ BytesToNat(SubSeq(e.bytes, 1, 2)) = TagOf(e.code)
                    /\ (e.mode = "reg" /\ e.hdr /\ HeaderFields \subseteq DOMAIN e.w) =>
                         IsPrefixOf(EncHeader(HeaderOf(e.w)), From(e.bytes, 3))
  /\ cnt' = cnt

TraceDec ==
  /\ Step("Dec")
  /\ LET e == Trace[l] IN Decode(e.rtype, e.r, e.consumed)
  /\ cnt' = cnt + 1

TraceReEnc ==
  /\ Step("ReEnc")
  /\ LET e == Trace[l] IN
       ReEncode(e.re, IF Has(e, "rep") THEN e.rep ELSE Absent, IF Has(e, "re2") THEN e.re2 ELSE Absent)
  /\ cnt' = cnt

TraceItem ==
  /\ Step("Item")
  /\ Register(MsgOf(Trace[l]))
  /\ cnt' = cnt

TraceBuild ==
  /\ Step("Build")
  /\ LET e == Trace[l] IN
       Build([kind |-> e.kind, items |-> e.items, id |-> e.id, status0 |-> e.status0, minsize |-> e.minsize,
              plainlen |-> e.plainlen, status |-> e.status, gz |-> e.gz, same |-> e.same])
  /\ cnt' = cnt

\* a long list is logged in a compact form: the distinct [type, r] once (outs)
\* and, per position, which of them was returned (outi)
TraceUnpack ==
  /\ Step("Unpack")
  /\ LET e == Trace[l] IN
       IF Has(e, "outi")
       THEN UnpackC(e.outs, e.outi)
       ELSE Unpack(e.out)
  /\ cnt' = cnt + 1

TraceMut ==
  /\ Step("Mut")
  /\ LET e == Trace[l] IN Mutate(e.set, Range(e.del))
  /\ cnt' = cnt + 1

TraceUse ==
  /\ Step("Use")
  /\ Use(Trace[l].obj)
  /\ cnt' = cnt + 1

TracePeek ==
  /\ Step("Peek")
  /\ LET e == Trace[l]
         w == Range(e.what) IN
       /\ w \subseteq {"bytes", "r", "d", "box"} /\ w # {}
       /\ Peek([what |-> w,
                bytes |-> IF "bytes" \in w THEN e.bytes ELSE <<>>,
                r |-> IF "r" \in w THEN e.r ELSE <<>>,
                d |-> IF "d" \in w THEN e.d ELSE <<>>,
                status |-> IF "box" \in w THEN e.status ELSE 0,
                gz |-> IF "box" \in w THEN e.gz ELSE FALSE,
                same |-> IF "box" \in w THEN e.same ELSE FALSE])
  /\ cnt' = cnt + 1

TraceTop ==
  /\ Step("Top")
  /\ LET e == Trace[l] IN Strict => Range(e.top) = CarriedTop(e.type)
  /\ cnt' = cnt
  /\ UNCHANGED vars

TraceEnd == /\ Step("End")
            /\ cnt = Trace[l].n
            /\ UNCHANGED <<vars, cnt>>

TraceNext == (TraceReset \/ TraceCreate \/ TraceEnc \/ TraceDec \/ TraceReEnc \/ TraceItem \/ TraceBuild
              \/ TraceUnpack \/ TraceMut \/ TraceUse \/ TracePeek \/ TraceTop \/ TraceEnd) /\ InvAll'

TraceSpec == TraceInit /\ [][TraceNext]_tvars

Hwm == HwmNote(l)
TraceAccepted == Accepted
=============================================================================
