SPECIFICATION MCSpec
CONSTANTS Sender = {"s1", "s2"}
          MaxFaults = 3
          MaxCfg = 0
          Addr = {"A"}
          Stall = FALSE
          QueueMode = TRUE
          QCap = 2
          MaxConn = 4
          Broken = "none"
          NPacks = 4
CONSTRAINT ConnBound
VIEW MCView
INVARIANTS TypeOK MutualExclusion FramesWhole FreshStart InOrderAtMostOnce HeaderRight ErrMeansNotDelivered NoLossSafe Recovers WriterErrorJustified
CHECK_DEADLOCK FALSE
