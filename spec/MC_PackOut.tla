----------------------------- MODULE MC_PackOut -----------------------------
(***************************************************************************)
(* Law HeldStable of PackOut on the design.  The caller makes outputs of   *)
(* his own and writes packs into them (WritePack), asks the library for   *)
(* the bytes of a pack (ToBytesPack), keeps every view he was handed and   *)
(* looks again later -- in every order, up to MaxViews views.  Where the   *)
(* bytes of ToBytesPack live is the encoder's business:                    *)
(*   Mode = "fresh"      every call writes into a buffer of its own;       *)
(*   Mode = "pool_copy"  the calls share a recycled buffer (emptied, not   *)
(*                       cleared, before use) and hand out a copy;         *)
(*   Mode = "pool_alias" the calls share a recycled buffer and hand out    *)
(*                       the buffer itself -> TLC refutes HeldStable:      *)
(*                       the earlier result shows the later pack's bytes   *)
(*                       and its own tail.                                 *)
(* mem = the backing arrays, at[o] = the array output o lives in.          *)
(***************************************************************************)
EXTENDS PackOut

CONSTANTS Mode, MaxViews

VARIABLES mem, at
mcvars == <<vars, pvars, mem, at>>

N(n) == NatW8(n)
Hdr1 == [pcode |-> N(5), oid |-> N(100), okind |-> Z8, onode |-> Z8, time |-> N(1000)]
Hdr2 == [pcode |-> N(70000), oid |-> N(200), okind |-> N(3), onode |-> Z8, time |-> N(2000)]
Packs == { [kind |-> "text", p |-> [records |-> <<[div |-> 1, hash |-> N(17), text |-> <<47, 102, 105, 114, 115, 116>>]>>] @@ Hdr1],
           [kind |-> "text", p |-> [records |-> <<[div |-> 2, hash |-> N(34), text |-> <<115, 50>>]>>] @@ Hdr2],
           [kind |-> "zip", p |-> [status |-> 1, recordCount |-> N(2), records |-> <<1, 2, 3>>] @@ Hdr1] }

\* the reference bytes, computed once
PB == [x \in Packs |-> PackBytes(x.kind, x.p)]

\* a recycled buffer is emptied, not cleared: what lay behind the new content stays
Over(old, b) == b \o (IF Len(old) > Len(b) THEN SubSeq(old, Len(b) + 1, Len(old)) ELSE <<>>)

MCNewOut == /\ Len(outs) < MaxViews - 1
            /\ \E pre \in {<<7, 7>>} :
                 /\ NewOut(pre)
                 /\ mem' = Append(mem, pre)
                 /\ at' = Append(at, Len(mem) + 1)

\* the caller's own output: the write appends
MCWriteTo == /\ Len(views) < MaxViews
             /\ \E o \in DOMAIN outs : \E x \in Packs :
                  /\ at[o] # 1 \/ Mode = "fresh"            \* not the library's recycled buffer
                  /\ WriteTo(o, x.kind, x.p, PB[x])
                  /\ mem' = [mem EXCEPT ![at[o]] = @ \o PB[x]]
                  /\ at' = at

MCToBytes == /\ Len(views) < MaxViews
             /\ \E x \in Packs :
                  LET b == PB[x] IN
                  /\ ToBytes(x.kind, x.p, b)
                  /\ IF Mode = "fresh"
                     THEN mem' = Append(mem, b) /\ at' = Append(at, Len(mem) + 1)
                     ELSE IF Mode = "pool_copy"
                     THEN mem' = Append([mem EXCEPT ![1] = Over(@, b)], b) /\ at' = Append(at, Len(mem) + 1)
                     ELSE mem' = [mem EXCEPT ![1] = Over(@, b)] /\ at' = Append(at, 1)

\* what lies in the backing array of a view now
InMem(id) == LET m == mem[at[views[id].o]] IN High(m, IF views[id].n <= Len(m) THEN views[id].n ELSE Len(m))
MCPeek == /\ \E id \in DOMAIN views : Peek(id, InMem(id))
          /\ UNCHANGED <<mem, at>>

MCNext == (MCNewOut \/ MCWriteTo \/ MCToBytes \/ MCPeek) /\ UNCHANGED vars

\* array 1 is the library's recycled buffer (unused in Mode "fresh")
MCInit == Init /\ OutInit /\ mem = << <<>> >> /\ at = <<>>
MCSpec == MCInit /\ [][MCNext]_mcvars

\* the world is not vacuous: the packs have different lengths and differ in their first bytes
ASSUME \A x, y \in Packs : x # y => PB[x] # PB[y]
ASSUME \E x, y \in Packs : Len(PB[x]) < Len(PB[y])
=============================================================================
