SPECIFICATION MCSpec
CONSTANTS
  NotCleared <- MCNotClearedBug
  MaxSteps = 6
INVARIANTS NoResidue PoolTypeOK
PROPERTIES AcquireClean
CHECK_DEADLOCK FALSE
