SPECIFICATION MCSpec
CONSTANTS
  NotCleared <- MCNotClearedBug
  FailOutcomes = {"leak", "clean"}
  MaxObjs = 3
  MaxSteps = 6
INVARIANTS NoResidue PoolTypeOK
PROPERTIES AcquireClean
CHECK_DEADLOCK FALSE
