SPECIFICATION MCSpec
CONSTANTS Mode = "wire"
          Vals = {0}
          MaxLen = 3
          MaxHeld = 0
VIEW View
INVARIANTS TypeOK WireRoundTrip
CHECK_DEADLOCK FALSE
