SPECIFICATION MCSpec
CONSTANTS Proc <- MCProc
          WakeOnPut = TRUE
          NP = 1
          NE = 3
          NC = 1
          NOps = 2
          NAdmin = 2
          CapSet = {0, 1, 2}
          TSet = {2}
          LaneSet = {1}
          MaxClock = 0
          TagSet = {}
          GetKinds = {"Get", "GetNoWait"}
INVARIANTS SwallowOnlyNil TypeOK Fifo Conservation RefusalInert PerProducerOrder WaitingImpliesEmpty
PROPERTIES AllStepProps
CHECK_DEADLOCK FALSE
