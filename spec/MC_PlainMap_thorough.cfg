SPECIFICATION MCSpec
CONSTANTS Keys = {1, 2, 3, 4}
          Vals = {0, 1, 2}
          MaxVal = 3
          IsSet = FALSE
          None <- NoneZero
          Rej = FALSE
          EK = 0
          TName = "IntIntMap"
          NHeld = 0
          NEnum = 0
VIEW View
INVARIANTS SetOK RefuseOK KeysBagExact WireRoundTrip
PROPERTIES Frame PutStores RefusalInert AddSums AddIfExistNeverCreates RemoveExact ClearEmpties PutAllIsPuts ReadOnlyKeeps OthersKept PutAllFromIsPuts SizeLaw
CHECK_DEADLOCK FALSE
