SPECIFICATION LawSpec
CONSTANTS Rad = 40
          StrLens = {0, 1, 2, 3, 4, 5, 6, 7, 8, 9, 10, 11, 12, 13, 14, 15, 16, 17, 23, 24, 25, 31, 32, 33, 63, 64, 65, 255, 256, 300}
          NCalls = 0
INVARIANTS Law
CHECK_DEADLOCK FALSE
