--------------------------- MODULE MC_PackCodec ----------------------------
(***************************************************************************)
(* Model checking of the DESIGN behind C03 on a small world: a reference   *)
(* wire (type tag, common header in its two forms, bodies of a blob pack,  *)
(* of the composite pack and of the two zip packs) with a reference reader,*)
(* driven through PackCodec's own actions; the laws of PackCodec are the   *)
(* invariants.  What TLC explores exhaustively:                            *)
(*   - every leaf pack of the universe (all header forms x blob nil /      *)
(*     empty / non-empty), composites of up to MaxItems inner packs, and   *)
(*     one level of nesting: Encode / Decode / ReEncode;                   *)
(*   - every container (composite, zip, log-sink zip) over every sequence  *)
(*     of up to MaxItems items, every container identity, compressed or    *)
(*     not: Register* / Build / Unpack.                                    *)
(* Design switches (constants) for the refuted variants:                   *)
(*   Marker   first byte of the long header form (the design: 9; 8 would   *)
(*            collide with the length byte of an 8-byte project code)      *)
(*   NoStamp  identity fields the unpacking forgets to stamp (design: {})  *)
(*   Reverse  unpacking returns the inner packs in reverse (design: FALSE) *)
(*   CellRead how the reader extends a cell that is narrower on the wire    *)
(*            than the field holding it (the hit-map pack of the small      *)
(*            world: one unsigned 16-bit hit cell, one error cell; design:  *)
(*            "unsigned"; "signed" gives 32768 back as -32768)              *)
(*   CellNs   values written into such a cell: the boundaries of the WIRE   *)
(*            cell (0, 32767, 32768, 65535) and values the cell cannot hold *)
(*            (65541, and 1000001 standing for -1), of which the wire carries the low 16 bits        *)
(*   FreshNs  the reader decodes INTO an object a constructor has just made; *)
(*            the constructor of the hit-map pack of the small world takes   *)
(*            the hit cell from the PROCESS (an environment variable, the    *)
(*            clock): FreshNs = what that source may give in a decoding      *)
(*            process (0: unset).  The property does not quantify over the   *)
(*            process: the laws hold for every value of it.                  *)
(*   KeepFresh  design FALSE: the reader assigns every cell it reads; TRUE   *)
(*            (refuted): it takes the cell from the wire only when it is not *)
(*            zero ("unset by an old sender") -- with FreshNs = {0} that     *)
(*            reader cannot be told from the design, in a process where the  *)
(*            source is set a pack sent with a zero cell comes back with the *)
(*            receiver's own value                                           *)
(***************************************************************************)
EXTENDS PackCodec, TLC

CONSTANTS PcodeNs,   \* project codes (small naturals; 99 stands for a wide one, see PcodeOf)
          Okinds, Onodes,   \* naturals
          BlobIds,   \* subset of {"nil", "empty", "one"}
          MaxItems, Marker, NoStamp, Reverse,
          CellNs, CellRead,
          FreshNs, KeepFresh

\* a project code that needs the 8-byte decimal class
Wide == <<0, 0, 1, 0, 0, 0, 0, 0>>
PcodeOf(n) == IF n = 99 THEN Wide ELSE W8(n)
BlobOf(id) == CASE id = "nil"   -> [v |-> <<>>, z |-> TRUE]
                [] id = "empty" -> [v |-> <<>>, z |-> FALSE]
                [] id = "one"   -> [v |-> <<7>>, z |-> FALSE]

Headers == {[Pcode |-> PcodeOf(p), Oid |-> W8(1), Okind |-> W8(k), Onode |-> W8(n), Time |-> W8(5)] :
              p \in PcodeNs, k \in Okinds, n \in Onodes}

\* abstract packs: [type, h, f]; f = blob record (leaf pack), sequence of packs
\* (composite), [status, count, records] (zip packs)
LeafPacks == {[type |-> "RealtimeUserPack", h |-> h, f |-> BlobOf(b)] : h \in Headers, b \in BlobIds}

\* the hit-map pack of the small world: f = <<hit cell, error cell>> (W8 values as the pack holds them)
CellOf(n) == IF n = 1000001 THEN Fill(8, 255) ELSE NatToBytes(n, 8)    \* 1000001 stands for -1 (cfg files have no negative numbers)
CellPacks == {[type |-> "HitMapPack1", h |-> h, f |-> <<CellOf(a), CellOf(b)>>] : h \in Headers, a \in CellNs, b \in CellNs}

CodeOf(type) == RegTable[CHOOSE i \in DOMAIN RegTable : RegTable[i][2] = type][1]
Tag(type) == NatToBytes(CodeOf(type), 2)

RefHeader(h) ==
  IF LongForm(h)
  THEN <<Marker>> \o DX!Enc("Decimal", h.Pcode) \o DX!Enc("Int", h.Oid) \o DX!Enc("Int", h.Okind)
                 \o DX!Enc("Int", h.Onode) \o DX!Enc("Long", h.Time)
  ELSE DX!Enc("Decimal", h.Pcode) \o DX!Enc("Int", h.Oid) \o DX!Enc("Long", h.Time)

RECURSIVE RefEnc(_)
RefEnc(p) ==
  Tag(p.type) \o RefHeader(p.h) \o
  (CASE p.type = "RealtimeUserPack" -> DX!Enc("Blob", p.f.v)
     [] p.type = "CompositePack"    -> NatToBytes(Len(p.f), 2) \o Concat([i \in 1..Len(p.f) |-> RefEnc(p.f[i])])
     [] p.type = "HitMapPack1"      -> <<1>> \o Low(p.f[1], 2) \o Low(p.f[2], 2)     \* a cell carries the low 16 bits
     [] OTHER                       -> <<p.f.status>> \o DX!Enc("Decimal", W8(p.f.count)) \o DX!Enc("Blob", p.f.records))

\* ---- reference reader ----
Fail == [ok |-> FALSE]
\* the reader's rule: a first byte of at most 8 is the length of the project code (short form)
DecHeader(b, p) ==
  IF ~DX!Have(b, p, 1) THEN Fail
  ELSE IF b[p] <= 8
  THEN LET c == DX!Dec("Decimal", b, p) IN
       IF ~c.ok THEN Fail ELSE
       LET o == DX!Dec("Int", b, c.next) IN
       IF ~o.ok THEN Fail ELSE
       LET t == DX!Dec("Long", b, o.next) IN
       IF ~t.ok THEN Fail ELSE
       [ok |-> TRUE, h |-> [Pcode |-> c.v, Oid |-> o.v, Okind |-> Zeros(8), Onode |-> Zeros(8), Time |-> t.v], next |-> t.next]
  ELSE LET c == DX!Dec("Decimal", b, p + 1) IN
       IF ~c.ok THEN Fail ELSE
       LET o == DX!Dec("Int", b, c.next) IN
       IF ~o.ok THEN Fail ELSE
       LET k == DX!Dec("Int", b, o.next) IN
       IF ~k.ok THEN Fail ELSE
       LET n == DX!Dec("Int", b, k.next) IN
       IF ~n.ok THEN Fail ELSE
       LET t == DX!Dec("Long", b, n.next) IN
       IF ~t.ok THEN Fail ELSE
       [ok |-> TRUE, h |-> [Pcode |-> c.v, Oid |-> o.v, Okind |-> k.v, Onode |-> n.v, Time |-> t.v], next |-> t.next]

\* the reader's rule for a narrow cell
CellExt(c) == IF CellRead = "signed" THEN SignExt(c, 8) ELSE ZeroExt(c, 8)

RECURSIVE RefDec(_, _), DecMany(_, _, _, _)
\* n packs one after the other starting at p
DecMany(b, p, n, acc) ==
  IF n = 0 THEN [ok |-> TRUE, ps |-> acc, next |-> p]
  ELSE Bind(RefDec(b, p), LAMBDA d : IF ~d.ok THEN Fail ELSE DecMany(b, d.next, n - 1, Append(acc, d.p)))
RefDec(b, p) ==
  IF ~DX!Have(b, p, 2) THEN Fail ELSE
  LET type == CreateOf(BytesToNat(Slice(b, p, 2))) IN
  IF type \notin {"RealtimeUserPack", "CompositePack", "ZipPack", "LogSinkZipPack", "HitMapPack1"} THEN Fail ELSE
  Bind(DecHeader(b, p + 2), LAMBDA hd :
    IF ~hd.ok THEN Fail ELSE
    CASE type = "RealtimeUserPack" ->
           LET x == DX!Dec("Blob", b, hd.next) IN
           IF ~x.ok THEN Fail
           ELSE [ok |-> TRUE, p |-> [type |-> type, h |-> hd.h, f |-> [v |-> x.v, z |-> FALSE]], next |-> x.next]
      [] type = "CompositePack" ->
           IF ~DX!Have(b, hd.next, 2) THEN Fail ELSE
           Bind(DecMany(b, hd.next + 2, BytesToNat(Slice(b, hd.next, 2)), <<>>), LAMBDA m :
             IF ~m.ok THEN Fail ELSE [ok |-> TRUE, p |-> [type |-> type, h |-> hd.h, f |-> m.ps], next |-> m.next])
      [] type = "HitMapPack1" ->
           IF ~DX!Have(b, hd.next, 5) \/ b[hd.next] # 1 THEN Fail ELSE
           [ok |-> TRUE, p |-> [type |-> type, h |-> hd.h,
                                f |-> <<CellExt(Slice(b, hd.next + 1, 2)), CellExt(Slice(b, hd.next + 3, 2))>>],
            next |-> hd.next + 5]
      [] OTHER ->
           IF ~DX!Have(b, hd.next, 1) THEN Fail ELSE
           LET c == DX!Dec("Decimal", b, hd.next + 1) IN
           IF ~c.ok THEN Fail ELSE
           LET x == DX!Dec("Blob", b, c.next) IN
           IF ~x.ok THEN Fail
           ELSE [ok |-> TRUE, p |-> [type |-> type, h |-> hd.h,
                                     f |-> [status |-> b[hd.next], count |-> BytesToNat(c.v), records |-> x.v]],
                 next |-> x.next])

\* ---- leaves of an abstract pack (the projection the harness makes of a real one) ----
IntLeaf(v, o) == [k |-> "i", v |-> v, o |-> o]
HeaderLeaves(h) == [f \in HeaderFields |-> IntLeaf(h[f], "AbstractPack." \o f)]
Merge(a, b) == [x \in DOMAIN a \cup DOMAIN b |-> IF x \in DOMAIN a THEN a[x] ELSE b[x]]
Prefixed(pre, m) == LET ks == {pre \o k : k \in DOMAIN m} IN
                    [x \in ks |-> m[CHOOSE k \in DOMAIN m : pre \o k = x]]
RECURSIVE Leaves(_), InnerLeaves(_, _)
InnerLeaves(ps, i) ==
  IF i > Len(ps) THEN [x \in {} |-> 0]
  ELSE LET pre == "pack[" \o ToString(i - 1) \o "]." IN
       Merge(Merge(Prefixed(pre, Leaves(ps[i])),
                   [x \in {pre \o "type"} |-> [k |-> "s", v |-> ps[i].type, z |-> FALSE, o |-> "CompositePack.pack"]]),
             InnerLeaves(ps, i + 1))
Leaves(p) ==
  Merge(HeaderLeaves(p.h),
    CASE p.type = "RealtimeUserPack" ->
           [x \in {"Logbits"} |-> [k |-> "y", v |-> p.f.v, z |-> p.f.z, o |-> "RealtimeUserPack.Logbits"]]
      [] p.type = "HitMapPack1" ->
           [x \in {"Hit", "Error"} |->
              [k |-> "l", v |-> <<IF x = "Hit" THEN p.f[1] ELSE p.f[2]>>, z |-> FALSE, o |-> "HitMapPack1." \o x]]
      [] p.type = "CompositePack" ->
           Merge([x \in {"pack.#"} |-> [k |-> "n", v |-> Len(p.f), z |-> FALSE, o |-> "CompositePack.pack"]],
                 InnerLeaves(p.f, 1))
      [] OTHER ->
           [x \in {"Status", "RecordCount", "Records"} |->
              CASE x = "Status"      -> IntLeaf(W8(p.f.status), "ZipPack.Status")
                [] x = "RecordCount" -> IntLeaf(W8(p.f.count), "ZipPack.RecordCount")
                [] x = "Records"     -> [k |-> "y", v |-> p.f.records, z |-> FALSE, o |-> "ZipPack.Records"]])

\* every leaf of the small world is carried by the reference writer
MsgFor(p) == [type |-> p.type, code |-> CodeOf(p.type), mode |-> "reg", w |-> Leaves(p), wd |-> [x \in {} |-> 0], wdel |-> {},
              sib |-> [x \in {} |-> 0], carried |-> DOMAIN Leaves(p), bytes |-> RefEnc(p), perm |-> FALSE]

\* ---- the world ----
RECURSIVE SeqsUpTo(_, _)
SeqsUpTo(S, n) == IF n = 0 THEN {<<>>}
                  ELSE SeqsUpTo(S, n - 1) \cup {Append(s, x) : s \in {t \in SeqsUpTo(S, n - 1) : Len(t) = n - 1}, x \in S}
\* containers take their own header from the headers of one project code (both forms, every kind/node):
\* the project code of a container adds nothing the leaf packs do not already exercise
H0 == CHOOSE h \in Headers : TRUE
HeadersC == {h \in Headers : h.Pcode = H0.Pcode}
Composites(inner) == {[type |-> "CompositePack", h |-> h, f |-> s] : h \in HeadersC, s \in SeqsUpTo(inner, MaxItems)}
\* one fixed header for the nested level keeps the world small
Nested == {[type |-> "CompositePack", h |-> H0, f |-> <<c>>] : c \in Composites(LeafPacks)}
Universe == LeafPacks \cup Composites(LeafPacks) \cup Nested \cup CellPacks

\* abstract gzip: an invertible framing with the gzip magic
Gz(x) == <<31, 139>> \o x
IsGz(b) == Len(b) >= 2 /\ b[1] = 31 /\ b[2] = 139
UnGz(b) == From(b, 3)

VARIABLES dp,    \* the decoded abstract pack (of msg, or of the container)
          its    \* the abstract items registered so far
mcvars == <<vars, dp, its>>

MCInit == Init /\ dp = None /\ its = <<>>

Trailer == <<165, 90, 165, 90>>

MCEncode == /\ msg = None /\ store = <<>> /\ box = None
            /\ \E p \in Universe : Encode(MsgFor(p))
            /\ UNCHANGED <<dp, its>>

\* the object the reader has filled, given what its constructor took from the process
Into(p, fresh) == IF KeepFresh /\ p.type = "HitMapPack1" /\ p.f[1] = Zeros(8)
                  THEN [p EXCEPT !.f = <<CellOf(fresh), p.f[2]>>] ELSE p

MCDecode == /\ msg # None /\ dec = None
            /\ LET d == RefDec(msg.bytes \o Trailer, 1) IN
                 IF d.ok THEN \E fresh \in (IF KeepFresh THEN FreshNs ELSE {0}) :   \* the design reader does not look at it
                                LET q == Into(d.p, fresh) IN Decode(q.type, Leaves(q), d.next - 1) /\ dp' = q
                 ELSE Decode("unreadable", [x \in {} |-> 0], 0) /\ dp' = None
            /\ UNCHANGED its

MCReEncode == /\ dec # None /\ ren = None /\ dp # None
              /\ ReEncode(RefEnc(dp), Absent, Absent)
              /\ UNCHANGED <<dp, its>>

MCRegister == /\ msg = None /\ box = None /\ Len(store) < MaxItems
              /\ \E p \in LeafPacks : Register(MsgFor(p)) /\ its' = Append(its, p)
              /\ UNCHANGED dp

\* the container over the registered items, as the public setters build it
ZipOf(type, h, minsize) ==
  LET plain == Concat([i \in 1..Len(its) |-> RefEnc(its[i])])
      st    == ZipStatus(0, minsize, Len(plain))
  IN [type |-> type, h |-> h, f |-> [status |-> st, count |-> Len(its), records |-> IF st = 1 THEN Gz(plain) ELSE plain]]

MCBuild ==
  /\ msg = None /\ box = None
  /\ \E kind \in {"composite", "zip", "lszip"}, h \in HeadersC, minsize \in {-1, 0, 1000} :
       (kind = "composite" => minsize = -1) /\
       LET c == CASE kind = "composite" -> [type |-> "CompositePack", h |-> h, f |-> its]
                  [] kind = "zip"       -> ZipOf("ZipPack", h, minsize)
                  [] kind = "lszip"     -> ZipOf("LogSinkZipPack", h, minsize)
           d == RefDec(RefEnc(c), 1)
           plain == Concat([i \in 1..Len(its) |-> RefEnc(its[i])])
       IN /\ d.ok /\ d.next = Len(RefEnc(c)) + 1
          /\ dp' = d.p
          /\ Build([kind |-> kind, items |-> [i \in 1..Len(its) |-> i],
                    id |-> [f \in Identity |-> h[f]],
                    status0 |-> 0, minsize |-> IF kind = "composite" THEN -1 ELSE minsize, plainlen |-> Len(plain),
                    status |-> IF kind = "composite" THEN 0 ELSE c.f.status,
                    gz |-> IF kind = "composite" THEN FALSE ELSE IsGz(c.f.records),
                    same |-> IF kind = "composite" THEN TRUE
                             ELSE (IF IsGz(c.f.records) THEN UnGz(c.f.records) ELSE c.f.records) = plain])
  /\ UNCHANGED its

\* what the decoded container returns
StampPack(p, h) == [p EXCEPT !.h = [f \in HeaderFields |-> IF f \in Identity \ NoStamp THEN h[f] ELSE p.h[f]]]
Order(s) == IF Reverse THEN Rev(s) ELSE s
RefUnpack(c) ==
  IF c.type = "CompositePack" THEN c.f
  ELSE LET data == IF c.f.status = 1 THEN UnGz(c.f.records) ELSE c.f.records
           m    == DecMany(data, 1, c.f.count, <<>>)
       IN IF ~m.ok THEN <<>> ELSE Order([i \in 1..Len(m.ps) |-> StampPack(m.ps[i], c.h)])

MCUnpack == /\ box # None /\ out = None
            /\ Unpack([i \in 1..Len(RefUnpack(dp)) |-> [type |-> RefUnpack(dp)[i].type, r |-> Leaves(RefUnpack(dp)[i])]])
            /\ UNCHANGED <<dp, its>>

MCNext == MCEncode \/ MCDecode \/ MCReEncode \/ MCRegister \/ MCBuild \/ MCUnpack
MCSpec == MCInit /\ [][MCNext]_mcvars

\* design facts checked next to the laws
HeaderFormsDisjoint == \A h \in Headers : (LongForm(h) <=> RefHeader(h)[1] = Marker) /\ (Marker = 9 => RefHeader(h) = EncHeader(h))
RegistryOK == RegistryFunctional /\ CreateOf(0) = "nil" /\ CreateOf(5899) = "ZipPack"
MCInv == InvAll /\ HeaderFormsDisjoint /\ RegistryOK
=============================================================================
