----------------------------- MODULE ValueOrder ------------------------------
(***************************************************************************)
(* C20 -- a REFERENCE equality and comparison on the tagged value domain   *)
(* of Value.tla, written from the intended design (not from the Go code):  *)
(*   * values of different types are ordered by their type codes;          *)
(*   * integers by value, booleans FALSE < TRUE, floats by IEEE order with *)
(*     -0 = +0 (NaN is outside the domain, see HasNaN);                    *)
(*   * summaries by (sum, count)  -- golib's equality of summaries looks   *)
(*     at sum and count only; min/max do not take part;                    *)
(*   * text, blob, IPv4 and the arrays lexicographically, a proper prefix  *)
(*     first;                                                              *)
(*   * lists by length, then item by item;                                 *)
(*   * maps by size, then by their key sets (sorted), then value by value  *)
(*     in key order -- insertion order does not take part, as in golib's   *)
(*     map equality (lookup by key).                                       *)
(* Named deviations of golib that the laws of C20 do not care about:       *)
(* golib orders decimal/int/long/float/double/text/text-hash/summary       *)
(* values DESCENDING (CompareTo returns 1 when the receiver is smaller).   *)
(* AsIsMaps = TRUE models the map comparison golib had (walk the           *)
(* receiver's own insertion order, "greater" when a key is missing on the  *)
(* other side): MC_ValueLaws_asis refutes Antisym for it.                  *)
(***************************************************************************)
EXTENDS Value

CONSTANT AsIsMaps

Sgn(n) == IF n < 0 THEN -1 ELSE IF n > 0 THEN 1 ELSE 0
MinOf(a, b) == IF a <= b THEN a ELSE b

\* ---- NaN ------------------------------------------------------------------
IsNaN32(b) == b[1] % 128 = 127 /\ b[2] >= 128 /\ (b[2] > 128 \/ b[3] > 0 \/ b[4] > 0)
IsNaN64(b) == /\ b[1] % 128 = 127 /\ b[2] >= 240
              /\ (b[2] > 240 \/ \E i \in 3..8 : b[i] > 0)

RECURSIVE HasNaN(_)
HasNaN(x) ==
  CASE x.t = TFloat -> IsNaN32(x.v)
    [] x.t = TDouble -> IsNaN64(x.v)
    [] x.t = TDoubleSummary -> IsNaN64(x.v.sum) \/ IsNaN64(x.v.min) \/ IsNaN64(x.v.max)
    [] x.t = TFloatArray -> \E i \in 1..Len(x.v) : IsNaN32(x.v[i])
    [] x.t = TList -> \E i \in 1..Len(x.v) : HasNaN(x.v[i])
    [] x.t \in {TMap, TIntMap} -> \E i \in 1..Len(x.v) : HasNaN(x.v[i][2])
    [] OTHER -> FALSE

\* ---- IEEE order on bit patterns (no NaN) -----------------------------------
FNeg(a) == a[1] >= 128
FMag(a) == <<a[1] % 128>> \o Tail(a)
FZero(a) == FMag(a) = Zeros(Len(a))
FCmp(a, b) == IF FZero(a) /\ FZero(b) THEN 0
              ELSE IF FNeg(a) # FNeg(b) THEN (IF FNeg(a) THEN -1 ELSE 1)
              ELSE IF FNeg(a) THEN -CmpU(FMag(a), FMag(b))
              ELSE CmpU(FMag(a), FMag(b))
FEq(a, b) == a = b \/ (FZero(a) /\ FZero(b))

\* ---- lexicographic comparison, a proper prefix first ------------------------
Lex(cmp(_, _), a, b) ==
  LET D == {i \in 1..MinOf(Len(a), Len(b)) : cmp(a[i], b[i]) # 0}
  IN IF D = {} THEN Sgn(Len(a) - Len(b))
     ELSE LET i == CHOOSE i \in D : \A j \in D : i <= j IN cmp(a[i], b[i])
ByteCmp(x, y) == Sgn(x - y)
LexBytes(a, b) == Lex(ByteCmp, a, b)

\* the positions of s in ascending order of less (items pairwise different)
SortedIdx(s, less(_, _)) ==
  [k \in 1..Len(s) |-> CHOOSE i \in 1..Len(s) : Cardinality({j \in 1..Len(s) : less(s[j], s[i])}) = k - 1]

RECURSIVE RefCompare(_, _)
KeyCmp(t, k1, k2) == IF t = TMap THEN LexBytes(k1, k2) ELSE CmpS(k1, k2)

MapCompare(t, pa, pb) ==
  IF Len(pa) # Len(pb) THEN Sgn(Len(pa) - Len(pb))
  ELSE IF AsIsMaps
  THEN \* what golib had: walk the receiver's insertion order, look each key up on the other side
       LET missing(i) == \A j \in 1..Len(pb) : pb[j][1] # pa[i][1]
           other(i) == pb[CHOOSE j \in 1..Len(pb) : pb[j][1] = pa[i][1]][2]
           c(i) == IF missing(i) THEN 1 ELSE RefCompare(pa[i][2], other(i))
           D == {i \in 1..Len(pa) : c(i) # 0}
       IN IF D = {} THEN 0 ELSE c(CHOOSE i \in D : \A j \in D : i <= j)
  ELSE LET ia == SortedIdx(pa, LAMBDA x, y : KeyCmp(t, x[1], y[1]) < 0)
           ib == SortedIdx(pb, LAMBDA x, y : KeyCmp(t, x[1], y[1]) < 0)
           ka == [k \in 1..Len(pa) |-> pa[ia[k]][1]]
           kb == [k \in 1..Len(pb) |-> pb[ib[k]][1]]
           ck == Lex(LAMBDA x, y : KeyCmp(t, x, y), ka, kb)
       IN IF ck # 0 THEN ck
          ELSE Lex(LAMBDA x, y : RefCompare(x, y),
                   [k \in 1..Len(pa) |-> pa[ia[k]][2]], [k \in 1..Len(pb) |-> pb[ib[k]][2]])

\* -1, 0, 1
RefCompare(a, b) ==
  IF a.t # b.t THEN Sgn(a.t - b.t)
  ELSE LET t == a.t IN
    CASE t = TNull -> 0
      [] t = TBool -> IF a.v = b.v THEN 0 ELSE IF a.v THEN 1 ELSE -1
      [] t \in {TDecimal, TInt, TLong, TTextHash} -> CmpS(a.v, b.v)
      [] t \in {TFloat, TDouble} -> FCmp(a.v, b.v)
      [] t = TDoubleSummary -> IF FCmp(a.v.sum, b.v.sum) # 0 THEN FCmp(a.v.sum, b.v.sum) ELSE CmpS(a.v.count, b.v.count)
      [] t = TLongSummary -> IF CmpS(a.v.sum, b.v.sum) # 0 THEN CmpS(a.v.sum, b.v.sum) ELSE CmpS(a.v.count, b.v.count)
      [] t \in {TText, TBlob, TIP4} -> LexBytes(a.v, b.v)
      [] t \in {TIntArray, TLongArray} -> Lex(CmpS, a.v, b.v)
      [] t = TFloatArray -> Lex(FCmp, a.v, b.v)
      [] t = TTextArray -> Lex(LexBytes, a.v, b.v)
      [] t = TList -> IF Len(a.v) # Len(b.v) THEN Sgn(Len(a.v) - Len(b.v))
                      ELSE Lex(LAMBDA x, y : RefCompare(x, y), a.v, b.v)
      [] t \in {TMap, TIntMap} -> MapCompare(t, a.v, b.v)

RECURSIVE RefEquals(_, _)
RefEquals(a, b) ==
  /\ a.t = b.t
  /\ LET t == a.t IN
     CASE t = TNull -> TRUE
       [] t \in {TFloat, TDouble} -> FEq(a.v, b.v)
       [] t = TDoubleSummary -> FEq(a.v.sum, b.v.sum) /\ a.v.count = b.v.count
       [] t = TLongSummary -> a.v.sum = b.v.sum /\ a.v.count = b.v.count
       [] t = TFloatArray -> Len(a.v) = Len(b.v) /\ \A i \in 1..Len(a.v) : FEq(a.v[i], b.v[i])
       [] t = TList -> Len(a.v) = Len(b.v) /\ \A i \in 1..Len(a.v) : RefEquals(a.v[i], b.v[i])
       [] t \in {TMap, TIntMap} ->
            /\ Len(a.v) = Len(b.v)
            /\ \A i \in 1..Len(a.v) : \E j \in 1..Len(b.v) :
                  a.v[i][1] = b.v[j][1] /\ RefEquals(a.v[i][2], b.v[j][2])
       [] OTHER -> a.v = b.v
=============================================================================
