---------------------------- MODULE MC_PackWire -----------------------------
(***************************************************************************)
(* Exhaustive exploration of the PackWire design for a small world: for    *)
(* every pack type C05 names, both header forms, every optional section    *)
(* absent / present, maps and lists of 0, 1 and 2 entries.  Checks on the  *)
(* specification itself that the layout is decodable by a reader that      *)
(* knows only the layout (every field restored, exact consumption), that a *)
(* message decodes the same whatever follows it, that no proper prefix     *)
(* decodes, that the header marker decides the header form, that the tag   *)
(* hash covers exactly the tag section, that writing twice is stable, and  *)
(* that the collector splits a stream of frames by the length field alone. *)
(*   Level = "msg"    : the whole world, one frame per connection          *)
(*   Level = "stream" : one pack per type, MaxFrames frames per connection *)
(*   Level = "deep"   : msg + every combination of counter sections        *)
(***************************************************************************)
EXTENDS PackWire

CONSTANTS MaxFrames, Level

VARIABLE hist     \* <<kind, pack, license>> of the frames of this connection
mcvars == <<vars, hist>>

N(n) == NatW8(n)
M1 == Neg(N(1))                      \* -1
T(s) == s                            \* a text is its bytes

Forms == IF Level = "stream" THEN {2} ELSE IF Level = "deep" THEN {1, 2, 3, 4} ELSE {1, 2, 3}
Hdr(form) ==
  CASE form = 1 -> [pcode |-> N(5), oid |-> N(7), okind |-> Z8, onode |-> Z8, time |-> N(1000)]
    [] form = 2 -> [pcode |-> N(70000), oid |-> M1, okind |-> N(3), onode |-> Z8, time |-> N(1)]
    [] form = 3 -> [pcode |-> <<1, 2, 3, 4, 5, 6, 7, 8>>, oid |-> Z8, okind |-> Z8, onode |-> M1, time |-> M1]
    [] form = 4 -> [pcode |-> Z8, oid |-> N(1), okind |-> N(9), onode |-> N(9), time |-> Z8]

K1 == <<97>>
K2 == <<98, 99>>
Pairs == << <<K1, VText(<<120>>)>>, <<K2, VDecimal(N(300))>> >>
M(n) == VMap(SubSeq(Pairs, 1, n))
Sizes == IF Level = "stream" THEN {1} ELSE {0, 1, 2}

TagCounts == {[category |-> T(<<99>>), tagHash |-> Z8, tags |-> M(i), data |-> M(j)] : i \in Sizes, j \in Sizes}

LogSinks == {[category |-> T(<<>>), tagHash |-> h, tags |-> M(i), line |-> N(300), content |-> T(<<104, 105>>),
              fields |-> M(j)] : i \in Sizes, j \in Sizes, h \in {Z8, N(77)}}

TextRecs == <<[div |-> 1, hash |-> N(9), text |-> T(<<115>>)], [div |-> 255, hash |-> M1, text |-> T(<<>>)]>>
Texts == {[records |-> SubSeq(TextRecs, 1, n)] : n \in Sizes}

ParamRecs == <<[key |-> K1, value |-> VText(<<120>>)], [key |-> T(<<>>), value |-> M(1)]>>
Params == {[id |-> N(4), request |-> N(1), response |-> Z8, table |-> SubSeq(ParamRecs, 1, n)] : n \in Sizes}

AttrRecs == <<[k |-> K1, v |-> T(<<120>>)], [k |-> KeyEsca, v |-> T(<<63>>)]>>
Events == {[level |-> 20, title |-> T(<<116>>), message |-> T(<<>>), uuid |-> u, escalation |-> e,
            status |-> s, otype |-> N(1200), attrs |-> SubSeq(AttrRecs, 1, n)]
             : n \in (IF Level = "stream" THEN {2} ELSE Sizes), u \in {T(<<>>), T(<<117, 49>>)},
               e \in (IF Level = "stream" THEN {TRUE} ELSE BOOLEAN),
               s \in (IF Level = "stream" THEN {Z8} ELSE {Z8, Neg(N(35))})}

Zips == {[status |-> s, recordCount |-> N(2), records |-> r] : s \in (IF Level = "stream" THEN {1} ELSE {0, 1}), r \in {<<>>, <<1, 2, 3>>}}

HitMaps == {[cells |-> [i \in 1..HitMapCells |-> [hit |-> N(i * k), err |-> N(k)]] \o <<>>] : k \in (IF Level = "stream" THEN {546} ELSE {0, 546})}

\* ---- counter: every scalar gets a value from its position; the sections vary
PrimVal(op, i) ==
  CASE op = "Decimal" -> IF i % 3 = 0 THEN Z8 ELSE IF i % 3 = 1 THEN N(i * 1000) ELSE Neg(N(i))
    [] op = "Float"   -> <<63, 128, 0, i>>
    [] op \in {"Short", "Int"} -> N(i)
    [] op = "Byte"    -> i
PrimIdx == {i \in 1..Len(CounterInner) : CounterInner[i].k = "prim"}
CounterScalars == [n \in {CounterInner[i].n : i \in PrimIdx} |->
                     LET i == CHOOSE i \in PrimIdx : CounterInner[i].n = n IN PrimVal(CounterInner[i].op, i)]

TxItems == <<[key |-> N(1), time |-> N(10), count |-> N(2), error |-> Z8, actx |-> N(1)],
             [key |-> M1, time |-> N(70000), count |-> N(1), error |-> N(1), actx |-> Z8]>>
SqlItems == [i \in 1..2 |-> TxItems[i] @@ [fetchCount |-> N(i), fetchTime |-> N(300 * i)]]
GroupItems == [i \in 1..2 |-> [pcode |-> N(5 * i), okind |-> N(i - 1), time |-> N(3), count |-> N(1), error |-> Z8, actx |-> Z8]]
POidItems == [i \in 1..2 |-> [pcode |-> N(5 * i), oid |-> Neg(N(i)), time |-> N(3), count |-> N(1), error |-> Z8, actx |-> N(2)]]
IntInts == <<[key |-> N(1), val |-> N(2)], [key |-> N(300), val |-> Z8]>>
Shorts == <<[s |-> N(1)], [s |-> M1]>>

\* level of a section: 0 absent, 1 present and empty, 2 one entry, 3 two entries
Take(xs, lv) == SubSeq(xs, 1, IF lv <= 1 THEN 0 ELSE lv - 1)
Sect(lv, rec) == IF lv = 0 THEN <<>> ELSE <<rec>>
Secs == {"db", "net", "ws", "extra", "oid", "sql", "httpc", "group", "unknown", "poid", "slices"}
CounterWith(f) ==
  [dbOpt |-> Sect(f["db"], [active |-> Take(IntInts, f["db"]), idle |-> Take(IntInts, IF f["db"] = 3 THEN 2 ELSE f["db"])]),
   netstatOpt |-> Sect(f["net"], [est |-> N(1), finW |-> Z8, cloW |-> N(2), timW |-> N(300)]),
   websocketOpt |-> Sect(f["ws"], [count |-> N(1), in |-> N(70000), out |-> Z8]),
   extraOpt |-> Sect(f["extra"], [map |-> VIntMap(Take(<< <<N(1), VText(<<120>>)>>, <<M1, VDecimal(N(3))>> >>, f["extra"]))]),
   txcallerOidMeter |-> Sect(f["oid"], [items |-> Take(TxItems, f["oid"])]),
   sqlMeter |-> Sect(f["sql"], [items |-> Take(SqlItems, f["sql"])]),
   httpcMeter |-> Sect(f["httpc"], [items |-> Take(TxItems, f["httpc"])]),
   txcallerGroupMeter |-> Sect(f["group"], [items |-> Take(GroupItems, f["group"])]),
   txcallerUnknown |-> Sect(f["unknown"], [time |-> N(9), count |-> N(1), error |-> Z8, actx |-> N(1)]),
   txcallerPOidMeter |-> Take(POidItems, f["poid"]),
   actSvcSlice |-> Take(Shorts, f["slices"]),
   activeStat |-> Take(Shorts, IF f["slices"] = 0 THEN 3 ELSE 0)]
  @@ CounterScalars

Counters ==
  IF Level = "stream" THEN {CounterWith([s \in Secs |-> 2])}
  ELSE {CounterWith([s \in Secs |-> IF s = t THEN lv ELSE base]) : t \in Secs, lv \in 0..3, base \in {0, 2}}
       \cup (IF Level = "deep" THEN {CounterWith(f) : f \in [Secs -> {0, 2}]} ELSE {})

Bodies(kind) ==
  CASE kind = "tagcount" -> TagCounts
    [] kind = "logsink"  -> LogSinks
    [] kind = "text"     -> Texts
    [] kind = "param"    -> Params
    [] kind = "event"    -> Events
    [] kind = "zip"      -> Zips
    [] kind = "hitmap"   -> HitMaps
    [] kind = "counter"  -> Counters

Lics == IF Level = "stream" THEN {<<>>, <<120, 49>>} ELSE {<<120, 49, 45, 65>>}

MCSend == /\ Len(sent) < MaxFrames
          /\ \E kind \in Kinds : \E b \in Bodies(kind) : \E form \in Forms : \E lic \in Lics :
               /\ Send(kind, b @@ Hdr(form), lic)
               /\ hist' = Append(hist, <<kind, b @@ Hdr(form), lic>>)

MCNext == \/ MCSend
          \/ (Recv /\ UNCHANGED hist)
          \/ (Close /\ hist' = <<>>)

MCInit == Init /\ hist = <<>>
MCSpec == MCInit /\ [][MCNext]_mcvars

\* ---- laws of the message sent last (every message is the last one once) ----
LastKind == hist[Len(hist)][1]
LastPack == hist[Len(hist)][2]
LastLic  == hist[Len(hist)][3]
LastBody == PackBytes(LastKind, LastPack)
Fresh == Len(hist) > 0 /\ Len(got) = 0 /\ Len(sent) = Len(hist)     \* evaluated once per message

MsgFrame    == Fresh => FrameLaw(LastKind, LastPack, LastLic, sent[Len(sent)])
MsgDecodes  == Fresh => Decodes(LastKind, LastPack, LastBody)
MsgDelimits == Fresh => MsgSelfDelimits(LastKind, LastPack, LastBody)
MsgPrefixes == (Fresh /\ Len(LastBody) <= 120) => MsgPrefixesFail(LastBody)
MsgHeader   == Fresh => HeaderRule(LastKind, LastPack, LastBody)
MsgTagHash  == Fresh => TagHashCovers(LastKind, LastPack, LastBody)
MsgStable   == Fresh => Stable(LastKind, LastPack)
\* the counter body is one blob: a reader that does not know the counter can skip it
CounterSkippable == (Fresh /\ LastKind = "counter") =>
   Bind(DecHeader(LastBody, 3), LAMBDA h : h.ok /\ DX!DecBlobAt(LastBody, h.next).ok
                                           /\ DX!DecBlobAt(LastBody, h.next).next = Len(LastBody) + 1)
\* the restated hash is the function of Hashes (C15), on strings of every length class
HashTests == {<<>>, <<0>>, <<255>>, <<120, 49, 45, 65>>, [i \in 1..19 |-> (i * 37) % 256] \o <<>>,
              [i \in 1..64 |-> 255 - i] \o <<>>}
ASSUME \A t \in HashTests : Hash64(t) = H!Crc32Wide64(t)
\* the world really contains both header forms and both states of an optional section
HistOK == Len(hist) = Len(sent)
=============================================================================
