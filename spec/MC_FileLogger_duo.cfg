SPECIFICATION MCSpec
CONSTANTS Design = "repaired"
          MaxLogs = 2
          MaxCycles = 1
          MaxAdv = 1
          MaxReads = 0
          MaxExt = 0
          MaxFaults = 1
          MaxLoggers = 2
          MaxSwitch = 2
          Slim = TRUE
INVARIANTS LinesWholeInOrder FileNameRight RotatesAfterCycle SuppressedOnlyWithin RetentionExact ReadHonest NoFaultNoLoss SurvivorsSurvive OldRemoved Recovers
CHECK_DEADLOCK FALSE
