\* thorough: the same over more class boundaries and payload thresholds, every kind as a late write
SPECIFICATION KSpec
CONSTANTS MaxLen = 2
          BlobLens = {0, 1, 254, 255}
          KSet = {7, 31}
          LateOps = {"Bool", "Byte", "Short", "UShort", "UShortB", "Int3", "Int", "UInt", "Long5", "Long", "Float", "Double",
                     "Decimal", "Blob", "Text", "ShortBytes", "IntBytes", "TextShort", "Raw", "IntArr", "TextArr", "LongArr"}
INVARIANTS SizeOK ReadBack ExactConsumption NoStuck OutOK KComplete
PROPERTIES RdStable LateApart
CHECK_DEADLOCK FALSE
