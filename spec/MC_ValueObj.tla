---------------------------- MODULE MC_ValueObj -----------------------------
(***************************************************************************)
(* Exhaustive small-scope exploration of the value OBJECT machine (C02):   *)
(* every root of a small family (each container kind empty, nested two and *)
(* three deep, a scalar), every public mutator with arguments from a small *)
(* universe, called on EVERY node of the current content (every path), in  *)
(* every order up to MaxSteps calls, a write at any moment, going on with  *)
(* the object read back at any moment.  Checked on the design: the content *)
(* stays a well-formed value (keys unique, Put in place), every content    *)
(* round-trips and re-encodes identically in the reference format, and     *)
(* what a write produced is the encoding of the content of that moment.    *)
(* Read-only calls (Look) on any node at any moment are identity steps; the*)
(* results the content defines are accepted and altered ones refused.      *)
(***************************************************************************)
EXTENDS ValueObj, TLC

CONSTANT MaxSteps

VARIABLE steps
mcvars == <<ovars, steps>>

A == <<97>>
K1 == <<97>>
K2 == <<>>
N1 == NatW8(5)
N2 == Fill(8, 255)            \* -1

Roots == << VList(<<>>), VMap(<<>>), VIntMap(<<>>), VText(A), VIntArray(<<N1, N2>>),
            VList(<<VNull, VMap(<< <<K1, VList(<<VText(A)>>)>> >>)>>),
            VMap(<< <<K2, VDecimal(N1)>>, <<K1, VIntMap(<< <<N1, VList(<<>>)>> >>)>> >>),
            VIntMap(<< <<N2, VMap(<< <<K1, VBlob(A)>> >>)>> >>) >>

Vals == << VNull, VText(<<98>>), VList(<<>>), VMap(<< <<K2, VBool(TRUE)>> >>) >>

Seq2(f(_), s) == [i \in 1..Len(s) |-> f(s[i])]

\* one instance of every mutator the node has, over the small universe
OpsOf(x) ==
  IF x.t = TList THEN
       Seq2(LAMBDA v : [op |-> "Add", v |-> v], Vals)
    \o << [op |-> "AddString", s |-> A], [op |-> "AddLong", w |-> N2], [op |-> "Clear"] >>
    \o (IF Len(x.v) > 0 THEN << [op |-> "Set", i |-> 1, v |-> Vals[2]], [op |-> "Set", i |-> Len(x.v), v |-> Vals[3]] >> ELSE <<>>)
    \o (IF Len(x.v) = 0 THEN << [op |-> "Read", v |-> VList(<<VNull, VNull>>)] >> ELSE <<>>)
  ELSE IF x.t = TMap THEN
       Seq2(LAMBDA v : [op |-> "Put", k |-> K1, v |-> v], Vals)
    \o << [op |-> "Put", k |-> K2, v |-> Vals[3]], [op |-> "PutString", k |-> K2, s |-> A], [op |-> "PutLong", k |-> K1, w |-> N1],
          [op |-> "NewList", k |-> K1], [op |-> "NewList", k |-> K2], [op |-> "Clear"],
          [op |-> "PutAll", v |-> VMap(<< <<K2, VNull>>, <<K1, VText(A)>> >>)], [op |-> "PutAll", v |-> VMap(<<>>)] >>
    \o (IF Len(x.v) = 0 THEN << [op |-> "Read", v |-> VMap(<< <<K1, VNull>> >>)] >> ELSE <<>>)
  ELSE IF x.t = TIntMap THEN
       Seq2(LAMBDA v : [op |-> "Put", k |-> N1, v |-> v], Vals)
    \o << [op |-> "Put", k |-> N2, v |-> Vals[2]], [op |-> "PutString", k |-> N2, s |-> A], [op |-> "PutLong", k |-> N1, w |-> N1],
          [op |-> "NewList", k |-> N2], [op |-> "Clear"] >>
    \o (IF Len(x.v) = 0 THEN << [op |-> "Read", v |-> VIntMap(<< <<N2, VNull>> >>)] >> ELSE <<>>)
  ELSE IF x.t = TText THEN << [op |-> "SetVal", v |-> VText(<<>>)], [op |-> "Read", v |-> VText(<<98, 99>>)] >>
  ELSE IF x.t = TBlob THEN << [op |-> "SetVal", v |-> VBlob(<<>>)], [op |-> "SetElem", i |-> 1, x |-> 255] >>
  ELSE IF x.t = TIntArray THEN << [op |-> "SetVal", v |-> VIntArray(<<>>)], [op |-> "SetElem", i |-> Len(x.v), x |-> N1] >>
  ELSE IF x.t = TDecimal THEN << [op |-> "SetVal", v |-> VDecimal(N2)] >>
  ELSE <<>>

\* read-only calls on a node, with the results the content defines
LooksOf(x) ==
     << [op |-> "GetValueType", r |-> x.t], [op |-> "Write", r |-> EncBody(x)], [op |-> "WriteValue", r |-> EncValue(x)],
        [op |-> "Equals", with |-> "self", r |-> TRUE], [op |-> "Other", name |-> "ToString"],
        [op |-> "CompareTo", with |-> "node", path2 |-> <<>>, r |-> 1],
        [op |-> "CompareTo", with |-> "value", arg |-> Vals[4], after |-> Vals[4], r |-> 0 - 1] >>
  \o (IF x.t \in ContainerCodes THEN << [op |-> "Size", r |-> Len(x.v)] >> ELSE <<>>)
  \o (IF x.t = TList /\ Len(x.v) > 0
      THEN << [op |-> "Get", i |-> 1, r |-> [v |-> x.v[1]]], [op |-> "GetString", i |-> Len(x.v), r |-> IF x.v[Len(x.v)].t = TText THEN x.v[Len(x.v)].v ELSE <<>>],
              [op |-> "GetBool", i |-> 1, r |-> IF x.v[1].t = TBool THEN x.v[1].v ELSE FALSE] >> ELSE <<>>)
  \o (IF x.t = TMap
      THEN << [op |-> "IsEmpty", r |-> Len(x.v) = 0], [op |-> "ContainsKey", k |-> K1, r |-> KeyPos(x.v, K1) > 0],
              [op |-> "Keys", r |-> [j \in 1..Len(x.v) |-> x.v[j][1]]],
              [op |-> "Get", k |-> K2, r |-> IF KeyPos(x.v, K2) > 0 THEN [v |-> x.v[KeyPos(x.v, K2)][2]] ELSE [nil |-> TRUE]],
              [op |-> "GetLong", k |-> K2, r |-> IF KeyPos(x.v, K2) > 0 /\ x.v[KeyPos(x.v, K2)][2].t = TDecimal THEN x.v[KeyPos(x.v, K2)][2].v ELSE Fill(8, 0)],
              [op |-> "GetFloat", k |-> K1, r |-> Fill(4, 0)] >> ELSE <<>>)
  \o (IF x.t = TIntMap
      THEN << [op |-> "Keys", r |-> [j \in 1..Len(x.v) |-> x.v[j][1]]],
              [op |-> "Get", k |-> N1, r |-> IF KeyPos(x.v, N1) > 0 THEN [v |-> x.v[KeyPos(x.v, N1)][2]] ELSE [nil |-> TRUE]] >> ELSE <<>>)

\* the same calls reporting something else: each must be refused
WrongLooksOf(x) ==
     << [op |-> "GetValueType", r |-> x.t + 1], [op |-> "Write", r |-> EncBody(x) \o <<0>>], [op |-> "WriteValue", r |-> EncBody(x)],
        [op |-> "CompareTo", with |-> "value", arg |-> Vals[4], after |-> VMap(<<>>), r |-> 0],
        [op |-> "Equals", with |-> "node", path2 |-> << [i |-> 99] >>, r |-> TRUE] >>
  \o (IF x.t \in ContainerCodes THEN << [op |-> "Size", r |-> Len(x.v) + 1] >> ELSE <<>>)
  \o (IF x.t \in {TMap, TIntMap} /\ Len(x.v) > 0 THEN << [op |-> "Keys", r |-> [j \in 1..Len(x.v) |-> x.v[Len(x.v) + 1 - j][1]] \o <<x.v[1][1]>>] >> ELSE <<>>)
  \o (IF x.t = TList /\ Len(x.v) > 0 THEN << [op |-> "Get", i |-> 1, r |-> [nil |-> TRUE]] >> ELSE <<>>)

\* every path of the current content, the root first
RECURSIVE AllPaths(_), KidPaths(_, _)
StepOf(x, p) == IF x.t = TList THEN [i |-> p] ELSE [k |-> x.v[p][1]]
KidPaths(x, p) == IF p > Len(x.v) THEN <<>>
                  ELSE Bind(AllPaths(ChildAt(x, p)), LAMBDA sub : [j \in 1..Len(sub) |-> <<StepOf(x, p)>> \o sub[j]]) \o KidPaths(x, p + 1)
AllPaths(x) == << <<>> >> \o (IF x.t \in ContainerCodes THEN KidPaths(x, 1) ELSE <<>>)

MCInit == ObjInit /\ steps = 0

MCNext == \/ \E i \in 1..Len(Roots) : New(Roots[i]) /\ UNCHANGED steps
          \/ /\ cur # <<>> /\ steps < MaxSteps
             /\ \E ps \in {AllPaths(cur)} : \E j \in 1..Len(ps) :
                  \E os \in {OpsOf(NodeAt(cur, ps[j], 1))} : \E i \in 1..Len(os) : Mut(ps[j], os[i])
             /\ steps' = steps + 1
          \/ /\ cur # <<>> /\ steps = 0   \* a read-only call on any node of a root, before and after writes: no new state
             /\ \E ps \in {AllPaths(cur)} : \E j \in 1..Len(ps) :
                  \E os \in {LooksOf(NodeAt(cur, ps[j], 1))} : \E i \in 1..Len(os) : Look(ps[j], os[i])
             /\ UNCHANGED steps
          \/ nw <= steps /\ WriteObj /\ UNCHANGED steps       \* at most one write more than calls: bounded
          \/ Adopt /\ UNCHANGED steps

MCSpec == MCInit /\ [][MCNext]_mcvars

\* every mutator of the header is exercised, at the root and below it
ASSUME \A i \in 1..Len(Roots) : IsValue(Roots[i])
ASSUME \A i \in 1..Len(Roots) : \A j \in 1..Len(AllPaths(Roots[i])) :
          LET n == NodeAt(Roots[i], AllPaths(Roots[i])[j], 1) IN
            PathOK(Roots[i], AllPaths(Roots[i])[j], 1) /\ \A k \in 1..Len(OpsOf(n)) : OpOK(n, OpsOf(n)[k])
ASSUME LET all == UNION { UNION { {OpsOf(NodeAt(Roots[i], AllPaths(Roots[i])[j], 1))[k].op :
                                       k \in 1..Len(OpsOf(NodeAt(Roots[i], AllPaths(Roots[i])[j], 1)))} :
                                  j \in 1..Len(AllPaths(Roots[i]))} : i \in 1..Len(Roots)}
       IN all = {"Add", "AddString", "AddLong", "Set", "Clear", "Read", "Put", "PutString", "PutLong", "NewList", "PutAll", "SetVal", "SetElem"}
\* read-only calls: what the content defines is accepted, anything else is refused
ASSUME \A i \in 1..Len(Roots) : \A j \in 1..Len(AllPaths(Roots[i])) :
          LET n == NodeAt(Roots[i], AllPaths(Roots[i])[j], 1) IN
            /\ \A k \in 1..Len(LooksOf(n)) : LookSees(n, LooksOf(n)[k], Roots[i])
            /\ \A k \in 1..Len(WrongLooksOf(n)) : ~LookSees(n, WrongLooksOf(n)[k], Roots[i])
=============================================================================
