---------------------------- MODULE MC_ValueObj -----------------------------
(***************************************************************************)
(* Exhaustive small-scope exploration of the value OBJECT machine (C02):   *)
(* every root of a small family (each container kind empty, nested two and *)
(* three deep, a scalar), every public mutator with arguments from a small *)
(* universe, called on EVERY node of the current content (every path), in  *)
(* every order up to MaxSteps calls, a write at any moment, going on with  *)
(* the object read back at any moment.  Checked on the design: the content *)
(* stays a well-formed value (keys unique, Put in place), every content    *)
(* round-trips and re-encodes identically in the reference format, and     *)
(* what a write produced is the encoding of the content of that moment.    *)
(***************************************************************************)
EXTENDS ValueObj, TLC

CONSTANT MaxSteps

VARIABLE steps
mcvars == <<ovars, steps>>

A == <<97>>
K1 == <<97>>
K2 == <<>>
N1 == NatW8(5)
N2 == Fill(8, 255)            \* -1

Roots == << VList(<<>>), VMap(<<>>), VIntMap(<<>>), VText(A), VIntArray(<<N1, N2>>),
            VList(<<VNull, VMap(<< <<K1, VList(<<VText(A)>>)>> >>)>>),
            VMap(<< <<K2, VDecimal(N1)>>, <<K1, VIntMap(<< <<N1, VList(<<>>)>> >>)>> >>),
            VIntMap(<< <<N2, VMap(<< <<K1, VBlob(A)>> >>)>> >>) >>

Vals == << VNull, VText(<<98>>), VList(<<>>), VMap(<< <<K2, VBool(TRUE)>> >>) >>

Seq2(f(_), s) == [i \in 1..Len(s) |-> f(s[i])]

\* one instance of every mutator the node has, over the small universe
OpsOf(x) ==
  IF x.t = TList THEN
       Seq2(LAMBDA v : [op |-> "Add", v |-> v], Vals)
    \o << [op |-> "AddString", s |-> A], [op |-> "AddLong", w |-> N2], [op |-> "Clear"] >>
    \o (IF Len(x.v) > 0 THEN << [op |-> "Set", i |-> 1, v |-> Vals[2]], [op |-> "Set", i |-> Len(x.v), v |-> Vals[3]] >> ELSE <<>>)
    \o (IF Len(x.v) = 0 THEN << [op |-> "Read", v |-> VList(<<VNull, VNull>>)] >> ELSE <<>>)
  ELSE IF x.t = TMap THEN
       Seq2(LAMBDA v : [op |-> "Put", k |-> K1, v |-> v], Vals)
    \o << [op |-> "Put", k |-> K2, v |-> Vals[3]], [op |-> "PutString", k |-> K2, s |-> A], [op |-> "PutLong", k |-> K1, w |-> N1],
          [op |-> "NewList", k |-> K1], [op |-> "NewList", k |-> K2], [op |-> "Clear"],
          [op |-> "PutAll", v |-> VMap(<< <<K2, VNull>>, <<K1, VText(A)>> >>)], [op |-> "PutAll", v |-> VMap(<<>>)] >>
    \o (IF Len(x.v) = 0 THEN << [op |-> "Read", v |-> VMap(<< <<K1, VNull>> >>)] >> ELSE <<>>)
  ELSE IF x.t = TIntMap THEN
       Seq2(LAMBDA v : [op |-> "Put", k |-> N1, v |-> v], Vals)
    \o << [op |-> "Put", k |-> N2, v |-> Vals[2]], [op |-> "PutString", k |-> N2, s |-> A], [op |-> "PutLong", k |-> N1, w |-> N1],
          [op |-> "NewList", k |-> N2], [op |-> "Clear"] >>
    \o (IF Len(x.v) = 0 THEN << [op |-> "Read", v |-> VIntMap(<< <<N2, VNull>> >>)] >> ELSE <<>>)
  ELSE IF x.t = TText THEN << [op |-> "SetVal", v |-> VText(<<>>)], [op |-> "Read", v |-> VText(<<98, 99>>)] >>
  ELSE IF x.t = TBlob THEN << [op |-> "SetVal", v |-> VBlob(<<>>)], [op |-> "SetElem", i |-> 1, x |-> 255] >>
  ELSE IF x.t = TIntArray THEN << [op |-> "SetVal", v |-> VIntArray(<<>>)], [op |-> "SetElem", i |-> Len(x.v), x |-> N1] >>
  ELSE IF x.t = TDecimal THEN << [op |-> "SetVal", v |-> VDecimal(N2)] >>
  ELSE <<>>

\* every path of the current content, the root first
RECURSIVE AllPaths(_), KidPaths(_, _)
StepOf(x, p) == IF x.t = TList THEN [i |-> p] ELSE [k |-> x.v[p][1]]
KidPaths(x, p) == IF p > Len(x.v) THEN <<>>
                  ELSE Bind(AllPaths(ChildAt(x, p)), LAMBDA sub : [j \in 1..Len(sub) |-> <<StepOf(x, p)>> \o sub[j]]) \o KidPaths(x, p + 1)
AllPaths(x) == << <<>> >> \o (IF x.t \in ContainerCodes THEN KidPaths(x, 1) ELSE <<>>)

MCInit == ObjInit /\ steps = 0

MCNext == \/ \E i \in 1..Len(Roots) : New(Roots[i]) /\ UNCHANGED steps
          \/ /\ cur # <<>> /\ steps < MaxSteps
             /\ \E ps \in {AllPaths(cur)} : \E j \in 1..Len(ps) :
                  \E os \in {OpsOf(NodeAt(cur, ps[j], 1))} : \E i \in 1..Len(os) : Mut(ps[j], os[i])
             /\ steps' = steps + 1
          \/ nw <= steps /\ WriteObj /\ UNCHANGED steps       \* at most one write more than calls: bounded
          \/ Adopt /\ UNCHANGED steps

MCSpec == MCInit /\ [][MCNext]_mcvars

\* every mutator of the header is exercised, at the root and below it
ASSUME \A i \in 1..Len(Roots) : IsValue(Roots[i])
ASSUME \A i \in 1..Len(Roots) : \A j \in 1..Len(AllPaths(Roots[i])) :
          LET n == NodeAt(Roots[i], AllPaths(Roots[i])[j], 1) IN
            PathOK(Roots[i], AllPaths(Roots[i])[j], 1) /\ \A k \in 1..Len(OpsOf(n)) : OpOK(n, OpsOf(n)[k])
ASSUME LET all == UNION { UNION { {OpsOf(NodeAt(Roots[i], AllPaths(Roots[i])[j], 1))[k].op :
                                       k \in 1..Len(OpsOf(NodeAt(Roots[i], AllPaths(Roots[i])[j], 1)))} :
                                  j \in 1..Len(AllPaths(Roots[i]))} : i \in 1..Len(Roots)}
       IN all = {"Add", "AddString", "AddLong", "Set", "Clear", "Read", "Put", "PutString", "PutLong", "NewList", "PutAll", "SetVal", "SetElem"}
=============================================================================
