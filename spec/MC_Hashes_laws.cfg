SPECIFICATION LawSpec
CONSTANTS Rad = 3
          StrLens = {0, 1, 2, 3, 4, 5, 6, 7, 8, 9, 15, 16, 17}
          NCalls = 0
INVARIANTS Law
CHECK_DEADLOCK FALSE
