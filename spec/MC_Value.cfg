SPECIFICATION MCSpec
CONSTANTS SmallN = 2
          MaxLen = 2
INVARIANTS ReadBack ExactConsumption AllConsumed WireOK ReEncodeIdentical NoStuck TagFirst SelfDelimiting Truncated Complete RTisComposition
CHECK_DEADLOCK FALSE
