SPECIFICATION MCSpec
CONSTANTS MaxDepth = 2
          SmallN = 3
          MaxLen = 2
INVARIANTS ReadBack ExactConsumption AllConsumed ReEncodeIdentical NoStuck TagFirst SelfDelimiting Truncated UnknownTag Complete
CHECK_DEADLOCK FALSE
