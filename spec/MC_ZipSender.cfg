SPECIFICATION MCSpec
CONSTANTS Design = "copy"
          StopPolicy = "drain"
          Modes = {"queue"}
          NRec = 3
          Sizes = {1, 60, 200}
          Times = {1, 7}
          MaxBufs = {0, 100}
          MaxWaits = {5}
          ZipMins = {0, 100}
          QCaps = {2}
          Keeps = {TRUE}
          Gates = {FALSE, TRUE}
          MaxDirect = 0
          Reconfig = FALSE
          EarlyFlush = FALSE
          WithDefaults = TRUE
INVARIANTS ExactlyOnceInOrder CountMatches Decodable ZipIff DefaultsInForce HandedOverIsImmutable
PROPERTIES FlushWhenDue
CHECK_DEADLOCK FALSE
