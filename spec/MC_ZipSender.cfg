SPECIFICATION MCSpec
CONSTANTS Design = "copy"
          StopPolicy = "drain"
          Modes = {"queue"}
          NRec = 3
          Sizes = {1, 60, 200}
          Times = {1, 7}
          MaxBufs = {0, 100}
          MaxWaits = {5}
          ZipMins = {0, 100}
          QCaps = {1}
          Keeps = {TRUE}
          Gates = {FALSE}
          MaxDirect = 0
          Reconfig = FALSE
INVARIANTS ExactlyOnceInOrder CountMatches Decodable ZipIff DefaultsInForce HandedOverIsImmutable
PROPERTIES FlushWhenDue
CHECK_DEADLOCK FALSE
