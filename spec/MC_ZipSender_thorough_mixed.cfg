SPECIFICATION MCSpec
CONSTANTS Design = "copy"
          StopPolicy = "drain"
          Creation = "defaults"
          Modes = {"queue"}
          NRec = 3
          Sizes = {1, 200}
          Times = {1, 7}
          MaxBufs = {0, 100}
          MaxWaits = {5}
          ZipMins = {0, 100}
          QCaps = {2}
          Keeps = {TRUE}
          MaxDirect = 2
          Reconfig = 0
          EarlyFlush = FALSE
          WithDefaults = TRUE
          Bad = TRUE
          CtxKinds = {"ctx", "both"}
          IdleSlack = 0
          MinPeriod = 1
INVARIANTS ExactlyOnceInOrder CountMatches Decodable ZipIff DefaultsInForce HandedOverIsImmutable IdleWaitBounded
PROPERTIES FlushWhenDue
CHECK_DEADLOCK FALSE
