----------------------------- MODULE MC_Profile -----------------------------
(***************************************************************************)
(* Exhaustive exploration of the Profile design for small constants: every *)
(* stream of at most MaxLen items over a candidate set (Cands selects it), *)
(* written by the reference writer and read back by the reference reader.  *)
(* Checks that the reference format itself has the property: items come    *)
(* back equal and in order (ReadBack), each read advances the cursor by    *)
(* exactly the item's own length wherever the item stands (CursorExact),   *)
(* optional sections are restored exactly when present (inside Restored),  *)
(* a transaction record comes back as its normal form (TxNormalize), the   *)
(* reader never gets stuck on a well-formed stream and consumes all of it. *)
(* With MaxKeep > 0: several streams are encoded one after the other, each *)
(* handed back and kept by the caller, and decoded only afterwards, in any *)
(* order: a kept stream still is the concatenation of its own items        *)
(* (KeptIntact) and reads back like a stream decoded at once; an encoder   *)
(* that hands back views of one buffer it uses again (Encoder = "pooled")  *)
(* is refuted.                                                             *)
(*                                                                         *)
(* Cands = "steps": three step kinds with variable lengths (a fixed-layout *)
(*   step, the versioned HTTP-call step, the message step with optional    *)
(*   attributes) plus the flag-selected SqlStep_3 body;                    *)
(* Cands = "abstract3": one candidate pair per kind of the three (the      *)
(*   smallest set in which a length disagreement can hide);                *)
(* Cands = "lengths3": three steps of three different lengths (used with    *)
(*   MaxKeep > 0);                                                         *)
(* Cands = "records": every combination of the optional groups of a        *)
(*   transaction record, and the service records.                          *)
(***************************************************************************)
EXTENDS Profile, TLC

CONSTANTS MaxLen, Cands,
          Reader,     \* "ref": the reference reader; "always_attr": the reader golib had, which always expects an
                      \* attribute map at the end of a message step (a named deviation, refuted by NoStuck)
          MaxKeep,    \* how many encoded streams the caller may put aside before it reads them (0: one stream at a time)
          Encoder     \* "fresh": every encoded stream is handed back in memory of its own; "pooled": the encoder hands
                      \* back a view of ONE buffer it uses again for the next stream (a named deviation, refuted by KeptIntact)

N(n) == LN(n)
T(bs) == LS(bs)
Neg1 == LI(Fill(8, 255))

\* records are built by overriding a zero record of the kind
Zero(names, leaf) == [f \in names |-> leaf]
StepBase == Zero({"Parent", "Index", "StartTime"}, N(0))

Dbc(hash) == Merge(Merge(StepBase, Zero({"Elapsed", "Error"}, N(0))), [Hash |-> hash])

HttpcZero == Merge(Merge(StepBase, Zero({"Version", "Url", "Elapsed", "Error", "Host", "Port", "Status", "StartCpu", "StartMem", "StepId"}, N(0))),
                   [Stack |-> LA(<<>>), Driver |-> T(<<>>), OriginUrl |-> T(<<>>), Param |-> T(<<>>)])
Httpc(ver, rich) == Merge(HttpcZero,
                      IF rich THEN [Version |-> N(ver), StepId |-> N(300), Driver |-> T(<<97, 98>>), Param |-> T(<<1>>), Stack |-> LA(<<W8(1)>>), Index |-> Neg1]
                      ELSE [Version |-> N(ver)])

OnePair == << <<<<107>>, VText(<<118>>)>> >>
TwoPair == << <<<<107>>, VBool(TRUE)>>, <<<<>>, VMap(OnePair)>> >>
MsgX(title, attr) == Merge(StepBase, [Title |-> T(title), Desc |-> T(<<>>), Ctr |-> N(1), Attr |-> attr])

Sql3(opt) == Merge(Merge(StepBase, Zero({"Hash", "Elapsed", "Error", "Xtype", "Updated", "Crud", "Dbc", "Pcrc", "StartCpu", "Cpu", "StartMem", "Mem"}, N(1))),
                   [Opt |-> N(opt), P1 |-> T(<<1>>), P2 |-> T(<<>>), Stack |-> LA(<<W8(7)>>)])

TxZero == Merge(Zero(TxFields \ {"Active", "Fields", "Uuid", "OriginUrl"}, N(0)),
                [Active |-> LB(FALSE), Fields |-> LM(FALSE, <<>>), Uuid |-> T(<<>>), OriginUrl |-> T(<<>>)])
Tx(mtid, mdepth, pcode, oid, fields, err, level) ==
  Merge(TxZero, [Mtid |-> mtid, Mdepth |-> mdepth, Mcaller |-> mdepth, McallerPcode |-> pcode, McallerOid |-> oid, MthisSpec |-> oid,
                 Fields |-> fields, Error |-> err, ErrorLevel |-> level, Txid |-> Neg1])

SvcZero == Merge(Zero({"Seq", "EndTime", "Service", "Elapsed", "Error", "CpuTime", "SqlCount", "SqlTime", "SqlFetchCount", "SqlFetchTime",
                       "Malloc", "HttpcCount", "HttpcTime", "Steps_data_pos"}, N(0)), [Active |-> LB(TRUE)])
WasZero == Merge(SvcZero, Zero({"IpAddr", "WClientId", "UserAgent", "Referer", "Status", "Mtid", "Mdepth", "Mcaller"}, N(0)))

Cand(fam, kind, w) == [fam |-> fam, kind |-> kind, w |-> w]
SetToSeq(S) == CHOOSE s \in [1..Cardinality(S) -> S] : \A i, j \in 1..Cardinality(S) : s[i] = s[j] => i = j

\* candidates are kept in SEQUENCES (records of different shapes never meet in one TLC set)
StepCands ==
     << Cand("step", "DBCStep", Dbc(N(0))), Cand("step", "DBCStep", Dbc(N(300))) >>
  \o [i \in 1..8 |-> Cand("step", "HttpcStepX", Httpc(<<0, 1, 2, 3>>[((i - 1) % 4) + 1], i > 4))]
  \o << Cand("step", "MessageStepX", MsgX(<<>>, LM(FALSE, <<>>))), Cand("step", "MessageStepX", MsgX(<<116>>, LM(FALSE, <<>>))),
        Cand("step", "MessageStepX", MsgX(<<>>, LM(TRUE, <<>>))),  Cand("step", "MessageStepX", MsgX(<<116>>, LM(TRUE, OnePair))),
        Cand("step", "MessageStepX", MsgX(<<>>, LM(TRUE, TwoPair))) >>
  \o [i \in 1..9 |-> Cand("bare", "SqlStep_3", Sql3(<<0, 1, 2, 3, 4, 5, 6, 7, 9>>[i]))]

Abstract3 ==
  << Cand("step", "DBCStep", Dbc(N(0))), Cand("step", "DBCStep", Dbc(N(300))),
     Cand("step", "HttpcStepX", Httpc(1, FALSE)), Cand("step", "HttpcStepX", Httpc(2, TRUE)),
     Cand("step", "MessageStepX", MsgX(<<>>, LM(FALSE, <<>>))), Cand("step", "MessageStepX", MsgX(<<116>>, LM(TRUE, OnePair))) >>

\* three steps of three different lengths (enough for one encoded stream to be laid over another)
Lengths3 ==
  << Cand("step", "DBCStep", Dbc(N(300))), Cand("step", "HttpcStepX", Httpc(2, TRUE)),
     Cand("step", "MessageStepX", MsgX(<<116>>, LM(TRUE, OnePair))) >>

Errs == << <<N(0), N(0)>>, <<N(1), N(0)>>, <<Neg1, N(0)>>, <<N(1), N(30)>>, <<N(0), N(10)>> >>
FieldForms == << LM(FALSE, <<>>), LM(TRUE, <<>>), LM(TRUE, OnePair) >>
TxCands ==
  [i \in 1..(2 * 2 * 2 * 2 * 3 * 5) |->
     LET a == (i - 1) % 2
         b == ((i - 1) \div 2) % 2
         c == ((i - 1) \div 4) % 2
         d == ((i - 1) \div 8) % 2
         e == ((i - 1) \div 16) % 3
         g == ((i - 1) \div 48) % 5
     IN Cand("tx", "TxRecord", Tx(IF a = 1 THEN Neg1 ELSE N(0), N(3 * b), N(7 * c), N(9 * d), FieldForms[e + 1], Errs[g + 1][1], Errs[g + 1][2]))]
SvcCands == << Cand("service", "AppService", SvcZero), Cand("service", "WasService", Merge(WasZero, [Mtid |-> Neg1])),
               Cand("service", "WasService2", Merge(WasZero, [Mdepth |-> N(300)])) >>

CandSeq == IF Cands = "steps" THEN StepCands
           ELSE IF Cands = "abstract3" THEN Abstract3
           ELSE IF Cands = "lengths3" THEN Lengths3
           ELSE TxCands \o SvcCands

ASSUME RegistryFunctional
ASSUME TxFieldsOK

MCWrite(c) == \E bs \in {EncItemBytes(c.fam, c.kind, c.w)} :          \* bound once, by value
                Write(c.fam, c.kind, TagOfKind(c.fam, c.kind), c.w, SpecCarried(c.kind, c.w), bs)
NextItem == items[Len(rd) + 1]
\* does the modelled reader get through the item the reference reader decoded as d?
ReaderOk(d) == d.ok /\ (Reader = "always_attr" => ~(d.kind = "MessageStepX" /\ ~d.r.Attr.has))
MCRead == /\ Len(rd) < Len(items)
          /\ \E d \in {DecItemAt(NextItem.fam, NextItem.kind, stream, cursor + 1)} :
               /\ ReaderOk(d)
               /\ Read(d.kind, d.r, d.next - 1)

\* ---- outputs handed back and kept (MaxKeep > 0) ------------------------------
\* first MaxKeep streams are written and handed back one after the other (the caller keeps them all), then the kept
\* streams are taken up again in any order, any number of times, and read.
Writing == MaxKeep = 0 \/ Len(shelf) < MaxKeep
\* ToBytesStep returned: the stream is handed back.  The pooled encoder has written it into the one buffer all the views
\* it handed back before look into (a view keeps its length).
Overlay(old, new) == [i \in 1..Len(old) |-> IF i <= Len(new) THEN new[i] ELSE old[i]]
MCKeep ==
  /\ MaxKeep > 0 /\ Writing
  /\ IF Encoder = "fresh" THEN Keep
     ELSE /\ items # <<>> /\ rd = <<>>
          /\ shelf' = Append([h \in DOMAIN shelf |-> [shelf[h] EXCEPT !.stream = Overlay(@, stream)]],
                             [stream |-> stream, items |-> items])
          /\ stream' = <<>> /\ items' = <<>> /\ cursor' = 0
          /\ UNCHANGED <<rd, objs>>
\* the caller takes a kept stream up again, whatever it holds by now, and has it decoded
MCPeek == /\ MaxKeep > 0 /\ ~Writing
          /\ \E h \in DOMAIN shelf : Peek(h, shelf[h].stream)

MCNext == \/ \E i \in DOMAIN CandSeq : Writing /\ Len(items) < MaxLen /\ MCWrite(CandSeq[i])
          \/ (MaxKeep = 0 \/ ~Writing) /\ MCRead
          \/ MCKeep
          \/ MCPeek

\* objs only grows: bound the number of reads (every order of taking up the kept streams is still explored)
Bounded == Len(objs) <= (IF MaxKeep = 0 THEN 1 ELSE MaxKeep) * MaxLen

MCSpec == Init /\ [][MCNext]_vars

\* the reader can always continue on a well-formed stream
NoStuck == Len(rd) < Len(items) => ReaderOk(DecItemAt(NextItem.fam, NextItem.kind, stream, cursor + 1))
\* the reference reader returns exactly the normal form: nothing but the fields of the format
ExactNormalForm == \A i \in 1..Len(rd) :
   LET n == Normalize(items[i].kind, items[i].w) IN
   /\ DOMAIN rd[i].r \subseteq DOMAIN items[i].w
   /\ \A f \in DOMAIN items[i].w : IF f \in DOMAIN rd[i].r THEN SameLeaf(rd[i].r[f], n[f]) ELSE IsDefault(n[f])
\* what was handed back stays the concatenation of its own items while other streams are encoded
KeptIntact == \A h \in DOMAIN shelf :
   shelf[h].stream = Concat([i \in DOMAIN shelf[h].items |->
                               EncItemBytes(shelf[h].items[i].fam, shelf[h].items[i].kind, shelf[h].items[i].w)])
\* a step decodes the same whatever follows it
SelfDelimiting == \A i \in 1..Len(items) :
   LET it == items[i]
       e  == EncItemBytes(it.fam, it.kind, it.w)
       d  == DecItemAt(it.fam, it.kind, e \o <<7, 0, 255>>, 1)
   IN it.fam # "bare" => d.ok /\ d.next = Len(e) + 1 /\ Restored(it, d.r)
=============================================================================
