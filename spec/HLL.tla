-------------------------------- MODULE HLL ---------------------------------
(***************************************************************************)
(* C14 -- HyperLogLog counters of golib (util/hll).                        *)
(*                                                                         *)
(* Written from the algorithm (Flajolet et al. 2007, as packaged by        *)
(* stream-lib): a counter of precision p has m = 2^p registers; an item    *)
(* with 32-bit hash h updates register idx = the leading p bits of h to    *)
(* the maximum of its old value and rank = 1 + the number of leading zeros *)
(* of the remaining 32-p bits (all zero: 32-p+1).  The state is therefore  *)
(* a function of the SET of items seen; merging is the pointwise maximum.  *)
(*                                                                         *)
(* Representation: a hash is a 4-byte tuple (most significant first); the  *)
(* register file is SPARSE: a function from the touched indices to their   *)
(* (non-zero) rank, untouched registers are 0.  For model checking an item *)
(* may also be an abstract pair <<idx, rank>> (see IR).                    *)
(***************************************************************************)
EXTENDS Bytes, TLC

Precisions == 1..16              \* what Idx/Rest below can split (the property ranges over 4..16)
MaxRank(p) == 32 - p + 1

Hi16(h) == h[1] * 256 + h[2]
Lo16(h) == h[3] * 256 + h[4]
\* the leading p bits of the hash
Idx(p, h) == Hi16(h) \div (2 ^ (16 - p))
\* the remaining 32-p bits as a number (< 2^(32-p) <= 2^31 for p >= 1)
Rest(p, h) == (Hi16(h) % (2 ^ (16 - p))) * 65536 + Lo16(h)
\* number of significant bits of x (0 for 0), x < 2^(32-p)
BitLen(p, x) == CHOOSE k \in 0..(32 - p) : (k = 32 - p \/ x < 2 ^ k) /\ (k = 0 \/ x >= 2 ^ (k - 1))
\* 1 + leading zeros of the (32-p)-bit remainder
Rank(p, h) == (32 - p) - BitLen(p, Rest(p, h)) + 1

\* <<idx, rank>> of an item: a concrete hash (4 bytes) or an abstract pair
IR(p, it) == IF Len(it) = 4 THEN <<Idx(p, it), Rank(p, it)>> ELSE it

Max2(a, b) == IF a >= b THEN a ELSE b
SetMax(S) == CHOOSE x \in S : \A y \in S : y <= x

\* ---- the register file ---------------------------------------------------
NoRegs == <<>>                   \* the function with empty domain
RegGet(reg, i) == IF i \in DOMAIN reg THEN reg[i] ELSE 0
RegPut(reg, i, r) == IF i \in DOMAIN reg THEN [reg EXCEPT ![i] = r] ELSE reg @@ (i :> r)
OfferReg(reg, i, r) == IF r > RegGet(reg, i) THEN RegPut(reg, i, r) ELSE reg
MergeReg(a, b) == [i \in (DOMAIN a) \cup (DOMAIN b) |-> Max2(RegGet(a, i), RegGet(b, i))]
\* the register file of a SET of <<idx, rank>> pairs
RegOf(S) == [i \in {s[1] : s \in S} |-> SetMax({s[2] : s \in {t \in S : t[1] = i}})]

RECURSIVE MergeAll(_, _)
MergeAll(regs, acc) == IF regs = <<>> THEN acc ELSE MergeAll(Tail(regs), MergeReg(acc, Head(regs)))

\* ---- byte form: precision, word count, words of six 5-bit registers ------
NWords(p) == ((2 ^ p) + 5) \div 6
WordVal(reg, w) == RegGet(reg, 6 * w) + 32 * RegGet(reg, 6 * w + 1) + 1024 * RegGet(reg, 6 * w + 2)
                   + 32768 * RegGet(reg, 6 * w + 3) + 1048576 * RegGet(reg, 6 * w + 4)
                   + 33554432 * RegGet(reg, 6 * w + 5)
EncHLL(p, reg) ==
  NatToBytes(p, 4) \o NatToBytes(NWords(p), 4) \o
  [k \in 1..(4 * NWords(p)) |-> NatToBytes(WordVal(reg, (k - 1) \div 4), 4)[((k - 1) % 4) + 1]]
\* the same bytes, sparsely: the non-zero words as <<word index, high 16 bits, low 16 bits>>
NZWords(reg) == {Bind(WordVal(reg, w), LAMBDA v : <<w, v \div 65536, v % 65536>>) : w \in {i \div 6 : i \in DOMAIN reg}}
HeaderOf(p) == NatToBytes(p, 4) \o NatToBytes(NWords(p), 4)
ByteLen(p) == 8 + 4 * NWords(p)

\* decoder of the byte form (well-formed input: the words hold 5-bit registers below bit 30)
DecHLL(bs) ==
  LET p == BytesToNat(SubSeq(bs, 1, 4))
      n == BytesToNat(SubSeq(bs, 5, 8))
      word(w) == BytesToNat(SubSeq(bs, 9 + 4 * w, 12 + 4 * w))
      val(i) == (word(i \div 6) \div (32 ^ (i % 6))) % 32
      touched == {i \in 0..((2 ^ p) - 1) : val(i) > 0}
  IN [p |-> p, nwords |-> n, reg |-> [i \in touched |-> val(i)]]

\* ---- the estimate's error bound, in integers -----------------------------
\* |est - n| <= 2 + n/32 + K(p) * 1.04 * n / sqrt(m)
\*   1.04/sqrt(m): the algorithm's standard error; K: the "small multiple"
\*   (12 for m < 128 where the estimator's distribution is strongly skewed, 8 above);
\*   n/32: the known systematic bias of the uncorrected estimator around the switch
\*   from linear counting to the raw estimate (n ~ 2.5 m); 2: rounding / small sets.
\* Small sets (n <= m/10, the linear-counting range: the answer is m ln(m/V), V the
\* number of empty registers, whose standard error is about 0.75 n / sqrt(m) there):
\*   |est - n| <= 2 + 8 * 0.75 * n / sqrt(m)      (<= 2 + 1.9 sqrt(n): near exact)
Sqrt10 == [p \in 4..16 |-> CASE p = 4 -> 40 [] p = 5 -> 57 [] p = 6 -> 80 [] p = 7 -> 113 [] p = 8 -> 160
                              [] p = 9 -> 226 [] p = 10 -> 320 [] p = 11 -> 453 [] p = 12 -> 640
                              [] p = 13 -> 905 [] p = 14 -> 1280 [] p = 15 -> 1810 [] p = 16 -> 2560]
KMult(p) == IF p <= 6 THEN 12 ELSE 8
Abs(x) == IF x < 0 THEN -x ELSE x
\* n <= 5 * 2^16, est saturated by the recorder at 2^30; every product below stays < 2^31
EstOK(p, n, est) ==
  LET d == Abs(est - n) IN
    /\ est >= 0 /\ n >= 0
    /\ d <= 4 * n + 8
    /\ (p >= 8 => d <= n + 8)
    \* d * S <= R  <=>  d <= R \div S for naturals: written without a product of d so that a wildly wrong
    \* estimate is a disabled step, not a 32-bit overflow inside TLC
    /\ d <= (((KMult(p) * 104 * n) \div 10) + (2 + ((n + 31) \div 32)) * Sqrt10[p]) \div Sqrt10[p]
    /\ (10 * n <= 2 ^ p => d <= (60 * n + 2 * Sqrt10[p]) \div Sqrt10[p])
    /\ (n = 0 => est = 0)

(***************************************************************************)
(* The counters of one history.                                            *)
(***************************************************************************)
VARIABLES ctr,      \* id -> [p, reg]
          seen,     \* id -> set of items offered (directly or through merges)
          lastEst,  \* id -> [reg, est]: estimates reported so far
          snap      \* snapshot id -> [st, seen]: byte forms a caller obtained and KEEPS; a byte form
                    \* describes the counter at the moment it was taken, whatever the counter does later

vars == <<ctr, seen, lastEst, snap>>

Init == ctr = <<>> /\ seen = <<>> /\ lastEst = <<>> /\ snap = <<>>

Ids == DOMAIN ctr

New(c, p) ==
  /\ c \notin Ids /\ p \in Precisions
  /\ ctr' = ctr @@ (c :> [p |-> p, reg |-> NoRegs])
  /\ seen' = seen @@ (c :> {})
  /\ UNCHANGED <<lastEst, snap>>

\* what Offer returns: did the register grow
OfferResult(c, it) == LET ir == IR(ctr[c].p, it) IN ir[2] > RegGet(ctr[c].reg, ir[1])

Offer(c, it) ==
  /\ c \in Ids
  /\ LET ir == IR(ctr[c].p, it) IN
       ctr' = [ctr EXCEPT ![c].reg = OfferReg(@, ir[1], ir[2])]
  /\ seen' = [seen EXCEPT ![c] = @ \cup {it}]
  /\ UNCHANGED <<lastEst, snap>>

\* c.Merge(others...) builds a NEW counter d; c and the others keep their state
Merge(c, others, d) ==
  /\ c \in Ids /\ d \notin Ids
  /\ \A k \in 1..Len(others) : others[k] \in Ids /\ ctr[others[k]].p = ctr[c].p
  /\ ctr' = ctr @@ (d :> [p |-> ctr[c].p,
                          reg |-> MergeAll([k \in 1..Len(others) |-> ctr[others[k]].reg], ctr[c].reg)])
  /\ seen' = seen @@ (d :> seen[c] \cup UNION {seen[others[k]] : k \in 1..Len(others)})
  /\ UNCHANGED <<lastEst, snap>>

\* c.AddAll(o): in-place merge into c; o keeps its state
AddAll(c, o) ==
  /\ c \in Ids /\ o \in Ids /\ ctr[c].p = ctr[o].p
  /\ ctr' = [ctr EXCEPT ![c].reg = MergeReg(@, ctr[o].reg)]
  /\ seen' = [seen EXCEPT ![c] = @ \cup seen[o]]
  /\ UNCHANGED <<lastEst, snap>>

\* d = Build(Bytes(c)): a new counter with the same state (RoundTrip below says
\* that decoding the byte form of a counter yields exactly that counter)
Build(d, c) ==
  /\ c \in Ids /\ d \notin Ids
  /\ ctr' = ctr @@ (d :> ctr[c])
  /\ seen' = seen @@ (d :> seen[c])
  /\ UNCHANGED <<lastEst, snap>>

\* s = the byte form GetBytes(c) returned, kept by the caller: a value, frozen from now on
Snap(s, c) ==
  /\ c \in Ids /\ s \notin DOMAIN snap
  /\ snap' = snap @@ (s :> [st |-> ctr[c], seen |-> seen[c]])
  /\ UNCHANGED <<ctr, seen, lastEst>>

\* d = Build(kept byte form s): a new counter in the state the serialised counter had WHEN s was taken
BuildSnap(d, s) ==
  /\ s \in DOMAIN snap /\ d \notin Ids
  /\ ctr' = ctr @@ (d :> snap[s].st)
  /\ seen' = seen @@ (d :> snap[s].seen)
  /\ UNCHANGED <<lastEst, snap>>

\* an estimate is a function of the state and within the error bound of the
\* number of distinct items seen
Est(c, e) ==
  /\ c \in Ids
  /\ EstOK(ctr[c].p, Cardinality(seen[c]), e)
  /\ \A d \in DOMAIN lastEst :
        (d \in Ids /\ ctr[d].p = ctr[c].p /\ lastEst[d].reg = ctr[c].reg) => lastEst[d].est = e
  /\ lastEst' = IF c \in DOMAIN lastEst THEN [lastEst EXCEPT ![c] = [reg |-> ctr[c].reg, est |-> e]]
                ELSE lastEst @@ (c :> [reg |-> ctr[c].reg, est |-> e])
  /\ UNCHANGED <<ctr, seen, snap>>

\* ---- properties ----------------------------------------------------------
TypeOK == \A c \in Ids :
            /\ ctr[c].p \in Precisions
            /\ \A i \in DOMAIN ctr[c].reg : /\ i \in 0..((2 ^ ctr[c].p) - 1)
                                            /\ ctr[c].reg[i] \in 1..MaxRank(ctr[c].p)

\* the state depends only on the SET of items offered
SetOnlyAt(c) == ctr[c].reg = RegOf({IR(ctr[c].p, it) : it \in seen[c]})
SetOnly == \A c \in Ids : SetOnlyAt(c)

\* serialise then rebuild gives the same counter
RoundTripAt(c) == LET d == DecHLL(EncHLL(ctr[c].p, ctr[c].reg)) IN
                    d.p = ctr[c].p /\ d.reg = ctr[c].reg /\ d.nwords = NWords(ctr[c].p)
RoundTrip == \A c \in Ids : RoundTripAt(c)

\* a kept byte form never changes (no action but Snap touches snap, and Snap only adds), it is the
\* state of the set seen up to then, and it decodes back
SnapFrozen == [][\A s \in DOMAIN snap : s \in DOMAIN snap' /\ snap'[s] = snap[s]]_vars
SnapOKAt(s) == LET st == snap[s].st  d == DecHLL(EncHLL(st.p, st.reg)) IN
                 /\ st.reg = RegOf({IR(st.p, it) : it \in snap[s].seen})
                 /\ d.p = st.p /\ d.reg = st.reg
SnapOK == \A s \in DOMAIN snap : SnapOKAt(s)

\* merge laws on a set R of register files: commutative, idempotent, associative
MergeLawsOn(R) ==
  /\ \A a, b \in R : MergeReg(a, b) = MergeReg(b, a)
  /\ \A a \in R : MergeReg(a, a) = a
  /\ \A a, b, c \in R : MergeReg(MergeReg(a, b), c) = MergeReg(a, MergeReg(b, c))
\* ... and on the current counters, together with "merge = counter of the union"
MergeLaws ==
  /\ MergeLawsOn({ctr[c].reg : c \in Ids})
  /\ \A a, b \in Ids : ctr[a].p = ctr[b].p =>
        MergeReg(ctr[a].reg, ctr[b].reg) = RegOf({IR(ctr[a].p, it) : it \in seen[a] \cup seen[b]})
=============================================================================
