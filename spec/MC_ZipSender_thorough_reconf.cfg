SPECIFICATION MCSpec
CONSTANTS Design = "copy"
          StopPolicy = "drain"
          Creation = "defaults"
          Modes = {"queue"}
          NRec = 3
          Sizes = {1, 60, 200}
          Times = {1, 7}
          MaxBufs = {0, 100}
          MaxWaits = {5}
          ZipMins = {0, 100}
          QCaps = {1, 2}
          Keeps = {TRUE}
          MaxDirect = 0
          Reconfig = 1
          EarlyFlush = TRUE
          WithDefaults = TRUE
          Bad = FALSE
          CtxKinds = {"none"}
          IdleSlack = 1
          MinPeriod = 1
INVARIANTS ExactlyOnceInOrder CountMatches Decodable ZipIff DefaultsInForce HandedOverIsImmutable IdleWaitBounded
PROPERTIES FlushWhenDue
CHECK_DEADLOCK FALSE
