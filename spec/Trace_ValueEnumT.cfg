SPECIFICATION EnumSpec
CONSTANTS SmallN = 3
CONSTRAINT Hwm
POSTCONDITION TraceAccepted
CHECK_DEADLOCK FALSE
