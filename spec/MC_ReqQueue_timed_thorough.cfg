SPECIFICATION MCSpec
CONSTANTS Proc <- MCProc
          WakeOnPut = TRUE
          NP = 1
          NE = 2
          NC = 2
          NOps = 1
          NAdmin = 0
          CapSet = {0, 1}
          TSet = {2, 3}
          LaneSet = {1}
          MaxClock = 4
          TagSet = {}
          GetKinds = {"Get", "GetTimeout"}
INVARIANTS SwallowOnlyNil TypeOK Fifo Conservation RefusalInert PerProducerOrder WaitingImpliesEmpty
PROPERTIES AllStepProps
CHECK_DEADLOCK FALSE
