------------------------------ MODULE ReqQueue ------------------------------
(***************************************************************************)
(* Request queues of util/queue: RequestQueue (one lane) and                *)
(* RequestDoubleQueue (two lanes; every get serves lane 1 before lane 2).   *)
(* A RequestQueue is the double queue whose lane 2 is never put to.         *)
(*                                                                          *)
(* Two layers, written from the intended behaviour:                         *)
(*                                                                          *)
(*  1. the OBJECT (sequential specification): what one call does to the     *)
(*     content when it owns the lock -- QPut, QPutForce, QTake, QClear,     *)
(*     QSetCap and the result functions PutRet, ForceRet, NextOut.  The     *)
(*     trace specifications (Trace_ReqQueue, Trace_ReqQueueLin) replay      *)
(*     real calls through exactly these actions.                            *)
(*                                                                          *)
(*  2. the PROCESSES: goroutines calling the object.  One action per lock   *)
(*     acquisition of the implementation: a put is one critical section     *)
(*     that ends with a broadcast; a blocking get that finds nothing        *)
(*     releases the lock and joins `waiting`, a broadcast empties           *)
(*     `waiting`, and a woken consumer re-takes the lock and looks again;   *)
(*     a timed get polls: try, sleep a third of the remaining time, give up *)
(*     only when the clock has reached start + T.                           *)
(*                                                                          *)
(* Elements are pairs <<producer, seq>>; a producer offers its elements in  *)
(* increasing seq and never twice (Fresh).  Nil = <<>> is "empty-handed".   *)
(* cap[k] <= 0 means lane k is unbounded.                                   *)
(*                                                                          *)
(* VALUES.  The API takes interface{}: what a caller SEES of an element is  *)
(* its value Val(e).  An ordinary element is its own value.  The element    *)
(* universe also has "nothing-like" members <<producer, seq, tag>>: tag 0   *)
(* is the nil interface value, whose value IS Nil (a caller cannot tell it  *)
(* from empty-handed by the return value alone; the content still shrinks   *)
(* by one), tags > 0 are other zero values (typed nil pointer, empty        *)
(* struct, zero int ...) whose value <<tag>> carries no identity.  The      *)
(* queue must treat every one of them as an element like any other: it      *)
(* counts against the capacity, keeps its place, is evicted/refused/cleared *)
(* through the same paths, and one get removes exactly one element.         *)
(*                                                                          *)
(* Named deviation NilSwallowed (what the code does, modelled as it is):    *)
(* the timed get is a polling loop around the no-wait get that reads        *)
(* "nil" as "nothing yet".  A poll that draws a nil-valued element has      *)
(* removed it ("swallowed": it is handed to nobody) and the loop goes on:   *)
(* the call may swallow further nil-valued elements, return a later         *)
(* element, or give up empty-handed once its timeout has elapsed.  Only a   *)
(* timed get swallows and only nil-valued elements (SwallowOnlyNil).        *)
(***************************************************************************)
EXTENDS Integers, Sequences, FiniteSets

CONSTANT Proc,           \* identities of the calling goroutines
         WakeOnPut       \* TRUE: every put ends with a broadcast (the design);
                         \* FALSE: the design WITHOUT the broadcast (refuted by MC_ReqQueue_nobcast.cfg)

Lanes == {1, 2}
Nil == <<>>

VARIABLES
  \* ---- the object
  q,            \* q[k]: content of lane k, head first
  cap,          \* cap[k]: capacity of lane k
  failedLog,    \* sequence of <<k, e>> handed to the failure callback of lane k
  overflowLog,  \* sequence of <<k, e>> handed to the overflow callback of lane k
  \* ---- history (never read by an action's enabling condition except Fresh)
  offered,      \* every element ever passed to a put
  accepted,     \* accepted[k]: elements that entered lane k, in order
  removed,      \* removed[k]: <<how, e>> in order of leaving lane k; how \in {"delivered","evicted","cleared","swallowed"}
  delivered,    \* delivered[p]: <<k, e>> in the order process p received them
  \* ---- processes
  clock, pc, op, ret, waiting

dvars == <<q, cap, failedLog, overflowLog, offered, accepted, removed, delivered>>
pvars == <<clock, pc, op, ret, waiting>>
vars  == <<dvars, pvars>>

Range(s) == {s[i] : i \in 1..Len(s)}

\* what a caller sees of element e (see VALUES above); Val(Nil) = Nil
Val(e) == IF Len(e) = 3 THEN (IF e[3] = 0 THEN Nil ELSE <<e[3]>>) ELSE e
NilValued(e) == Val(e) = Nil
Second(s) == [i \in 1..Len(s) |-> s[i][2]]

-----------------------------------------------------------------------------
(* Layer 1: the object                                                     *)

Room(k) == cap[k] <= 0 \/ Len(q[k]) < cap[k]

\* lane the next get is served from (0: nothing queued)
FrontLane == IF q[1] # <<>> THEN 1 ELSE IF q[2] # <<>> THEN 2 ELSE 0
NextOut == IF FrontLane = 0 THEN Nil ELSE Head(q[FrontLane])

Fresh(e) == /\ e \notin offered
            /\ \A x \in offered : x[1] = e[1] => x[2] < e[2]

\* result of a plain put / forced put on lane k in the current state
PutRet(k) == Room(k)
ForceRet(k) == Room(k)
\* how many of the oldest elements a forced put must evict to make room
NEvict(k) == IF Room(k) THEN 0 ELSE Len(q[k]) - cap[k] + 1

\* Put: room -> appended; full -> handed to the failure callback, content unchanged
QPut(k, e) ==
  /\ k \in Lanes /\ Fresh(e)
  /\ offered' = offered \cup {e}
  /\ IF Room(k)
       THEN /\ q' = [q EXCEPT ![k] = Append(@, e)]
            /\ accepted' = [accepted EXCEPT ![k] = Append(@, e)]
            /\ UNCHANGED failedLog
       ELSE /\ failedLog' = Append(failedLog, <<k, e>>)
            /\ UNCHANGED <<q, accepted>>
  /\ UNCHANGED <<cap, overflowLog, removed, delivered>>

\* PutForce: evict exactly as many of the oldest as needed, each to the overflow callback, then append
QPutForce(k, e) ==
  /\ k \in Lanes /\ Fresh(e)
  /\ offered' = offered \cup {e}
  /\ LET n == NEvict(k) IN
       /\ q' = [q EXCEPT ![k] = Append(SubSeq(@, n + 1, Len(@)), e)]
       /\ overflowLog' = overflowLog \o [i \in 1..n |-> <<k, q[k][i]>>]
       /\ removed' = [removed EXCEPT ![k] = @ \o [i \in 1..n |-> <<"evicted", q[k][i]>>]]
  /\ accepted' = [accepted EXCEPT ![k] = Append(@, e)]
  /\ UNCHANGED <<cap, failedLog, delivered>>

\* remove the next element (lane 1 first) and give it to process p; result NextOut
QTake(p) ==
  /\ FrontLane # 0
  /\ LET k == FrontLane IN
       /\ q' = [q EXCEPT ![k] = Tail(@)]
       /\ removed' = [removed EXCEPT ![k] = Append(@, <<"delivered", Head(q[k])>>)]
       /\ delivered' = [delivered EXCEPT ![p] = Append(@, <<k, Head(q[k])>>)]
  /\ UNCHANGED <<cap, failedLog, overflowLog, offered, accepted>>

\* a poll of a timed get draws a nil-valued element: removed, handed to nobody (NilSwallowed)
QSwallow(p) ==
  /\ FrontLane # 0 /\ NilValued(NextOut)
  /\ LET k == FrontLane IN
       /\ q' = [q EXCEPT ![k] = Tail(@)]
       /\ removed' = [removed EXCEPT ![k] = Append(@, <<"swallowed", Head(q[k])>>)]
  /\ UNCHANGED <<cap, failedLog, overflowLog, offered, accepted, delivered>>

QClear ==
  /\ q' = [k \in Lanes |-> <<>>]
  /\ removed' = [k \in Lanes |-> removed[k] \o [i \in 1..Len(q[k]) |-> <<"cleared", q[k][i]>>]]
  /\ UNCHANGED <<cap, failedLog, overflowLog, offered, accepted, delivered>>

QSetCap(c) ==
  /\ cap' = c
  /\ UNCHANGED <<q, failedLog, overflowLog, offered, accepted, removed, delivered>>

DInit(c) ==
  /\ q = [k \in Lanes |-> <<>>] /\ cap = c
  /\ failedLog = <<>> /\ overflowLog = <<>> /\ offered = {}
  /\ accepted = [k \in Lanes |-> <<>>] /\ removed = [k \in Lanes |-> <<>>]
  /\ delivered = [p \in Proc |-> <<>>]

-----------------------------------------------------------------------------
(* Layer 2: processes                                                      *)

NoOp == [o |-> "none", k |-> 0, e |-> Nil, T |-> 0, t |-> 0, start |-> 0, wake |-> 0, c |-> <<0, 0>>]
OpPut(k, e)      == [NoOp EXCEPT !.o = "Put", !.k = k, !.e = e]
OpPutForce(k, e) == [NoOp EXCEPT !.o = "PutForce", !.k = k, !.e = e]
OpGet            == [NoOp EXCEPT !.o = "Get"]
OpGetNoWait      == [NoOp EXCEPT !.o = "GetNoWait"]
OpGetTimeout(T)  == [NoOp EXCEPT !.o = "GetTimeout", !.T = T]
OpClear          == [NoOp EXCEPT !.o = "Clear"]
OpSetCap(c)      == [NoOp EXCEPT !.o = "SetCap", !.c = c]

Entry(o) == CASE o = "Put" -> "put" [] o = "PutForce" -> "putf" [] o = "Get" -> "get"
              [] o = "GetNoWait" -> "gnw" [] o = "GetTimeout" -> "gt_try"
              [] o = "Clear" -> "clear" [] o = "SetCap" -> "setcap"

PInit == /\ clock = 0 /\ pc = [p \in Proc |-> "idle"] /\ op = [p \in Proc |-> NoOp]
         /\ ret = [p \in Proc |-> Nil] /\ waiting = {}

\* the call starts; a timed get reads the clock once: deadline = start + T
Invoke(p, o) ==
  /\ pc[p] = "idle"
  /\ pc' = [pc EXCEPT ![p] = Entry(o.o)]
  /\ op' = [op EXCEPT ![p] = [o EXCEPT !.start = clock, !.t = o.T]]
  /\ UNCHANGED <<dvars, clock, ret, waiting>>

Finish(p, r) == /\ pc' = [pc EXCEPT ![p] = "idle"]
                /\ ret' = [ret EXCEPT ![p] = r]

Broadcast == IF WakeOnPut THEN waiting' = {} ELSE UNCHANGED waiting

PutStep(p) ==
  /\ pc[p] = "put"
  /\ QPut(op[p].k, op[p].e) /\ Finish(p, PutRet(op[p].k))
  /\ Broadcast                       \* every put broadcasts, accepted or refused
  /\ UNCHANGED <<clock, op>>

PutForceStep(p) ==
  /\ pc[p] = "putf"
  /\ QPutForce(op[p].k, op[p].e) /\ Finish(p, ForceRet(op[p].k))
  /\ Broadcast
  /\ UNCHANGED <<clock, op>>

\* under the lock: nothing there -> Wait (release the lock, join `waiting`); else take
GetBody(p) ==
  IF FrontLane = 0
    THEN /\ waiting' = waiting \cup {p}
         /\ pc' = [pc EXCEPT ![p] = "gwait"]
         /\ UNCHANGED <<dvars, ret>>
    ELSE /\ QTake(p) /\ Finish(p, NextOut)
         /\ UNCHANGED waiting

GetStep(p)    == pc[p] = "get" /\ GetBody(p) /\ UNCHANGED <<clock, op>>
\* a broadcast removed p from `waiting`: it re-takes the lock and looks again
GetRecheck(p) == pc[p] = "gwait" /\ p \notin waiting /\ GetBody(p) /\ UNCHANGED <<clock, op>>

TakeOrNil(p) ==
  IF FrontLane = 0 THEN Finish(p, Nil) /\ UNCHANGED dvars
                   ELSE QTake(p) /\ Finish(p, NextOut)

GetNoWaitStep(p) == pc[p] = "gnw" /\ TakeOrNil(p) /\ UNCHANGED <<clock, op, waiting>>

\* timed get: one no-wait attempt; on failure sleep a third of the remaining time.
\* "Failure" is a nil answer: nothing queued, or a nil-valued element drawn (NilSwallowed)
GtTry(p) ==
  /\ pc[p] = "gt_try"
  /\ IF FrontLane = 0 \/ NilValued(NextOut)
       THEN /\ pc' = [pc EXCEPT ![p] = "gt_sleep"]
            /\ op' = [op EXCEPT ![p].wake = clock + (op[p].t \div 3)]
            /\ IF FrontLane = 0 THEN UNCHANGED dvars ELSE QSwallow(p)
            /\ UNCHANGED ret
       ELSE /\ QTake(p) /\ Finish(p, NextOut) /\ UNCHANGED op
  /\ UNCHANGED <<clock, waiting>>

\* the sleep is over (it lasts at least what was asked): recompute the remaining
\* time; give up iff none is left
GtWake(p) ==
  /\ pc[p] = "gt_sleep" /\ clock >= op[p].wake
  /\ LET t == op[p].start + op[p].T - clock IN
       IF t <= 0 THEN Finish(p, Nil) /\ UNCHANGED op
                 ELSE /\ pc' = [pc EXCEPT ![p] = "gt_try"]
                      /\ op' = [op EXCEPT ![p].t = t]
                      /\ UNCHANGED ret
  /\ UNCHANGED <<dvars, clock, waiting>>

ClearStep(p)  == pc[p] = "clear" /\ QClear /\ Finish(p, Nil) /\ UNCHANGED <<clock, op, waiting>>
SetCapStep(p) == pc[p] = "setcap" /\ QSetCap(op[p].c) /\ Finish(p, Nil) /\ UNCHANGED <<clock, op, waiting>>

Tick == clock' = clock + 1 /\ UNCHANGED <<dvars, pc, op, ret, waiting>>

Step(p) == \/ PutStep(p) \/ PutForceStep(p) \/ GetStep(p) \/ GetRecheck(p)
           \/ GetNoWaitStep(p) \/ GtTry(p) \/ GtWake(p) \/ ClearStep(p) \/ SetCapStep(p)

Init == (\E c \in {<<0, 0>>} : DInit(c)) /\ PInit

-----------------------------------------------------------------------------
(* The property C11                                                        *)

AcceptedS  == UNION {Range(accepted[k]) : k \in Lanes}
QueuedS    == UNION {Range(q[k]) : k \in Lanes}
DeliveredS == UNION {{d[2] : d \in Range(delivered[p])} : p \in Proc}
EvictedS   == {x[2] : x \in Range(overflowLog)}
ClearedS   == UNION {{r[2] : r \in {x \in Range(removed[k]) : x[1] = "cleared"}} : k \in Lanes}
FailedS    == {x[2] : x \in Range(failedLog)}
IsCleared(r) == r[1] = "cleared"
NCleared   == Len(SelectSeq(removed[1], IsCleared)) + Len(SelectSeq(removed[2], IsCleared))
SwallowedS == UNION {{r[2] : r \in {x \in Range(removed[k]) : x[1] = "swallowed"}} : k \in Lanes}
IsSwallowed(r) == r[1] = "swallowed"
NSwallowed == Len(SelectSeq(removed[1], IsSwallowed)) + Len(SelectSeq(removed[2], IsSwallowed))

RECURSIVE SumLen(_, _)
SumLen(f, S) == IF S = {} THEN 0 ELSE LET x == CHOOSE x \in S : TRUE IN Len(f[x]) + SumLen(f, S \ {x})

\* delivery order = acceptance order: what left a lane, in the order it left,
\* followed by what is still queued, is exactly what was accepted, in order.
\* (Anything that leaves a lane -- delivered, evicted or cleared -- leaves from the head.)
Fifo == \A k \in Lanes : Second(removed[k]) \o q[k] = accepted[k]

\* accepted = delivered (+) evicted (+) cleared (+) still queued, nothing twice
\* (+ the nil-valued elements a timed get swallowed: deviation NilSwallowed)
Conservation ==
  /\ AcceptedS = DeliveredS \cup EvictedS \cup ClearedS \cup SwallowedS \cup QueuedS
  /\ Len(accepted[1]) + Len(accepted[2]) = Cardinality(AcceptedS)
  /\ SumLen(delivered, Proc) + Len(overflowLog) + NCleared + NSwallowed + Len(q[1]) + Len(q[2]) = Cardinality(AcceptedS)

\* the deviation is confined: only nil-valued elements are ever swallowed
SwallowOnlyNil == \A e \in SwallowedS : NilValued(e)

\* a refused element never entered the queue, and every offered element was either refused or accepted
RefusalInert == /\ FailedS \cap AcceptedS = {}
                /\ offered = FailedS \cup AcceptedS
                /\ Cardinality(FailedS) = Len(failedLog)

\* per lane and producer, every consumer sees increasing seq
PerProducerOrder ==
  \A p \in Proc : \A i, j \in 1..Len(delivered[p]) :
     (i < j /\ delivered[p][i][1] = delivered[p][j][1] /\ delivered[p][i][2][1] = delivered[p][j][2][1])
        => delivered[p][i][2][2] < delivered[p][j][2][2]


\* safety half of "nothing strands": nobody is parked while something is queued
WaitingImpliesEmpty == waiting # {} => FrontLane = 0

TypeOK == /\ DOMAIN q = Lanes /\ DOMAIN cap = Lanes
          /\ waiting \subseteq Proc
          /\ \A p \in waiting : pc[p] = "gwait"

(* action properties: hold of every step *)
NewFailed == SubSeq(failedLog', Len(failedLog) + 1, Len(failedLog'))
NewOver   == SubSeq(overflowLog', Len(overflowLog) + 1, Len(overflowLog'))

RefusalInertStep ==
  Len(failedLog') > Len(failedLog) =>
     /\ q' = q /\ accepted' = accepted /\ overflowLog' = overflowLog
     /\ Len(NewFailed) = 1 /\ ~Room(NewFailed[1][1])

ForceEvictsOldestStep ==
  Len(overflowLog') > Len(overflowLog) =>
     \E k \in Lanes : LET n == Len(NewOver) IN
        /\ n <= Len(q[k]) /\ cap[k] > 0
        /\ NewOver = [i \in 1..n |-> <<k, q[k][i]>>]           \* the n oldest, oldest first
        /\ Len(q'[k]) = cap[k]                                   \* exactly enough room was made
        /\ SubSeq(q'[k], 1, cap[k] - 1) = SubSeq(q[k], n + 1, Len(q[k]))
        /\ \A j \in Lanes \ {k} : q'[j] = q[j]

\* bounded: no step grows a bounded lane beyond its capacity (a lane exceeds its
\* capacity only while the capacity was lowered under it)
BoundedStep ==
  \A k \in Lanes : Len(q'[k]) > Len(q[k]) => (cap[k] <= 0 \/ Len(q'[k]) <= cap[k])

\* a delivery from lane 2 happens only when lane 1 is empty (whatever lane 1 holds:
\* a nothing-like element at its head is still an element), and so does a swallow
Q1BeforeQ2Step ==
  /\ \A p \in Proc : (Len(delivered'[p]) > Len(delivered[p]) /\ delivered'[p][Len(delivered'[p])][1] = 2) => q[1] = <<>>
  /\ (Len(removed'[2]) > Len(removed[2]) /\ removed'[2][Len(removed'[2])][1] \in {"delivered", "swallowed"}) => q[1] = <<>>

\* elements taken by gets (delivered or swallowed) in this step
Taken(rm, k) == Len(SelectSeq(rm[k], LAMBDA r : r[1] \in {"delivered", "swallowed"}))
\* one get step takes exactly one element: the head of the lane it serves
OneTakeStep ==
  LET n == Taken(removed', 1) + Taken(removed', 2) - Taken(removed, 1) - Taken(removed, 2) IN
    /\ n \in {0, 1}
    /\ n = 1 => /\ Len(q'[1]) + Len(q'[2]) = Len(q[1]) + Len(q[2]) - 1
                /\ \E k \in Lanes : q[k] # <<>> /\ q'[k] = Tail(q[k])

\* a newly delivered element is younger than everything of its producer already delivered from its lane
PerProducerOrderStep ==
  \A p \in Proc : Len(delivered'[p]) > Len(delivered[p]) =>
     LET d == delivered'[p][Len(delivered'[p])] IN
       \A r \in Range(removed[d[1]]) : (r[1] = "delivered" /\ r[2][1] = d[2][1]) => r[2][2] < d[2][2]

\* a timed get comes back empty-handed only when its timeout has elapsed
TimedGetHonestStep ==
  \A p \in Proc : (pc[p] \in {"gt_try", "gt_sleep"} /\ pc'[p] = "idle" /\ ret'[p] = Nil)
                     => clock >= op[p].start + op[p].T

\* a blocking get never comes back empty-handed
BlockingGetStep ==
  \A p \in Proc : (pc[p] \in {"get", "gwait"} /\ pc'[p] = "idle") => ret'[p] # Nil

\* only a timed get's poll swallows (NilSwallowed is confined to GetTimeout)
SwallowStep ==
  NSwallowed' > NSwallowed => \E p \in Proc : pc[p] = "gt_try" /\ pc'[p] = "gt_sleep"

DataStepProps == RefusalInertStep /\ ForceEvictsOldestStep /\ BoundedStep /\ Q1BeforeQ2Step /\ PerProducerOrderStep /\ OneTakeStep
StepProps == DataStepProps /\ TimedGetHonestStep /\ BlockingGetStep /\ SwallowStep

\* liveness half: a consumer is never parked for ever while an element stays available
NoLostWakeup == \A p \in Proc : ~<>[](pc[p] = "gwait" /\ FrontLane # 0)
=============================================================================
