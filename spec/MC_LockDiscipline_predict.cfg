SPECIFICATION Spec
CONSTANTS Threads = {1, 2}
          PairWith = "point"
CONSTRAINT Report
INVARIANTS Bounded
CHECK_DEADLOCK FALSE
