------------------------------- MODULE Bytes --------------------------------
(***************************************************************************)
(* Byte-tuple arithmetic shared by every golib specification.              *)
(*                                                                         *)
(* TLC integers are 32-bit, so every quantity that can exceed 2^31-1 is a  *)
(* tuple of bytes (0..255), most significant first, two's complement.      *)
(* "W8" = the canonical 8-byte form of a (signed) 64-bit integer.          *)
(***************************************************************************)
EXTENDS Integers, Sequences, FiniteSets

Byte == 0..255

IsBytes(s) == /\ DOMAIN s = 1..Len(s)
              /\ \A i \in 1..Len(s) : s[i] \in Byte

Zeros(n)  == [i \in 1..n |-> 0]
Fill(n,b) == [i \in 1..n |-> b]

\* the last k bytes of s (k <= Len(s))
Low(s, k)  == IF k = 0 THEN <<>> ELSE SubSeq(s, Len(s) - k + 1, Len(s))
\* the first k bytes of s
High(s, k) == IF k = 0 THEN <<>> ELSE SubSeq(s, 1, k)

Rev(s) == [i \in 1..Len(s) |-> s[Len(s) + 1 - i]]

\* sign byte of a non-empty two's complement tuple
SignByte(s) == IF Len(s) > 0 /\ s[1] >= 128 THEN 255 ELSE 0

\* widen to w bytes (w >= Len(s)) preserving the signed value
SignExt(s, w) == Fill(w - Len(s), SignByte(s)) \o s
\* widen to w bytes preserving the unsigned value
ZeroExt(s, w) == Zeros(w - Len(s)) \o s

\* does the signed value of the w-byte tuple v fit in k bytes (k <= Len(v))?
\* k = 0 holds exactly the value zero
FitsSigned(v, k) == IF k = 0 THEN v = Zeros(Len(v))
                    ELSE SignExt(Low(v, k), Len(v)) = v
FitsUnsigned(v, k) == ZeroExt(Low(v, k), Len(v)) = v

\* small naturals <-> bytes (value must stay below 2^31)
RECURSIVE BytesToNat(_)
BytesToNat(s) == IF s = <<>> THEN 0
                 ELSE BytesToNat(SubSeq(s, 1, Len(s) - 1)) * 256 + s[Len(s)]

RECURSIVE NatToBytes(_, _)
NatToBytes(n, w) == IF w = 0 THEN <<>>
                    ELSE Append(NatToBytes(n \div 256, w - 1), n % 256)

\* unsigned comparison of equal-length tuples: -1, 0, 1
RECURSIVE CmpU(_, _)
CmpU(a, b) == IF a = <<>> THEN 0
              ELSE IF a[1] < b[1] THEN -1
              ELSE IF a[1] > b[1] THEN 1
              ELSE CmpU(Tail(a), Tail(b))
\* signed comparison of equal-length two's complement tuples
CmpS(a, b) == IF SignByte(a) # SignByte(b)
              THEN (IF SignByte(a) = 255 THEN -1 ELSE 1)
              ELSE CmpU(a, b)

\* Bind(x, F): F applied to the VALUE of x.  TLC passes operator arguments and
\* LET definitions unevaluated and may re-evaluate them at every use, which is
\* exponential in recursive decoders; a bound variable holds a value.
Bind(x, F(_)) == CHOOSE r \in {F(d) : d \in {x}} : TRUE

\* flatten a sequence of byte tuples
RECURSIVE Concat(_)
Concat(ss) == IF ss = <<>> THEN <<>> ELSE Head(ss) \o Concat(Tail(ss))

\* Is p a prefix of s
IsPrefixOf(p, s) == Len(p) <= Len(s) /\ SubSeq(s, 1, Len(p)) = p

\* s[from..] (1-based), empty when from > Len(s)
From(s, from) == IF from > Len(s) THEN <<>> ELSE SubSeq(s, from, Len(s))
\* s[from .. from+n-1]
Slice(s, from, n) == IF n = 0 THEN <<>> ELSE SubSeq(s, from, from + n - 1)
=============================================================================
