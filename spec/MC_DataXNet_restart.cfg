\* REFUTED design: after a short piece the reader offers its whole window again from the first byte
SPECIFICATION NSpec
CONSTANTS MaxLen = 2
          BlobLens = {0, 1, 9}
          KSet = {7}
          LateOps = {}
          Design = "restart"
INVARIANTS Assembled
CHECK_DEADLOCK FALSE
