SPECIFICATION MCSpec
CONSTANTS Keys = {1, 2, 3, 4}
          Vals = {1, 2}
          Maxes <- MaxesSmall
          MaxVal = 2
          IsSet = FALSE
          None <- NoneZero
          Rej = TRUE
          Nones = {0}
          EK = 1
VIEW View
ACTION_CONSTRAINT DumpT
INVARIANTS NoDup DomOK SetOK RefuseOK
PROPERTIES FirstAtHead LastAtTail PlainAppends PlainKeeps UpdateKeepsKeys OthersKeepOrder EvictOpposite NoOverNeverEvicts SortPermutes RemoveExact PutThenGet LRUMoves NoneIsInert LazyBoundP SetMaxInert OnlyNewKeyEvicts NoOverDrops
CHECK_DEADLOCK FALSE
