SPECIFICATION MCSpec
CONSTANTS Keys = {1, 2, 3, 4}
          Vals = {1, 2}
          Maxes = {0, 1, 2, 3}
          MaxVal = 2
          IsSet = FALSE
          None <- NoneZero
          Rej = TRUE
          Nones = {0}
          EK = 1
VIEW View
ACTION_CONSTRAINT DumpT
INVARIANTS Bounded NoDup DomOK SetOK RefuseOK
PROPERTIES FirstAtHead LastAtTail PlainAppends PlainKeeps UpdateKeepsKeys OthersKeepOrder EvictOpposite NoOverNeverEvicts SortPermutes RemoveExact PutThenGet LRUMoves NoneIsInert
CHECK_DEADLOCK FALSE
