----------------------------- MODULE Trace_HLL ------------------------------
(***************************************************************************)
(* Trace validation of the real util/hll counters against HLL.             *)
(* Events (harness/c14):                                                   *)
(*   Reset                                                                 *)
(*   New     c p              NewHyperLogLogInt(p)                         *)
(*   Offer   c h ret          Offer/OfferLong of an item whose hash is h   *)
(*                            (4 bytes); ret = the returned boolean        *)
(*   Merge   c others d       d = c.Merge(others...)                       *)
(*   AddAll  c o              c.AddAll(o)                                  *)
(*   Build   d c              d = BuildHyperLogLog(c.GetBytes())           *)
(*   Bytes   c hdr len nz [full]   GetBytes(): the 8 header bytes, the     *)
(*                            total length, the non-zero words as          *)
(*                            <<index, high16, low16>> in ascending order  *)
(*                            (a lossless projection), and for p <= 8 the  *)
(*                            complete byte string                         *)
(*                            with "s": the caller KEEPS the returned slice *)
(*                            (uncopied) as snapshot s                     *)
(*   Held    s hdr len nz [full]   the kept slice s projected again NOW,   *)
(*                            after whatever happened since: it must still *)
(*                            be the byte form of the moment it was taken  *)
(*   BuildHeld d s            d = BuildHyperLogLog(kept slice s)           *)
(*   Scribble [s] [d]         the caller overwrote bytes it owns: the slice*)
(*                            GetBytes returned as s, or its private copy  *)
(*                            that d was built from; no counter changes    *)
(*   Same    c d eq           eq = (GetBytes(c) = GetBytes(d))             *)
(*   Est     c est            Cardinality()                                *)
(*   EstBulk p n est          Cardinality() of a counter that received n   *)
(*                            distinct items whose offers were not logged  *)
(***************************************************************************)
EXTENDS HLL, TraceLib

VARIABLE l
tvars == <<vars, l>>

TraceInit == Init /\ l = 1 /\ HwmInit

Step(e) == IsEv(l, e) /\ l' = l + 1

IsHash(h) == Len(h) = 4 /\ \A k \in 1..4 : h[k] \in 0..255

TraceReset == Step("Reset") /\ ctr' = <<>> /\ seen' = <<>> /\ lastEst' = <<>> /\ snap' = <<>>

TraceNew == /\ Step("New")
            /\ LET e == Trace[l] IN e.p \in 4..16 /\ New(e.c, e.p)

TraceOffer == /\ Step("Offer")
              /\ LET e == Trace[l] IN
                   /\ e.c \in Ids /\ IsHash(e.h)
                   /\ e.ret = OfferResult(e.c, e.h)
                   /\ Offer(e.c, e.h)

TraceMerge == /\ Step("Merge")
              /\ LET e == Trace[l] IN Merge(e.c, e.others, e.d)

TraceAddAll == /\ Step("AddAll")
               /\ LET e == Trace[l] IN AddAll(e.c, e.o)

TraceBuild == /\ Step("Build")
              /\ LET e == Trace[l] IN Build(e.d, e.c)

Ascending(nz) == \A k \in 1..(Len(nz) - 1) : nz[k][1] < nz[k + 1][1]

\* the projection e (hdr, len, nz, [full]) is exactly the byte form of a counter of precision p with registers reg
BytesMatch(e, p, reg) ==
  /\ e.hdr = HeaderOf(p)
  /\ e.len = ByteLen(p)
  /\ Ascending(e.nz)
  /\ Bind(NZWords(reg), LAMBDA W :
         Len(e.nz) = Cardinality(W) /\ {e.nz[k] : k \in 1..Len(e.nz)} = W)
  /\ Has(e, "full") => e.full = EncHLL(p, reg)

TraceBytes == /\ Step("Bytes")
              /\ LET e == Trace[l] IN
                   /\ e.c \in Ids
                   /\ BytesMatch(e, ctr[e.c].p, ctr[e.c].reg)
                   /\ Has(e, "full") => RoundTripAt(e.c)
                   /\ SetOnlyAt(e.c)       \* checkpoint: the state is the fold of the SET seen
                   /\ IF Has(e, "s") THEN Snap(e.s, e.c) ELSE UNCHANGED vars

\* a byte form obtained earlier, looked at again: still the state of THAT moment
TraceHeld == /\ Step("Held")
             /\ LET e == Trace[l] IN
                  /\ e.s \in DOMAIN snap
                  /\ BytesMatch(e, snap[e.s].st.p, snap[e.s].st.reg)
             /\ UNCHANGED vars

TraceBuildHeld == /\ Step("BuildHeld")
                  /\ LET e == Trace[l] IN BuildSnap(e.d, e.s)

\* the caller writes into bytes it owns; the specification has no state for that: nothing changes
TraceScribble == /\ Step("Scribble")
                 /\ LET e == Trace[l] IN
                      /\ Has(e, "s") => e.s \in DOMAIN snap
                      /\ Has(e, "d") => e.d \in Ids
                 /\ UNCHANGED vars

TraceSame == /\ Step("Same")
             /\ LET e == Trace[l] IN
                  /\ e.c \in Ids /\ e.d \in Ids
                  /\ e.eq = (ctr[e.c] = ctr[e.d])
             /\ UNCHANGED vars

TraceEst == /\ Step("Est")
            /\ LET e == Trace[l] IN Est(e.c, e.est)

TraceEstBulk == /\ Step("EstBulk")
                /\ LET e == Trace[l] IN
                     /\ e.p \in 4..16 /\ e.n <= 16 * (2 ^ e.p)
                     /\ EstOK(e.p, e.n, e.est)
                /\ UNCHANGED vars

InvAll == TypeOK

TraceNext == (TraceReset \/ TraceNew \/ TraceOffer \/ TraceMerge \/ TraceAddAll \/ TraceBuild
              \/ TraceBytes \/ TraceHeld \/ TraceBuildHeld \/ TraceScribble \/ TraceSame \/ TraceEst \/ TraceEstBulk) /\ InvAll'

TraceSpec == TraceInit /\ [][TraceNext]_tvars

Hwm == HwmNote(l)
TraceAccepted == Accepted
=============================================================================
