SPECIFICATION Spec
CONSTANTS Threads = {1, 2}
          PairWith = "public"
CONSTRAINT ReportSplit
INVARIANTS NoSelfDeadlock NoMutualDeadlock NoLeak NoDataRace Bounded
CHECK_DEADLOCK FALSE
