SPECIFICATION MCSpec
CONSTANTS Proc <- MCProc
          WakeOnPut = TRUE
          NP = 1
          NE = 2
          NC = 2
          NOps = 1
          NAdmin = 0
          CapSet = {0, 1}
          TSet = {2}
          LaneSet = {1, 2}
          MaxClock = 2
          TagSet = {0, 1}
          GetKinds = {"Get", "GetNoWait", "GetTimeout"}
INVARIANTS SwallowOnlyNil TypeOK Fifo Conservation RefusalInert PerProducerOrder WaitingImpliesEmpty
PROPERTIES AllStepProps
CHECK_DEADLOCK FALSE
