----------------------------- MODULE MC_PackObj -----------------------------
(***************************************************************************)
(* Exhaustive exploration of the pack object (PackObj) for a small world:  *)
(* an object is built, changed through every kind of mutation the module   *)
(* names and written, in every order, up to MaxSteps steps.                *)
(*   Focus = "hash"    : tag-count and log-sink -- the cached tag hash     *)
(*                       against PutTag, TransferOidToTag (every subset of *)
(*                       oid / okind / onode zero or not, tag present or   *)
(*                       not), ResetTagHash, assignments by the caller     *)
(*   Focus = "content" : text, parameter, event, zip, hit-map -- the       *)
(*                       content after each mutator (Deep adds the other   *)
(*                       log-sink fields to "hash")                        *)
(* Checked on the specification: a library-owned tag hash is void or the   *)
(* hash of the current tags (HashOwned); every write decodes, by the       *)
(* layout alone, to the content the object has at that moment, a second    *)
(* write gives the same bytes, and a library-owned hash on the wire is the *)
(* hash of exactly the tag section behind it (Written).                    *)
(***************************************************************************)
EXTENDS PackObj

CONSTANTS MaxSteps, Focus, Deep

VARIABLE steps
mcvars == <<vars, ovars, steps>>

N(n) == NatW8(n)
M1 == Neg(N(1))
X == <<120>>
Y == <<121, 121>>
K1 == <<97>>
K2 == <<98, 99>>

HdrA == [pcode |-> N(5), oid |-> N(7), okind |-> Z8, onode |-> Z8, time |-> N(1000)]
HdrB == [pcode |-> N(70000), oid |-> Z8, okind |-> Z8, onode |-> M1, time |-> M1]

MapOf(pairs) == VMap(pairs)
E0 == MapOf(<<>>)
T1 == MapOf(<< <<K1, VText(X)>> >>)
T2 == MapOf(<< <<K1, VText(X)>>, <<KOnode, VDecimal(N(4))>> >>)
D1 == MapOf(<< <<K2, VDecimal(N(300))>> >>)

Inits(kind) ==
  CASE kind = "tagcount" -> {[category |-> <<99>>, tagHash |-> Z8, tags |-> t, data |-> E0] @@ HdrA : t \in {E0, T1}}
    [] kind = "logsink"  -> {[category |-> <<>>, tagHash |-> h, tags |-> t, line |-> N(300), content |-> <<104, 105>>,
                              fields |-> E0] @@ hd : t \in {E0, T1, T2}, h \in {Z8, N(77)}, hd \in {HdrA, HdrB}}
    [] kind = "text"     -> {[records |-> <<>>] @@ HdrA}
    [] kind = "param"    -> {[id |-> N(4), request |-> N(1), response |-> Z8, table |-> <<>>] @@ HdrA}
    [] kind = "event"    -> {[level |-> 20, title |-> <<116>>, message |-> <<>>, uuid |-> u, escalation |-> FALSE,
                              status |-> Z8, otype |-> N(1200), attrs |-> <<>>] @@ HdrB : u \in {<<>>, <<117, 49>>}}
    [] kind = "zip"      -> {[status |-> 0, recordCount |-> Z8, records |-> <<>>] @@ HdrA}
    [] kind = "hitmap"   -> {[cells |-> [i \in 1..HitMapCells |-> [hit |-> N(i), err |-> Z8]] \o <<>>] @@ HdrA}

Set(f, v) == [op |-> "set", field |-> f, val |-> v]
HdrMuts == {Set("okind", v) : v \in {Z8, N(3)}} \cup {Set("onode", v) : v \in {Z8, M1}}
           \cup {Set("oid", v) : v \in {Z8, N(7)}}
TextRecs == <<[div |-> 1, hash |-> N(9), text |-> <<115>>], [div |-> 255, hash |-> M1, text |-> <<>>]>>
ZipItems == <<[kind |-> "text", p |-> [records |-> TextRecs] @@ HdrA],
              [kind |-> "logsink", p |-> [category |-> <<>>, tagHash |-> Z8, tags |-> T1, line |-> Z8, content |-> X,
                                          fields |-> D1] @@ HdrB]>>
ContentBlob(c, n) == <<1>> \o DX!Enc("Text", c) \o DX!Enc("Decimal", n)

Muts(kind) ==
  CASE kind = "tagcount" ->
         {[op |-> "putTag", key |-> k, val |-> v] : k \in {K1, K2}, v \in {X, Y}}
         \cup {[op |-> "mapPut", field |-> "data", key |-> K2, val |-> VDecimal(N(300))], [op |-> "mapClear", field |-> "data"],
               Set("tags", T1), Set("data", D1), Set("category", Y), Set("okind", N(3)), Set("okind", Z8)}
    [] kind = "logsink" ->
         HdrMuts \cup
         {[op |-> "transfer"], [op |-> "resetHash"], Set("tagHash", Z8), Set("tagHash", N(77)), Set("tags", T1),
          [op |-> "mapPut", field |-> "tags", key |-> K1, val |-> VText(Y)], [op |-> "mapClear", field |-> "tags"]}
         \cup (IF Deep THEN {Set("fields", D1), Set("content", Y), [op |-> "contentBytes", d |-> ContentBlob(Y, M1)],
                             [op |-> "contentBytes", d |-> <<2, 5>>], [op |-> "contentBytes", d |-> <<>>]} ELSE {})
    [] kind = "text" -> {[op |-> "addTexts", recs |-> SubSeq(TextRecs, 1, n)] : n \in 0..2} \cup {Set("okind", N(3))}
    [] kind = "param" ->
         {[op |-> "put", key |-> k, val |-> v] : k \in {K1, <<>>}, v \in {VText(X), D1}}
         \cup {[op |-> "putAll", map |-> MapOf(<< <<K2, VNull>>, <<K1, VBool(TRUE)>> >>)], [op |-> "toResponse"],
               Set("request", Z8), Set("request", N(9)), Set("onode", M1)}
    [] kind = "event" ->
         {[op |-> "attrPut", k |-> K1, v |-> X], [op |-> "attrPut", k |-> KeyUuid, v |-> Y],
          [op |-> "attrRemove", k |-> KeyEsca], [op |-> "attrRemove", k |-> K1],
          Set("uuid", <<>>), Set("uuid", <<117, 50>>), Set("escalation", TRUE), Set("status", Neg(N(35))),
          Set("attrs", <<>>), [op |-> "setUuid", uuid |-> <<117, 51>>], [op |-> "setUuid", uuid |-> <<117, 49>>],
          [op |-> "setUuid", uuid |-> <<117, 50>>], Set("okind", Z8)}
    [] kind = "zip" ->
         {[op |-> "setRecords", items |-> SubSeq(ZipItems, 1, n)] : n \in 0..2}
         \cup {Set("records", <<1, 2, 3>>), Set("recordCount", N(7)), Set("status", 1), Set("onode", M1)}
    [] kind = "hitmap" ->
         {[op |-> "add", time |-> t, isError |-> e] : t \in {0, 124, 125, 4999, 5000, 9999, 10000, 20000, 39999, 40000, 79999, 80000, 2000000},
                                                     e \in BOOLEAN}
         \cup {[op |-> "cell", idx |-> 119, hit |-> N(1000), err |-> N(255)], Set("okind", N(3))}

FocusKinds == IF Focus = "hash" THEN {"tagcount", "logsink"} ELSE {"text", "param", "event", "zip", "hitmap"}

MCNew == /\ cur = <<>>
         /\ \E kind \in FocusKinds : \E p \in Inits(kind) : New(kind, p)
MCMut == \E m \in Muts(cur.kind) : Mut(m)
MCWrite == \E b \in {PackBytes(cur.kind, cur.p)} : Write(b)
MCReadInto == /\ cur.kind \in RereadKinds
              /\ \E p2 \in Inits(cur.kind) : ReadInto(cur.kind, p2, PackBytes(cur.kind, p2))

MCNext == /\ steps < MaxSteps
          /\ steps' = steps + 1
          /\ (MCNew \/ (cur # <<>> /\ (MCMut \/ MCWrite \/ MCReadInto)))
          /\ UNCHANGED vars

MCInit == Init /\ ObjInit /\ steps = 0
MCSpec == MCInit /\ [][MCNext]_mcvars

\* ---- the world is not vacuous
ASSUME HitIndex(0) = 0 /\ HitIndex(4999) = 39 /\ HitIndex(5000) = 40 /\ HitIndex(9999) = 59 /\ HitIndex(10000) = 60
       /\ HitIndex(19999) = 79 /\ HitIndex(20000) = 80 /\ HitIndex(39999) = 99 /\ HitIndex(40000) = 100
       /\ HitIndex(79999) = 119 /\ HitIndex(80000) = 119 /\ HitIndex(2000000) = 119
ASSUME Inc32(N(0)) = N(1) /\ Inc32(N(255)) = N(256) /\ Inc32(M1) = Z8 /\ Inc32(N(65535)) = N(65536)
       /\ Inc32(N(2147483647)) = <<255, 255, 255, 255, 128, 0, 0, 0>>
ASSUME ContentDec(ContentBlob(Y, M1)) = [ok |-> TRUE, content |-> Y, line |-> M1]
\* TransferOidToTag adds exactly the missing tags of the non-zero ids and voids the hash iff it added one
ASSUME \A p \in Inits("logsink") :
         LET q == Transfer(p) IN
           /\ (HasKey(q.tags, KOid) <=> (HasKey(p.tags, KOid) \/ p.oid # Z8))
           /\ (HasKey(q.tags, KOnode) <=> (HasKey(p.tags, KOnode) \/ p.onode # Z8))
           /\ (q.tags # p.tags => q.tagHash = Z8) /\ (q.tags = p.tags => q = p)
=============================================================================
