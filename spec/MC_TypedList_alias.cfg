SPECIFICATION MCSpec
CONSTANTS Mode = "alias"
          Vals = {0, 1}
          MaxLen = 3
          MaxHeld = 2
VIEW View
INVARIANTS TypeOK Bounded HeldBounded GetNeverStale
PROPERTIES Frame AddAppends AddAllAppends SetPoint WriteStays Snapshot SwapP
CHECK_DEADLOCK FALSE
