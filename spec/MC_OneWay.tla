----------------------------- MODULE MC_OneWay ------------------------------
(***************************************************************************)
(* Exhaustive exploration of the OneWay design for small constants:        *)
(* 2 (thorough: 3) senders, 3..5 packs (some larger than the write buffer, *)
(* two with a per-send license), frames of 2 units, at most MaxFaults      *)
(* environment faults, at most MaxConn connections, queue capacity QCap,   *)
(* one collector address (MC_OneWay_multi: two, every subset of them       *)
(* configured, each listener going down and coming back on its own); with  *)
(* Stall the peer may also stall in the middle of a socket write (write    *)
(* deadline expired, the peer is still there).                             *)
(* Direct mode and queue mode are separate configurations.                 *)
(***************************************************************************)
EXTENDS OneWay, TLC

CONSTANTS QueueMode, QCap, MaxConn, NPacks,
          Stall,      \* BOOLEAN: the environment may stall a peer in the middle of a socket write
          Broken      \* "none", or a deliberately broken design TLC must refute:
                      \* "nolock" | "keepwriter" | "wdial" | "stalelic" | "evict" | "dialpart" | "resetwriter" | "widle"

AllPacks == { [id |-> 1, owner |-> "s1", pcode |-> 7, lic |-> NoLic, body |-> 1, big |-> FALSE],
              [id |-> 2, owner |-> "s1", pcode |-> 8, lic |-> "LB",  body |-> 2, big |-> TRUE],
              [id |-> 3, owner |-> "s2", pcode |-> 7, lic |-> "LB",  body |-> 3, big |-> FALSE],
              [id |-> 4, owner |-> "s2", pcode |-> 9, lic |-> NoLic, body |-> 4, big |-> FALSE],
              [id |-> 5, owner |-> "s3", pcode |-> 9, lic |-> "LC",  body |-> 5, big |-> FALSE],
              [id |-> 6, owner |-> "s3", pcode |-> 7, lic |-> NoLic, body |-> 6, big |-> TRUE] }
MCPacks == {p \in AllPacks : p.id <= NPacks /\ p.owner \in Sender}

Started == DOMAIN reg \cup errset \cup {cur[a].id : a \in Actor}
\* program order: a sender hands over its packs in id order
IsNext(s, p) == p.owner = s /\ p.id \notin Started
                /\ \A q \in MCPacks : (q.owner = s /\ q.id < p.id) => q.id \in Started

Kinds == {"closed", "reset"} \cup (IF Stall THEN {"stalled"} ELSE {})

DoCall        == \E s \in Sender, p \in MCPacks : IsNext(s, p) /\ Call(s, p)
DoEnqueue     == \E s \in Sender, p \in MCPacks : IsNext(s, p) /\ Enqueue(s, p)
DoEnqueueFull == \E s \in Sender, p \in MCPacks : IsNext(s, p) /\ EnqueueFull(s, p)
\* broken design "nolock": the send lock is not a lock
LockNoMutex(s) ==
  /\ s \in Sender /\ pc[s] = "called"
  /\ lock' = s /\ pc' = [pc EXCEPT ![s] = "locked"]
  /\ Register(cur[s])
  /\ UNCHANGED <<conf, cur, fr, conn, nconn, wbuf, werr, net, wire, listener, queue, okset, errset, res, faults, streak>>
\* broken design "keepwriter": a re-dial keeps the old buffered writer (its unsent tail leaks onto the new connection)
ConnectKeepWriter(a) ==
  /\ CanDial(a) /\ conn = 0 /\ UpSrv # {}
  /\ nconn' = nconn + 1 /\ conn' = nconn + 1
  /\ net' = Append(net, "up") /\ wire' = Append(wire, <<>>)
  /\ werr' = FALSE /\ UNCHANGED wbuf
  /\ streak' = 0
  /\ UNCHANGED <<conf, lock, pc, cur, fr, listener, queue, reg, okset, errset, res, faults>>

\* broken design "wdial" (golib before the repair): in direct mode the worker of process() dials WITHOUT the send
\* lock; its test (no connection) and its assignment (new connection, new writer) are separate steps, and a sender
\* can dial and fill the writer in between: the frame stays in the abandoned writer, the send reports success
WorkerDialStart ==
  /\ Broken = "wdial" /\ ~conf.queue /\ pc[Worker] = "idle" /\ conn = 0
  /\ pc' = [pc EXCEPT ![Worker] = "dialing"]
  /\ UNCHANGED <<conf, lock, cur, fr, conn, nconn, wbuf, werr, net, wire, listener, queue, reg, okset, errset, res, faults, streak>>
WorkerDialEnd ==
  /\ Broken = "wdial" /\ pc[Worker] = "dialing" /\ UpSrv # {}
  /\ nconn' = nconn + 1 /\ conn' = nconn + 1
  /\ net' = Append(net, "up") /\ wire' = Append(wire, <<>>)
  /\ wbuf' = <<>> /\ werr' = FALSE /\ streak' = 0
  /\ pc' = [pc EXCEPT ![Worker] = "idle"]
  /\ UNCHANGED <<conf, lock, cur, fr, listener, queue, reg, okset, errset, res, faults>>
DoWorkerDialRacy == WorkerDialStart \/ WorkerDialEnd

\* broken design "stalelic": the default license is taken once (when the client is made) and kept: a frame built
\* after a configuration change still carries the old one
BuildStale(a) ==
  /\ pc[a] = "locked"
  /\ fr' = [fr EXCEPT ![a] = [k \in 1..2 |-> [Unit(cur[a], k) EXCEPT !.h.lic = IF cur[a].lic = NoLic THEN "LA" ELSE cur[a].lic]]]
  /\ pc' = [pc EXCEPT ![a] = "built"]
  /\ UNCHANGED <<conf, lock, cur, conn, nconn, wbuf, werr, net, wire, listener, queue, reg, okset, errset, res, faults, streak>>

\* broken design "evict": a send into a full queue is accepted and the oldest accepted pack is thrown away
EnqueueEvict(s, p) ==
  /\ Broken = "evict" /\ conf.queue /\ s \in Sender /\ p.id \notin DOMAIN reg \cup errset
  /\ conf.qcap > 0 /\ Len(queue) >= conf.qcap
  /\ queue' = Append(Tail(queue), p) /\ Register(p) /\ okset' = okset \cup {p.id}
  /\ UNCHANGED <<conf, lock, pc, cur, fr, conn, nconn, wbuf, werr, net, wire, listener, errset, res, faults, streak>>
DoEnqueueEvict == \E s \in Sender, p \in MCPacks : IsNext(s, p) /\ EnqueueEvict(s, p)

\* broken design "dialpart": the dial loop does not cover the whole server list -- it gives up at a refusing server
\* although another configured collector is listening ("could not connect to any server").  Such a dial is no
\* reconnection attempt (ConnectFail: an attempt is an attempt at every configured server): it does not end the streak
\* of failed sends, and the client never comes back although a configured collector is up
ConnectFailPartial(a) ==
  /\ Broken = "dialpart" /\ CanDial(a) /\ conn = 0 /\ \E ad \in conf.srv : listener[ad] = "refusing"
  /\ pc' = [pc EXCEPT ![a] = IF @ = "built" THEN "senderr" ELSE @]
  /\ streak' = IF UpSrv = {} THEN 0 ELSE streak
  /\ UNCHANGED <<conf, lock, cur, fr, conn, nconn, wbuf, werr, net, wire, listener, queue, reg, okset, errset, res, faults>>
DoConnectFailPartial == \E a \in Actor : ConnectFailPartial(a)

\* broken design "resetwriter": a flush whose write deadline expired ("a busy collector is not a broken connection")
\* resets the buffered writer onto the SAME connection: its sticky error is cleared, what it held is dropped, and the
\* next frames go out directly behind the frame that was cut
FlushResetWriter(a, d) ==
  /\ Broken = "resetwriter" /\ pc[a] = "written" /\ conn # 0 /\ ~werr /\ wbuf # <<>>
  /\ Push(conn, wbuf, d, FALSE, "stalled")
  /\ pc' = [pc EXCEPT ![a] = "flusherr"] /\ res' = [res EXCEPT ![a] = "err"]
  /\ wbuf' = <<>> /\ werr' = FALSE
  /\ UNCHANGED <<conf, lock, cur, fr, conn, nconn, listener, queue, reg, okset, errset, streak>>
DoFlushResetWriter == \E a \in Actor, d \in 0..Len(wbuf) : FlushResetWriter(a, d)

\* broken design "widle": in direct mode the idle worker flushes the shared writer on its own, without the send lock
\* (OneWay!WorkerIdleFlush): on a healthy connection a frame arrives twice, or a copy of its beginning is wedged in
DoWorkerIdleFlush == Broken = "widle" /\ \E u \in 1..Len(wbuf) : WorkerIdleFlush(u)

\* configuration changes between sends: the default license toggles between LA and LD, the capacity of the queue
\* between QCap and QCap - 1, the server list between the subsets of the collector addresses (none: the client points
\* somewhere else); by field or by ApplyConfig,
\* which (the code's design) drops the connection and dials again exactly if the license or the server list changed
DoReconfig == conf.gen < MaxCfg /\
              \E via \in {"field", "apply"}, lic \in {"LA", "LD"}, srv \in SUBSET Addr, dialok \in BOOLEAN :
                \E qcap \in (IF QueueMode THEN {QCap, QCap - 1} ELSE {QCap}) :
                   LET redial == via = "apply" /\ (lic # conf.deflic \/ srv # conf.srv) IN
                   /\ (lic # conf.deflic \/ qcap # conf.qcap \/ srv # conf.srv)
                   /\ (~redial => dialok)
                   /\ Reconfig(via, lic, qcap, srv, redial /\ conn # 0,
                               IF ~redial THEN "none" ELSE IF dialok THEN "ok" ELSE "fail")

DoLock        == \E s \in Sender : IF Broken = "nolock" THEN LockNoMutex(s) ELSE Lock(s)
DoUnlock      == \E s \in Sender : Unlock(s)
DoReturn      == \E s \in Sender : Return(s)
DoBuild       == \E a \in Actor : IF Broken = "stalelic" THEN BuildStale(a) ELSE Build(a)
DoConnectOk   == \E a \in Actor : IF Broken = "keepwriter" THEN ConnectKeepWriter(a) ELSE \E ad \in Addr : ConnectOk(a, ad)
DoConnectFail == \E a \in Actor : ConnectFail(a)
DoBufWrite    == \E a \in Actor : BufWrite(a)
DoSpill       == \E a \in Actor, u \in 1..Len(wbuf) : \E d \in 0..u, ok \in BOOLEAN, kind \in Kinds : Spill(a, u, d, ok, kind)
DoFlush       == \E a \in Actor, d \in 0..Len(wbuf), ok \in BOOLEAN, kind \in Kinds :
                    /\ (Broken = "resetwriter" => kind # "stalled")       \* that design answers a stalled flush differently
                    /\ Flush(a, d, ok, kind)
DoCloseOnSendError  == \E a \in Actor : CloseOnSendError(a)
DoCloseOnFlushError == \E a \in Actor : CloseOnFlushError(a)
\* D1: direct senders, and the SendAndClear style of draining, do not close after a failed flush
DoSkipCloseOnFlushError == \E a \in Actor : SkipCloseOnFlushError(a)
DoIdleFlush   == \E d \in 0..Len(wbuf), ok \in BOOLEAN, kind \in Kinds : IdleFlush(d, ok, kind)

SendSteps == \/ DoBuild \/ DoConnectOk \/ DoConnectFail \/ DoConnectFailPartial \/ DoBufWrite \/ DoSpill \/ DoFlush
             \/ DoFlushResetWriter \/ DoCloseOnSendError \/ DoCloseOnFlushError \/ DoSkipCloseOnFlushError

(* One flat disjunction so that -coverage counts every action separately.   *)
(* The actions of the other mode are disabled by their own guards (Call:    *)
(* ~conf.queue; Lock/Unlock/Return follow a Call; Enqueue, EnqueueFull,     *)
(* Dequeue, IdleFlush: conf.queue; the worker moves only after a Dequeue).  *)
DirectSteps == DoCall \/ DoLock \/ DoUnlock \/ DoReturn \/ DoWorkerDialRacy \/ DoWorkerIdleFlush
QueueSteps  == DoEnqueue \/ DoEnqueueFull \/ DoEnqueueEvict \/ Dequeue \/ WorkerSkipFlush \/ WorkerDone \/ DoIdleFlush
ClientNext  == DirectSteps \/ QueueSteps \/ SendSteps

DoPeerClose == \E c \in Conns : PeerClose(c)
DoPeerReset == \E c \in Conns : PeerReset(c)
DoListenerDown == \E ad \in Addr : ListenerDown(ad)
DoListenerUp   == \E ad \in Addr : ListenerUp(ad)
EnvNext == DoPeerClose \/ DoPeerReset \/ DoListenerDown \/ DoListenerUp \/ DoReconfig

MCInit == InitWith([queue |-> QueueMode, qcap |-> QCap, deflic |-> "LA", srv |-> Addr, gen |-> 0])
MCNext == ClientNext \/ EnvNext
MCSpec == MCInit /\ [][MCNext]_vars
LiveSpec == MCInit /\ [][MCNext]_vars /\ WF_vars(ClientNext)

ConnBound == nconn <= MaxConn

(* VIEW: okset is kept out of the fingerprint.  It is determined by the    *)
(* rest of the state (direct mode: registered, returned and not in errset; *)
(* queue mode: DOMAIN reg), so no two reachable states differ only in it.  *)
(* The other history variables (reg/rank, errset, streak, faults) are read *)
(* by guards or invariants and therefore cannot be hidden soundly: TLC     *)
(* evaluates invariants only on states whose view is new.                  *)
MCView == <<conf, lock, pc, cur, fr, conn, nconn, wbuf, werr, net, wire, listener, queue,
            reg, errset, res, faults, streak>>
=============================================================================
