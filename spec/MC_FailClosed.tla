---------------------------- MODULE MC_FailClosed ---------------------------
(***************************************************************************)
(* Exhaustive: every abstract decoder of <= 3 instructions over every      *)
(* input of length <= MaxN over ByteVals, run on the full input AND on     *)
(* every strict prefix.  Checks NoFabrication / WithinInput / BoundedAlloc *)
(* and TagsKnown in every state and PrefixFails at the end of every run    *)
(* pair.                                                                   *)
(***************************************************************************)
EXTENDS FailClosed, TLC

CONSTANTS MaxN, ByteVals, MaxProg

VARIABLES full,        \* the complete input
          fullProg,    \* the decoder
          consumedFull, outcomeFull, phase, cut
mvars == <<vars, full, fullProg, consumedFull, outcomeFull, phase, cut>>

Instr == {<<"fix", k>> : k \in {0, 1, 2}} \cup {<<"len", 1>>, <<"cnt", 1>>, <<"opt">>, <<"tag">>}
Progs == UNION {[1..m -> Instr] : m \in 1..MaxProg}
Inputs == UNION {[1..m -> ByteVals] : m \in 0..MaxN}

MCInit == /\ full \in Inputs /\ fullProg \in Progs
          /\ input = full /\ prog = fullProg /\ cursor = 0 /\ alloc = 0
          /\ outcome = "running" /\ got = <<>> /\ tags = <<>>
          /\ consumedFull = -1 /\ outcomeFull = "none" /\ phase = "full" /\ cut = -1

\* after the full run, restart on each strict prefix in turn
NextCut ==
  /\ outcome # "running"
  /\ IF phase = "full"
     THEN /\ consumedFull' = cursor /\ outcomeFull' = outcome
          /\ phase' = "prefix" /\ cut' = 0
     ELSE /\ cut' = cut + 1 /\ UNCHANGED <<consumedFull, outcomeFull, phase>>
  /\ cut' < Len(full)
  /\ input' = SubSeq(full, 1, cut') /\ prog' = fullProg /\ cursor' = 0 /\ alloc' = 0
  /\ outcome' = "running" /\ got' = <<>> /\ tags' = <<>>
  /\ UNCHANGED <<full, fullProg>>

MCNext == \/ (Step /\ UNCHANGED <<full, fullProg, consumedFull, outcomeFull, phase, cut>>)
          \/ NextCut
MCSpec == MCInit /\ [][MCNext]_mvars

\* positions at which an "opt" instruction makes the shorter message complete
\* are exactly those where the prefix run ends ok having consumed everything
PrefixFails ==
  (phase = "prefix" /\ outcome # "running" /\ outcomeFull = "ok" /\ cut < consumedFull)
     => (outcome = "failed" \/ (outcome = "ok" /\ cursor = cut /\ \E i \in 1..Len(fullProg) : fullProg[i] = <<"opt">>))
=============================================================================
