SPECIFICATION MCSpec
CONSTANTS
  NotCleared <- MCNotCleared
  Versions = {0, 10100, 10101, 10102, 10103, 10104, 10105, 10106, 10107, 10108, 10109, 10110, 10111,
              20000, 20001, 20100, 20101, 20102, 20103, 20104, 20105,
              30000, 30001, 30100, 30101, 30102, 30103, 30104,
              40000, 40001, 40002, 50000, 50001, 50099, 50100, 50101, 50102}
  Profiles = {1, 2, 3}
INVARIANTS Agree ReadsBack DistinctFields
CHECK_DEADLOCK FALSE
