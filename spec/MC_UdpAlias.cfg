SPECIFICATION MCSpec
CONSTANTS
  NotCleared <- MCNotCleared
  Mode = "fresh"
  MaxKept = 3
INVARIANTS Stable
CHECK_DEADLOCK FALSE
