------------------------------ MODULE MC_HLL --------------------------------
(***************************************************************************)
(* Exhaustive exploration of the HLL design for m = 4 registers (p = 2):   *)
(* items are abstract <<idx, rank>> pairs; three counters receive every    *)
(* sequence of at most MaxOffers offers (duplicates included), then are    *)
(* merged / added / rebuilt in every possible way.  Checks that the state  *)
(* is a function of the set offered, the merge laws, input preservation    *)
(* and the serialisation round trip (also from a byte form kept while the  *)
(* counter went on: Snap / BuildSnap); a few ASSUMEs pin Idx/Rank on       *)
(* concrete hashes.                                                        *)
(***************************************************************************)
EXTENDS HLL

CONSTANTS MaxOffers, MaxRankMC, MaxDerived, MaxSnaps, SnapOf

P == 2
Items == (0..3) \X (1..MaxRankMC)
Base == {1, 2, 3}

VARIABLE noffers
mcvars == <<vars, noffers>>

MCInit == /\ ctr = [c \in Base |-> [p |-> P, reg |-> NoRegs]]
          /\ seen = [c \in Base |-> {}]
          /\ lastEst = <<>>
          /\ snap = <<>>
          /\ noffers = 0

NextId == SetMax(Ids) + 1
Derived == Cardinality(Ids) - 3

MCNext ==
  \/ /\ noffers < MaxOffers
     /\ \E c \in Base, it \in Items : Offer(c, it)
     /\ noffers' = noffers + 1
  \/ /\ Derived < MaxDerived /\ UNCHANGED noffers
     /\ \/ \E c \in Ids : Merge(c, <<>>, NextId)
        \/ \E c, o \in Ids : Merge(c, <<o>>, NextId)
        \/ \E c, o1, o2 \in Base : Merge(c, <<o1, o2>>, NextId)
        \/ \E c \in Ids : Build(NextId, c)
        \/ \E s \in DOMAIN snap : BuildSnap(NextId, s)      \* rebuild from a byte form kept since earlier
  \/ /\ Cardinality(DOMAIN snap) < MaxSnaps /\ UNCHANGED noffers
     /\ \E c \in SnapOf : Snap(Cardinality(DOMAIN snap) + 1, c) \* at any moment a caller may keep GetBytes(c)
  \/ /\ UNCHANGED noffers
     /\ \E c \in Ids \ Base, o \in Ids : AddAll(c, o)

MCSpec == MCInit /\ [][MCNext]_mcvars

\* a step that creates a counter (Merge, Build) leaves every existing counter
\* untouched; AddAll(c, o) changes c only
InputsUntouched ==
  [][/\ (Cardinality(DOMAIN ctr') > Cardinality(Ids)) =>
           \A c \in Ids : ctr'[c] = ctr[c] /\ seen'[c] = seen[c]
     /\ (noffers' = noffers /\ DOMAIN ctr' = Ids) =>
         \A c \in Ids \ Base, o \in Ids :
           AddAll(c, o) => \A x \in Ids \ {c} : ctr'[x] = ctr[x]]_mcvars

\* the merged counter equals the counter of the union, whatever the split
MergedIsUnion == \A d \in Ids : ctr[d].reg = RegOf({IR(P, it) : it \in seen[d]})

\* merging any two current counters gives the counter of the union of what they saw
UnionLaw == \A a, b \in Ids :
              MergeReg(ctr[a].reg, ctr[b].reg) = RegOf({IR(P, it) : it \in seen[a] \cup seen[b]})

\* Offer's boolean tells exactly whether the state changed
OfferTellsChange == [][noffers' # noffers =>
                          \A c \in Base, it \in Items :
                             Offer(c, it) => (OfferResult(c, it) <=> ctr'[c] # ctr[c])]_mcvars

\* the byte form of m = 4: header 2, 1 word, all registers inside the word
BytesShape == \A c \in Ids : LET b == EncHLL(P, ctr[c].reg) IN
                 /\ Len(b) = ByteLen(P) /\ Len(b) = 12
                 /\ SubSeq(b, 1, 8) = <<0, 0, 0, 2, 0, 0, 0, 1>>
                 /\ NZWords(ctr[c].reg) = IF ctr[c].reg = NoRegs THEN {}
                                          ELSE {<<0, BytesToNat(SubSeq(b, 9, 10)), BytesToNat(SubSeq(b, 11, 12))>>}

\* the merge algebra on EVERY register file over registers 0..hi with ranks 0..maxr
\* (sparse form: only non-zero registers are in the domain): all touched/untouched
\* patterns of 4 registers, and all rank combinations on 2 registers
AllRegsOn(hi, maxr) == {[i \in {j \in 0..hi : f[j] > 0} |-> f[i]] : f \in [0..hi -> 0..maxr]}
AllRegs(maxr) == AllRegsOn(3, maxr)
ASSUME MergeLawsOn(AllRegs(1))
ASSUME MergeLawsOn(AllRegsOn(1, 3))
ASSUME \A a, b \in AllRegs(3) : MergeReg(a, b) = MergeReg(b, a) /\ MergeReg(a, MergeReg(a, b)) = MergeReg(a, b)

\* concrete hashes: leading bits select the register, rank counts the zeros that follow
ASSUME Idx(4, <<0, 0, 0, 0>>) = 0 /\ Rank(4, <<0, 0, 0, 0>>) = 29
ASSUME Idx(4, <<255, 255, 255, 255>>) = 15 /\ Rank(4, <<255, 255, 255, 255>>) = 1
ASSUME Idx(4, <<16, 0, 0, 1>>) = 1 /\ Rank(4, <<16, 0, 0, 1>>) = 28
ASSUME Idx(4, <<24, 0, 0, 0>>) = 1 /\ Rank(4, <<24, 0, 0, 0>>) = 1
ASSUME Idx(4, <<20, 0, 0, 0>>) = 1 /\ Rank(4, <<20, 0, 0, 0>>) = 2
ASSUME Idx(16, <<128, 1, 0, 0>>) = 32769 /\ Rank(16, <<128, 1, 0, 0>>) = 17
ASSUME Idx(16, <<128, 1, 128, 0>>) = 32769 /\ Rank(16, <<128, 1, 128, 0>>) = 1
ASSUME Idx(16, <<0, 2, 0, 3>>) = 2 /\ Rank(16, <<0, 2, 0, 3>>) = 15
ASSUME Idx(10, <<0, 64, 0, 0>>) = 1 /\ Rank(10, <<0, 64, 0, 0>>) = 23
ASSUME Idx(10, <<0, 63, 255, 255>>) = 0 /\ Rank(10, <<0, 63, 255, 255>>) = 1
ASSUME \A p \in 4..16 : MaxRank(p) <= 31 /\ NWords(p) * 6 >= 2 ^ p /\ (NWords(p) - 1) * 6 < 2 ^ p
\* the error bound admits the exact answer and rejects gross errors
ASSUME \A p \in 4..16 : \A n \in {0, 1, 2, 7, 100, 5 * (2 ^ p)} :
          /\ EstOK(p, n, n)
          /\ ~EstOK(p, n, 2 * n + 20 + 4 * n)
          /\ (n > 0 => ~EstOK(p, n, 1073741824))
\* small sets: near exact (the repository's own examples: 7 and 10 items at p = 10)
ASSUME EstOK(10, 7, 7) /\ EstOK(10, 10, 10) /\ EstOK(10, 10, 12) /\ ~EstOK(10, 10, 14) /\ ~EstOK(10, 7, 3)
ASSUME EstOK(16, 6553, 6600) /\ ~EstOK(16, 6553, 6753) /\ EstOK(4, 1, 1) /\ ~EstOK(4, 1, 5)
ASSUME ~EstOK(16, 100000, 120000) /\ EstOK(16, 165967, 170637) /\ ~EstOK(4, 40, 1073741824)
=============================================================================
