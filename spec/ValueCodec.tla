---------------------------- MODULE ValueCodec ------------------------------
(***************************************************************************)
(* C02 -- the tagged value codec as a state machine: values are written,   *)
(* one after the other, to one byte stream (WriteValue), the stream is     *)
(* opened, every value is read back (ReadValue) and each decoded value is  *)
(* written again to a fresh output.  The format itself is Value.tla.       *)
(*                                                                         *)
(* One action per public call:  Write(v) = value.WriteValue(out, v),       *)
(* Open = io.NewDataInputX(out.ToByteArray()), Read = value.ReadValue(in), *)
(* ReEncode = value.WriteValue(fresh, the value just read).  RT(v) is the  *)
(* composition Write(v);Open;Read;ReEncode on a fresh stream (one step, so *)
(* that tens of thousands of one-value histories validate quickly).        *)
(***************************************************************************)
EXTENDS ValueSpine

VARIABLES vals,    \* the values written, in order
          encs,    \* their reference encodings, one byte tuple each (Concat(encs) = wire)
          wire,    \* the bytes produced so far
          rpos,    \* reader cursor (1-based), 0 while still writing
          backs,   \* the values read back so far
          again    \* re-encodings of the values read back, one byte tuple each

vars == <<vals, encs, wire, rpos, backs, again>>

Init == vals = <<>> /\ encs = <<>> /\ wire = <<>> /\ rpos = 0 /\ backs = <<>> /\ again = <<>>

\* WriteValue(out, v)
\* (P = TRUE where P quantifies over the items of a value: directly in an action TLC unrolls a
\* bounded quantifier by recursion -- 40000 list items deep --, as an operand of = it is a loop)
Write(v) ==
  /\ rpos = 0
  /\ IsValue(v) = TRUE
  /\ \E e \in {EncValue(v)} :                \* bound once, by value
       /\ wire' = wire \o e
       /\ encs' = Append(encs, e)
  /\ vals' = Append(vals, v)
  /\ UNCHANGED <<rpos, backs, again>>

Open == rpos = 0 /\ rpos' = 1 /\ UNCHANGED <<vals, encs, wire, backs, again>>

\* ReadValue(in): the next tagged value of the stream
Read ==
  /\ rpos > 0
  /\ Len(backs) < Len(vals)
  /\ Len(again) = Len(backs)
  /\ \E d \in {DecValue(wire, rpos)} :
       /\ d.ok
       /\ backs' = Append(backs, d.v)
       /\ rpos' = d.next
  /\ UNCHANGED <<vals, encs, wire, again>>

\* WriteValue(fresh output, the value just read)
ReEncode ==
  /\ Len(again) < Len(backs)
  /\ again' = Append(again, EncValue(backs[Len(backs)]))
  /\ UNCHANGED <<vals, encs, wire, rpos, backs>>

\* Write(v); Open; Read; ReEncode on a fresh stream
RT(v) ==
  /\ IsValue(v) = TRUE
  /\ \E e \in {EncValue(v)} : \E d \in {DecValue(e, 1)} :
       /\ d.ok
       /\ vals' = <<v>> /\ encs' = <<e>> /\ wire' = e
       /\ rpos' = d.next /\ backs' = <<d.v>> /\ again' = <<EncValue(d.v)>>

\* ---- properties -----------------------------------------------------------
\* same type, equal content, entries and items in their original order
ReadBack == \A i \in 1..Len(backs) : SameValue(backs[i], vals[i])

\* the cursor after reading k values stands exactly behind their encodings;
\* in particular the whole stream is consumed when everything has been read
RECURSIVE SumLen(_, _)
SumLen(xs, k) == IF k = 0 THEN 0 ELSE SumLen(xs, k - 1) + Len(xs[k])
ExactConsumption == rpos > 0 => rpos = 1 + SumLen(encs, Len(backs))
AllConsumed == (rpos > 0 /\ Len(backs) = Len(vals)) => rpos = Len(wire) + 1
WireOK == Len(wire) = SumLen(encs, Len(encs)) /\ Len(encs) = Len(vals)

\* re-encoding the decoded value reproduces the bytes of the original
ReEncodeIdentical == \A i \in 1..Len(again) : again[i] = encs[i]

\* every encoding starts with the value's type code
TagFirst == \A i \in 1..Len(vals) : encs[i][1] = vals[i].t

\* ---- properties of the format itself, evaluated on the value written last ----
\* (checked by MC_Value on the design; too costly to repeat on every trace step)
Last == vals[Len(vals)]
Writing == rpos = 0 /\ vals # <<>>
\* a well-formed stream never gets stuck
NoStuck == (rpos > 0 /\ Len(backs) < Len(vals)) => DecValue(wire, rpos).ok
\* a value decodes the same whatever follows it
SelfDelimiting == Writing => SelfDelimits(Last)
\* no proper prefix of a (short) encoding decodes
Truncated == (Writing /\ Len(encs[Len(encs)]) <= 40) => PrefixesFail(Last)
\* a byte that is no type code is refused (constant level: an ASSUME of MC_Value)
UnknownTag == \A c \in {1, 9, 11, 23, 47, 52, 62, 75, 79, 82, 255} :
                 c \notin TypeCodes /\ ~DecValue(<<c, 0, 0, 0, 0, 0, 0, 0, 0>>, 1).ok
=============================================================================
