---------------------------- MODULE ValueCodec ------------------------------
(***************************************************************************)
(* C02 -- the tagged value codec as a state machine: values are written,   *)
(* one after the other, to one byte stream (WriteValue), the stream is     *)
(* opened, every value is read back (ReadValue) and the decoded value is   *)
(* written again to a fresh output.  The format itself is Value.tla.       *)
(***************************************************************************)
EXTENDS Value

VARIABLES vals,    \* the values written, in order
          wire,    \* the bytes produced so far
          rpos,    \* reader cursor (1-based), 0 while still writing
          backs,   \* the values read back so far
          again    \* re-encodings of the values read back, one byte tuple each

vars == <<vals, wire, rpos, backs, again>>

Init == vals = <<>> /\ wire = <<>> /\ rpos = 0 /\ backs = <<>> /\ again = <<>>

\* WriteValue(out, v)
Write(v) ==
  /\ rpos = 0
  /\ IsValue(v)
  /\ wire' = wire \o EncValue(v)
  /\ vals' = Append(vals, v)
  /\ UNCHANGED <<rpos, backs, again>>

Open == rpos = 0 /\ rpos' = 1 /\ UNCHANGED <<vals, wire, backs, again>>

\* ReadValue(in): the next tagged value of the stream
Read ==
  /\ rpos > 0
  /\ Len(backs) < Len(vals)
  /\ Len(again) = Len(backs)
  /\ \E d \in {DecValue(wire, rpos)} :       \* bound once, by value
       /\ d.ok
       /\ backs' = Append(backs, d.v)
       /\ rpos' = d.next
  /\ UNCHANGED <<vals, wire, again>>

\* WriteValue(fresh output, the value just read)
ReEncode ==
  /\ Len(again) < Len(backs)
  /\ again' = Append(again, EncValue(backs[Len(backs)]))
  /\ UNCHANGED <<vals, wire, rpos, backs>>

\* ---- properties -----------------------------------------------------------
\* same type, equal content, entries and items in their original order
ReadBack == \A i \in 1..Len(backs) : SameValue(backs[i], vals[i])

\* the cursor after reading k values stands exactly behind their encodings;
\* in particular the whole stream is consumed when everything has been read
RECURSIVE SumLen(_, _)
SumLen(xs, k) == IF k = 0 THEN 0 ELSE SumLen(xs, k - 1) + Len(EncValue(xs[k]))
ExactConsumption == rpos > 0 => rpos = 1 + SumLen(vals, Len(backs))
AllConsumed == (rpos > 0 /\ Len(backs) = Len(vals)) => rpos = Len(wire) + 1

\* re-encoding the decoded value reproduces the bytes of the original
ReEncodeIdentical == \A i \in 1..Len(again) : again[i] = EncValue(vals[i])

\* a well-formed stream never gets stuck
NoStuck == (rpos > 0 /\ Len(backs) < Len(vals)) => DecValue(wire, rpos).ok

\* every encoding starts with the value's type code
TagFirst == \A i \in 1..Len(vals) : EncValue(vals[i])[1] = vals[i].t

\* a value decodes the same whatever follows it, and no proper prefix of it decodes
SelfDelimiting == \A i \in 1..Len(vals) : SelfDelimits(vals[i])
Truncated == \A i \in 1..Len(vals) : PrefixesFail(vals[i])

\* a byte that is no type code is refused
UnknownTag == \A c \in {1, 9, 11, 23, 47, 52, 62, 75, 79, 82, 255} :
                 c \notin TypeCodes /\ ~DecValue(<<c, 0, 0, 0, 0, 0, 0, 0, 0>>, 1).ok
=============================================================================
