---------------------------- MODULE ValueCodec ------------------------------
(***************************************************************************)
(* C02 -- the tagged value codec as a state machine: values are written,   *)
(* one after the other, to one byte stream (WriteValue), the stream is     *)
(* opened, every value is read back (ReadValue) and each decoded value is  *)
(* written again to a fresh output.  The format itself is Value.tla.       *)
(*                                                                         *)
(* One action per public call:  Write(v) = value.WriteValue(out, v),       *)
(* Open = io.NewDataInputX(out.ToByteArray()), Read = value.ReadValue(in), *)
(* ReEncode = value.WriteValue(fresh, the value just read).  RT(v) is the  *)
(* composition Write(v);Open;Read;ReEncode on a fresh stream (one step, so *)
(* that tens of thousands of one-value histories validate quickly).        *)
(***************************************************************************)
EXTENDS Value

VARIABLES vals,    \* the values written, in order
          encs,    \* their reference encodings, one byte tuple each (Concat(encs) = wire)
          wire,    \* the bytes produced so far
          rpos,    \* reader cursor (1-based), 0 while still writing
          backs,   \* the values read back so far
          again    \* re-encodings of the values read back, one byte tuple each

vars == <<vals, encs, wire, rpos, backs, again>>

Init == vals = <<>> /\ encs = <<>> /\ wire = <<>> /\ rpos = 0 /\ backs = <<>> /\ again = <<>>

\* WriteValue(out, v)
Write(v) ==
  /\ rpos = 0
  /\ IsValue(v)
  /\ \E e \in {EncValue(v)} :                \* bound once, by value
       /\ wire' = wire \o e
       /\ encs' = Append(encs, e)
  /\ vals' = Append(vals, v)
  /\ UNCHANGED <<rpos, backs, again>>

Open == rpos = 0 /\ rpos' = 1 /\ UNCHANGED <<vals, encs, wire, backs, again>>

\* ReadValue(in): the next tagged value of the stream
Read ==
  /\ rpos > 0
  /\ Len(backs) < Len(vals)
  /\ Len(again) = Len(backs)
  /\ \E d \in {DecValue(wire, rpos)} :
       /\ d.ok
       /\ backs' = Append(backs, d.v)
       /\ rpos' = d.next
  /\ UNCHANGED <<vals, encs, wire, again>>

\* WriteValue(fresh output, the value just read)
ReEncode ==
  /\ Len(again) < Len(backs)
  /\ again' = Append(again, EncValue(backs[Len(backs)]))
  /\ UNCHANGED <<vals, encs, wire, rpos, backs>>

\* Write(v); Open; Read; ReEncode on a fresh stream
RT(v) ==
  /\ IsValue(v)
  /\ \E e \in {EncValue(v)} : \E d \in {DecValue(e, 1)} :
       /\ d.ok
       /\ vals' = <<v>> /\ encs' = <<e>> /\ wire' = e
       /\ rpos' = d.next /\ backs' = <<d.v>> /\ again' = <<EncValue(d.v)>>

\* ---- deep values, described flat ----------------------------------------------
\* A value nested hundreds or thousands of containers deep is described by its SPINE: the
\* containers on the way down to the deepest part, outermost first, each with the entries
\* before and behind the one that continues the descent, and the value at the bottom:
\*   level = [t |-> 70 | 80 | 81, k |-> key of the descending entry (<<>> in a list),
\*            pre |-> entries before it, post |-> entries behind it]
\* (entries: values in a list, <<key, value>> pairs in a map / int map).  Nothing but the
\* notation is flat: Spine(sp, inner) is an ordinary value, as deep as the spine is long.
RECURSIVE SpineFrom(_, _, _)
SpineFrom(sp, i, inner) ==
  IF i > Len(sp) THEN inner
  ELSE IF sp[i].t = TList
       THEN Val(TList, sp[i].pre \o <<SpineFrom(sp, i + 1, inner)>> \o sp[i].post)
       ELSE Val(sp[i].t, sp[i].pre \o << <<sp[i].k, SpineFrom(sp, i + 1, inner)>> >> \o sp[i].post)
Spine(sp, inner) == SpineFrom(sp, 1, inner)
SpineOK(sp) == \A i \in 1..Len(sp) : DOMAIN sp[i] = {"t", "k", "pre", "post"} /\ sp[i].t \in ContainerCodes

\* The same, level by level WITHOUT building the deep value (TLC's evaluator slows down with the
\* depth of its own recursion -- every operator application searches a context chain as long as
\* the recursion is deep -- so that the recursive operators of Value.tla take about a second on
\* a value 100 containers deep, six at 500, a minute at 1000 and seven minutes at 2000).  The
\* encoding of a spine is the heads of its levels, outermost first, the encoding of the bottom
\* value, and the tails of the levels, innermost first; two spines denote the same value iff
\* they are equal level by level.  MC_ValueSpine checks on every small spine that this is the
\* format of Value.tla: SpineEnc(sp, x) = EncValue(Spine(sp, x)), SpineIsValue = IsValue(Spine),
\* SameSpine = SameValue of the two Spines.
EntryKind(t) == IF t = TList THEN "val" ELSE IF t = TMap THEN "map" ELSE "imap"
\* the level as a container of its own, with child c where the descent continues
LevelValue(L, c) == IF L.t = TList THEN Val(TList, L.pre \o <<c>> \o L.post)
                    ELSE Val(L.t, L.pre \o << <<L.k, c>> >> \o L.post)
LevelHead(L) == <<L.t>> \o EncCount(Len(L.pre) + 1 + Len(L.post)) \o EncItems(EntryKind(L.t), L.pre)
                \o (IF L.t = TList THEN <<>> ELSE IF L.t = TMap THEN DX!EncBlob(L.k) ELSE Low(L.k, 4))
LevelTail(L) == EncItems(EntryKind(L.t), L.post)
RECURSIVE HeadsRange(_, _, _), TailsRange(_, _, _)
HeadsRange(sp, lo, hi) == IF lo > hi THEN <<>> ELSE IF lo = hi THEN LevelHead(sp[lo])
                          ELSE HeadsRange(sp, lo, (lo + hi) \div 2) \o HeadsRange(sp, (lo + hi) \div 2 + 1, hi)
TailsRange(sp, lo, hi) == IF lo > hi THEN <<>> ELSE IF lo = hi THEN LevelTail(sp[lo])      \* innermost first
                          ELSE TailsRange(sp, (lo + hi) \div 2 + 1, hi) \o TailsRange(sp, lo, (lo + hi) \div 2)
SpineEnc(sp, inner) == HeadsRange(sp, 1, Len(sp)) \o EncValue(inner) \o TailsRange(sp, 1, Len(sp))
SpineIsValue(sp, inner) == /\ SpineOK(sp) /\ IsValue(inner)
                           /\ \A i \in 1..Len(sp) : IsValue(LevelValue(sp[i], VNull))
SameSpine(a, ain, b, bin) == /\ Len(a) = Len(b) /\ SameValue(ain, bin)
                             /\ \A i \in 1..Len(a) : SameValue(LevelValue(a[i], VNull), LevelValue(b[i], VNull))

\* ---- properties -----------------------------------------------------------
\* same type, equal content, entries and items in their original order
ReadBack == \A i \in 1..Len(backs) : SameValue(backs[i], vals[i])

\* the cursor after reading k values stands exactly behind their encodings;
\* in particular the whole stream is consumed when everything has been read
RECURSIVE SumLen(_, _)
SumLen(xs, k) == IF k = 0 THEN 0 ELSE SumLen(xs, k - 1) + Len(xs[k])
ExactConsumption == rpos > 0 => rpos = 1 + SumLen(encs, Len(backs))
AllConsumed == (rpos > 0 /\ Len(backs) = Len(vals)) => rpos = Len(wire) + 1
WireOK == Len(wire) = SumLen(encs, Len(encs)) /\ Len(encs) = Len(vals)

\* re-encoding the decoded value reproduces the bytes of the original
ReEncodeIdentical == \A i \in 1..Len(again) : again[i] = encs[i]

\* every encoding starts with the value's type code
TagFirst == \A i \in 1..Len(vals) : encs[i][1] = vals[i].t

\* ---- properties of the format itself, evaluated on the value written last ----
\* (checked by MC_Value on the design; too costly to repeat on every trace step)
Last == vals[Len(vals)]
Writing == rpos = 0 /\ vals # <<>>
\* a well-formed stream never gets stuck
NoStuck == (rpos > 0 /\ Len(backs) < Len(vals)) => DecValue(wire, rpos).ok
\* a value decodes the same whatever follows it
SelfDelimiting == Writing => SelfDelimits(Last)
\* no proper prefix of a (short) encoding decodes
Truncated == (Writing /\ Len(encs[Len(encs)]) <= 40) => PrefixesFail(Last)
\* a byte that is no type code is refused (constant level: an ASSUME of MC_Value)
UnknownTag == \A c \in {1, 9, 11, 23, 47, 52, 62, 75, 79, 82, 255} :
                 c \notin TypeCodes /\ ~DecValue(<<c, 0, 0, 0, 0, 0, 0, 0, 0>>, 1).ok
=============================================================================
