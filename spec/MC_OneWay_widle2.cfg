SPECIFICATION MCSpec
CONSTANTS Sender = {"s1", "s2"}
          MaxFaults = 0
          MaxCfg = 0
          Addr = {"A"}
          Stall = FALSE
          QueueMode = FALSE
          QCap = 2
          MaxConn = 3
          Broken = "widle"
          NPacks = 3
CONSTRAINT ConnBound
VIEW MCView
INVARIANTS TypeOK FramesWhole
CHECK_DEADLOCK FALSE
