SPECIFICATION MCSpec
CONSTANTS Keys = {1, 2, 3, 4}
          Vals = {1, 2}
          Maxes <- MaxesWide
          MaxVal = 3
          IsSet = FALSE
          None <- NoneZero
          Rej = FALSE
          Nones = {0, 3}
          EK = 0
VIEW View
INVARIANTS NoDup DomOK SetOK RefuseOK
PROPERTIES FirstAtHead LastAtTail PlainAppends PlainKeeps UpdateKeepsKeys OthersKeepOrder EvictOpposite NoOverNeverEvicts SortPermutes RemoveExact PutThenGet LRUMoves NoneIsInert LazyBoundP SetMaxInert OnlyNewKeyEvicts NoOverDrops
CHECK_DEADLOCK FALSE
