SPECIFICATION MCSpec
CONSTANTS Keys = {1, 2, 3, 4}
          Vals = {1, 2}
          Maxes = {0, 1, 2, 3, 4}
          MaxVal = 3
          IsSet = FALSE
          None <- NoneZero
          Rej = FALSE
          Nones = {0, 3}
          EK = 0
VIEW View
INVARIANTS Bounded NoDup DomOK SetOK RefuseOK
PROPERTIES FirstAtHead LastAtTail PlainAppends PlainKeeps UpdateKeepsKeys OthersKeepOrder EvictOpposite NoOverNeverEvicts SortPermutes RemoveExact PutThenGet LRUMoves NoneIsInert
CHECK_DEADLOCK FALSE
