-------------------------- MODULE Trace_ValueEnumT --------------------------
(* Trace_ValueEnum with the thorough tier's enumeration size (see the cfg). *)
EXTENDS Trace_ValueEnum
=============================================================================
