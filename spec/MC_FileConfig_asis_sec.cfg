SPECIFICATION MCSpec
CONSTANTS Strategy = "rename"
          Granularity = "sec"
          Locking = TRUE
          KeepEmpty = TRUE
          StampAt = "stat"
          ObsFanout = "map"
          GoneApply = "atomic"
          EnvWhen = "absent"
          MaxObs = 0
          Deletes = FALSE
          WriteBacks = TRUE
          MaxSec = 1
          MaxMod = 6
INVARIANTS EventuallyVisible VisibleThroughGetters ObserversNotified DefaultsWhenGone NoTornState NoFatal GettersTotal MergeKeepsOthers CommentsAndOrderSurvive WriteReadBack WriteReadBackMem AtomicOnDisk WriteInstalls
PROPERTY NotifyAfterApply
CHECK_DEADLOCK FALSE
