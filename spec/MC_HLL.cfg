SPECIFICATION MCSpec
CONSTANTS MaxOffers = 3
          MaxRankMC = 2
          MaxDerived = 1
          MaxSnaps = 1
          SnapOf = {1}
INVARIANTS TypeOK SetOnly RoundTrip MergedIsUnion BytesShape UnionLaw SnapOK
PROPERTIES InputsUntouched OfferTellsChange SnapFrozen
CHECK_DEADLOCK FALSE
