SPECIFICATION MCSpec
CONSTANTS MaxOffers = 3
          MaxRankMC = 2
          MaxDerived = 1
INVARIANTS TypeOK SetOnly RoundTrip MergedIsUnion BytesShape UnionLaw
PROPERTIES InputsUntouched OfferTellsChange
CHECK_DEADLOCK FALSE
