------------------------------ MODULE UdpPack -------------------------------
(***************************************************************************)
(* C07 -- the UDP tracer packs of golib (lang/pack/udp).                   *)
(*                                                                         *)
(* Part 1  VERSIONED CODEC.  Per pack type and protocol version the wire   *)
(*         layout is DATA: an ordered list of <<field, kind>>, selected by *)
(*         the agent family of the version and the minimum-version gates   *)
(*         inside the family.  EncUdp / DecUdp are the reference writer    *)
(*         and reader built on DataX's Enc / Dec.  Law (Agree): reading at *)
(*         the same version restores every carried field (capped text up   *)
(*         to its cap) and consumes exactly the written bytes.             *)
(* Part 2  POOL.  Per type a bag of released objects; Acquire takes any    *)
(*         pooled object or a fresh one, Fill writes values, Release is    *)
(*         Clear-then-put.  Law (NoResidue): an object that is not held    *)
(*         holds no value of an earlier Fill.                              *)
(* Part 3  MASKING.  A connection string is a sequence of tokens           *)
(*         (key, value, separator); post-processing of the Go and PHP      *)
(*         families rewrites it in two passes (split on " ", then on ";"). *)
(*         Law (NoSecretLeft): no symbol of the value of a token whose key *)
(*         is exactly `password` is left.                                  *)
(*                                                                         *)
(* Values: integers are W8 byte tuples, text is a byte tuple, the stats    *)
(* array a tuple of W8; connection strings are tuples of SYMBOLS (atoms    *)
(* for keys and values, "=", " ", ";").                                    *)
(***************************************************************************)
EXTENDS Bytes

\* the primitive codec of C01, used as a library of pure operators
DX == INSTANCE DataX WITH buf <- <<>>, written <- 0, prog <- <<>>, rpos <- 0, rd <- <<>>

CONSTANT NotCleared      \* set of <<type, field>> that Release fails to reset; the design: {}

Range(s) == {s[i] : i \in DOMAIN s}
Min(a, b) == IF a < b THEN a ELSE b

(***************************************************************************)
(* Decimal text of 64-bit integers (numeric fields travel as decimal text, *)
(* zero as the empty text).                                                *)
(***************************************************************************)
RECURSIVE IncAt(_, _)
IncAt(s, i) == IF i = 0 THEN s
               ELSE IF s[i] = 255 THEN IncAt([s EXCEPT ![i] = 0], i - 1)
               ELSE [s EXCEPT ![i] = s[i] + 1]
\* two's complement negation; the magnitude of MinInt64 is its own bit pattern read unsigned
Neg(v) == IncAt([i \in 1..Len(v) |-> 255 - v[i]], Len(v))

\* unsigned tuple divided by ten: <<quotient, remainder>>
RECURSIVE Div10From(_, _, _, _)
Div10From(bs, i, r, q) ==
  IF i > Len(bs) THEN <<q, r>>
  ELSE Bind(r * 256 + bs[i], LAMBDA cur : Div10From(bs, i + 1, cur % 10, Append(q, cur \div 10)))
Div10(bs) == Div10From(bs, 1, 0, <<>>)

\* ASCII digits of an unsigned tuple; the empty text for zero
RECURSIVE UDigits(_)
UDigits(bs) == IF bs = Zeros(Len(bs)) THEN <<>>
               ELSE Bind(Div10(bs), LAMBDA d : Append(UDigits(d[1]), 48 + d[2]))

\* "%d" with zero as empty / with zero as "0"
DecZE(v) == IF v[1] >= 128 THEN <<45>> \o UDigits(Neg(v)) ELSE UDigits(v)
Dec0(v)  == IF v = Zeros(Len(v)) THEN <<48>> ELSE DecZE(v)

\* unsigned tuple times ten plus d (wraps; callers stay in range)
RECURSIVE MulAddFrom(_, _, _)
MulAddFrom(bs, i, c) ==
  IF i = 0 THEN bs
  ELSE Bind(bs[i] * 10 + c, LAMBDA t : MulAddFrom([bs EXCEPT ![i] = t % 256], i - 1, t \div 256))
MulAdd10(bs, d) == MulAddFrom(bs, Len(bs), d)

IsDigits(s) == Len(s) > 0 /\ \A i \in 1..Len(s) : s[i] \in 48..57
RECURSIVE UParse(_, _)
UParse(s, acc) == IF s = <<>> THEN acc ELSE Bind(MulAdd10(acc, s[1] - 48), LAMBDA a : UParse(Tail(s), a))
\* decimal text -> W8; anything that is not [+-]digits is 0 (range errors are out of scope)
ParseDec(s) ==
  IF s = <<>> THEN Zeros(8)
  ELSE LET neg  == s[1] = 45
           body == IF s[1] \in {43, 45} THEN Tail(s) ELSE s
       IN IF ~IsDigits(body) THEN Zeros(8)
          ELSE IF neg THEN Neg(UParse(body, Zeros(8))) ELSE UParse(body, Zeros(8))

RECURSIVE JoinWith(_, _)
JoinWith(ss, sep) == IF ss = <<>> THEN <<>>
                     ELSE IF Len(ss) = 1 THEN ss[1]
                     ELSE ss[1] \o sep \o JoinWith(Tail(ss), sep)

RECURSIVE SplitOn(_, _)
SplitOn(s, sep) ==
  IF \E i \in 1..Len(s) : s[i] = sep
  THEN LET i == CHOOSE k \in 1..Len(s) : s[k] = sep /\ \A j \in 1..(k - 1) : s[j] # sep
       IN <<SubSeq(s, 1, i - 1)>> \o SplitOn(SubSeq(s, i + 1, Len(s)), sep)
  ELSE <<s>>

(***************************************************************************)
(* Part 1: layouts.                                                        *)
(***************************************************************************)
Family(ver) == IF ver > 50000 THEN "go"
               ELSE IF ver > 40000 THEN "batch"
               ELSE IF ver > 30000 THEN "dotnet"
               ELSE IF ver > 20000 THEN "python"
               ELSE "php"

\* wire kinds
\*   Long, Int     fixed width big-endian
\*   Text          2-byte length + bytes
\*   Dec           decimal text of the integer (zero = empty) inside a Text
\*   Csv           comma joined decimal texts inside a Text
\*   Raw           the bytes themselves, length known out of band
Kinds == {"Long", "Int", "Text", "Dec", "Csv", "Raw"}

Ts(names) == [i \in 1..Len(names) |-> <<names[i], "Text">>]
Ds(names) == [i \in 1..Len(names) |-> <<names[i], "Dec">>]
If(c, s) == IF c THEN s ELSE <<>>

\* the common header
Header(ver) ==
  <<<<"Txid", "Long">>, <<"Time", "Long">>, <<"Elapsed", "Int">>, <<"Cpu", "Long">>, <<"Mem", "Long">>>>
  \o (IF Family(ver) # "php"
      THEN <<<<"Pid", "Int">>, <<"ThreadId", "Long">>>>
      ELSE If(ver >= 10101, <<<<"Pid", "Int">>>>)
           \o If(ver >= 10104, <<<<"ThreadId", "Long">>>>)
           \o If(ver >= 10109, <<<<"Index", "Int">>, <<"Parent", "Int">>>>))

ErrFields == Ts(<<"ErrorType", "ErrorMessage", "Stack">>)
StartTexts == Ts(<<"Host", "Uri", "Ipaddr", "UAgent", "Ref", "WClientId">>)
\* the multi-transaction-trace group
MtGroup == Ds(<<"Mtid", "Mdepth", "McallerTxid", "McallerPcode">>)
           \o Ts(<<"McallerSpec", "McallerUrl", "McallerPoidKey">>)
StepGroup == <<<<"McallerStepId", "Dec">>, <<"XTraceId", "Text">>>>
PhpResource == Ds(<<"PeakMem", "ElapsedUserCPUTime", "ElapsedSystemCPUTime", "EFuncCount",
                    "ProfEFuncCount", "IFuncCount", "ProfIFuncCount">>)

PackTypes == {"TxStart", "TxStartEnd", "TxEnd", "TxSql", "TxSqlParam", "TxHttpc", "TxError", "TxMsg",
              "TxSecureMsg", "TxMethod", "TxDbc", "Relay", "ActiveStack1", "ActiveStack", "TxParam",
              "ActiveStats", "DBConPool", "Config", "TxResultSet"}
HeaderLess == {"Relay", "ActiveStack", "TxParam", "ActiveStats", "DBConPool", "Config"}

Body(type, ver) ==
  LET fam == Family(ver) IN
  CASE type = "TxStart" ->
         StartTexts
         \o (CASE fam = "go"     -> Ts(<<"HttpMethod">>)
               [] fam = "batch"  -> <<>>
               [] fam = "dotnet" -> Ts(<<"IsStaticContents">>)
               [] fam = "python" -> Ts(<<"IsStaticContents">>) \o If(ver >= 20104, Ts(<<"HttpMethod">>))
               [] fam = "php"    -> If(ver >= 10103, Ts(<<"HttpMethod">>)))
    [] type = "TxStartEnd" ->
         StartTexts
         \o (CASE fam = "go"     -> Ts(<<"HttpMethod">>) \o MtGroup
                                    \o If(ver >= 50100, Ds(<<"Status">>)) \o If(ver >= 50101, StepGroup)
               [] fam = "batch"  -> <<>>
               [] fam = "dotnet" -> Ts(<<"IsStaticContents">>) \o Ds(<<"Mtid", "Mdepth", "Mcaller">>)
               [] fam = "python" -> Ts(<<"IsStaticContents">>) \o MtGroup
               [] fam = "php"    -> Ts(<<"HttpMethod">>) \o MtGroup
                                    \o If(ver >= 10107, Ds(<<"Status">>)) \o If(ver >= 10108, StepGroup)
                                    \o If(ver >= 10110, PhpResource))
    [] type = "TxEnd" ->
         (CASE fam = "go"     -> Ts(<<"Host", "Uri">>) \o MtGroup
                                 \o If(ver >= 50100, Ds(<<"Status">>)) \o If(ver >= 50101, StepGroup)
            [] fam = "batch"  -> <<>>
            [] fam = "dotnet" -> Ts(<<"Host", "Uri">>) \o Ds(<<"Mtid", "Mdepth", "McallerTxid">>)
                                 \o If(ver >= 30102, Ds(<<"McallerPcode">>)
                                                     \o Ts(<<"McallerSpec", "McallerUrl", "McallerPoidKey">>))
                                 \o If(ver >= 30103, Ds(<<"Status">>) \o StepGroup)
            [] fam = "python" -> Ts(<<"Host", "Uri">>) \o MtGroup \o If(ver >= 20104, Ds(<<"Status">>))
            [] fam = "php"    -> If(ver >= 10102, Ts(<<"Host", "Uri">>) \o MtGroup)
                                 \o If(ver >= 10107, Ds(<<"Status">>)) \o If(ver >= 10108, StepGroup)
                                 \o If(ver >= 10110, PhpResource))
    [] type = "TxSql" ->
         Ts(<<"Dbc", "Sql">>)
         \o (CASE fam \in {"go", "dotnet"} -> ErrFields
               [] fam = "batch"  -> <<>>
               [] fam = "python" -> If(ver >= 20102, Ds(<<"Fetch">>))
               [] fam = "php"    -> If(ver >= 10105, ErrFields))
    [] type = "TxSqlParam" -> Ts(<<"Dbc", "Sql", "Param">>) \o ErrFields
    [] type = "TxHttpc" ->
         Ts(<<"Url">>)
         \o (CASE fam \in {"go", "dotnet"} -> Ds(<<"StepId">>) \o ErrFields
               [] fam = "batch"  -> <<>>
               [] fam = "python" -> Ds(<<"StepId">>)
               [] fam = "php"    -> IF ver >= 10105 THEN Ds(<<"StepId">>) \o ErrFields
                                    ELSE If(ver >= 10102, Ds(<<"StepId">>)))
    [] type = "TxError" -> Ts(<<"ErrorType", "ErrorMessage">>) \o If(fam \in {"dotnet", "python"}, Ts(<<"Stack">>))
    [] type \in {"TxMsg", "TxSecureMsg"} -> Ts(<<"Hash", "Value", "Desc">>)
    [] type = "TxMethod" -> Ts(<<"Method", "Stack">>)
    [] type = "TxDbc" ->
         Ts(<<"Dbc">>)
         \o (CASE fam \in {"go", "dotnet"} -> ErrFields
               [] fam \in {"batch", "python"} -> <<>>
               [] fam = "php" -> If(ver >= 10105, ErrFields))
    [] type = "Relay" -> <<<<"Data", "Raw">>>>
    [] type = "ActiveStack1" -> Ts(<<"Stack">>)
    [] type \in {"ActiveStack", "DBConPool", "Config"} -> Ts(<<"Data">>)
    [] type = "TxParam" -> Ts(<<"ParamId", "ParamResponse", "Data">>)
    [] type = "ActiveStats" -> <<<<"ActiveStats", "Csv">>>>
    [] type = "TxResultSet" -> Ts(<<"Dbc", "Sql">>) \o Ds(<<"Fetch">>)

Layout(type, ver) == (IF type \in HeaderLess THEN <<>> ELSE Header(ver)) \o Body(type, ver)

\* documented caps of the writers (bytes), as <<field, cap>>
Caps(type) ==
  CASE type = "TxStart" -> <<<<"Host", 2048>>, <<"Uri", 2048>>, <<"Ipaddr", 256>>, <<"UAgent", 2048>>,
                             <<"Ref", 2048>>, <<"WClientId", 2048>>, <<"HttpMethod", 256>>>>
    [] type = "TxMsg"   -> <<<<"Hash", 2048>>, <<"Desc", 32768>>>>
    [] OTHER -> <<>>

CapOf(caps, f) == IF \E i \in DOMAIN caps : caps[i][1] = f
                  THEN (CHOOSE i \in DOMAIN caps : caps[i][1] = f) \* index
                  ELSE 0
\* the value a capped text field is cut to
Capped(caps, f, v) == LET i == CapOf(caps, f) IN
                      IF i = 0 THEN v ELSE High(v, Min(Len(v), caps[i][2]))

CarriedOf(layout) == {layout[i][1] : i \in DOMAIN layout}

EncField(kind, v) ==
  CASE kind = "Long" -> DX!Enc("Long", v)
    [] kind = "Int"  -> DX!Enc("Int", v)
    [] kind = "Text" -> DX!Enc("TextShort", v)
    [] kind = "Dec"  -> DX!Enc("TextShort", DecZE(v))
    [] kind = "Csv"  -> DX!Enc("TextShort", JoinWith([i \in 1..Len(v) |-> Dec0(v[i])], <<44>>))
    [] kind = "Raw"  -> v

\* reference writer: fields is a record field -> value
EncLayout(layout, caps, fields) ==
  Concat([i \in 1..Len(layout) |-> EncField(layout[i][2], Capped(caps, layout[i][1], fields[layout[i][1]]))])
EncUdp(type, ver, fields) == EncLayout(Layout(type, ver), Caps(type), fields)

\* reference reader: [ok, fields (record over the carried fields), next]
DecField(kind, b, p) ==
  CASE kind = "Long" -> DX!Dec("Long", b, p)
    [] kind = "Int"  -> DX!Dec("Int", b, p)
    [] kind = "Text" -> DX!Dec("TextShort", b, p)
    [] kind = "Dec"  -> Bind(DX!Dec("TextShort", b, p),
                             LAMBDA d : IF d.ok THEN DX!Good(ParseDec(d.v), d.next) ELSE DX!Bad)
    [] kind = "Csv"  -> Bind(DX!Dec("TextShort", b, p),
                             LAMBDA d : IF ~d.ok THEN DX!Bad
                                        ELSE IF d.v = <<>> THEN DX!Good(<<>>, d.next)
                                        ELSE LET parts == SplitOn(d.v, 44) IN
                                             DX!Good([i \in 1..Len(parts) |-> ParseDec(parts[i])], d.next))
    [] kind = "Raw"  -> DX!Good(From(b, p), Len(b) + 1)

RECURSIVE DecFrom(_, _, _, _, _)
DecFrom(layout, i, b, p, acc) ==
  IF i > Len(layout) THEN [ok |-> TRUE, fields |-> acc, next |-> p]
  ELSE Bind(DecField(layout[i][2], b, p),
            LAMBDA d : IF ~d.ok THEN [ok |-> FALSE, fields |-> acc, next |-> p]
                       ELSE DecFrom(layout, i + 1, b, d.next,
                                    [f \in DOMAIN acc \cup {layout[i][1]} |->
                                        IF f = layout[i][1] THEN d.v ELSE acc[f]]))
EmptyRec == [f \in {} |-> <<>>]
DecUdp(type, ver, b) == DecFrom(Layout(type, ver), 1, b, 1, EmptyRec)

(***************************************************************************)
(* Part 3 operators: the two-pass rewriting of a connection string.        *)
(* Text = tuple of symbols; "=", " ", ";" are the structural symbols.      *)
(***************************************************************************)
TrimSp(s) ==
  IF \A i \in 1..Len(s) : s[i] = " " THEN <<>>
  ELSE LET a == CHOOSE i \in 1..Len(s) : s[i] # " " /\ \A j \in 1..(i - 1) : s[j] = " "
           z == CHOOSE i \in 1..Len(s) : s[i] # " " /\ \A j \in (i + 1)..Len(s) : s[j] = " "
       IN SubSeq(s, a, z)

\* key and value of one piece: split at the first "="; no "=" -> no key
PairOf(piece) ==
  IF \E i \in 1..Len(piece) : piece[i] = "="
  THEN LET i == CHOOSE k \in 1..Len(piece) : piece[k] = "=" /\ \A j \in 1..(k - 1) : piece[j] # "="
       IN [k |-> TrimSp(SubSeq(piece, 1, i - 1)), v |-> TrimSp(SubSeq(piece, i + 1, Len(piece)))]
  ELSE [k |-> <<>>, v |-> <<>>]

PwdKey == <<"password">>
MaskSym == "#"

\* one pass: split on sep, one value per key (the last one wins), the value of
\* key `password` replaced, pieces without a key kept verbatim
MaskPass(text, sep) ==
  LET pieces == SplitOn(text, sep)
      prs    == [i \in 1..Len(pieces) |-> PairOf(pieces[i])]
      valOf(k) == IF k = PwdKey THEN <<MaskSym>>
                  ELSE prs[CHOOSE i \in 1..Len(pieces) :
                              prs[i].k = k /\ \A j \in (i + 1)..Len(pieces) : prs[j].k # k].v
      outp   == [i \in 1..Len(pieces) |->
                   IF prs[i].k # <<>> THEN prs[i].k \o <<"=">> \o valOf(prs[i].k) ELSE pieces[i]]
  IN JoinWith(outp, <<sep>>)

MaskText(text) == IF text = <<>> THEN <<>> ELSE MaskPass(MaskPass(text, " "), ";")

\* token = [k |-> symbol or "" (bare word), v |-> tuple of symbols, s |-> " " or ";"]
TokText(t) == IF t.k = "" THEN t.v ELSE <<t.k, "=">> \o t.v
RECURSIVE Render(_)
Render(toks) == IF toks = <<>> THEN <<>>
                ELSE IF Len(toks) = 1 THEN TokText(toks[1])
                ELSE TokText(toks[1]) \o <<toks[1].s>> \o Render(Tail(toks))
\* the symbols of the values of the password tokens
SecretSyms(toks) == UNION {Range(toks[i].v) \ {"="} : i \in {j \in DOMAIN toks : toks[j].k = "password"}}
MaskFamilies == {"go", "php"}

(***************************************************************************)
(* State.                                                                  *)
(***************************************************************************)
None == [none |-> TRUE]

VARIABLES wire,    \* part 1: the pack on the wire: [type, ver, fields, carried, caps, bytes] or None
          got,     \* part 1: what the reader made of it: [r, rp, consumed] or None
          bag,     \* part 2: type -> set of pooled object ids
          obj,     \* part 2: object id -> [t, held, dirty]; dirty = fields holding a value of a Fill
          mk       \* part 3: the last post-processing: [fam, secrets, out] or None

vars == <<wire, got, bag, obj, mk>>

Init == /\ wire = None /\ got = None
        /\ bag = [t \in PackTypes |-> {}]
        /\ obj = <<>>
        /\ mk = None

\* ---- part 1 ----
\* the writer produced `bytes` for a pack with these field values; `carried`
\* is the set of fields the bytes depend on, `caps` the documented caps
UWrite(type, ver, fields, carried, caps, bytes) ==
  /\ type \in PackTypes
  /\ carried \subseteq DOMAIN fields
  /\ wire' = [type |-> type, ver |-> ver, fields |-> fields, carried |-> carried, caps |-> caps, bytes |-> bytes]
  /\ got' = None
  /\ UNCHANGED <<bag, obj, mk>>

\* the reader, at the same version, produced field values r (rp: after the
\* pack's own post-processing, None if that is not available)
URead(r, rp, consumed) ==
  /\ wire # None /\ got = None
  /\ got' = [r |-> r, rp |-> rp, consumed |-> consumed]
  /\ UNCHANGED <<wire, bag, obj, mk>>

Expect(f) == Capped(wire.caps, f, wire.fields[f])
Restored(f) == \/ (f \in DOMAIN got.r /\ got.r[f] = Expect(f))
               \/ (got.rp # None /\ f \in DOMAIN got.rp /\ got.rp[f] = Expect(f))
Agree == got # None => /\ \A f \in wire.carried : Restored(f)
                       /\ got.consumed = Len(wire.bytes)

\* ---- part 2 ----
FieldsNotCleared(t) == {p[2] : p \in {q \in NotCleared : q[1] = t}}

PAcquire(t, o, pooled) ==
  /\ t \in PackTypes
  /\ IF pooled
     THEN /\ o \in bag[t]
          /\ bag' = [bag EXCEPT ![t] = @ \ {o}]
          /\ obj' = [obj EXCEPT ![o].held = TRUE]
     ELSE /\ o \notin DOMAIN obj
          /\ o = Len(obj) + 1
          /\ obj' = Append(obj, [t |-> t, held |-> TRUE, dirty |-> {}])
          /\ bag' = bag
  /\ UNCHANGED <<wire, got, mk>>

PFill(o, fs) ==
  /\ o \in DOMAIN obj /\ obj[o].held
  /\ obj' = [obj EXCEPT ![o].dirty = @ \cup fs]
  /\ UNCHANGED <<wire, got, bag, mk>>

\* Clear, then back into the bag of its type
PRelease(o) ==
  /\ o \in DOMAIN obj /\ obj[o].held
  /\ obj' = [obj EXCEPT ![o].held = FALSE, ![o].dirty = @ \cap FieldsNotCleared(obj[o].t)]
  /\ bag' = [bag EXCEPT ![obj[o].t] = @ \cup {o}]
  /\ UNCHANGED <<wire, got, mk>>

\* what an Acquire of o finds in it
ResidueOf(o) == obj[o].dirty
NoResidue == \A o \in DOMAIN obj : ~obj[o].held => obj[o].dirty = {}
PoolTypeOK == \A t \in PackTypes : \A o \in bag[t] : o \in DOMAIN obj /\ obj[o].t = t /\ ~obj[o].held

\* ---- part 3 ----
\* post-processing of a pack of family fam whose connection string was built
\* from toks left the text `out`
PostProcess(fam, toks, out) ==
  /\ fam \in MaskFamilies
  /\ mk' = [fam |-> fam, secrets |-> SecretSyms(toks), out |-> out]
  /\ UNCHANGED <<wire, got, bag, obj>>

NoSecretLeft == mk # None => Range(mk.out) \cap mk.secrets = {}

Next == FALSE   \* the companions (MC_*, Trace_*) supply the next-state relations
=============================================================================
