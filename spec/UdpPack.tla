------------------------------ MODULE UdpPack -------------------------------
(***************************************************************************)
(* C07 -- the UDP tracer packs of golib (lang/pack/udp).                   *)
(*                                                                         *)
(* Part 1  VERSIONED CODEC.  Per pack type and protocol version the wire   *)
(*         layout is DATA: an ordered list of <<field, kind>>, selected by *)
(*         the agent family of the version and the minimum-version gates   *)
(*         inside the family.  EncUdp / DecUdp are the reference writer    *)
(*         and reader built on DataX's Enc / Dec.  Law (Agree): reading at *)
(*         the same version restores every carried field (capped text up   *)
(*         to its cap) and consumes exactly the written bytes.             *)
(*         The caps are a PINNED list (type, field, bytes): the caps of    *)
(*         the transaction-start fields the statement speaks of, plus the  *)
(*         Hash/Desc caps of the message pack as a named leniency; any     *)
(*         other shortening of a carried text is a disagreement.           *)
(*         Law (Stable): what an encoder or a reader handed back (bytes,   *)
(*         a pack) is still what it was when it is looked at again after   *)
(*         later calls (no output aliases a buffer that a later call       *)
(*         rewrites).                                                      *)
(* Part 2  POOL.  Per type a bag of released objects; Acquire takes any    *)
(*         pooled object or a fresh one, Fill writes values, Release is    *)
(*         Clear-then-put.  Law (NoResidue): an object that is not held    *)
(*         holds no value of an earlier Fill.  Acquisition also happens    *)
(*         inside the reader entry points (ToPack / ReadPack); a read that *)
(*         fails half way (truncated or malformed datagram) has written    *)
(*         into the pack it took: it may abandon that pack or clear it and *)
(*         put it back, never put it back as it is.                        *)
(* Part 3  MASKING.  A connection string is a sequence of tokens           *)
(*         (key, value, separator); post-processing of the Go and PHP      *)
(*         families rewrites it in two passes (split on " ", then on ";"). *)
(*         Law (NoSecretLeft): no symbol of the value of a token whose key *)
(*         is exactly `password` is left.                                  *)
(*                                                                         *)
(* Values: integers are W8 byte tuples, text is a byte tuple, the stats    *)
(* array a tuple of W8; connection strings are tuples of SYMBOLS (atoms    *)
(* for keys and values, "=", " ", ";").                                    *)
(***************************************************************************)
EXTENDS Bytes

\* the primitive codec of C01, used as a library of pure operators
DX == INSTANCE DataX WITH buf <- <<>>, written <- 0, prog <- <<>>, rpos <- 0, rd <- <<>>

CONSTANT NotCleared      \* set of <<type, field>> that Release fails to reset; the design: {}

Range(s) == {s[i] : i \in DOMAIN s}
Min(a, b) == IF a < b THEN a ELSE b

(***************************************************************************)
(* Decimal text of 64-bit integers (numeric fields travel as decimal text, *)
(* zero as the empty text).                                                *)
(***************************************************************************)
RECURSIVE IncAt(_, _)
IncAt(s, i) == IF i = 0 THEN s
               ELSE IF s[i] = 255 THEN IncAt([s EXCEPT ![i] = 0], i - 1)
               ELSE [s EXCEPT ![i] = s[i] + 1]
\* two's complement negation; the magnitude of MinInt64 is its own bit pattern read unsigned
Neg(v) == IncAt([i \in 1..Len(v) |-> 255 - v[i]], Len(v))

\* unsigned tuple divided by ten: <<quotient, remainder>>
RECURSIVE Div10From(_, _, _, _)
Div10From(bs, i, r, q) ==
  IF i > Len(bs) THEN <<q, r>>
  ELSE Bind(r * 256 + bs[i], LAMBDA cur : Div10From(bs, i + 1, cur % 10, Append(q, cur \div 10)))
Div10(bs) == Div10From(bs, 1, 0, <<>>)

\* ASCII digits of an unsigned tuple; the empty text for zero
RECURSIVE UDigits(_)
UDigits(bs) == IF bs = Zeros(Len(bs)) THEN <<>>
               ELSE Bind(Div10(bs), LAMBDA d : Append(UDigits(d[1]), 48 + d[2]))

\* "%d" with zero as empty / with zero as "0"
DecZE(v) == IF v[1] >= 128 THEN <<45>> \o UDigits(Neg(v)) ELSE UDigits(v)
Dec0(v)  == IF v = Zeros(Len(v)) THEN <<48>> ELSE DecZE(v)

\* unsigned tuple times ten plus d (wraps; callers stay in range)
RECURSIVE MulAddFrom(_, _, _)
MulAddFrom(bs, i, c) ==
  IF i = 0 THEN bs
  ELSE Bind(bs[i] * 10 + c, LAMBDA t : MulAddFrom([bs EXCEPT ![i] = t % 256], i - 1, t \div 256))
MulAdd10(bs, d) == MulAddFrom(bs, Len(bs), d)

IsDigits(s) == Len(s) > 0 /\ \A i \in 1..Len(s) : s[i] \in 48..57
RECURSIVE UParse(_, _)
UParse(s, acc) == IF s = <<>> THEN acc ELSE Bind(MulAdd10(acc, s[1] - 48), LAMBDA a : UParse(Tail(s), a))
\* decimal text -> W8; anything that is not [+-]digits is 0 (range errors are out of scope)
ParseDec(s) ==
  IF s = <<>> THEN Zeros(8)
  ELSE LET neg  == s[1] = 45
           body == IF s[1] \in {43, 45} THEN Tail(s) ELSE s
       IN IF ~IsDigits(body) THEN Zeros(8)
          ELSE IF neg THEN Neg(UParse(body, Zeros(8))) ELSE UParse(body, Zeros(8))

RECURSIVE JoinWith(_, _)
JoinWith(ss, sep) == IF ss = <<>> THEN <<>>
                     ELSE IF Len(ss) = 1 THEN ss[1]
                     ELSE ss[1] \o sep \o JoinWith(Tail(ss), sep)

RECURSIVE SplitOn(_, _)
SplitOn(s, sep) ==
  IF \E i \in 1..Len(s) : s[i] = sep
  THEN LET i == CHOOSE k \in 1..Len(s) : s[k] = sep /\ \A j \in 1..(k - 1) : s[j] # sep
       IN <<SubSeq(s, 1, i - 1)>> \o SplitOn(SubSeq(s, i + 1, Len(s)), sep)
  ELSE <<s>>

(***************************************************************************)
(* Part 1: layouts.                                                        *)
(***************************************************************************)
Family(ver) == IF ver > 50000 THEN "go"
               ELSE IF ver > 40000 THEN "batch"
               ELSE IF ver > 30000 THEN "dotnet"
               ELSE IF ver > 20000 THEN "python"
               ELSE "php"

\* wire kinds
\*   Long, Int     fixed width big-endian
\*   Text          2-byte length + bytes
\*   Dec           decimal text of the integer (zero = empty) inside a Text
\*   Csv           comma joined decimal texts inside a Text
\*   Raw           the bytes themselves, length known out of band
Kinds == {"Long", "Int", "Text", "Dec", "Csv", "Raw"}

Ts(names) == [i \in 1..Len(names) |-> <<names[i], "Text">>]
Ds(names) == [i \in 1..Len(names) |-> <<names[i], "Dec">>]
If(c, s) == IF c THEN s ELSE <<>>

\* the common header
Header(ver) ==
  <<<<"Txid", "Long">>, <<"Time", "Long">>, <<"Elapsed", "Int">>, <<"Cpu", "Long">>, <<"Mem", "Long">>>>
  \o (IF Family(ver) # "php"
      THEN <<<<"Pid", "Int">>, <<"ThreadId", "Long">>>>
      ELSE If(ver >= 10101, <<<<"Pid", "Int">>>>)
           \o If(ver >= 10104, <<<<"ThreadId", "Long">>>>)
           \o If(ver >= 10109, <<<<"Index", "Int">>, <<"Parent", "Int">>>>))

ErrFields == Ts(<<"ErrorType", "ErrorMessage", "Stack">>)
StartTexts == Ts(<<"Host", "Uri", "Ipaddr", "UAgent", "Ref", "WClientId">>)
\* the multi-transaction-trace group
MtGroup == Ds(<<"Mtid", "Mdepth", "McallerTxid", "McallerPcode">>)
           \o Ts(<<"McallerSpec", "McallerUrl", "McallerPoidKey">>)
StepGroup == <<<<"McallerStepId", "Dec">>, <<"XTraceId", "Text">>>>
PhpResource == Ds(<<"PeakMem", "ElapsedUserCPUTime", "ElapsedSystemCPUTime", "EFuncCount",
                    "ProfEFuncCount", "IFuncCount", "ProfIFuncCount">>)

PackTypes == {"TxStart", "TxStartEnd", "TxEnd", "TxSql", "TxSqlParam", "TxHttpc", "TxError", "TxMsg",
              "TxSecureMsg", "TxMethod", "TxDbc", "Relay", "ActiveStack1", "ActiveStack", "TxParam",
              "ActiveStats", "DBConPool", "Config", "TxResultSet"}
HeaderLess == {"Relay", "ActiveStack", "TxParam", "ActiveStats", "DBConPool", "Config"}

Body(type, ver) ==
  LET fam == Family(ver) IN
  CASE type = "TxStart" ->
         StartTexts
         \o (CASE fam = "go"     -> Ts(<<"HttpMethod">>)
               [] fam = "batch"  -> <<>>
               [] fam = "dotnet" -> Ts(<<"IsStaticContents">>)
               [] fam = "python" -> Ts(<<"IsStaticContents">>) \o If(ver >= 20104, Ts(<<"HttpMethod">>))
               [] fam = "php"    -> If(ver >= 10103, Ts(<<"HttpMethod">>)))
    [] type = "TxStartEnd" ->
         StartTexts
         \o (CASE fam = "go"     -> Ts(<<"HttpMethod">>) \o MtGroup
                                    \o If(ver >= 50100, Ds(<<"Status">>)) \o If(ver >= 50101, StepGroup)
               [] fam = "batch"  -> <<>>
               [] fam = "dotnet" -> Ts(<<"IsStaticContents">>) \o Ds(<<"Mtid", "Mdepth", "Mcaller">>)
               [] fam = "python" -> Ts(<<"IsStaticContents">>) \o MtGroup
               [] fam = "php"    -> Ts(<<"HttpMethod">>) \o MtGroup
                                    \o If(ver >= 10107, Ds(<<"Status">>)) \o If(ver >= 10108, StepGroup)
                                    \o If(ver >= 10110, PhpResource))
    [] type = "TxEnd" ->
         (CASE fam = "go"     -> Ts(<<"Host", "Uri">>) \o MtGroup
                                 \o If(ver >= 50100, Ds(<<"Status">>)) \o If(ver >= 50101, StepGroup)
            [] fam = "batch"  -> <<>>
            [] fam = "dotnet" -> Ts(<<"Host", "Uri">>) \o Ds(<<"Mtid", "Mdepth", "McallerTxid">>)
                                 \o If(ver >= 30102, Ds(<<"McallerPcode">>)
                                                     \o Ts(<<"McallerSpec", "McallerUrl", "McallerPoidKey">>))
                                 \o If(ver >= 30103, Ds(<<"Status">>) \o StepGroup)
            [] fam = "python" -> Ts(<<"Host", "Uri">>) \o MtGroup \o If(ver >= 20104, Ds(<<"Status">>))
            [] fam = "php"    -> If(ver >= 10102, Ts(<<"Host", "Uri">>) \o MtGroup)
                                 \o If(ver >= 10107, Ds(<<"Status">>)) \o If(ver >= 10108, StepGroup)
                                 \o If(ver >= 10110, PhpResource))
    [] type = "TxSql" ->
         Ts(<<"Dbc", "Sql">>)
         \o (CASE fam \in {"go", "dotnet"} -> ErrFields
               [] fam = "batch"  -> <<>>
               [] fam = "python" -> If(ver >= 20102, Ds(<<"Fetch">>))
               [] fam = "php"    -> If(ver >= 10105, ErrFields))
    [] type = "TxSqlParam" -> Ts(<<"Dbc", "Sql", "Param">>) \o ErrFields
    [] type = "TxHttpc" ->
         Ts(<<"Url">>)
         \o (CASE fam \in {"go", "dotnet"} -> Ds(<<"StepId">>) \o ErrFields
               [] fam = "batch"  -> <<>>
               [] fam = "python" -> Ds(<<"StepId">>)
               [] fam = "php"    -> IF ver >= 10105 THEN Ds(<<"StepId">>) \o ErrFields
                                    ELSE If(ver >= 10102, Ds(<<"StepId">>)))
    [] type = "TxError" -> Ts(<<"ErrorType", "ErrorMessage">>) \o If(fam \in {"dotnet", "python"}, Ts(<<"Stack">>))
    [] type \in {"TxMsg", "TxSecureMsg"} -> Ts(<<"Hash", "Value", "Desc">>)
    [] type = "TxMethod" -> Ts(<<"Method", "Stack">>)
    [] type = "TxDbc" ->
         Ts(<<"Dbc">>)
         \o (CASE fam \in {"go", "dotnet"} -> ErrFields
               [] fam \in {"batch", "python"} -> <<>>
               [] fam = "php" -> If(ver >= 10105, ErrFields))
    [] type = "Relay" -> <<<<"Data", "Raw">>>>
    [] type = "ActiveStack1" -> Ts(<<"Stack">>)
    [] type \in {"ActiveStack", "DBConPool", "Config"} -> Ts(<<"Data">>)
    [] type = "TxParam" -> Ts(<<"ParamId", "ParamResponse", "Data">>)
    [] type = "ActiveStats" -> <<<<"ActiveStats", "Csv">>>>
    [] type = "TxResultSet" -> Ts(<<"Dbc", "Sql">>) \o Ds(<<"Fetch">>)

Layout(type, ver) == (IF type \in HeaderLess THEN <<>> ELSE Header(ver)) \o Body(type, ver)

\* The PINNED caps (bytes), as <<field, cap>>, transcribed from the writers as they are today.
\* StartCaps: "the documented length caps of the transaction-start fields" of the statement.
StartCaps == <<<<"Host", 2048>>, <<"Uri", 2048>>, <<"Ipaddr", 256>>, <<"UAgent", 2048>>,
               <<"Ref", 2048>>, <<"WClientId", 2048>>, <<"HttpMethod", 256>>>>
\* NAMED LENIENCY: the message pack cuts its title and its description; the statement names only the
\* transaction-start fields, these two caps are accepted because they are as deliberate and as old
MessageCapsLeniency == <<<<"Hash", 2048>>, <<"Desc", 32768>>>>
Caps(type) ==
  CASE type = "TxStart" -> StartCaps
    [] type = "TxMsg"   -> MessageCapsLeniency
    [] OTHER -> <<>>

CapOf(caps, f) == IF \E i \in DOMAIN caps : caps[i][1] = f
                  THEN (CHOOSE i \in DOMAIN caps : caps[i][1] = f) \* index
                  ELSE 0

\* A long text may be recorded in COMPACT form <<-1, n, u1, ..., u16, p1, ..., pk>>: the prefix p
\* (k <= 64, the shortest possible) followed by the first n bytes of the 16-byte unit u repeated
\* (the harness uses it only for fields it filled with such a text, for the written and for the
\* read value alike; the form is canonical, so equal texts have equal forms; bytes are 0..255, so
\* -1 never starts a raw text).  Written texts have no prefix; a prefix appears when the pack's
\* post-processing puts a marker in front of a long SQL text.
UnitLen == 16
IsCompact(v) == Len(v) >= UnitLen + 2 /\ v[1] = -1
\* the value a capped text field is cut to (a cut inside a prefixed compact form does not occur:
\* no capped field is rewritten by post-processing; such a value is left as it is)
Capped(caps, f, v) == LET i == CapOf(caps, f) IN
                      IF i = 0 THEN v
                      ELSE IF IsCompact(v)
                           THEN (IF Len(v) = UnitLen + 2 THEN [v EXCEPT ![2] = Min(v[2], caps[i][2])] ELSE v)
                      ELSE High(v, Min(Len(v), caps[i][2]))

CarriedOf(layout) == {layout[i][1] : i \in DOMAIN layout}

EncField(kind, v) ==
  CASE kind = "Long" -> DX!Enc("Long", v)
    [] kind = "Int"  -> DX!Enc("Int", v)
    [] kind = "Text" -> DX!Enc("TextShort", v)
    [] kind = "Dec"  -> DX!Enc("TextShort", DecZE(v))
    [] kind = "Csv"  -> DX!Enc("TextShort", JoinWith([i \in 1..Len(v) |-> Dec0(v[i])], <<44>>))
    [] kind = "Raw"  -> v

\* reference writer: fields is a record field -> value
EncLayout(layout, caps, fields) ==
  Concat([i \in 1..Len(layout) |-> EncField(layout[i][2], Capped(caps, layout[i][1], fields[layout[i][1]]))])
EncUdp(type, ver, fields) == EncLayout(Layout(type, ver), Caps(type), fields)

\* reference reader: [ok, fields (record over the carried fields), next]
DecField(kind, b, p) ==
  CASE kind = "Long" -> DX!Dec("Long", b, p)
    [] kind = "Int"  -> DX!Dec("Int", b, p)
    [] kind = "Text" -> DX!Dec("TextShort", b, p)
    [] kind = "Dec"  -> Bind(DX!Dec("TextShort", b, p),
                             LAMBDA d : IF d.ok THEN DX!Good(ParseDec(d.v), d.next) ELSE DX!Bad)
    [] kind = "Csv"  -> Bind(DX!Dec("TextShort", b, p),
                             LAMBDA d : IF ~d.ok THEN DX!Bad
                                        ELSE IF d.v = <<>> THEN DX!Good(<<>>, d.next)
                                        ELSE LET parts == SplitOn(d.v, 44) IN
                                             DX!Good([i \in 1..Len(parts) |-> ParseDec(parts[i])], d.next))
    [] kind = "Raw"  -> DX!Good(From(b, p), Len(b) + 1)

RECURSIVE DecFrom(_, _, _, _, _)
DecFrom(layout, i, b, p, acc) ==
  IF i > Len(layout) THEN [ok |-> TRUE, fields |-> acc, next |-> p]
  ELSE Bind(DecField(layout[i][2], b, p),
            LAMBDA d : IF ~d.ok THEN [ok |-> FALSE, fields |-> acc, next |-> p]
                       ELSE DecFrom(layout, i + 1, b, d.next,
                                    [f \in DOMAIN acc \cup {layout[i][1]} |->
                                        IF f = layout[i][1] THEN d.v ELSE acc[f]]))
EmptyRec == [f \in {} |-> <<>>]
DecUdp(type, ver, b) == DecFrom(Layout(type, ver), 1, b, 1, EmptyRec)

(***************************************************************************)
(* Part 3 operators: the two-pass rewriting of a connection string.        *)
(* Text = tuple of symbols; "=", " ", ";" are the structural symbols.      *)
(***************************************************************************)
TrimSp(s) ==
  IF \A i \in 1..Len(s) : s[i] = " " THEN <<>>
  ELSE LET a == CHOOSE i \in 1..Len(s) : s[i] # " " /\ \A j \in 1..(i - 1) : s[j] = " "
           z == CHOOSE i \in 1..Len(s) : s[i] # " " /\ \A j \in (i + 1)..Len(s) : s[j] = " "
       IN SubSeq(s, a, z)

\* key and value of one piece: split at the first "="; no "=" -> no key
PairOf(piece) ==
  IF \E i \in 1..Len(piece) : piece[i] = "="
  THEN LET i == CHOOSE k \in 1..Len(piece) : piece[k] = "=" /\ \A j \in 1..(k - 1) : piece[j] # "="
       IN [k |-> TrimSp(SubSeq(piece, 1, i - 1)), v |-> TrimSp(SubSeq(piece, i + 1, Len(piece)))]
  ELSE [k |-> <<>>, v |-> <<>>]

PwdKey == <<"password">>
MaskSym == "#"

\* one pass: split on sep, one value per key (the last one wins), the value of
\* key `password` replaced, pieces without a key kept verbatim
MaskPass(text, sep) ==
  LET pieces == SplitOn(text, sep)
      prs    == [i \in 1..Len(pieces) |-> PairOf(pieces[i])]
      valOf(k) == IF k = PwdKey THEN <<MaskSym>>
                  ELSE prs[CHOOSE i \in 1..Len(pieces) :
                              prs[i].k = k /\ \A j \in (i + 1)..Len(pieces) : prs[j].k # k].v
      outp   == [i \in 1..Len(pieces) |->
                   IF prs[i].k # <<>> THEN prs[i].k \o <<"=">> \o valOf(prs[i].k) ELSE pieces[i]]
  IN JoinWith(outp, <<sep>>)

MaskText(text) == IF text = <<>> THEN <<>> ELSE MaskPass(MaskPass(text, " "), ";")

\* token = [k |-> symbol or "" (bare word), v |-> tuple of symbols, s |-> " " or ";"]
TokText(t) == IF t.k = "" THEN t.v ELSE <<t.k, "=">> \o t.v
RECURSIVE Render(_)
Render(toks) == IF toks = <<>> THEN <<>>
                ELSE IF Len(toks) = 1 THEN TokText(toks[1])
                ELSE TokText(toks[1]) \o <<toks[1].s>> \o Render(Tail(toks))
\* the symbols of the values of the password tokens
SecretSyms(toks) == UNION {Range(toks[i].v) \ {"="} : i \in {j \in DOMAIN toks : toks[j].k = "password"}}
MaskFamilies == {"go", "php"}

(***************************************************************************)
(* State.                                                                  *)
(***************************************************************************)
None == [none |-> TRUE]

VARIABLES wire,    \* part 1: the pack on the wire: [type, ver, fields, carried, caps, bytes, wlen] or None
          got,     \* part 1: what the reader made of it: [r, rp, consumed] or None
          kept,    \* part 1: what the code handed back and the caller still holds, in order:
                   \*         [w |-> a wire record, pack |-> the pack a reader made of it, or None]
          seen,    \* part 1: the last second look at a kept output: [kind, id, v] or None
          bag,     \* part 2: type -> set of pooled object ids
          obj,     \* part 2: object id -> [t, held, dirty, lost]; dirty = fields holding a value of a Fill
          mk       \* part 3: the last post-processing: [fam, secrets, out] or None

vars == <<wire, got, kept, seen, bag, obj, mk>>

Init == /\ wire = None /\ got = None /\ kept = <<>> /\ seen = None
        /\ bag = [t \in PackTypes |-> {}]
        /\ obj = <<>>
        /\ mk = None

\* ---- part 1 ----
\* the writer produced `bytes` (wlen of them) for a pack with these field values; `carried`
\* is the set of fields the bytes depend on, `caps` the accepted caps; keep: the caller
\* holds on to the returned bytes
UWrite(type, ver, fields, carried, caps, bytes, wlen, keep) ==
  /\ type \in PackTypes
  /\ carried \subseteq DOMAIN fields
  /\ LET w == [type |-> type, ver |-> ver, fields |-> fields, carried |-> carried, caps |-> caps,
               bytes |-> bytes, wlen |-> wlen]
     IN /\ wire' = w
        /\ kept' = IF keep THEN Append(kept, [w |-> w, pack |-> None]) ELSE kept
  /\ got' = None
  /\ UNCHANGED <<seen, bag, obj, mk>>

\* the reader, at the same version, produced field values r (rp: after the
\* pack's own post-processing, None if that is not available)
URead(r, rp, consumed) ==
  /\ wire # None /\ got = None
  /\ got' = [r |-> r, rp |-> rp, consumed |-> consumed]
  /\ UNCHANGED <<wire, kept, seen, bag, obj, mk>>

\* the same, of bytes that were handed back earlier and kept (id-th kept output); the caller
\* holds on to the pack as well
UReadKept(id, r, rp, consumed) ==
  /\ id \in DOMAIN kept
  /\ wire' = kept[id].w
  /\ got' = [r |-> r, rp |-> rp, consumed |-> consumed]
  /\ kept' = [kept EXCEPT ![id].pack = IF rp # None THEN rp ELSE r]
  /\ UNCHANGED <<seen, bag, obj, mk>>

\* a second look at the id-th kept output after later calls: the bytes / the pack as they are now
UPeek(kind, id, v) ==
  /\ kind \in {"bytes", "pack"}
  /\ id \in DOMAIN kept
  /\ kind = "pack" => kept[id].pack # None
  /\ seen' = [kind |-> kind, id |-> id, v |-> v]
  /\ UNCHANGED <<wire, got, kept, bag, obj, mk>>

\* a carried field is restored in full, or cut to its pinned cap
Expect(f) == Capped(wire.caps, f, wire.fields[f])
RestoredIn(rec, f) == f \in DOMAIN rec /\ (rec[f] = wire.fields[f] \/ rec[f] = Expect(f))
Restored(f) == RestoredIn(got.r, f) \/ (got.rp # None /\ RestoredIn(got.rp, f))
Agree == got # None => /\ \A f \in wire.carried : Restored(f)
                       /\ got.consumed = wire.wlen
Stable == seen # None =>
            seen.v = (IF seen.kind = "bytes" THEN kept[seen.id].w.bytes ELSE kept[seen.id].pack)

\* ---- part 2 ----
FieldsNotCleared(t) == {p[2] : p \in {q \in NotCleared : q[1] = t}}
NewObj(t, d) == [t |-> t, held |-> TRUE, dirty |-> d, lost |-> FALSE]

PAcquire(t, o, pooled) ==
  /\ t \in PackTypes
  /\ IF pooled
     THEN /\ o \in bag[t]
          /\ bag' = [bag EXCEPT ![t] = @ \ {o}]
          /\ obj' = [obj EXCEPT ![o].held = TRUE]
     ELSE /\ o \notin DOMAIN obj
          /\ o = Len(obj) + 1
          /\ obj' = Append(obj, NewObj(t, {}))
          /\ bag' = bag
  /\ UNCHANGED <<wire, got, kept, seen, mk>>

PFill(o, fs) ==
  /\ o \in DOMAIN obj /\ obj[o].held /\ ~obj[o].lost
  /\ obj' = [obj EXCEPT ![o].dirty = @ \cup fs]
  /\ UNCHANGED <<wire, got, kept, seen, bag, mk>>

\* Clear, then back into the bag of its type
PRelease(o) ==
  /\ o \in DOMAIN obj /\ obj[o].held /\ ~obj[o].lost
  /\ obj' = [obj EXCEPT ![o].held = FALSE, ![o].dirty = @ \cap FieldsNotCleared(obj[o].t)]
  /\ bag' = [bag EXCEPT ![obj[o].t] = @ \cup {o}]
  /\ UNCHANGED <<wire, got, kept, seen, mk>>

\* a reader entry point (ToPack / ReadPack) that succeeds: it acquires a pack and writes the
\* fields fs of the datagram into it; the caller then holds the pack
PReadOk(t, o, pooled, fs) ==
  /\ t \in PackTypes
  /\ IF pooled
     THEN /\ o \in bag[t]
          /\ bag' = [bag EXCEPT ![t] = @ \ {o}]
          /\ obj' = [obj EXCEPT ![o].held = TRUE, ![o].dirty = @ \cup fs]
     ELSE /\ o = Len(obj) + 1
          /\ obj' = Append(obj, NewObj(t, fs))
          /\ bag' = bag
  /\ UNCHANGED <<wire, got, kept, seen, mk>>

\* a reader entry point that FAILS half way (the caller gets no pack).  In full (used by
\* MC_UdpPool): it took the pack o, wrote fs into it, and then, by `how`,
\*   "leak"  abandons it (nobody holds it, it never returns; what it holds is of no interest),
\*   "clean" clears it and puts it back,
\*   "dirty" puts it back as it is -- what the law forbids.
PFailedReadX(t, o, pooled, fs, how) ==
  /\ t \in PackTypes
  /\ IF pooled THEN o \in bag[t] ELSE o = Len(obj) + 1
  /\ LET base == IF pooled THEN obj ELSE Append(obj, NewObj(t, {}))
         d    == base[o].dirty \cup fs
     IN /\ obj' = [base EXCEPT ![o] = [t |-> t, held |-> (how = "leak"), lost |-> (how = "leak"),
                                       dirty |-> CASE how = "clean" -> d \cap FieldsNotCleared(t)
                                                   [] how = "leak"  -> {}
                                                   [] OTHER         -> d]]
        /\ bag' = [bag EXCEPT ![t] = IF how = "leak" THEN @ \ {o} ELSE @ \cup {o}]
  /\ UNCHANGED <<wire, got, kept, seen, mk>>
\* In a recorded run the pack a failed read took is invisible.  The two lawful outcomes differ
\* only in whether a clean object is in the pool or gone, and a fresh object is always a possible
\* answer of Acquire (sync.Pool may drop): so the trace specification keeps bag as an
\* OVER-APPROXIMATION of the real pool (a leaked object simply is never seen again) and a lawful
\* failed read changes nothing observable.  The unlawful outcome shows at the next Acquire that
\* hands the pack out: it is not clean.
PFailedRead(t) ==
  /\ t \in PackTypes
  /\ UNCHANGED vars

\* what an Acquire of o finds in it
ResidueOf(o) == obj[o].dirty
NoResidue == \A o \in DOMAIN obj : ~obj[o].held => obj[o].dirty = {}
PoolTypeOK == \A t \in PackTypes : \A o \in bag[t] : o \in DOMAIN obj /\ obj[o].t = t /\ ~obj[o].held

\* ---- part 3 ----
\* post-processing of a pack of family fam whose connection string was built
\* from toks left the text `out`
PostProcess(fam, toks, out) ==
  /\ fam \in MaskFamilies
  /\ mk' = [fam |-> fam, secrets |-> SecretSyms(toks), out |-> out]
  /\ UNCHANGED <<wire, got, kept, seen, bag, obj>>

NoSecretLeft == mk # None => Range(mk.out) \cap mk.secrets = {}

Next == FALSE   \* the companions (MC_*, Trace_*) supply the next-state relations
=============================================================================
