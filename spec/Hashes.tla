------------------------------- MODULE Hashes -------------------------------
(***************************************************************************)
(* C15 -- hashes and identifier encodings of golib whose values are        *)
(* persisted as identifiers: util/hash (Hash, Hash64, Hash64v2, Hash64V2   *)
(* and their string forms), util/hll/MurmurHash (32/64-bit MurmurHash2     *)
(* ports), stringutil.HashCode; with Hexa32.tla (base-32 identifier text)  *)
(* and BitIp.tla (composite keys, IPv4 conversions).                       *)
(*                                                                         *)
(* Part 1: REFERENCE FUNCTIONS as pure operators over byte tuples, written *)
(*   from the published algorithms and sharing nothing with golib:         *)
(*     Crc32(bs)       CRC-32/ISO-HDLC ("IEEE", zlib, PNG): the 256-entry  *)
(*                     table is DERIVED here from the generator polynomial *)
(*     Crc32Wide64(bs) the variant golib's Hash64 implements (named below) *)
(*     Crc32Lanes(bs)  the variant Hash64v2/Hash64V2 implement             *)
(*     Murmur32(bs, seed), MurmurLong(w8), Murmur64(bs, seed), Poly31(bs)  *)
(* Part 2: the state machine "a process calls the pure functions": the     *)
(*   memo of every (function family, input) evaluated in a history; a call *)
(*   must return the reference value AND the value memorised before        *)
(*   (purity: "values for given inputs never change").                     *)
(*                                                                         *)
(* Representation (Bytes.tla): every word is a tuple of bytes, most        *)
(* significant first; int32/int64 results are the two's complement bytes.  *)
(***************************************************************************)
EXTENDS Bytes, Bitwise, Hexa32, BitIp

\* force a function over 1..n into a concrete tuple (TLC keeps [i \in S |-> e]
\* symbolic and would re-evaluate e at every application)
Tup(f) == f \o <<>>

\* NOTE (TLC): operator arguments are passed unevaluated and re-evaluated at every
\* use, so every primitive first binds its arguments to VALUES (Bind, Bytes.tla);
\* otherwise nested word expressions cost exponential time.
XorB(a, b) == Bind(a, LAMBDA x : Bind(b, LAMBDA y : Tup([i \in 1..Len(x) |-> x[i] ^^ y[i]])))
NotB(a)    == Bind(a, LAMBDA x : Tup([i \in 1..Len(x) |-> 255 - x[i]]))
Ones(n)    == Fill(n, 255) \o <<>>

\* logical shift right of a word by k bits
ShrBits(word, k) ==
  Bind(word, LAMBDA w :
    LET n == Len(w)
        q == k \div 8
        r == k % 8
        p == 2 ^ r
        s == 2 ^ (8 - r)
    IN Tup([i \in 1..n |-> (IF i - q >= 1 THEN w[i - q] \div p ELSE 0)
                         + (IF r > 0 /\ i - q - 1 >= 1 THEN (w[i - q - 1] % p) * s ELSE 0)]))

\* product of two w-byte words modulo 2^(8w): schoolbook multiplication on
\* byte limbs (column sums stay below 2^20), carries propagated upwards
RECURSIVE SumProd(_, _, _, _, _)
SumProd(a, b, w, k, i) == IF i > k THEN 0
                          ELSE a[w + 1 - i] * b[w - k + i] + SumProd(a, b, w, k, i + 1)
RECURSIVE MulCarry(_, _, _, _, _)
MulCarry(a, b, w, k, carry) ==
  IF k > w THEN <<>>
  ELSE Bind(SumProd(a, b, w, k, 1) + carry,
            LAMBDA t : Append(MulCarry(a, b, w, k + 1, t \div 256), t % 256))
MulMod(a, b) == Bind(a, LAMBDA x : Bind(b, LAMBDA y : MulCarry(x, y, Len(x), 1, 0)))

-----------------------------------------------------------------------------
(* CRC-32.  Generator x^32+x^26+x^23+x^22+x^16+x^12+x^11+x^10+x^8+x^7+x^5+  *)
(* x^4+x^2+x+1 (IEEE 802.3).  In the reflected (LSB-first) representation   *)
(* the coefficient of x^e is bit e counted from the most significant end,   *)
(* i.e. the word EDB88320.                                                  *)
PolyExps == {0, 1, 2, 4, 5, 7, 8, 10, 11, 12, 16, 22, 23, 26}
Poly == Tup([i \in 1..4 |->
          (IF 8 * (i - 1)     \in PolyExps THEN 128 ELSE 0) + (IF 8 * (i - 1) + 1 \in PolyExps THEN 64 ELSE 0)
        + (IF 8 * (i - 1) + 2 \in PolyExps THEN 32  ELSE 0) + (IF 8 * (i - 1) + 3 \in PolyExps THEN 16 ELSE 0)
        + (IF 8 * (i - 1) + 4 \in PolyExps THEN 8   ELSE 0) + (IF 8 * (i - 1) + 5 \in PolyExps THEN 4  ELSE 0)
        + (IF 8 * (i - 1) + 6 \in PolyExps THEN 2   ELSE 0) + (IF 8 * (i - 1) + 7 \in PolyExps THEN 1  ELSE 0)])

\* n-fold "divide by x": shift out the low bit, subtract the generator when it was set
RECURSIVE CrcBits(_, _)
CrcBits(c, n) == IF n = 0 THEN c
                 ELSE Bind(IF c[4] % 2 = 1 THEN XorB(ShrBits(c, 1), Poly) ELSE ShrBits(c, 1),
                           LAMBDA d : CrcBits(d, n - 1))
CrcTable == [n \in 0..255 |-> CrcBits(<<0, 0, 0, n>>, 8)]

\* one byte through the table-driven (Sarwate) loop on a 32-bit register
CrcStep(crc, b) == XorB(<<0, crc[1], crc[2], crc[3]>>, CrcTable[crc[4] ^^ b])

RECURSIVE CrcLoop(_, _, _)
CrcLoop(bs, i, crc) == IF i > Len(bs) THEN crc
                       ELSE Bind(CrcStep(crc, bs[i]), LAMBDA c : CrcLoop(bs, i + 1, c))

\* CRC-32/ISO-HDLC: register preset to all ones, result complemented
Crc32(bs) == NotB(CrcLoop(bs, 1, Ones(4)))

(* Crc32Wide64 -- the function golib's Hash64 computes and persists: the    *)
(* same table-driven loop run in a 64-bit register preset to all ones, the  *)
(* 32-bit table entry SIGN-EXTENDED to 64 bits before the XOR, result       *)
(* complemented.  It is not a CRC-64 and its low half is not CRC-32 (bits   *)
(* of the upper half shift into the lower one); it is specified as what it  *)
(* is because the values are stored identifiers.                            *)
WideStep(crc, b) == XorB(<<0>> \o SubSeq(crc, 1, 7), SignExt(CrcTable[crc[8] ^^ b], 8))
RECURSIVE WideLoop(_, _, _)
WideLoop(bs, i, crc) == IF i > Len(bs) THEN crc
                        ELSE Bind(WideStep(crc, bs[i]), LAMBDA c : WideLoop(bs, i + 1, c))
Crc32Wide64(bs) == NotB(WideLoop(bs, 1, Ones(8)))

(* Crc32Lanes -- "hash64 v2": a 64-bit register preset to all ones; per     *)
(* input byte the register is shifted right by 8 FIRST, then each 32-bit    *)
(* half is XORed with the table entry selected by (its own low byte XOR the *)
(* input byte); result complemented.  The empty input gives 0.              *)
LaneStep(crc, b) == LET s == <<0>> \o SubSeq(crc, 1, 7)
                    IN XorB(s, CrcTable[s[4] ^^ b] \o CrcTable[s[8] ^^ b])
RECURSIVE LaneLoop(_, _, _)
LaneLoop(bs, i, crc) == IF i > Len(bs) THEN crc
                        ELSE Bind(LaneStep(crc, bs[i]), LAMBDA c : LaneLoop(bs, i + 1, c))
Crc32Lanes(bs) == NotB(LaneLoop(bs, 1, Ones(8)))

-----------------------------------------------------------------------------
(* MurmurHash2 (A. Appleby), 32 bit: m = 5bd1e995, r = 24.                  *)
M32 == <<91, 209, 233, 149>>
DefaultSeed == <<225, 122, 20, 101>>          \* e17a1465, the seed golib uses

Mix32(k) == Bind(MulMod(k, M32), LAMBDA x : MulMod(XorB(x, ShrBits(x, 24)), M32))

\* the little-endian 32-bit word at bytes p..p+3 of bs, as an MSB-first tuple
LE4(bs, p) == <<bs[p + 3], bs[p + 2], bs[p + 1], bs[p]>>

RECURSIVE M32Body(_, _, _, _)
M32Body(bs, i, n, h) == IF i > n THEN h
                        ELSE Bind(XorB(MulMod(h, M32), Mix32(LE4(bs, 4 * i - 3))),
                                  LAMBDA g : M32Body(bs, i + 1, n, g))

Avalanche32(h) == Bind(MulMod(XorB(h, ShrBits(h, 13)), M32), LAMBDA x : XorB(x, ShrBits(x, 15)))

(* Tail of the published C reference: the remaining 1..3 bytes t[0..] enter *)
(* as t[2]<<16, t[1]<<8, t[0] (a little-endian partial word), unsigned.     *)
TailC(bs) == LET n == Len(bs)  left == n % 4  base == n - left
             IN <<0,
                  IF left >= 3 THEN bs[base + 3] ELSE 0,
                  IF left >= 2 THEN bs[base + 2] ELSE 0,
                  IF left >= 1 THEN bs[base + 1] ELSE 0>>
(* Tail of the port golib carries (A. Bialecki's Java port as shipped in    *)
(* stream-lib, from which golib's file is derived): the bytes enter in the  *)
(* OPPOSITE order, data[n-3]<<16, data[n-2]<<8, data[n-1] -- and golib takes *)
(* them unsigned (the Java original sign-extends them).  These are the      *)
(* values golib has always produced; they are pinned here as the variant    *)
(* "MurmurHash2/Bialecki tail order, unsigned tail bytes".  For             *)
(* Len(bs) % 4 <= 1 it coincides with the C reference (checked in MC).      *)
TailPort(bs) == LET n == Len(bs)  left == n % 4
                IN <<0,
                     IF left >= 3 THEN bs[n - 2] ELSE 0,
                     IF left >= 2 THEN bs[n - 1] ELSE 0,
                     IF left >= 1 THEN bs[n] ELSE 0>>

Murmur32With(bs, seed, tail) ==
  Bind(M32Body(bs, 1, Len(bs) \div 4, XorB(seed, NatToBytes(Len(bs), 4))),
       LAMBDA h : Avalanche32(IF Len(bs) % 4 = 0 THEN h ELSE MulMod(XorB(h, tail), M32)))

Murmur32C(bs, seed) == Murmur32With(bs, seed, TailC(bs))          \* published reference
Murmur32(bs, seed)  == Murmur32With(bs, seed, TailPort(bs))   \* what golib persists

(* hashLong of the port: MurmurHash2 over the 8 bytes of a 64-bit value,    *)
(* low word first, with the state started at 0 (= seed XOR length for the   *)
(* seed 8): MurmurLong(v) = Murmur32C(Rev(v), <<0,0,0,8>>) (checked in MC). *)
(* golib's MurmurHash(uint32) widens its argument with zeros (the Java      *)
(* original sign-extends an Integer; a Go uint32 has no sign).              *)
MurmurLong(v) ==
  Bind(Mix32(Low(v, 4)), LAMBDA h1 :
    Avalanche32(XorB(MulMod(h1, M32), Mix32(High(v, 4)))))

(* MurmurHash64A (64-bit MurmurHash2): m = c6a4a7935bd1e995, r = 47.        *)
M64 == <<198, 164, 167, 147, 91, 209, 233, 149>>
Mix64(k) == Bind(MulMod(k, M64), LAMBDA x : MulMod(XorB(x, ShrBits(x, 47)), M64))
LE8(bs, p) == <<bs[p + 7], bs[p + 6], bs[p + 5], bs[p + 4], bs[p + 3], bs[p + 2], bs[p + 1], bs[p]>>

RECURSIVE M64Body(_, _, _, _)
M64Body(bs, i, n, h) == IF i > n THEN h
                        ELSE Bind(MulMod(XorB(h, Mix64(LE8(bs, 8 * i - 7))), M64),
                                  LAMBDA g : M64Body(bs, i + 1, n, g))
\* the remaining 1..7 bytes as a little-endian partial word (unsigned)
Tail64(bs) == LET n == Len(bs)  left == n % 8  base == n - left
              IN Tup([i \in 1..8 |-> IF 9 - i <= left THEN bs[base + 9 - i] ELSE 0])
Avalanche64(h) == Bind(MulMod(XorB(h, ShrBits(h, 47)), M64), LAMBDA x : XorB(x, ShrBits(x, 47)))

Murmur64(bs, seed) ==
  Bind(M64Body(bs, 1, Len(bs) \div 8, XorB(ZeroExt(seed, 8), MulMod(NatToBytes(Len(bs), 8), M64))),
       LAMBDA h : Avalanche64(IF Len(bs) % 8 = 0 THEN h ELSE MulMod(XorB(h, Tail64(bs)), M64)))

-----------------------------------------------------------------------------
(* Poly31 -- stringutil.HashCode ("replacement of Java's String.hashCode"): *)
(* h := 31*h + b over the BYTES of the string, carried in Go's `int`, i.e.  *)
(* a 64-bit register on the platforms golib is built for.  Named variant:   *)
(* Java works on UTF-16 units in a 32-bit register; the low 32 bits of      *)
(* Poly31 are Java's value for ASCII strings (checked in MC).  The value is *)
(* used for hash buckets only, but is pinned like the others.               *)
\* w*m + add modulo 2^(8*Len(w)) for small m, add (< 2^15): one pass over the limbs
RECURSIVE MulSmallFrom(_, _, _, _)
MulSmallFrom(w, m, i, carry) ==
  IF i = 0 THEN <<>>
  ELSE Bind(w[i] * m + carry, LAMBDA t : Append(MulSmallFrom(w, m, i - 1, t \div 256), t % 256))
MulSmallAdd(word, m, add) == Bind(word, LAMBDA w : MulSmallFrom(w, m, Len(w), add))

RECURSIVE PolyLoop(_, _, _, _)
PolyLoop(bs, i, h, m) == IF i > Len(bs) THEN h
                         ELSE Bind(MulSmallAdd(h, m, bs[i]), LAMBDA g : PolyLoop(bs, i + 1, g, m))
Poly31(bs)   == PolyLoop(bs, 1, Zeros(8) \o <<>>, 31)
Poly31J(bs)  == PolyLoop(bs, 1, Zeros(4) \o <<>>, 31)      \* the 32-bit register of Java

-----------------------------------------------------------------------------
(* Everything the hash family returns for one input: `arg` a byte string,   *)
(* `seed` a 4-byte murmur seed, `plen` <= Len(arg) a prefix length for the   *)
(* 64-bit murmur entry point that takes an explicit length.  The field      *)
(* names are the golib entry points (lower-cased where two differ by case). *)
RefBytes(arg, seed, plen) ==
  Bind(Crc32(arg), LAMBDA c :
  Bind(Crc32Wide64(arg), LAMBDA w :
  Bind(Crc32Lanes(arg), LAMBDA n :
    [hash        |-> c,  hashstr   |-> c,
     hash64      |-> w,  hash64str |-> w,
     hash64v2    |-> n,  hash64V2  |-> n,  hash64strv2 |-> n,  longhash |-> n,
     murmur      |-> Murmur32(arg, DefaultSeed),
     murmurseed  |-> Murmur32(arg, seed),
     murmur64    |-> Murmur64(arg, DefaultSeed),
     murmur64p   |-> Murmur64(High(arg, plen), DefaultSeed),
     hashcode    |-> Poly31(arg)])))
\* ... for one 64-bit value (8 bytes) and one 32-bit value (4 bytes)
RefLong(v) == [murmurlong |-> MurmurLong(v)]
RefInt(v)  == [murmurint |-> MurmurLong(ZeroExt(v, 8))]

(* hexa32: the text of a number and the number read back from that text     *)
RefHexa(v) == Bind(H32Enc(v), LAMBDA t : [text |-> t, back |-> H32Dec(t)])
RefHexaDec(t) == [value |-> H32Dec(t)]

(* bitutil: hi, lo halves (n bytes each), src a key (2n bytes).  SetHigh /   *)
(* SetLow exist for 64-bit keys only; the operators are width-generic.      *)
RefBit(hi, lo, src) ==
  [comp |-> Composite(hi, lo), high |-> GetHigh(src), low |-> GetLow(src),
   sethigh |-> SetHigh(src, hi), setlow |-> SetLow(src, lo)]

(* iputil: text of the 4 bytes / of the int32, the bytes read back from the *)
(* text, the int32 of the bytes, the bytes of the int32                     *)
RefIp(a) == Bind(IpText(a), LAMBDA t :
  [text |-> t, textint |-> t, textfrint |-> t, parsed |-> IpParse(t), int |-> IpInt(a), frint |-> IpFromInt(a)])
RefIpParse(t) == [parsed |-> IpParse(t)]

-----------------------------------------------------------------------------
(* State machine.  memo: function from the inputs evaluated in this history *)
(* to the record of values returned for each.  A key is <<family, args>>,   *)
(* args a tuple of byte tuples.                                             *)
VARIABLE memo
vars == <<memo>>

Init == memo = <<>>

Known(k) == k \in DOMAIN memo

\* the process evaluated a family on key k and got the record `outs`:
\* enabled only if outs is what this key returned before (purity)
Record(k, outs) ==
  /\ Known(k) => memo[k] = outs
  /\ memo' = IF Known(k) THEN memo
             ELSE [x \in DOMAIN memo \cup {k} |-> IF x = k THEN outs ELSE memo[x]]

EvalBytes(arg, seed, plen, outs) ==
  /\ Len(seed) = 4 /\ plen \in 0..Len(arg)
  /\ outs = RefBytes(arg, seed, plen)
  /\ Record(<<"bytes", <<arg, seed, <<plen>>>>>>, outs)

EvalLong(v, outs) ==
  /\ Len(v) = 8
  /\ outs = RefLong(v)
  /\ Record(<<"long", <<v>>>>, outs)

EvalInt(v, outs) ==
  /\ Len(v) = 4
  /\ outs = RefInt(v)
  /\ Record(<<"int", <<v>>>>, outs)

EvalHexa(v, outs) ==
  /\ Len(v) = 8
  /\ outs = RefHexa(v)
  /\ outs.back = v                        \* decoding an encoding returns the number
  /\ Record(<<"hexa", <<v>>>>, outs)

EvalHexaDec(t, outs) ==
  /\ H32Readable(t)
  /\ outs = RefHexaDec(t)
  /\ Record(<<"hexadec", <<t>>>>, outs)

EvalBit(hi, lo, src, outs) ==
  /\ Len(hi) \in {1, 2, 4} /\ Len(lo) = Len(hi) /\ Len(src) = 2 * Len(hi)
  /\ \A f \in DOMAIN outs : f \in DOMAIN RefBit(hi, lo, src) /\ outs[f] = RefBit(hi, lo, src)[f]
  /\ {"comp", "high", "low"} \subseteq DOMAIN outs
  /\ (Len(hi) = 4 => {"sethigh", "setlow"} \subseteq DOMAIN outs)
  /\ Record(<<"bit", <<hi, lo, src>>>>, outs)

EvalIp(a, outs) ==
  /\ Len(a) = 4
  /\ outs = RefIp(a)
  /\ outs.parsed = a /\ outs.frint = a     \* the conversions are mutual inverses
  /\ Record(<<"ip", <<a>>>>, outs)

EvalIpParse(t, outs) ==
  /\ IpReadable(t)
  /\ outs = RefIpParse(t)
  /\ Record(<<"ipparse", <<t>>>>, outs)

(* The caller and its slices.  Some entry points take or return a slice (the  *)
(* byte string / the address passed; the bytes ToBytes and ToBytesFrInt      *)
(* return).  A slice handed over belongs to the caller: writing into it --   *)
(* or into the slice it passed, once the call has returned -- is no input of *)
(* any function, so no value changes (an implementation that keeps such a    *)
(* slice in a cache, or hands out its own buffer, does not refine this).     *)
(* SliceOf(k, f): the content slice f of an evaluation of key k had when the *)
(* call returned; f = "input" is the slice passed (the first argument).      *)
HasSlice(k, f) == Known(k) /\ (f = "input" \/ f \in DOMAIN memo[k])
SliceOf(k, f) == IF f = "input" THEN k[2][1] ELSE memo[k][f]

\* the caller overwrites, with `after`, a slice that held `before`
Scribble(k, f, before, after) ==
  /\ HasSlice(k, f)
  /\ before = SliceOf(k, f)
  /\ Len(after) = Len(before) /\ after # before
  /\ UNCHANGED memo

\* slices of an earlier evaluation of k that the caller has not written to are read again
\* (other calls have been made meanwhile): they hold what they held
Held(k, outs) ==
  /\ Known(k)
  /\ \A f \in DOMAIN outs : HasSlice(k, f) /\ outs[f] = SliceOf(k, f)
  /\ UNCHANGED memo

\* purity as a state property: a step never changes what a key returned
Pure == [][\A k \in DOMAIN memo : k \in DOMAIN memo' /\ memo'[k] = memo[k]]_vars
=============================================================================
