SPECIFICATION Spec
CONSTANTS Threads = {1, 2}
          PairWith = "point"
CONSTRAINT ReportSplit
INVARIANTS NoSelfDeadlock NoMutualDeadlock NoLeak NoDataRace Bounded
CHECK_DEADLOCK FALSE
