SPECIFICATION MCSpec
CONSTANTS MaxLen = 3
          Cands = "steps"
          Reader = "ref"
INVARIANTS ReadBack CursorExact TxNormalize AllConsumed WireOK NoStuck ExactNormalForm SelfDelimiting
CHECK_DEADLOCK FALSE
