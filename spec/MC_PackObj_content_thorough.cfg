SPECIFICATION MCSpec
CONSTANTS MaxSteps = 5
          Focus = "content"
          Deep = FALSE
INVARIANTS HashOwned Written
CHECK_DEADLOCK FALSE
