SPECIFICATION MCSpec
CONSTANTS SmallN = 2
          AsIsMaps = TRUE
INVARIANTS PTotal PRefl PSym PTransE PDecodeEqual PAntisym PTransC PScalarConsistent PTypeOrder PFresh PStable
CHECK_DEADLOCK FALSE
