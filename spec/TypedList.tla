------------------------------ MODULE TypedList ------------------------------
(***************************************************************************)
(* C13 -- the growable typed lists of golib util/list (IntList, LongList,  *)
(* FloatList, DoubleList, StringList) and its LinkedList as ONE reference  *)
(* model: a finite sequence.                                               *)
(*                                                                         *)
(* State                                                                   *)
(*   xs   the sequence of stored elements (index 0 of the code = xs[1])    *)
(*   T    the kind of the object, fixed during a history:                  *)
(*        "Int" "Long" "Float" "Double" "String" (typed lists), "Linked",  *)
(*        "Abs" (model checking over abstract integer elements)            *)
(*   held what the caller still holds of the things calls handed out or    *)
(*        were handed in: held[h] is the value the h-th retained array     *)
(*        (ToArray), index slice (Sorting), list object (Filtering result, *)
(*        AddAll argument, list read back from the wire form) or argument  *)
(*        array (AddAllArray) must have.  A list is a sequence of VALUES:  *)
(*        whatever it hands out is a snapshot and whatever it is handed is *)
(*        copied -- no call on the list changes a retained thing, and      *)
(*        writing into a retained thing changes neither the list nor any   *)
(*        other retained thing (no aliasing of the backing array).         *)
(*                                                                         *)
(* Element representation (Bytes.tla): Int/Long = 8-byte two's complement, *)
(* Float/Double = IEEE bit pattern (4/8 bytes), String = UTF-8 bytes.      *)
(* Linked/Abs elements are small integers.                                 *)
(*                                                                         *)
(* A result is a tuple: <<v>> for a value, <<>> for "the call failed"      *)
(* (typed lists: an index outside 0..size-1 was REPORTED) resp. "nothing"  *)
(* (LinkedList.RemoveFirst/RemoveLast of an empty list).                   *)
(*                                                                         *)
(* Backing arrays, capacities, growth steps, prev/next pointers are NOT    *)
(* state: the property says they are invisible.  In particular a Get or    *)
(* Set with size <= i < capacity must fail like any other bad index.       *)
(*                                                                         *)
(* Sorting is specified as a RELATION between the list(s) and the returned *)
(* index permutation, not as a function: any permutation that orders the   *)
(* values is accepted (no alarm from an unstable or different algorithm).  *)
(*                                                                         *)
(* Written from the property statement, not from the golib source.         *)
(***************************************************************************)
EXTENDS Bytes, TLC

DX == INSTANCE DataX WITH buf <- <<>>, written <- 0, prog <- <<>>, rpos <- 0, rd <- <<>>

VARIABLES xs, T, held
vars == <<xs, T, held>>
lvars == <<xs, T>>        \* the list itself

TypedKinds == {"Int", "Long", "Float", "Double", "String"}
Kinds == TypedKinds \cup {"Linked", "Abs"}
Width == [Int |-> 8, Long |-> 8, Float |-> 4, Double |-> 8]

Init == xs = <<>> /\ T = "Abs" /\ held = <<>>
InitWith(t) == xs = <<>> /\ T = t /\ held = <<>>

Size == Len(xs)
\* i is an index of the code (0-based)
InRange(i) == i >= 0 /\ i < Len(xs)
At(i) == xs[i + 1]

InsertAt(s, p, v) == SubSeq(s, 1, p) \o <<v>> \o SubSeq(s, p + 1, Len(s))     \* before 0-based p
DeleteAt(s, p)    == SubSeq(s, 1, p) \o SubSeq(s, p + 2, Len(s))               \* 0-based p

\* ---- typed lists: modifying calls ----------------------------------------
Add(v)     == xs' = Append(xs, v) /\ UNCHANGED T
\* AddAll(other list) and AddAllArray(array): the argument's elements, in order
AddAll(vs) == xs' = xs \o vs /\ UNCHANGED T
\* Set*: a bad index is reported and changes nothing
Set(i, v)  == /\ xs' = IF InRange(i) THEN [xs EXCEPT ![i + 1] = v] ELSE xs
              /\ UNCHANGED T
SetFails(i) == ~InRange(i)
\* Get*: the element, or the report of a bad index -- never a slot beyond size
GetRes(i)  == IF InRange(i) THEN <<At(i)>> ELSE <<>>

\* ---- filtering ------------------------------------------------------------
FilterOK(idx)  == \A j \in 1..Len(idx) : InRange(idx[j])
Filtering(idx) == [j \in 1..Len(idx) |-> At(idx[j])]
FilterRes(idx) == IF FilterOK(idx) THEN <<Filtering(idx)>> ELSE <<>>

\* ---- LinkedList (positions are 0-based hops from the first node) ---------
AddFirst(v)     == xs' = <<v>> \o xs /\ UNCHANGED T
AddLast(v)      == Add(v)
PutBefore(v, p) == InRange(p) /\ xs' = InsertAt(xs, p, v) /\ UNCHANGED T
Remove(p)       == InRange(p) /\ xs' = DeleteAt(xs, p) /\ UNCHANGED T
RemoveFirst     == xs' = (IF xs = <<>> THEN xs ELSE Tail(xs)) /\ UNCHANGED T
RemoveLast      == xs' = (IF xs = <<>> THEN xs ELSE SubSeq(xs, 1, Len(xs) - 1)) /\ UNCHANGED T
Clear           == xs' = <<>> /\ UNCHANGED T
FirstRes        == IF xs = <<>> THEN <<>> ELSE <<xs[1]>>
LastRes         == IF xs = <<>> THEN <<>> ELSE <<xs[Len(xs)]>>

\* ---- retained results and arguments (aliasing) ---------------------------
\* The list actions above say nothing about `held`: a step conjoins exactly one of
\* NoKeep (the caller retains nothing new: every retained thing keeps its value)
\* and KeepAt(h, s) (the caller retains the thing the call returned / was given in
\* slot h -- a new slot or one it reuses; its value is s; the others keep theirs).
NoKeep == UNCHANGED held
KeepAt(h, s) == /\ h \in 1..(Len(held) + 1)
                /\ held' = IF h = Len(held) + 1 THEN Append(held, s) ELSE [held EXCEPT ![h] = s]
IsHeld(h) == h \in 1..Len(held)
\* the caller writes v into slot i (0-based) of the retained array / calls Set(i, v)
\* on the retained list object: only that thing changes
HeldWrite(h, i, v) == /\ IsHeld(h) /\ i >= 0 /\ i < Len(held[h])
                      /\ held' = [held EXCEPT ![h] = [@ EXCEPT ![i + 1] = v]]
                      /\ UNCHANGED lvars
\* the caller calls Add(v) on the retained list object
HeldAppend(h, v) == /\ IsHeld(h)
                    /\ held' = [held EXCEPT ![h] = Append(@, v)]
                    /\ UNCHANGED lvars
\* the retained list object h and the list change roles (the calls that follow go
\* to the former result / argument; the former list is now the retained object)
SwapHeld(h) == /\ IsHeld(h)
               /\ xs' = held[h] /\ held' = [held EXCEPT ![h] = xs]
               /\ UNCHANGED T

\* ---- wire form of a typed list ---------------------------------------------
\* 3-byte big-endian count, then every element with the codec of its type:
\* Int/Long = DataX decimal, Float/Double = the bit pattern, String = DataX text
ElemOp == [Int |-> "Decimal", Long |-> "Decimal", Float |-> "Float", Double |-> "Double", String |-> "Text"]

\* concatenation of ss[lo..hi] by halving (linear recursion depth would be the list length)
RECURSIVE Flat(_, _, _)
Flat(ss, lo, hi) == IF lo > hi THEN <<>>
                    ELSE IF lo = hi THEN ss[lo]
                    ELSE LET mid == (lo + hi) \div 2 IN Flat(ss, lo, mid) \o Flat(ss, mid + 1, hi)
Flatten(ss) == Bind(ss, LAMBDA d : Flat(d, 1, Len(d)))

Wire(t, s) == NatToBytes(Len(s), 3) \o Flatten([i \in 1..Len(s) |-> DX!EncScalar(ElemOp[t], s[i])])

\* the reader: [ok, v, next] like DataX!Dec
Unwire(t, b) == IF ~DX!Have(b, 1, 3) THEN DX!Bad
                ELSE DX!DecElems(ElemOp[t], b, 4, BytesToNat(Slice(b, 1, 3)), <<>>)

\* ---- the natural order of the element types ------------------------------
\* integers: signed; floats: IEEE numeric order of NaN-free patterns, -0 = +0;
\* strings: byte-wise lexicographic (strings.Compare)
IsNegZero(a) == a[1] = 128 /\ \A i \in 2..Len(a) : a[i] = 0
CanonF(a) == IF IsNegZero(a) THEN Zeros(Len(a)) ELSE a
\* an unsigned key whose order is the numeric order of the pattern
FKey(a) == IF a[1] >= 128 THEN [i \in 1..Len(a) |-> 255 - a[i]] ELSE [a EXCEPT ![1] = @ + 128]
MinOf(S) == CHOOSE m \in S : \A x \in S : m <= x
LexCmp(a, b) == LET n == IF Len(a) < Len(b) THEN Len(a) ELSE Len(b)
                    d == {i \in 1..n : a[i] # b[i]}
                IN IF d = {} THEN (IF Len(a) < Len(b) THEN -1 ELSE IF Len(a) > Len(b) THEN 1 ELSE 0)
                   ELSE LET m == MinOf(d) IN IF a[m] < b[m] THEN -1 ELSE 1
Cmp(t, a, b) == CASE t \in {"Int", "Long"}     -> CmpS(a, b)
                  [] t \in {"Float", "Double"} -> CmpU(FKey(CanonF(a)), FKey(CanonF(b)))
                  [] t = "String"              -> LexCmp(a, b)
                  [] OTHER                     -> IF a < b THEN -1 ELSE IF a > b THEN 1 ELSE 0

\* rk are dense ranks of vals in the order of type t, dist the distinct values
\* in strictly ascending order: equal rank <=> equal in the order of t, smaller
\* rank <=> smaller value
RanksOK(t, vals, rk, dist) ==
  /\ Len(rk) = Len(vals)
  /\ \A j \in 1..(Len(dist) - 1) : Cmp(t, dist[j], dist[j + 1]) < 0
  /\ \A i \in 1..Len(vals) : /\ rk[i] \in 0..(Len(dist) - 1)
                             /\ Cmp(t, vals[i], dist[rk[i] + 1]) = 0

\* ---- sorting: the relation --------------------------------------------------
\* perm (0-based indices, as the code returns them) is a permutation of 0..n-1
\* such that walking it, the primary keys never step against the requested
\* direction, and where two neighbours have equal primary keys the child keys
\* do not step against theirs.  Keys are integers (ranks).
Ordered(a, b, asc) == IF asc THEN a <= b ELSE a >= b
IsPermutation(perm, n) == /\ Len(perm) = n
                          /\ \A i \in 1..n : perm[i] \in 0..(n - 1)
                          /\ Cardinality({perm[i] : i \in 1..n}) = n
IsOrderingPermutation(perm, primary, child, asc, casc) ==
  LET n == Len(primary) IN
  /\ Len(child) = n
  /\ IsPermutation(perm, n)
  /\ \A i \in 1..(n - 1) :
        LET a == perm[i] + 1
            b == perm[i + 1] + 1
        IN IF primary[a] = primary[b] THEN Ordered(child[a], child[b], casc)
           ELSE Ordered(primary[a], primary[b], asc)
\* one-level sorting = every element has the same child key
NoChild(n) == [i \in 1..n |-> 0]

\* ---- invariants ---------------------------------------------------------
TypeOK == /\ T \in Kinds
          /\ DOMAIN xs = 1..Len(xs)
          /\ DOMAIN held = 1..Len(held)
          /\ T \in DOMAIN Width => \A i \in 1..Len(xs) : Len(xs[i]) = Width[T]
InvAll == TypeOK
=============================================================================
