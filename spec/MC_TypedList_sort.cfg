SPECIFICATION MCSpec
CONSTANTS Mode = "sort"
          Vals = {0, 1, 2}
          MaxLen = 4
          MaxHeld = 0
VIEW View
INVARIANTS TypeOK Satisfiable RefSortAccepted RefusesBad SortedResult
PROPERTIES Frame
CHECK_DEADLOCK FALSE
