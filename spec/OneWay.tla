------------------------------- MODULE OneWay -------------------------------
(***************************************************************************)
(* C06 -- the one-way TCP client (net/oneway/OneWayTcpClient.go).          *)
(*                                                                         *)
(* Structured like the implementation, one action per critical step:      *)
(*   direct mode   Call, Lock, Build, ConnectOk/ConnectFail, BufWrite,     *)
(*                 Spill (bufio overflow: part of the buffer is pushed to  *)
(*                 the socket in the middle of a frame), Flush,            *)
(*                 CloseOnSendError, Close/SkipCloseOnFlushError, Unlock,  *)
(*                 Return                                                  *)
(*   queue mode    Enqueue / EnqueueFull, Dequeue, the same send steps run *)
(*                 by the single worker, WorkerSkipFlush, IdleFlush,       *)
(*                 WorkerDone; in direct mode the worker only dials (under *)
(*                 the send lock) -- WorkerIdleFlush is the refuted design *)
(*                 in which it also flushes the shared writer when idle    *)
(*   environment   PeerClose, PeerReset (also in the middle of a socket     *)
(*                 write, see Push); a peer that STALLS (alive, but not    *)
(*                 reading: the client's write deadline expires in the     *)
(*                 middle of a socket write, see Push); ListenerDown,      *)
(*                 ListenerUp of every collector address independently     *)
(*   configuration Reconfig: between sends the default license, the queue  *)
(*                 capacity and the server list (a set of collector        *)
(*                 addresses) change, by assignment to                     *)
(*                 the exported fields or through ApplyConfig (which drops *)
(*                 the connection and re-dials when license or servers     *)
(*                 changed)                                                *)
(*                                                                         *)
(* A frame is two units: k=1 "a non-empty proper prefix of the frame" and  *)
(* k=2 "the rest", so that the middle of a frame exists.  A unit carries   *)
(* the frame header h (project code, license in effect, payload identity). *)
(* wire[c] is what the peer has READ (or, if it stalled, will have read    *)
(* when it resumes) on connection c; after the peer went away (net[c] is   *)
(* "closed" or "reset") it never grows.  A peer that stalled                *)
(* (net[c] = "stalled") is alive: whatever a client writes to that         *)
(* connection afterwards still arrives -- the design never does (the       *)
(* writer's error is sticky until the connection is replaced).             *)
(*                                                                         *)
(* Named deviations of the code from the intended design (both allowed):   *)
(*   D1 SkipCloseOnFlushError -- in direct mode (and SendAndClear) a failed*)
(*      Flush does not close the connection; the writer's sticky error     *)
(*      makes the NEXT send fail in BufWrite, which closes; the send after *)
(*      that re-dials.  Recovers therefore allows two failed sends without *)
(*      a dial (the intended design needs one).                            *)
(*   D2 the worker of the code flushes after every pack (its time test is  *)
(*      constantly true); the design flushes on request / when idle.       *)
(***************************************************************************)
EXTENDS Integers, Sequences, FiniteSets

CONSTANTS Sender,      \* calling goroutines
          Addr,        \* collector addresses that exist (each with its own listener)
          MaxFaults,   \* bound on environment faults (PeerClose/PeerReset/cut or stall in a write/ListenerDown/a collector dropped from the server list)
          MaxCfg       \* bound on configuration changes

VARIABLES conf,      \* [queue: BOOLEAN, qcap: Int, deflic: license, srv: SUBSET Addr (the configured servers), gen: Nat] -- changed only by Reconfig
          lock,      \* holder of the process-wide send lock
          pc,        \* per actor: where it is in its send
          cur,       \* per actor: the pack being sent
          fr,        \* per actor: the frame built for it
          conn,      \* current connection number, 0 = nil
          nconn,     \* connections established so far
          wbuf,      \* units in the buffered writer of the current connection
          werr,      \* the writer's sticky error
          net,       \* per connection: "up" | "closed" | "reset" | "stalled"
          wire,      \* per connection: units the peer has read
          listener,  \* per collector address: "open" | "refusing"
          queue,     \* pending packs (queue mode)
          reg,       \* history: id -> [p: pack, rank: acceptance order]
          okset,     \* history: ids whose send returned nil
          errset,    \* history: ids whose send returned an error
          res,       \* per actor: result of the send in progress
          faults,    \* history: environment faults so far
          streak     \* history: failed sends completed since the last dial attempt

vars == <<conf, lock, pc, cur, fr, conn, nconn, wbuf, werr, net, wire, listener, queue,
          reg, okset, errset, res, faults, streak>>

None   == "none"
NoLic  == "-"
NoPack == [id |-> 0]
Worker == "W"
Actor  == Sender \cup {Worker}
\* configured collectors that are listening: a dial succeeds towards any of them, and fails only if there is none
UpSrv  == {ad \in conf.srv : listener[ad] = "open"}

\* ------------------------------------------------------------------ frames
EffLic(p) == IF p.lic = NoLic THEN conf.deflic ELSE p.lic
Hdr(p)    == [pcode |-> p.pcode, lic |-> EffLic(p), body |-> p.body]
Unit(p, k) == [id |-> p.id, k |-> k, h |-> Hdr(p)]
Frame(p)  == <<Unit(p, 1), Unit(p, 2)>>

Conns == 1..nconn

\* ----------------------------------------------------------- socket write
(* The writer hands the units `data` to the socket of connection c.  d of  *)
(* them reach the peer, `ok` is what the writer is told, `kind` is how the *)
(* peer goes away (or stalls) if it does so before or during this write.   *)
(*   healthy connection, nothing goes wrong: everything delivered, ok      *)
(*   peer already gone: nothing delivered; the kernel may still accept the *)
(*     bytes (ok = TRUE: FlushIntoDeadPeer, loss NOT detectable) or refuse *)
(*   peer goes away during the write: a prefix is delivered; ok either way *)
(*   peer stalls (kind "stalled": it is alive but does not read, the       *)
(*     kernel's buffers fill and the write deadline of the client          *)
(*     expires): a prefix is taken by the kernel and will be read when the *)
(*     peer resumes; the writer is told (a deadline that expired is always *)
(*     reported).  The connection is still there: bytes a client writes to *)
(*     it later arrive behind that prefix.                                 *)
(*   an error means the last byte was not taken: the last unit is not      *)
(*     delivered completely (a k=1 unit counts as delivered as soon as one *)
(*     byte of it is)                                                      *)
Gone(c) == net[c] \in {"closed", "reset"}
Push(c, data, d, ok, kind) ==
  LET u == Len(data)
      cut == net[c] = "up" /\ (d < u \/ ~ok) IN
  /\ u > 0 /\ d \in 0..u
  /\ kind \in {"closed", "reset", "stalled"} /\ (~cut => kind = "closed")   \* kind is meaningful only for a cut
  /\ Gone(c) => d = 0
  /\ (cut /\ kind = "stalled") => ~ok
  /\ ~ok => (d < u \/ data[u].k = 1)
  /\ cut => faults < MaxFaults
  /\ wire' = [wire EXCEPT ![c] = @ \o SubSeq(data, 1, d)]
  /\ IF cut THEN net' = [net EXCEPT ![c] = kind] /\ faults' = faults + 1
            ELSE UNCHANGED <<net, faults>>

\* ------------------------------------------------------------ direct mode
\* lics: the client's default licenses in effect between the acceptance of the send and the building of its frame
Register(p) == reg' = [x \in DOMAIN reg \cup {p.id} |->
                         IF x = p.id THEN [p |-> p, rank |-> Cardinality(DOMAIN reg) + 1, lics |-> {conf.deflic}]
                                     ELSE reg[x]]

Call(s, p) ==
  /\ ~conf.queue /\ s \in Sender /\ pc[s] = "idle" /\ p.id \notin DOMAIN reg \cup {cur[a].id : a \in Actor}
  /\ pc' = [pc EXCEPT ![s] = "called"] /\ cur' = [cur EXCEPT ![s] = p]
  /\ UNCHANGED <<conf, lock, fr, conn, nconn, wbuf, werr, net, wire, listener, queue, reg, okset, errset, res, faults, streak>>

\* the acceptance order of direct sends is the order in which they take the lock
Lock(s) ==
  /\ s \in Sender /\ pc[s] = "called" /\ lock = None
  /\ lock' = s /\ pc' = [pc EXCEPT ![s] = "locked"]
  /\ Register(cur[s])
  /\ UNCHANGED <<conf, cur, fr, conn, nconn, wbuf, werr, net, wire, listener, queue, okset, errset, res, faults, streak>>

Build(a) ==
  /\ pc[a] = "locked"
  /\ fr' = [fr EXCEPT ![a] = Frame(cur[a])]
  /\ pc' = [pc EXCEPT ![a] = "built"]
  /\ UNCHANGED <<conf, lock, cur, conn, nconn, wbuf, werr, net, wire, listener, queue, reg, okset, errset, res, faults, streak>>

\* a sender dials inside send(); the worker of process() dials while idle.  The worker exists in direct
\* mode too (GetOneWayTcpClient always starts it): there it shares conn and the writer with the senders and
\* must dial under the send lock -- modelled as one atomic step taken while the lock is free.
CanDial(a) == \/ pc[a] = "built"
              \/ (a = Worker /\ pc[a] = "idle" /\ (conf.queue \/ lock = None))

\* a dial goes through the configured servers until one answers: it ends at ANY configured collector that is
\* listening (the order of preference is the client's business) ...
ConnectOk(a, ad) ==
  /\ CanDial(a) /\ conn = 0 /\ ad \in UpSrv
  /\ nconn' = nconn + 1 /\ conn' = nconn + 1
  /\ net' = Append(net, "up") /\ wire' = Append(wire, <<>>)
  /\ wbuf' = <<>> /\ werr' = FALSE          \* a NEW writer: nothing of the old one survives
  /\ streak' = 0
  /\ UNCHANGED <<conf, lock, pc, cur, fr, listener, queue, reg, okset, errset, res, faults>>

\* ... and fails only if NO configured collector is listening: a dial attempt is an attempt at every configured
\* server ("could not connect to any server")
ConnectFail(a) ==
  /\ CanDial(a) /\ conn = 0 /\ UpSrv = {}
  /\ pc' = [pc EXCEPT ![a] = IF @ = "built" THEN "senderr" ELSE @]
  /\ streak' = 0
  /\ UNCHANGED <<conf, lock, cur, fr, conn, nconn, wbuf, werr, net, wire, listener, queue, reg, okset, errset, res, faults>>

\* the frame goes into the buffered writer; a sticky writer error fails at once
BufWrite(a) ==
  /\ pc[a] = "built" /\ conn # 0
  /\ IF werr THEN pc' = [pc EXCEPT ![a] = "senderr"] /\ UNCHANGED wbuf
             ELSE pc' = [pc EXCEPT ![a] = "written"] /\ wbuf' = wbuf \o fr[a]
  /\ UNCHANGED <<conf, lock, cur, fr, conn, nconn, werr, net, wire, listener, queue, reg, okset, errset, res, faults, streak>>

\* bufio overflow inside send(): a frame larger than the free space pushes the
\* first u buffered units to the socket (a frame larger than the whole buffer
\* on an empty writer is written through completely: u = Len(wbuf))
Spill(a, u, d, ok, kind) ==
  /\ pc[a] = "written" /\ conn # 0 /\ ~werr
  /\ (cur[a].big \/ Len(wbuf) > 2)
  /\ u \in 1..Len(wbuf)
  /\ Push(conn, SubSeq(wbuf, 1, u), d, ok, kind)
  /\ IF ok THEN /\ wbuf' = SubSeq(wbuf, u + 1, Len(wbuf)) /\ UNCHANGED <<pc, werr>>
           ELSE \* what the peer did not get stays in the (now dead) writer
                /\ wbuf' = SubSeq(wbuf, d + 1, Len(wbuf)) /\ werr' = TRUE /\ pc' = [pc EXCEPT ![a] = "senderr"]
  /\ UNCHANGED <<conf, lock, cur, fr, conn, nconn, listener, queue, reg, okset, errset, res, streak>>

CloseOnSendError(a) ==
  /\ pc[a] = "senderr"
  /\ conn' = 0
  /\ pc' = [pc EXCEPT ![a] = "failed"] /\ res' = [res EXCEPT ![a] = "err"]
  /\ UNCHANGED <<conf, lock, cur, fr, nconn, wbuf, werr, net, wire, listener, queue, reg, okset, errset, faults, streak>>

\* Flush: the whole buffer goes to the socket (three outcomes + FlushIntoDeadPeer, all in Push)
Flush(a, d, ok, kind) ==
  /\ pc[a] = "written" /\ conn # 0 /\ ~werr
  /\ IF wbuf = <<>>
       THEN /\ ok /\ d = 0 /\ kind = "closed"
            /\ pc' = [pc EXCEPT ![a] = "flushed"] /\ res' = [res EXCEPT ![a] = "ok"]
            /\ UNCHANGED <<wbuf, werr, net, wire, faults>>
       ELSE /\ Push(conn, wbuf, d, ok, kind)
            /\ IF ok THEN /\ pc' = [pc EXCEPT ![a] = "flushed"] /\ res' = [res EXCEPT ![a] = "ok"]
                          /\ wbuf' = <<>> /\ UNCHANGED werr
                     ELSE /\ pc' = [pc EXCEPT ![a] = "flusherr"] /\ res' = [res EXCEPT ![a] = "err"]
                          /\ wbuf' = SubSeq(wbuf, d + 1, Len(wbuf)) /\ werr' = TRUE
  /\ UNCHANGED <<conf, lock, cur, fr, conn, nconn, listener, queue, reg, okset, errset, streak>>

\* intended (and what the worker of process() does)
CloseOnFlushError(a) ==
  /\ pc[a] = "flusherr"
  /\ conn' = 0 /\ pc' = [pc EXCEPT ![a] = "failed"]
  /\ UNCHANGED <<conf, lock, cur, fr, nconn, wbuf, werr, net, wire, listener, queue, reg, okset, errset, res, faults, streak>>

\* deviation D1
SkipCloseOnFlushError(a) ==
  /\ pc[a] = "flusherr"
  /\ pc' = [pc EXCEPT ![a] = "failed"]
  /\ UNCHANGED <<conf, lock, cur, fr, conn, nconn, wbuf, werr, net, wire, listener, queue, reg, okset, errset, res, faults, streak>>

Bump(r) == IF r = "err" THEN streak + 1 ELSE 0

Unlock(s) ==
  /\ s \in Sender /\ lock = s /\ pc[s] \in {"flushed", "failed"}
  /\ lock' = None /\ pc' = [pc EXCEPT ![s] = "ret"]
  /\ streak' = Bump(res[s])
  /\ UNCHANGED <<conf, cur, fr, conn, nconn, wbuf, werr, net, wire, listener, queue, reg, okset, errset, res, faults>>

Return(s) ==
  /\ s \in Sender /\ pc[s] = "ret"
  /\ IF res[s] = "ok" THEN okset' = okset \cup {cur[s].id} /\ UNCHANGED errset
                      ELSE errset' = errset \cup {cur[s].id} /\ UNCHANGED okset
  /\ pc' = [pc EXCEPT ![s] = "idle"] /\ cur' = [cur EXCEPT ![s] = NoPack] /\ res' = [res EXCEPT ![s] = "-"]
  /\ UNCHANGED <<conf, lock, fr, conn, nconn, wbuf, werr, net, wire, listener, queue, reg, faults, streak>>

\* ------------------------------------------------------------- queue mode
\* the acceptance order of queued sends is the order of the queue
Enqueue(s, p) ==
  /\ conf.queue /\ s \in Sender /\ p.id \notin DOMAIN reg \cup errset
  /\ (conf.qcap <= 0 \/ Len(queue) < conf.qcap)
  /\ queue' = Append(queue, p) /\ Register(p) /\ okset' = okset \cup {p.id}
  /\ UNCHANGED <<conf, lock, pc, cur, fr, conn, nconn, wbuf, werr, net, wire, listener, errset, res, faults, streak>>

EnqueueFull(s, p) ==
  /\ conf.queue /\ s \in Sender /\ p.id \notin DOMAIN reg \cup errset
  /\ conf.qcap > 0 /\ Len(queue) >= conf.qcap
  /\ errset' = errset \cup {p.id}
  /\ UNCHANGED <<conf, lock, pc, cur, fr, conn, nconn, wbuf, werr, net, wire, listener, queue, reg, okset, res, faults, streak>>

Dequeue ==
  /\ conf.queue /\ pc[Worker] = "idle" /\ queue # <<>>
  /\ cur' = [cur EXCEPT ![Worker] = Head(queue)] /\ queue' = Tail(queue)
  /\ pc' = [pc EXCEPT ![Worker] = "locked"] /\ res' = [res EXCEPT ![Worker] = "-"]
  /\ UNCHANGED <<conf, lock, fr, conn, nconn, wbuf, werr, net, wire, listener, reg, okset, errset, faults, streak>>

\* the worker may go for the next pack without flushing (the frame stays in the writer)
WorkerSkipFlush ==
  /\ pc[Worker] = "written"
  /\ pc' = [pc EXCEPT ![Worker] = "idle"] /\ cur' = [cur EXCEPT ![Worker] = NoPack]
  /\ streak' = 0
  /\ UNCHANGED <<conf, lock, fr, conn, nconn, wbuf, werr, net, wire, listener, queue, reg, okset, errset, res, faults>>

WorkerDone ==
  /\ pc[Worker] \in {"flushed", "failed"}
  /\ pc' = [pc EXCEPT ![Worker] = "idle"] /\ cur' = [cur EXCEPT ![Worker] = NoPack]
  /\ res' = [res EXCEPT ![Worker] = "-"]
  /\ streak' = Bump(res[Worker])
  /\ UNCHANGED <<conf, lock, fr, conn, nconn, wbuf, werr, net, wire, listener, queue, reg, okset, errset, faults>>

\* frames left in the writer are flushed when the worker has nothing else to do
IdleFlush(d, ok, kind) ==
  /\ conf.queue /\ pc[Worker] = "idle" /\ queue = <<>> /\ conn # 0 /\ ~werr /\ wbuf # <<>>
  /\ Push(conn, wbuf, d, ok, kind)
  /\ wbuf' = (IF ok THEN <<>> ELSE SubSeq(wbuf, d + 1, Len(wbuf))) /\ werr' = ~ok
  /\ UNCHANGED <<conf, lock, pc, cur, fr, conn, nconn, listener, queue, reg, okset, errset, res, streak>>

\* NOT part of the design (MC_OneWay enables it only in a configuration TLC must refute; the trace specification has
\* no step for it): the worker acting ON ITS OWN while idle in DIRECT mode.  GetOneWayTcpClient starts the worker in
\* direct mode too; there it has no pack of its own, and the writer and the connection belong to whichever sender holds
\* the send lock.  "Flush what sits in the write buffer when nothing was dequeued for a while" touches the writer
\* WITHOUT that lock: if the idle round falls between a sender's buffered write and the end of that sender's flush
\* (pc = "written": a healthy connection whose collector reads slowly keeps the sender there for seconds), the worker
\* hands the first u units of the same buffer region to the socket while the sender's flush still owns them (two
\* unsynchronised users of one bufio.Writer: neither sees the other's progress) -- the region goes out again with the
\* sender's own flush.  A frame arrives twice (u = the whole buffer: InOrderAtMostOnce) or a copy of its beginning is
\* wedged into the stream (u = a part of it: FramesWhole), on a connection on which nothing went wrong.
WorkerIdleFlush(u) ==
  /\ ~conf.queue /\ pc[Worker] = "idle" /\ conn # 0 /\ ~werr /\ wbuf # <<>> /\ net[conn] = "up"
  /\ \E s \in Sender : pc[s] = "written"
  /\ u \in 1..Len(wbuf)
  /\ wire' = [wire EXCEPT ![conn] = @ \o SubSeq(wbuf, 1, u)]
  /\ UNCHANGED <<conf, lock, pc, cur, fr, conn, nconn, wbuf, werr, net, listener, queue, reg, okset, errset, res, faults, streak>>

\* ------------------------------------------------------------ environment
PeerGoes(c, kind) ==
  /\ c \in Conns /\ net[c] = "up" /\ faults < MaxFaults
  /\ net' = [net EXCEPT ![c] = kind] /\ faults' = faults + 1
  /\ UNCHANGED <<conf, lock, pc, cur, fr, conn, nconn, wbuf, werr, wire, listener, queue, reg, okset, errset, res, streak>>
PeerClose(c) == PeerGoes(c, "closed")
PeerReset(c) == PeerGoes(c, "reset")

\* every collector address has its own listener: they go down and come back independently
ListenerDown(ad) ==
  /\ ad \in Addr /\ listener[ad] = "open" /\ faults < MaxFaults
  /\ listener' = [listener EXCEPT ![ad] = "refusing"] /\ faults' = faults + 1
  /\ UNCHANGED <<conf, lock, pc, cur, fr, conn, nconn, wbuf, werr, net, wire, queue, reg, okset, errset, res, streak>>

ListenerUp(ad) ==
  /\ ad \in Addr /\ listener[ad] = "refusing"
  /\ listener' = [listener EXCEPT ![ad] = "open"]
  /\ UNCHANGED <<conf, lock, pc, cur, fr, conn, nconn, wbuf, werr, net, wire, queue, reg, okset, errset, res, faults, streak>>

\* ---------------------------------------------------------- configuration
(* The configuration changes BETWEEN sends: `via` = "field" is an assignment *)
(* to the exported fields (License, Servers, Queue.SetCapacity), "apply" is  *)
(* ApplyConfig, which may also drop the connection (`closed`) and dial       *)
(* (`dial` = "ok" | "fail", else "none").  The property does not say when a  *)
(* reloaded configuration must re-dial, so that is not prescribed here; what *)
(* it needs is: the connection is dropped only while no send is in progress  *)
(* and the writer holds nothing that was accepted and could still be         *)
(* delivered; a dial succeeds exactly if a collector of the NEW list is      *)
(* listening; and from this step                                             *)
(* on every frame built without a per-send license carries the NEW default   *)
(* license, and the queue refuses by the NEW capacity.                       *)
(* Dropping a collector from the server list is a fault of the environment   *)
(* (what is queued for it may not be deliverable any more).                  *)
Pending == {queue[i].id : i \in 1..Len(queue)} \cup {cur[a].id : a \in {b \in Actor : pc[b] = "locked"}}

Reconfig(via, lic, qcap, srv, closed, dial) ==
  LET away == ~(conf.srv \subseteq srv) IN
  /\ via \in {"field", "apply"} /\ dial \in {"none", "ok", "fail"} /\ conf.gen < MaxCfg /\ srv \subseteq Addr
  /\ (closed \/ dial # "none") => /\ via = "apply"
                                  /\ lock = None /\ pc[Worker] = "idle"
  /\ closed => (conn # 0 /\ (wbuf = <<>> \/ werr))
  /\ dial # "none" => (conn = 0 \/ closed)
  /\ away => faults < MaxFaults
  /\ conf' = [conf EXCEPT !.deflic = lic, !.qcap = qcap, !.srv = srv, !.gen = @ + 1]
  /\ reg' = [x \in DOMAIN reg |-> IF x \in Pending THEN [reg[x] EXCEPT !.lics = @ \cup {lic}] ELSE reg[x]]
  /\ faults' = IF away THEN faults + 1 ELSE faults
  /\ CASE dial = "ok" ->
            /\ \E ad \in srv : listener[ad] = "open"
            /\ nconn' = nconn + 1 /\ conn' = nconn + 1
            /\ net' = Append(net, "up") /\ wire' = Append(wire, <<>>)
            /\ wbuf' = <<>> /\ werr' = FALSE /\ streak' = 0
       [] dial = "fail" ->
            /\ \A ad \in srv : listener[ad] = "refusing"
            /\ conn' = 0 /\ streak' = 0
            /\ UNCHANGED <<nconn, net, wire, wbuf, werr>>
       [] OTHER ->
            /\ conn' = IF closed THEN 0 ELSE conn
            /\ UNCHANGED <<nconn, net, wire, wbuf, werr, streak>>
  /\ UNCHANGED <<lock, pc, cur, fr, listener, queue, okset, errset, res>>

\* ------------------------------------------------------------------- Init
InitWith(c) ==
  /\ conf = c
  /\ lock = None
  /\ pc = [a \in Actor |-> "idle"] /\ cur = [a \in Actor |-> NoPack] /\ fr = [a \in Actor |-> <<>>]
  /\ res = [a \in Actor |-> "-"]
  /\ conn = 0 /\ nconn = 0 /\ wbuf = <<>> /\ werr = FALSE /\ net = <<>> /\ wire = <<>>
  /\ listener = [ad \in Addr |-> "open"] /\ queue = <<>>
  /\ reg = <<>> /\ okset = {} /\ errset = {} /\ faults = 0 /\ streak = 0

\* ------------------------------------------------------------- properties
InCS == {"locked", "built", "senderr", "written", "flushed", "flusherr", "failed"}

\* at most one sender between Lock and Unlock, and it is the lock holder
MutualExclusion ==
  /\ \A s \in Sender : pc[s] \in InCS <=> lock = s
  /\ Cardinality({s \in Sender : pc[s] \in InCS}) <= 1

\* wire[c] is a concatenation of complete frames, followed by a proper prefix of
\* one frame only if the peer went away or stalled (the cut frame is then the END of
\* what that connection ever carries) or the client is still in the middle of
\* that frame on this very connection (its rest is the head of the writer)
WholeOn(c) ==
  LET w == wire[c] IN
  /\ \A i \in 1..Len(w) :
       IF w[i].k = 1 THEN i = Len(w) \/ (w[i+1].k = 2 /\ w[i+1].id = w[i].id /\ w[i+1].h = w[i].h)
                     ELSE i > 1 /\ w[i-1].k = 1 /\ w[i-1].id = w[i].id
  /\ (Len(w) > 0 /\ w[Len(w)].k = 1) =>
        \/ net[c] # "up"
        \/ conn = c /\ ~werr /\ wbuf # <<>> /\ wbuf[1].k = 2 /\ wbuf[1].id = w[Len(w)].id
FramesWhole == \A c \in Conns : WholeOn(c)

\* all units the peer has read, in connection order
RECURSIVE WireCat(_)
WireCat(c) == IF c = 0 THEN <<>> ELSE WireCat(c - 1) \o wire[c]
Firsts == SelectSeq(WireCat(nconn), LAMBDA x : x.k = 1)
WholeIds == {x.id : x \in {y \in UNION {{wire[c][i] : i \in 1..Len(wire[c])} : c \in Conns} : y.k = 2}}

\* frames appear in acceptance order, each at most once (no duplicate, no resend)
InOrderAtMostOnce ==
  /\ \A i \in 1..Len(Firsts) : Firsts[i].id \in DOMAIN reg
  /\ \A i \in 1..Len(Firsts) - 1 : reg[Firsts[i].id].rank < reg[Firsts[i+1].id].rank

\* every frame carries the pcode of its pack, the license in effect for that send (the per-send override, else a
\* default license of the client that was in effect between the acceptance of the send and the building of its
\* frame), and its payload
HeaderRight ==
  \A c \in Conns : \A i \in 1..Len(wire[c]) :
     LET u == wire[c][i] IN
     /\ u.id \in DOMAIN reg
     /\ LET r == reg[u.id] IN
        /\ u.h.pcode = r.p.pcode /\ u.h.body = r.p.body
        /\ u.h.lic \in (IF r.p.lic = NoLic THEN r.lics ELSE {r.p.lic})

\* an error return means the frame did not arrive whole (so a retry cannot duplicate)
ErrMeansNotDelivered == errset \cap WholeIds = {}

Quiescent == /\ \A a \in Actor : pc[a] = "idle"
             /\ queue = <<>> /\ wbuf = <<>>

\* with a healthy connection nothing accepted is lost (safety half)
NoLossSafe ==
  faults = 0 =>
     /\ ~conf.queue => okset \subseteq WholeIds
     /\ Quiescent => okset \subseteq WholeIds

\* the client re-dials on a later send: at most two completed failed sends
\* without a dial attempt (one in the intended design, see D1).  A dial attempt
\* covers EVERY configured server (ConnectFail: it fails only if none of them is
\* listening), whichever of them the client was connected to before.
Recovers == streak <= 2

\* a fresh connection starts at a frame boundary (nothing of an old writer leaks onto it)
FreshStart == \A c \in Conns : Len(wire[c]) > 0 => wire[c][1].k = 1

\* the writer's sticky error always stems from a peer that went away or stalled: a fresh
\* connection has a fresh writer (no error, nothing buffered by an older one)
WriterErrorJustified == (werr /\ conn # 0) => net[conn] # "up"

TypeOK ==
  /\ lock \in Sender \cup {None}
  /\ conn \in 0..nconn /\ Len(net) = nconn /\ Len(wire) = nconn
  /\ listener \in [Addr -> {"open", "refusing"}] /\ conf.srv \subseteq Addr
  /\ okset \cap errset = {}

\* liveness half (checked under weak fairness of the client's own steps)
NoLossWhenHealthy == <>[](faults = 0 => (Quiescent /\ okset \subseteq WholeIds))
=============================================================================
