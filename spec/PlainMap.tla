------------------------------ MODULE PlainMap -------------------------------
(***************************************************************************)
(* C12 -- the plain (unordered) hash maps and sets of golib util/hmap      *)
(* (IntIntMap, IntKeyMap, IntSet, StringSet) as ONE reference model: a     *)
(* mathematical finite map.                                                *)
(*                                                                         *)
(* State                                                                   *)
(*   m    function key -> value; DOMAIN m = the stored keys.  A set is the *)
(*        map whose value under k is k itself.                             *)
(*   held the other live objects of the same type (sequence of maps): the   *)
(*        argument map of a put-all, the original of a wire round trip, an  *)
(*        object made by another constructor call.  Calls are made on ONE   *)
(*        object at a time (m, "the focus"); Swap changes which one.        *)
(*   arrs the slices calls returned or were given, still in the caller's    *)
(*        hands (sequence of sequences)                                     *)
(*   ens  the enumerators opened on the focus that are still usable: each   *)
(*        knows its kind (keys, values, entries) and what it has yielded so *)
(*        far.  The statement promises something for an enumeration only    *)
(*        "while the structure is not being modified": every modifying call *)
(*        (and moving the calls to another object) drops them; lookups,     *)
(*        membership tests, Size, renderings, other enumerations and steps  *)
(*        of other enumerators do NOT -- they are not modifications.        *)
(*   cfg  the conventions of the concrete type (fixed during a history):   *)
(*          t     name of the type (which shape its answers have)          *)
(*          set   the type is a set                                        *)
(*          none  what the type answers for "no such entry", as a tuple:   *)
(*                <<0>> (IntIntMap's NONE) or <<>> (IntKeyMap's nil)       *)
(*          rej   the type refuses the empty-string key (StringSet: Go's   *)
(*                stand-in for Java's null): inserting it is a no-op and   *)
(*                it is never a member                                     *)
(*          ek    which key is the empty string (0 = none in use)          *)
(*          nil   the values of the type are objects and may be the nil     *)
(*                object (IntKeyMap: interface{}).  The nil object is the   *)
(*                value code NilV; a call that answers a stored nil answers *)
(*                the empty tuple, exactly what it answers for "absent"     *)
(*                (a key stored with nil IS stored: member, counted,        *)
(*                enumerated -- only a lookup cannot tell it from absent)   *)
(*                                                                         *)
(* cfg.none is a configuration of the object for IntIntMap (its public      *)
(* NONE field, default 0): every history says which one it runs with.       *)
(*                                                                         *)
(* Keys are abstract positive integers (the harness logs the rank of a key *)
(* in the history's sorted key pool), values small integers.  A result is  *)
(* a tuple: <<v>> for a value, cfg.none for "absent".                      *)
(*                                                                         *)
(* Bucket arrays, hash functions, chains, load factor, growth, and the     *)
(* order in which an enumeration produces the elements are NOT part of the *)
(* state: the property says they are invisible.  An enumeration is correct *)
(* iff it is SOME arrangement of the stored elements, each exactly once.   *)
(*                                                                         *)
(* Written from the property statement, not from the golib source.         *)
(***************************************************************************)
EXTENDS Bytes, TLC

DX == INSTANCE DataX WITH buf <- <<>>, written <- 0, prog <- <<>>, rpos <- 0, rd <- <<>>

VARIABLES m, cfg, held, arrs, ens
vars == <<m, cfg, held, arrs, ens>>
\* a (modifying) call on the object under test leaves its configuration, every
\* other live object and every slice in the caller's hands as they are; the
\* enumerators opened before it are not used any more (the statement is silent
\* about an enumeration that goes on across a modification)
Same == UNCHANGED <<cfg, held, arrs>> /\ ens' = <<>>

EmptyFn == [x \in {} |-> 0]
Range(s) == {s[i] : i \in 1..Len(s)}

Stored     == DOMAIN m
Size       == Cardinality(Stored)
Present(k) == k \in Stored
\* the value code of the nil object (types with cfg.nil only; such a type never
\* stores the number -1, the harness boxes non-negative codes only)
NilV == -1
\* a stored value as a call answers it
Wrap(v) == IF cfg.nil /\ v = NilV THEN <<>> ELSE <<v>>
\* what a lookup-like call answers for key k (also: the "previous value")
Lookup(k)  == IF Present(k) THEN Wrap(m[k]) ELSE cfg.none
\* the type refuses this key
Refused(k) == cfg.rej /\ k = cfg.ek
HasValue(v) == \E k \in Stored : m[k] = v

\* f with k bound to v (k new or not)
Upd(f, k, v) == [x \in DOMAIN f \cup {k} |-> IF x = k THEN v ELSE f[x]]
Del(f, k)    == [x \in DOMAIN f \ {k} |-> f[x]]
\* the value a type stores under k when asked to store v
StoreVal(k, v) == IF cfg.set THEN k ELSE v

\* ---- modifying calls -----------------------------------------------------
Put(k, v) == /\ m' = IF Refused(k) THEN m ELSE Upd(m, k, StoreVal(k, v))
             /\ Same
\* add: the argument is added to the stored value; a new key stores it as given
AddVal(k, v) == IF Present(k) THEN m[k] + v ELSE v
Add(k, v) == m' = Upd(m, k, AddVal(k, v)) /\ Same
\* add-if-exist never creates an entry
AddIfExist(k, v) == /\ m' = IF Present(k) THEN Upd(m, k, m[k] + v) ELSE m
                    /\ Same
Remove(k) == m' = Del(m, k) /\ Same
Clear == m' = EmptyFn /\ Same

\* put-all: the pairs <<ks[i], vs[i]>> are put one after the other (for a set
\* only ks is used).  Closed form: the LAST pair naming a key decides.
LastIdx(ks, k) == CHOOSE i \in 1..Len(ks) : ks[i] = k /\ \A j \in (i + 1)..Len(ks) : ks[j] # k
PutAllFn(f, ks, vs) ==
  LET new == {k \in Range(ks) : ~Refused(k)} IN
  [k \in DOMAIN f \cup new |-> IF k \in new THEN StoreVal(k, IF cfg.set THEN k ELSE vs[LastIdx(ks, k)])
                                            ELSE f[k]]
PutAll(ks, vs) == /\ (cfg.set \/ Len(vs) = Len(ks))
                  /\ m' = PutAllFn(m, ks, vs)
                  /\ Same

\* ---- several live objects -------------------------------------------------
\* A mathematical map is a VALUE: whatever a call was given (another map, a
\* slice) or returned (a slice, the map read back from the wire form) stays in
\* the caller's hands as an independent value.  `held` are the other live
\* objects of the same type over the same keys, m is the one calls are
\* currently made on ("the focus"); a call on the focus changes no held object.
\* a new empty object of the type (any constructor)
NewObj == held' = Append(held, EmptyFn) /\ UNCHANGED <<m, cfg, arrs, ens>>
\* from now on calls are made on held object h; the former focus is held in its place
Swap(h) == /\ h \in 1..Len(held)
           /\ m' = held[h] /\ held' = [held EXCEPT ![h] = m]
           /\ ens' = <<>> /\ UNCHANGED <<cfg, arrs>>
\* the entries of g put into f (keys are distinct: the order cannot matter)
Merge(f, g) == [k \in DOMAIN f \cup DOMAIN g |-> IF k \in DOMAIN g THEN g[k] ELSE f[k]]
\* put-all with held object h as the argument (h = 0: the focus itself); the
\* argument is only read
PutAllFrom(h) == /\ h \in 0..Len(held)
                 /\ m' = Merge(m, IF h = 0 THEN m ELSE held[h])
                 /\ Same
\* an equal map becomes one more live object (the original of a wire round trip)
\* (the object under test is REPLACED by the map read back: enumerators of the
\* replaced object are not used any more)
Fork == held' = Append(held, m) /\ ens' = <<>> /\ UNCHANGED <<m, cfg, arrs>>

\* `arrs` are the slices a call returned or was given and that the caller still
\* has: a later call on any object neither changes them nor is changed by what
\* the caller writes into them
ArrHold(seq) == arrs' = Append(arrs, seq) /\ UNCHANGED <<m, cfg, held, ens>>
ArrIs(a, seq) == a \in 1..Len(arrs) /\ seq = arrs[a]
ArrWrite(a, seq) == /\ a \in 1..Len(arrs) /\ Len(seq) = Len(arrs[a])
                    /\ arrs' = [arrs EXCEPT ![a] = seq]
                    /\ UNCHANGED <<m, cfg, held, ens>>

\* every other call (lookups, membership, enumerations, rendering, writing the
\* wire form) leaves the map as it is -- and every open enumerator usable
ReadOnly == UNCHANGED vars
\* sorting the table / replacing the object by its wire round trip: the same map,
\* but the structure was rebuilt -- open enumerators are not used any more
Rebuild == ens' = <<>> /\ UNCHANGED <<m, cfg, held, arrs>>
\* the caller lets go of its enumerators
EnumForget == ens' = <<>> /\ UNCHANGED <<m, cfg, held, arrs>>

\* ---- what an add-like call may answer --------------------------------------
\* DESIGN 3/C12 (lenient): the types disagree on whether add answers the value
\* before or after the addition; either is accepted, nothing else is.
AddRetOK(k, v, ret) == IF Present(k) THEN ret \in {<<m[k]>>, <<m[k] + v>>}
                       ELSE ret \in {<<v>>, cfg.none}
\* (for an absent key add-if-exist added nothing: "absent" or the sum 0)
AddIfExistRetOK(k, v, ret) == IF Present(k) THEN ret \in {<<m[k]>>, <<m[k] + v>>}
                              ELSE ret \in {cfg.none, <<0>>}

\* ---- enumerations: bags, order free -----------------------------------------
\* seq lists every stored key exactly once
KeysBagOK(seq) == Len(seq) = Size /\ Range(seq) = Stored
\* seq lists every stored <<key, value>> pair exactly once
PairsOf(f) == {<<k, f[k]>> : k \in DOMAIN f}
EntriesBagOK(seq) == /\ Len(seq) = Size
                     /\ \A i \in 1..Len(seq) : Len(seq[i]) = 2
                     /\ {<<seq[i][1], seq[i][2]>> : i \in 1..Len(seq)} = PairsOf(m)
\* seq is an arrangement of the bag of stored values
Count(seq, v) == Cardinality({i \in 1..Len(seq) : seq[i] = v})
ValuesBagOK(seq) == /\ Len(seq) = Size
                    /\ \A v \in Range(seq) \cup {m[k] : k \in Stored} :
                          Count(seq, v) = Cardinality({k \in Stored : m[k] = v})
\* two parallel sequences (keys, values) list every pair exactly once
ProjOKOf(f, ks, vs) == /\ Len(ks) = Cardinality(DOMAIN f) /\ Len(vs) = Len(ks)
                       /\ {<<ks[i], vs[i]>> : i \in 1..Len(ks)} = PairsOf(f)
ProjOK(ks, vs) == ProjOKOf(m, ks, vs)

\* ---- stepped enumerations -------------------------------------------------------
\* An enumerator is opened, then asked "more?" and for the next element one call
\* at a time, with any read-only calls (also opening and stepping other
\* enumerators) in between.  What it has yielded so far must at every step be the
\* beginning of an arrangement of the stored elements; it has more iff it has
\* not yet yielded all of them.  kind: "k" keys, "v" values, "e" <<key, value>>.
EnumKinds == {"k", "v", "e"}
EnumOpen(kind) == /\ kind \in EnumKinds
                  /\ ens' = Append(ens, [kind |-> kind, out |-> <<>>])
                  /\ UNCHANGED <<m, cfg, held, arrs>>
\* x may be yielded next by an enumeration of this kind that yielded out so far
ElemOK(kind, out, x) ==
  CASE kind = "k" -> x \in Stored /\ x \notin Range(out)
    [] kind = "e" -> <<x[1], x[2]>> \in PairsOf(m) /\ <<x[1], x[2]>> \notin Range(out)
    [] kind = "v" -> Count(out, x) < Cardinality({k \in Stored : m[k] = x})
    [] OTHER -> FALSE
EnumMore(i) == Len(ens[i].out) < Size
EnumNext(i, x) == /\ i \in 1..Len(ens) /\ EnumMore(i)
                  /\ ElemOK(ens[i].kind, ens[i].out, x)
                  /\ ens' = [ens EXCEPT ![i].out = Append(@, IF ens[i].kind = "e" THEN <<x[1], x[2]>> ELSE x)]
                  /\ UNCHANGED <<m, cfg, held, arrs>>
\* what an enumerator yielded is the beginning of an arrangement; all of it iff
\* it has no more (in the words of the bag operators above)
EnumBagOK(en) == CASE en.kind = "k" -> KeysBagOK(en.out)
                   [] en.kind = "v" -> ValuesBagOK(en.out)
                   [] en.kind = "e" -> EntriesBagOK(en.out)
EnumsOK == \A i \in 1..Len(ens) :
             /\ Len(ens[i].out) <= Size
             /\ (Len(ens[i].out) = Size) => EnumBagOK(ens[i])

\* ---- the wire form of the int-to-int map -------------------------------------
\* decimal count, then per entry decimal key, decimal value (DataX "Decimal":
\* canonical shortest length class), entries in any order.
IntToW8(i) == IF i >= 0 THEN NatToBytes(i, 8)
              ELSE LET p == NatToBytes(-(i + 1), 8) IN [j \in 1..8 |-> 255 - p[j]]

\* the bytes for the entries taken in the order `order` (a sequence of keys)
WireOf(f, order, KW(_)) ==
  DX!Enc("Decimal", IntToW8(Len(order))) \o
  Concat([i \in 1..(2 * Len(order)) |->
             IF i % 2 = 1 THEN DX!Enc("Decimal", KW(order[(i + 1) \div 2]))
                          ELSE DX!Enc("Decimal", IntToW8(f[order[i \div 2]]))])

\* decode: [ok, pairs] where pairs is the sequence of <<keyW8, valueW8>> read
WireDec(b) ==
  Bind(DX!Dec("Decimal", b, 1), LAMBDA d0 :
    IF ~d0.ok \/ ~FitsSigned(d0.v, 3) \/ d0.v[1] >= 128 THEN [ok |-> FALSE, pairs |-> <<>>, exact |-> FALSE]
    ELSE LET n == BytesToNat(Low(d0.v, 3)) IN
         Bind(DX!DecElems("Decimal", b, d0.next, 2 * n, <<>>), LAMBDA d :
           IF ~d.ok THEN [ok |-> FALSE, pairs |-> <<>>, exact |-> FALSE]
           ELSE [ok |-> TRUE, exact |-> d.next = Len(b) + 1,
                 pairs |-> [i \in 1..n |-> <<d.v[2 * i - 1], d.v[2 * i]>>]]))

\* b is a wire form of f: decodes completely to exactly the entries of f, each
\* once, and every number is in its canonical (shortest) class
WireOK(b, f, KW(_)) ==
  Bind(WireDec(b), LAMBDA w :
    /\ w.ok /\ w.exact
    /\ Len(w.pairs) = Cardinality(DOMAIN f)
    /\ Range(w.pairs) = {<<KW(k), IntToW8(f[k])>> : k \in DOMAIN f}
    /\ b = DX!Enc("Decimal", IntToW8(Len(w.pairs))) \o
           Concat([i \in 1..(2 * Len(w.pairs)) |->
                     DX!Enc("Decimal", w.pairs[(i + 1) \div 2][IF i % 2 = 1 THEN 1 ELSE 2])]))

\* reading a wire form into an EMPTY map: the pairs are put in order
FromWire(pairs) == [k \in {pairs[i][1] : i \in 1..Len(pairs)} |->
                      pairs[CHOOSE i \in 1..Len(pairs) :
                               pairs[i][1] = k /\ \A j \in (i + 1)..Len(pairs) : pairs[j][1] # k][2]]

\* ---- the property as invariants --------------------------------------------
Live     == {m} \cup Range(held)
SetOK    == cfg.set => \A f \in Live : \A k \in DOMAIN f : f[k] = k
RefuseOK == cfg.rej => \A f \in Live : cfg.ek \notin DOMAIN f
InvAll   == SetOK /\ RefuseOK /\ EnumsOK

InitWith(c) == m = EmptyFn /\ cfg = c /\ held = <<>> /\ arrs = <<>> /\ ens = <<>>
=============================================================================
