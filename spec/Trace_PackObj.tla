---------------------------- MODULE Trace_PackObj ---------------------------
(***************************************************************************)
(* Trace validation of real golib pack objects against PackObj: an object  *)
(* is built, changed through its public mutators / exported fields and     *)
(* written several times; every write is judged against the reference      *)
(* encoding of the content the SPECIFICATION has derived for that moment   *)
(* (the harness reports the calls and their arguments, never the content). *)
(* Events (harness/c05/mutate.go):                                         *)
(*   Reset                     new history                                 *)
(*   New   kind p              the pack as built (projection of the drawn  *)
(*                             values, standard library only)              *)
(*   Mut   m [hash] [res]      one mutator call / assignment (PackObj);    *)
(*                             hash = the tag hash found afterwards        *)
(*                             (tag-count getter, log-sink exported field),*)
(*                             res = what the call returned                *)
(*   Write bytes [hash]        pack.ToBytesPack(object) = bytes            *)
(*   Reread                    the object is replaced by pack.ToPack of    *)
(*                             the bytes just written (kinds whose reader  *)
(*                             restores the content as it is)              *)
(*   ReadInto p bytes [hash]   object.Read over the message another pack of  *)
(*                             the kind (content p) was written to          *)
(* The pool maps of a counter pack are hash tables: compared as a bag.     *)
(***************************************************************************)
EXTENDS PackObj, TraceLib

VARIABLE l
tvars == <<vars, ovars, l>>

TraceInit == Init /\ ObjInit /\ l = 1 /\ HwmInit

Step(e) == IsEv(l, e) /\ l' = l + 1 /\ UNCHANGED vars

TraceReset == Step("Reset") /\ Drop

TraceNew == /\ Step("New")
            /\ New(Trace[l].kind, Trace[l].p)

\* the tag hash the object shows after the step
HashSeen(e) == Has(e, "hash") => (cur'.kind \in Hashed /\ e.hash = cur'.p.tagHash)

TraceMut == /\ Step("Mut")
            /\ LET e == Trace[l] IN
                 /\ Mut(e.m)
                 /\ IF HashSeen(e) THEN TRUE
                    ELSE PrintT(<<"line", l, "Mut", e.m.op, "tag hash of the specification", cur'.p.tagHash>>) /\ FALSE
                 /\ (Has(e, "res") => (HasResult(e.m) /\ e.res = Result(cur.kind, cur.p, e.m)))

Pairs(xs) == {<<xs[i].key, xs[i].val>> : i \in 1..Len(xs)}
SameBag(a, b) == Len(a) = Len(b) /\ Pairs(a) = Pairs(b)

\* the content with the pool maps of a counter in the order the bytes have them
Ordered(kind, p, bytes) ==
  IF kind = "counter" /\ Len(p.dbOpt) = 1
  THEN Bind(DecPack(bytes, 1), LAMBDA d :
         IF d.ok /\ d.kind = kind /\ Len(d.v.dbOpt) = 1
            /\ SameBag(d.v.dbOpt[1].active, p.dbOpt[1].active) /\ SameBag(d.v.dbOpt[1].idle, p.dbOpt[1].idle)
         THEN [p EXCEPT !.dbOpt = d.v.dbOpt] ELSE p)
  ELSE p

TraceWrite == /\ Step("Write")
              /\ cur # <<>>
              /\ LET e == Trace[l] IN
                   \E q \in {Ordered(cur.kind, cur.p, e.bytes)} :
                     /\ IF e.bytes = PackBytes(cur.kind, q) THEN TRUE
                        ELSE PrintT(<<"line", l, "Write", cur.kind, "reference bytes", PackBytes(cur.kind, q)>>) /\ FALSE
                     /\ cur' = [cur EXCEPT !.p = AfterWrite(cur.kind, cur.p)]
                     /\ out' = e.bytes
                     /\ UNCHANGED lib
                     /\ HashSeen(e)

TraceReread == /\ Step("Reread")
               /\ cur # <<>> /\ out # <<>> /\ cur.kind \in RereadKinds
               /\ UNCHANGED ovars

\* ReadInto p bytes [hash]: object.Read over the message `bytes` that another, freshly built
\* pack of the same kind (content p, as with New) was written to
TraceReadInto == /\ Step("ReadInto")
                 /\ cur # <<>>
                 /\ LET e == Trace[l] IN
                      /\ IF e.bytes = PackBytes(cur.kind, e.p) THEN TRUE
                         ELSE PrintT(<<"line", l, "ReadInto", cur.kind, "reference bytes of the other pack", PackBytes(cur.kind, e.p)>>) /\ FALSE
                      /\ ReadInto(cur.kind, e.p, e.bytes)
                      /\ HashSeen(e)

InvAll == HashOwned

TraceNext == (TraceReset \/ TraceNew \/ TraceMut \/ TraceWrite \/ TraceReread \/ TraceReadInto) /\ InvAll'

TraceSpec == TraceInit /\ [][TraceNext]_tvars

Hwm == HwmNote(l)
TraceAccepted == Accepted
=============================================================================
