SPECIFICATION MCSpec
CONSTANTS
  NotCleared <- MCNotCleared
  FailOutcomes = {"dirty"}
  MaxObjs = 3
  MaxSteps = 6
INVARIANTS NoResidue PoolTypeOK
PROPERTIES AcquireClean
CHECK_DEADLOCK FALSE
