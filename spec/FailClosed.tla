----------------------------- MODULE FailClosed -----------------------------
(***************************************************************************)
(* C04 -- decoders fail closed.                                            *)
(*                                                                         *)
(* A decoder is a deterministic program that pulls bytes from an input of  *)
(* length n through ONE fetch routine.  The design that makes the property *)
(* hold is "check before allocate, never return short":                    *)
(*   Fetch(k): k < 0 or cursor + k > n  => outcome failed, nothing         *)
(*             allocated; otherwise the k bytes at the cursor are returned *)
(*             and alloc grows by k.                                       *)
(*   Count(c, e): a count-prefixed container of elements of at least e     *)
(*             bytes: c < 0 or c * e > n - cursor => failed before any     *)
(*             allocation; otherwise alloc grows by c * Slot.              *)
(* Abstract decoders (for model checking) are sequences of instructions:   *)
(*   <<"fix", k>>   fetch k bytes                                          *)
(*   <<"len", w>>   fetch a w-byte unsigned length L, then fetch L bytes   *)
(*   <<"cnt", w>>   fetch a w-byte count C, then C one-byte elements       *)
(*   <<"opt">>      stop successfully if no input remains (an optional     *)
(*                  trailing section = "older version complete")           *)
(*   <<"tag">>      fetch a one-byte type code and dispatch on it: a code   *)
(*                  outside the registry TagCodes has no decoder => failed *)
(***************************************************************************)
EXTENDS Bytes

CONSTANTS Slot,      \* bytes a decoder may allocate per announced element
          K, C,      \* the memory bound: alloc <= K * n + C
          ZeroFill,  \* FALSE: the design above.  TRUE: the design golib had before the
                     \* repair (a short read is padded with zeros and decoding goes on) --
                     \* kept as a named deviation so TLC can show what it breaks
          TagCodes,  \* the registry of the abstract decoders' type tag
          LenientTags \* FALSE: the design.  TRUE (named deviation): a code outside the registry
                     \* is passed over (nil object / nothing read) and decoding goes on

VARIABLES input,     \* the bytes given to the decoder
          prog,      \* remaining instructions of the abstract decoder
          cursor,    \* bytes consumed so far
          alloc,     \* bytes allocated so far
          outcome,   \* "running" | "ok" | "failed"
          got,       \* sequence of <<position, bytes>> returned by fetches
          tags       \* the type codes dispatched on so far
vars == <<input, prog, cursor, alloc, outcome, got, tags>>

n == Len(input)

Fail == outcome' = "failed" /\ UNCHANGED <<input, prog, cursor, alloc, got, tags>>

\* the single fetch routine: request k bytes at the cursor
FetchOK(k) == k >= 0 /\ cursor + k <= n
Fetched(k) == Slice(input, cursor + 1, k)

StepFix(k, rest) ==
  IF FetchOK(k)
  THEN /\ got' = Append(got, <<cursor, Fetched(k)>>)
       /\ cursor' = cursor + k /\ alloc' = alloc + k
       /\ prog' = rest /\ UNCHANGED <<input, outcome, tags>>
  ELSE IF ZeroFill /\ k >= 0
  THEN /\ got' = Append(got, <<cursor, [i \in 1..k |-> IF cursor + i <= n THEN input[cursor + i] ELSE 0]>>)
       /\ cursor' = cursor + k /\ alloc' = alloc + k
       /\ prog' = rest /\ UNCHANGED <<input, outcome, tags>>
  ELSE Fail

StepLen(w, rest) ==
  IF ~FetchOK(w) THEN Fail
  ELSE LET L == BytesToNat(Fetched(w)) IN
       IF cursor + w + L <= n                      \* check before allocate
       THEN /\ got' = got \o << <<cursor, Fetched(w)>>, <<cursor + w, Slice(input, cursor + w + 1, L)>> >>
            /\ cursor' = cursor + w + L /\ alloc' = alloc + w + L
            /\ prog' = rest /\ UNCHANGED <<input, outcome, tags>>
       ELSE Fail

StepCnt(w, rest) ==
  IF ~FetchOK(w) THEN Fail
  ELSE LET Cn == BytesToNat(Fetched(w)) IN
       IF Cn <= n - (cursor + w)                   \* each element needs >= 1 byte
       THEN /\ got' = Append(got, <<cursor, Fetched(w)>>)
            /\ cursor' = cursor + w /\ alloc' = alloc + w + Cn * Slot
            /\ prog' = [i \in 1..Cn |-> <<"fix", 1>>] \o rest
            /\ UNCHANGED <<input, outcome, tags>>
       ELSE Fail

StepTag(rest) ==
  IF ~FetchOK(1) THEN Fail
  ELSE LET code == input[cursor + 1] IN
       IF code \in TagCodes \/ LenientTags
       THEN /\ got' = Append(got, <<cursor, Fetched(1)>>) /\ tags' = Append(tags, code)
            /\ cursor' = cursor + 1 /\ alloc' = alloc + 1
            /\ prog' = rest /\ UNCHANGED <<input, outcome>>
       ELSE Fail

Step ==
  /\ outcome = "running"
  /\ IF prog = <<>> THEN outcome' = "ok" /\ UNCHANGED <<input, prog, cursor, alloc, got, tags>>
     ELSE LET ins == Head(prog) rest == Tail(prog) IN
          CASE ins[1] = "fix" -> StepFix(ins[2], rest)
            [] ins[1] = "len" -> StepLen(ins[2], rest)
            [] ins[1] = "cnt" -> StepCnt(ins[2], rest)
            [] ins[1] = "tag" -> StepTag(rest)
            [] ins[1] = "opt" -> IF cursor = n
                                 THEN outcome' = "ok" /\ UNCHANGED <<input, prog, cursor, alloc, got, tags>>
                                 ELSE prog' = rest /\ UNCHANGED <<input, cursor, alloc, outcome, got, tags>>

\* ---- properties ---------------------------------------------------------
\* every byte of every returned slice is the input byte at the position it was fetched from
NoFabrication == \A i \in 1..Len(got) :
                    LET p == got[i][1] bs == got[i][2] IN
                      /\ p + Len(bs) <= n
                      /\ \A j \in 1..Len(bs) : bs[j] = input[p + j]
\* a decode never claims to have consumed more than it was given
WithinInput == cursor <= n
\* memory proportional to the input, not to announced lengths
BoundedAlloc == alloc <= K * n + C
\* a decode never goes on past a type code it has no decoder for
TagsKnown == \A i \in 1..Len(tags) : tags[i] \in TagCodes

(***************************************************************************)
(* The observable summary of one real decode run (what a trace event       *)
(* carries): input length n0, outcome, bytes the decoder claims consumed,  *)
(* bytes it allocated.  A run is admissible iff it is the summary of some  *)
(* behaviour of the machine above, i.e. satisfies its invariants:          *)
(***************************************************************************)
AdmissibleRun(n0, out, consumed, allocated) ==
  /\ out \in {"ok", "failed"}
  /\ out = "ok" => consumed <= n0
  /\ allocated <= K * n0 + C

\* a sequence of `steps` decodes/accesses/writes over one input: each within the bound
AdmissibleSeq(n0, steps, allocated) == allocated <= steps * (K * n0 + C)

\* PrefixFails: the decoder is deterministic, so on a strict prefix of an input
\* whose complete decode consumed c bytes it issues the same fetches until one
\* reaches past the cut -- which FetchOK refuses.  (Checked on the machine by
\* MC_FailClosed; instantiated per event by the trace spec.)
PrefixRunOK(cut, consumedFull, olderComplete, out) ==
  (cut < consumedFull /\ cut \notin olderComplete) => out = "failed"

\* The valid encodings of the property are the complete outputs of the writers.  A decoder of a
\* self-delimiting format is the inverse of its writer: run on the n0 bytes its writer produced for one
\* object it fetches all of them.  (A decoder that stops c < n0 bytes in is, being deterministic, a decoder
\* that returns an object for the strict prefix of c bytes: PrefixRunOK with consumedFull = n0 rejects it.)
WholeRunOK(n0, consumed) == consumed = n0

(***************************************************************************)
(* Type tags.  A tagged object starts with a code that selects its decoder *)
(* from a registry.  A code the registry does not hold has no decoder: the *)
(* decode of an input carrying it at a tag position fails (it is never     *)
(* skipped, read as a nil object or read as some other type).              *)
(***************************************************************************)
TagRunOK(code, registry, out) == (code \notin registry) => out = "failed"

(***************************************************************************)
(* Second stage.  An object returned by the first stage may keep bytes it  *)
(* has not decoded yet (a table, a record stream, a compressed blob) and   *)
(* decode them when an accessor first needs them.  That decode is a decode *)
(* like any other: of the bytes kept, deterministic, fail closed.  The     *)
(* design (LazyStage.tla, checked by MC_LazyStage): parse first, publish   *)
(* and drop the raw bytes only after the parse succeeded; so              *)
(*   - an access that failed fails again when repeated (nothing was        *)
(*     published, the same bytes are parsed again),                        *)
(*   - writing the object after a failed access emits the raw bytes, so    *)
(*     the written object still fails on that access.                      *)
(* One observed call sequence on ONE object, for one accessor A:           *)
(*   r1 = A, r2 = A again, w = Write, r3 = A on the decoded written bytes  *)
(* ("none" = not reached, "undecodable" = the written bytes do not decode) *)
(***************************************************************************)
LazySeqOK(r1, r2, w, r3) ==
  /\ r1 \in {"ok", "failed", "none"} /\ r2 \in {"ok", "failed", "none"}
  /\ w \in {"ok", "failed", "none"} /\ r3 \in {"ok", "failed", "none", "undecodable"}
  /\ r1 = "failed" => r2 = "failed"         \* StickyFailure
  /\ r1 = "failed" => r3 # "ok"             \* NoLaundering
=============================================================================
