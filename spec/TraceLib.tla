------------------------------ MODULE TraceLib ------------------------------
(***************************************************************************)
(* Shared plumbing of every trace specification: the recorded trace, the   *)
(* cursor test, and the acceptance postcondition.                          *)
(*                                                                         *)
(* A trace file is ndjson, one event per line, `ev` = the action name.     *)
(* Histories are concatenated; each starts with a "Reset" event.           *)
(* Acceptance: the cursor reached the end of the file.  The high-water     *)
(* mark of the cursor is kept in TLC register 1 (run with -workers 1) so   *)
(* that a rejected trace tells which line could not be explained.          *)
(***************************************************************************)
EXTENDS Integers, Sequences, TLC, Json, IOUtils

TraceFile == IF "TRACE" \in DOMAIN IOEnv THEN IOEnv.TRACE ELSE "trace.ndjson"
Trace == ndJsonDeserialize(TraceFile)
NTrace == Len(Trace)

\* the event at position i has name e
IsEv(i, e) == i <= NTrace /\ Trace[i].ev = e

HwmInit == TLCSet(1, 1)
\* used as a state CONSTRAINT: always TRUE, records the largest cursor seen
HwmNote(i) == IF TLCGet(1) < i THEN TLCSet(1, i) ELSE TRUE

\* POSTCONDITION body: prints the high-water mark, accepts iff the cursor
\* passed the last line
Accepted == /\ PrintT(<<"HWM", TLCGet(1), "OF", NTrace>>)
            /\ TLCGet(1) = NTrace + 1

Has(e, f) == f \in DOMAIN e
=============================================================================
