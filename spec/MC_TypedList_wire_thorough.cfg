SPECIFICATION MCSpec
CONSTANTS Mode = "wire"
          Vals = {0}
          MaxLen = 4
          MaxHeld = 0
VIEW View
INVARIANTS TypeOK WireRoundTrip
CHECK_DEADLOCK FALSE
