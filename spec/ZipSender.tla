----------------------------- MODULE ZipSender ------------------------------
(***************************************************************************)
(* C16 -- the log-sink zip sender (logsink/zip).                           *)
(*                                                                         *)
(* Log records are handed to the sender either through its queue (Add; a   *)
(* worker goroutine takes them and appends them to a reusable buffer) or   *)
(* directly (SendDirect: a call-local buffer; Append: the exported step    *)
(* the worker itself uses, callable when there is no worker).  A buffer is *)
(* turned into a zip pack and handed to the TCP client when its size or    *)
(* the age of its first record reaches the setting in force, when the      *)
(* worker's timed wait on the queue expires, or when the sender is stopped.*)
(*                                                                         *)
(* A record is [id, time, bytes, ok, ...]: bytes = its encoding (opaque    *)
(* here: the pack layer defines it), time = the caller-supplied record     *)
(* time (virtual; >= 1, 0 means "unset" in the implementation), ok = the   *)
(* pack layer can encode it.  A record that cannot be encoded (ok = FALSE: *)
(* e.g. built without its tag map, or a nil pointer) can be handed over    *)
(* like any other; it cannot be emitted "decodably", so it is REFUSED at   *)
(* the step that would encode it and must leave no trace: nothing written, *)
(* nothing counted, the records around it emitted as if it had never been  *)
(* offered (WRefuse).  SendDirect may skip it the same way or abort the    *)
(* call there (the caller is told: the failure propagates to it); an       *)
(* aborted call has handed over whole packs only, the rest of its argument *)
(* was never accepted (DirectAbort).                                       *)
(*                                                                         *)
(* The owner of the reusable buffer (the worker goroutine in queue mode,   *)
(* the caller of Append otherwise) is a little program; there is ONE       *)
(* ACTION PER STEP of it (wpc):                                            *)
(*   top   the select on the context: cancellation seen or not             *)
(*   get   the timed wait on the queue: a record (-> app) or expiry        *)
(*   app   encode the record at the end of the buffer, count it (-> dec);  *)
(*         a record that cannot be encoded is refused (-> where it came)   *)
(*   dec   note the first time, decide whether the batch is due            *)
(*   flush build the pack from the buffer bytes, gzip, HAND OVER (-> sent) *)
(*   sent  the client returned: reset buffer, counter, first time          *)
(*   drain cancellation seen: take what is still queued, flush, -> fin     *)
(*   fin   return (-> done)                                                *)
(* Producers (Add), the caller of SendDirect, configuration updates, the   *)
(* stop request and the client's behaviour interleave with these steps.    *)
(*                                                                         *)
(* Memory is modelled so that ALIASING is expressible: mem is a sequence   *)
(* of regions (byte sequences: the backing arrays); mem[1] belongs to the  *)
(* reusable buffer, every SendDirect call allocates a fresh one.  A reset  *)
(* keeps the region and moves the write offset back to 0.  A pack either   *)
(* OWNS its payload (view = <<>>) or is a VIEW <<region, length>>; what    *)
(* the client reads is always read through the view.                       *)
(*                                                                         *)
(* Design = "copy"  : a pack handed to the client owns its bytes (the      *)
(*                    repaired implementation).                            *)
(* Design = "alias" : Records = buffer.Bytes() then buffer.Reset() -- an   *)
(*                    uncompressed pack is a view of the reusable region   *)
(*                    (the implementation as found; kept to document the   *)
(*                    counterexample to HandedOverIsImmutable).            *)
(* StopPolicy = "drain" / "abandon" : on cancellation the worker appends   *)
(*                    what is still queued before the last flush (repaired)*)
(*                    / flushes the buffer and returns (as found).         *)
(* Creation = "defaults" / "zeroed" : a sender created without settings    *)
(*                    runs with the built-in defaults (repaired) / with    *)
(*                    the zero values of the unset options (as found).     *)
(*                                                                         *)
(* What the property demands about WHEN a batch is flushed is one-sided:   *)
(* a buffer that has reached the size or the waiting time in force must be *)
(* flushed by the very append that made it so (MustFlush); flushing        *)
(* earlier is never forbidden (the worker's timed wait may expire at any   *)
(* moment; a waiting time <= 0 has no meaning as a threshold and is not    *)
(* demanded).  The deciding step therefore takes a decision `fl` that      *)
(* must be TRUE when MustFlush holds and is free otherwise.                *)
(*                                                                         *)
(* The waiting time also bounds the worker's timed wait on an idle queue   *)
(* (the only thing that flushes a batch no further record follows).  Real  *)
(* time enters as TICKS of a reference clock: one Tick = one full period   *)
(* of the waiting time in force (at least MinPeriod) has passed.  A timed  *)
(* wait that began with a waiting time in force ends (a record taken, or   *)
(* expiry -> flush) before more than IdleSlack such periods have passed:   *)
(* time cannot advance beyond that while the worker is still waiting       *)
(* (Tick is disabled).  A configuration update restarts the count: the     *)
(* wait in progress may have begun under the old waiting time.  A waiting  *)
(* time <= 0 is a wait of no length: it is measured in periods of          *)
(* MinPeriod.  Whatever the waiting time, a wait that begins with a record *)
(* queued returns that record (WIdle): the queue path makes progress.      *)
(*                                                                         *)
(* The sender is created without a context, with a context alone, or with  *)
(* a context and its cancel function (ctxk); it is stopped through its own *)
(* cancel function, through the cancel function that was passed in, or by  *)
(* cancelling the context that was passed in (or an ancestor of it): every *)
(* one of these is THE stop request.                                       *)
(***************************************************************************)
EXTENDS Integers, Sequences, FiniteSets

CONSTANTS Design, StopPolicy, Creation,
          IdleSlack,    \* full reference periods that may pass inside one timed wait of the worker
          MinPeriod     \* the reference period is the waiting time in force, but at least this (ms)

Defaults == [maxBuf |-> 65536, maxWait |-> 5000, zipMin |-> 100, qCap |-> 1000]
Zeroed   == [maxBuf |-> 0, maxWait |-> 0, zipMin |-> 0, qCap |-> 0]

\* a configuration update names some of the settings; a setting it does not name is the built-in default
Resolve(g) == [k \in DOMAIN Defaults |-> IF k \in DOMAIN g THEN g[k] ELSE Defaults[k]]

VARIABLES
  mode,        \* "none" (not created) | "queue" (worker goroutine) | "direct" (no queue, no worker)
  ctxk,        \* what the creator passed: "none" | "ctx" (a context, no cancel function) | "both"
  ticks,       \* full reference periods passed since the worker's timed wait (or the waiting time in force) began
  wq0,         \* a record was queued when the worker's timed wait in progress began (FALSE outside a wait)
  settings,    \* the four settings in force
  configured,  \* has anything (explicit creation settings, ApplyConfig) overridden the defaults?
  queue,       \* records waiting for the worker
  accB,        \* history: records accepted for the reusable buffer, in order (queue path and Append calls)
  refused,     \* ids refused by a full queue (never accepted, never to be emitted)
  mem,         \* sequence of regions; mem[1] is the reusable buffer's backing array
  blen,        \* bytes of mem[1] in use (buffer.Len())
  live,        \* records written into the reusable buffer since its last reset
  count,       \* the sender's record counter
  firstTime,   \* time of the first record in the buffer, 0 = none
  wpc,         \* the buffer owner's program counter (see above; "off" = nobody is inside)
  wcur,        \* <<r>> : the record being appended
  wret,        \* where the owner continues after the append / flush in progress
  dactive, dq, drid,   \* the SendDirect call in progress: what is left of its argument, its region
  accD,        \* history: records handed to SendDirect, in order
  emitted,     \* packs handed to the client, in hand-over order
  stopped      \* "no" | "cancelling" (cancel called, not yet returned) | "stopping" (context cancelled)

vars == <<mode, ctxk, ticks, wq0, settings, configured, queue, accB, refused, mem, blen, live, count, firstTime, wpc, wcur, wret,
          dactive, dq, drid, accD, emitted, stopped>>

-----------------------------------------------------------------------------
(* bytes *)
Size(r) == Len(r.bytes)

\* the records of rs the pack layer can encode, in order
IsOk(r)  == r.ok
Good(rs) == SelectSeq(rs, IsOk)

\* (index recursion / halving: Tail and one-by-one concatenation copy the rest at every level)
RECURSIVE SumTo(_, _)
SumTo(rs, i) == IF i = 0 THEN 0 ELSE Size(rs[i]) + SumTo(rs, i - 1)
SumSize(rs) == SumTo(rs, Len(rs))

RECURSIVE EncRange(_, _, _)
EncRange(rs, lo, hi) ==
  IF lo > hi THEN <<>>
  ELSE IF lo = hi THEN rs[lo].bytes
  ELSE LET mid == (lo + hi) \div 2 IN EncRange(rs, lo, mid) \o EncRange(rs, mid + 1, hi)
Encoding(rs) == EncRange(rs, 1, Len(rs))

\* region m with b written at offset off (0-based); bytes beyond stay what they were
WriteAt(m, off, b) ==
  LET n == IF Len(m) > off + Len(b) THEN Len(m) ELSE off + Len(b)
  IN [i \in 1..n |-> IF i > off /\ i <= off + Len(b) THEN b[i - off] ELSE m[i]]

-----------------------------------------------------------------------------
(* packs *)
\* the repaired hand-over: the pack owns its payload (the first len bytes of region rid as they are now)
PackCopy(path, rs, n, rid, len, k) ==
  [path |-> path, recs |-> rs, n |-> n, ulen |-> len,
   zipped |-> len >= settings.zipMin, zmin |-> settings.zipMin,
   snap |-> SubSeq(mem'[rid], 1, len), view |-> <<>>, kept |-> k]

\* the hand-over as found: Records = buffer.Bytes(); only gzip makes new bytes
PackAlias(path, rs, n, rid, len, k) ==
  [PackCopy(path, rs, n, rid, len, k) EXCEPT
     !.view = IF len >= settings.zipMin THEN <<>> ELSE <<rid, len>>]

\* NOTE: reads mem' (the hand-over step may itself write the region)
Pack(path, rs, n, rid, len, k) ==
  IF Design = "alias" THEN PackAlias(path, rs, n, rid, len, k) ELSE PackCopy(path, rs, n, rid, len, k)

\* what the client reads when it looks at the pack NOW
Content(p) == IF p.view = <<>> THEN p.snap ELSE SubSeq(mem[p.view[1]], 1, p.view[2])

-----------------------------------------------------------------------------
Init ==
  /\ mode = "none" /\ ctxk = "none" /\ ticks = 0 /\ wq0 = FALSE /\ settings = Defaults /\ configured = FALSE
  /\ queue = <<>> /\ accB = <<>> /\ refused = {}
  /\ mem = << <<>> >> /\ blen = 0 /\ live = <<>> /\ count = 0 /\ firstTime = 0
  /\ wpc = "off" /\ wcur = <<>> /\ wret = "off"
  /\ dactive = FALSE /\ dq = <<>> /\ drid = 0 /\ accD = <<>>
  /\ emitted = <<>> /\ stopped = "no"

\* creation: given = FALSE (nothing supplied: the built-in defaults stay in force) or four explicit settings s;
\* ck = what is passed as context
New(m, given, s, ck) ==
  /\ mode = "none" /\ m \in {"queue", "direct"} /\ ck \in {"none", "ctx", "both"}
  /\ mode' = m /\ ctxk' = ck /\ UNCHANGED <<ticks, wq0>>
  /\ wpc' = IF m = "queue" THEN "top" ELSE "off"
  /\ IF given THEN settings' = s /\ configured' = TRUE
     ELSE IF Creation = "zeroed" THEN settings' = Zeroed /\ UNCHANGED configured
     ELSE UNCHANGED <<settings, configured>>
  /\ UNCHANGED <<queue, accB, refused, mem, blen, live, count, firstTime, wcur, wret,
                 dactive, dq, drid, accD, emitted, stopped>>

\* a configuration update naming the settings in DOMAIN g
ApplyConfig(g) ==
  /\ mode # "none"
  /\ settings' = Resolve(g) /\ configured' = TRUE /\ ticks' = 0
  /\ UNCHANGED <<mode, ctxk, wq0, queue, accB, refused, mem, blen, live, count, firstTime, wpc, wcur, wret,
                 dactive, dq, drid, accD, emitted, stopped>>

QueueHasRoom == settings.qCap <= 0 \/ Len(queue) < settings.qCap

\* the critical section of the queue's Put (a refused record was never accepted)
Add(r) ==
  /\ mode = "queue" /\ stopped = "no"
  /\ IF QueueHasRoom
       THEN queue' = Append(queue, r) /\ accB' = (IF r.ok THEN Append(accB, r) ELSE accB) /\ UNCHANGED refused
       ELSE refused' = refused \cup {r.id} /\ UNCHANGED <<queue, accB>>
  /\ UNCHANGED <<mode, ctxk, ticks, wq0, settings, configured, mem, blen, live, count, firstTime, wpc, wcur, wret,
                 dactive, dq, drid, accD, emitted, stopped>>

\* the stop request: cancel() is called ... and has returned
\* via = "own" (the sender's own cancel function), "given" (the cancel function passed at creation),
\* "parent" (the context passed at creation, or an ancestor of it, is cancelled by its owner)
StopCall(via) ==
  /\ mode = "queue" /\ stopped = "no" /\ stopped' = "cancelling"
  /\ \/ via = "own"
     \/ via = "given" /\ ctxk = "both"
     \/ via = "parent" /\ ctxk \in {"ctx", "both"}
  /\ UNCHANGED <<mode, ctxk, ticks, wq0, settings, configured, queue, accB, refused, mem, blen, live, count, firstTime, wpc, wcur, wret,
                 dactive, dq, drid, accD, emitted>>
StopRet ==
  /\ stopped = "cancelling" /\ stopped' = "stopping"
  /\ UNCHANGED <<mode, ctxk, ticks, wq0, settings, configured, queue, accB, refused, mem, blen, live, count, firstTime, wpc, wcur, wret,
                 dactive, dq, drid, accD, emitted>>

-----------------------------------------------------------------------------
(* the owner of the reusable buffer, step by step *)

\* the buffer holding rs (first record at time ft) has, with the append of r, reached a limit in force
SizeDue(n)       == n >= settings.maxBuf
TimeDue(ft, r)   == settings.maxWait > 0 /\ r.time - ft >= settings.maxWait
MustFlush(n, ft, r) == SizeDue(n) \/ TimeDue(ft, r)

\* enter the flush: nothing to do for an empty buffer
GoFlush(ret) == IF live = <<>> THEN wpc' = ret /\ UNCHANGED wret
                ELSE wpc' = "flush" /\ wret' = ret

wOnly == <<mode, ctxk, settings, configured, accB, refused, dactive, dq, drid, accD, stopped>>
wRest == <<wOnly, ticks, wq0>>
wRest0 == <<wOnly, ticks>>       \* ... of the steps that end a timed wait (wq0 is about the wait in progress only)

\* the select: st = the stop state at the moment of the select; a completed cancellation is seen,
\* no cancellation is not; saw = the branch taken
WTop(saw, st) ==
  /\ wpc = "top"
  /\ (st = "no" => ~saw) /\ (st = "stopping" => saw)
  /\ IF ~saw THEN wpc' = "get" /\ UNCHANGED wret
     ELSE IF StopPolicy = "drain" THEN wpc' = "drain" /\ UNCHANGED wret
     ELSE GoFlush("fin")
  /\ ticks' = 0 /\ wq0' = (~saw /\ queue # <<>>)
  /\ UNCHANGED <<queue, mem, blen, live, count, firstTime, wcur, emitted>> /\ UNCHANGED wOnly

\* the timed wait returned the head of the queue
WTake ==
  /\ wpc \in {"get", "drain"} /\ queue # <<>>
  /\ wcur' = <<Head(queue)>> /\ queue' = Tail(queue)
  /\ wpc' = "app" /\ wret' = IF wpc = "get" THEN "top" ELSE "drain"
  /\ wq0' = FALSE
  /\ UNCHANGED <<mem, blen, live, count, firstTime, emitted>> /\ UNCHANGED wRest0

\* the timed wait expired.  It is decided at the wait's last look at the queue, so a record that a producer puts
\* while the wait is in progress may stay behind (no guard on the queue as it is now); but a record that was
\* queued when the wait BEGAN is what the wait returns, whatever the waiting time in force (zero and negative
\* included: the wait looks at the queue at least once): the wait cannot expire then.  sure = every Add counted
\* in `queue' when the wait began had returned (always so in the design, where Add is one step; a recorded
\* history knows it only while no producer can be running)
WIdle(sure) ==
  /\ wpc = "get"
  /\ sure => ~wq0
  /\ wq0' = FALSE
  /\ GoFlush("top")
  /\ UNCHANGED <<queue, mem, blen, live, count, firstTime, wcur, emitted>> /\ UNCHANGED wRest0

\* Append(r) called from outside (no worker owns the buffer)
AppendCall(r) ==
  /\ mode = "direct" /\ wpc = "off"
  /\ wcur' = <<r>> /\ accB' = (IF r.ok THEN Append(accB, r) ELSE accB) /\ wpc' = "app" /\ wret' = "off"
  /\ UNCHANGED <<mode, ctxk, ticks, wq0, settings, configured, queue, refused, mem, blen, live, count, firstTime,
                 dactive, dq, drid, accD, emitted, stopped>>

\* the record cannot be encoded: it is refused -- nothing written, nothing counted, back to where the append came from
WRefuse ==
  /\ wpc = "app" /\ ~wcur[1].ok
  /\ wcur' = <<>> /\ wpc' = wret
  /\ UNCHANGED <<queue, mem, blen, live, count, firstTime, wret, emitted>> /\ UNCHANGED wRest

\* encode at the end of the buffer, count
WAppend ==
  /\ wpc = "app" /\ wcur[1].ok
  /\ LET r == wcur[1]
     IN /\ mem' = [mem EXCEPT ![1] = WriteAt(@, blen, r.bytes)]
        /\ blen' = blen + Size(r) /\ live' = Append(live, r) /\ count' = count + 1
        /\ wcur' = <<>>
        /\ wpc' = "dec"
  /\ UNCHANGED <<queue, firstTime, wret, emitted>> /\ UNCHANGED wRest

\* note the first time, decide with the settings in force NOW (fl: see the header)
WDecide(fl) ==
  /\ wpc = "dec"
  /\ LET r  == live[Len(live)]
         ft == IF firstTime = 0 THEN r.time ELSE firstTime
     IN /\ MustFlush(blen, ft, r) => fl
        /\ firstTime' = ft
        /\ wpc' = IF fl THEN "flush" ELSE wret
  /\ UNCHANGED <<queue, mem, blen, live, count, wcur, wret, emitted>> /\ UNCHANGED wRest

\* drained: nothing is queued any more
Drained == wpc = "drain" /\ queue = <<>>

\* the hand-over of the reusable buffer's content.  k = the client keeps the pack
WSend(k) ==
  /\ (wpc = "flush" \/ (Drained /\ live # <<>>))
  /\ UNCHANGED <<queue, mem, blen, live, count, firstTime, wcur>> /\ UNCHANGED wRest
  /\ emitted' = Append(emitted, Pack("b", live, count, 1, blen, k))
  /\ wpc' = "sent" /\ wret' = IF wpc = "flush" THEN wret ELSE "fin"

\* the client returned: reset
WReset ==
  /\ wpc = "sent"
  /\ blen' = 0 /\ live' = <<>> /\ count' = 0 /\ firstTime' = 0
  /\ wpc' = wret
  /\ UNCHANGED <<queue, mem, wcur, wret, emitted>> /\ UNCHANGED wRest

\* the worker returns
WExit ==
  /\ (wpc = "fin" \/ (Drained /\ live = <<>>))
  /\ wpc' = "done"
  /\ UNCHANGED <<queue, mem, blen, live, count, firstTime, wcur, wret, emitted>> /\ UNCHANGED wRest

-----------------------------------------------------------------------------
(* SendDirect(rs): a fresh call-local buffer, handed over whenever it reaches maxBuf and at the end *)
DirectBegin(rs) ==
  /\ mode # "none" /\ ~dactive
  /\ dactive' = TRUE /\ dq' = rs /\ accD' = accD \o Good(rs)
  /\ mem' = Append(mem, <<>>) /\ drid' = Len(mem) + 1
  /\ UNCHANGED <<mode, ctxk, ticks, wq0, settings, configured, queue, accB, refused, blen, live, count, firstTime, wpc, wcur, wret,
                 emitted, stopped>>

\* how much of rs the next pack consumes: up to and including the (encodable) record that reaches the limit;
\* a record that cannot be encoded contributes nothing
RECURSIVE PrefixLen(_, _, _)
PrefixLen(rs, i, acc) ==
  IF i > Len(rs) THEN Len(rs)
  ELSE IF ~rs[i].ok THEN PrefixLen(rs, i + 1, acc)
  ELSE IF SizeDue(acc + Size(rs[i])) THEN i ELSE PrefixLen(rs, i + 1, acc + Size(rs[i]))

\* the next pack of the call: the encodable records among the consumed ones (the others are skipped)
DSend(k) ==
  /\ dactive /\ dq # <<>>
  /\ LET n  == PrefixLen(dq, 1, 0)
         b  == Good(SubSeq(dq, 1, n))
     IN /\ b # <<>>
        /\ mem' = [mem EXCEPT ![drid] = WriteAt(@, 0, Encoding(b))]
        /\ emitted' = Append(emitted, Pack("d", b, Len(b), drid, SumSize(b), k))
        /\ dq' = SubSeq(dq, n + 1, Len(dq))
  /\ UNCHANGED <<mode, ctxk, ticks, wq0, settings, configured, queue, accB, refused, blen, live, count, firstTime, wpc, wcur, wret,
                 dactive, drid, accD, stopped>>

\* the call meets a record that cannot be encoded before the pack in progress is complete and gives up there: the
\* failure propagates to the caller, what was not handed over yet was never accepted
DirectAbort ==
  /\ dactive
  /\ \E i \in 1..PrefixLen(dq, 1, 0) : ~dq[i].ok
  /\ dactive' = FALSE /\ dq' = <<>>
  /\ accD' = SubSeq(accD, 1, Len(accD) - Len(Good(dq)))
  /\ UNCHANGED <<mode, ctxk, ticks, wq0, settings, configured, queue, accB, refused, mem, blen, live, count, firstTime, wpc, wcur, wret,
                 drid, emitted, stopped>>

\* the call returns: nothing encodable is left
DirectEnd ==
  /\ dactive /\ Good(dq) = <<>>
  /\ dactive' = FALSE /\ dq' = <<>>
  /\ UNCHANGED <<mode, ctxk, ticks, wq0, settings, configured, queue, accB, refused, mem, blen, live, count, firstTime, wpc, wcur, wret,
                 drid, accD, emitted, stopped>>

-----------------------------------------------------------------------------
(* real time: one full reference period p of the waiting time in force has passed *)
RefPeriod == IF settings.maxWait < MinPeriod THEN MinPeriod ELSE settings.maxWait
Waiting   == mode = "queue" /\ wpc = "get"

Tick(p) ==
  /\ mode # "none"
  /\ IF Waiting THEN ticks < IdleSlack /\ p = RefPeriod /\ ticks' = ticks + 1
     ELSE UNCHANGED ticks          \* nobody is inside a timed wait: time just passes
  /\ UNCHANGED <<mode, ctxk, wq0, settings, configured, queue, accB, refused, mem, blen, live, count, firstTime, wpc, wcur, wret,
                 dactive, dq, drid, accD, emitted, stopped>>

-----------------------------------------------------------------------------
(* the property *)
RECURSIVE RecsOf(_, _)
RecsOf(ps, path) ==     \* concatenated record lists of the packs of one path, in hand-over order
  IF ps = <<>> THEN <<>>
  ELSE (IF ps[1].path = path THEN ps[1].recs ELSE <<>>) \o RecsOf(Tail(ps), path)

\* every accepted record is, at every moment, in exactly one place and in order:
\* already emitted, in the buffer, being appended, or still queued; once the worker has
\* returned nothing is left behind.  A refused record is nowhere; a record that cannot be encoded is
\* never in the buffer or in a pack, and the others are where they would be without it.
ExactlyOnceInOrder ==
  /\ RecsOf(emitted, "b") \o (IF wpc = "sent" THEN <<>> ELSE live) \o Good(wcur \o queue) = accB
  /\ RecsOf(emitted, "d") \o Good(dq) = accD
  /\ wpc = "done" => queue = <<>> /\ live = <<>>
  /\ ~dactive => dq = <<>>
  /\ \A i \in 1..Len(live) : live[i].ok

CountMatches ==
  /\ \A i \in 1..Len(emitted) : /\ emitted[i].n = Len(emitted[i].recs) /\ emitted[i].n > 0
                                /\ \A j \in 1..Len(emitted[i].recs) : emitted[i].recs[j].ok
  /\ count = Len(live)

\* at hand-over the payload is exactly the encodings of the pack's records, in order
DecodablePack(p) == p.snap = Encoding(p.recs) /\ p.ulen = SumSize(p.recs)
Decodable ==
  /\ \A i \in 1..Len(emitted) : DecodablePack(emitted[i])
  /\ blen = SumSize(live) /\ SubSeq(mem[1], 1, blen) = Encoding(live)

ZipIff == \A i \in 1..Len(emitted) : emitted[i].zipped <=> emitted[i].ulen >= emitted[i].zmin

DefaultsInForce == ~configured => settings = Defaults

\* a pack the client kept still reads as it did at hand-over
HandedOverIsImmutable ==
  \A i \in 1..Len(emitted) : emitted[i].kept => Content(emitted[i]) = emitted[i].snap

\* FlushWhenDue, as a property of steps: a buffer that was appended to and is not sent on its way to the client
\* has not reached a limit in force; nothing stays behind a stop or the end of a direct call
\* (part of ExactlyOnceInOrder)
FlushWhenDueStep ==
  (wpc = "dec" /\ wpc' \notin {"dec", "flush"}) => ~MustFlush(blen, firstTime', live[Len(live)])

\* the worker's timed wait never outlasts the waiting time in force by more than the slack (Tick is disabled beyond)
IdleWaitBounded == ticks <= IdleSlack

Inv == ExactlyOnceInOrder /\ CountMatches /\ Decodable /\ ZipIff /\ DefaultsInForce /\ HandedOverIsImmutable /\ IdleWaitBounded
=============================================================================
