----------------------------- MODULE ZipSender ------------------------------
(***************************************************************************)
(* C16 -- the log-sink zip sender (logsink/zip).                           *)
(*                                                                         *)
(* Log records are handed to the sender either through its queue (Add; a   *)
(* worker goroutine takes them and appends them to a reusable buffer) or   *)
(* directly (SendDirect: a call-local buffer; Append: the exported step    *)
(* the worker itself uses, callable when there is no worker).  A buffer is *)
(* turned into a zip pack and handed to the TCP client when its size or    *)
(* the age of its first record reaches the setting in force, when the      *)
(* worker's timed wait on the queue expires, or when the sender is stopped.*)
(*                                                                         *)
(* A record is [id, size, time, eh]: size = length of its encoding, time = *)
(* the caller-supplied record time (virtual; >= 1, 0 means "unset" in the  *)
(* implementation), eh = a digest of its encoding (opaque to this module). *)
(*                                                                         *)
(* Memory is modelled so that ALIASING is expressible: a region is a       *)
(* sequence of segments <<record id, lo, hi>> ("bytes lo..hi of that       *)
(* record's encoding"); the sender's reusable buffer is region 1 and every *)
(* SendDirect call allocates a fresh one.  Resetting a buffer keeps the    *)
(* region and moves the write offset back to 0.  An emitted pack either    *)
(* OWNS its payload (view = <<>>) or is a VIEW <<region, length>> of a     *)
(* region; its content is always read through the view.                    *)
(*                                                                         *)
(* Design = "copy"  : a pack handed to the client owns its bytes (the      *)
(*                    repaired implementation).                            *)
(* Design = "alias" : Records = buffer.Bytes() then buffer.Reset() -- an   *)
(*                    uncompressed pack is a view of the reusable region   *)
(*                    (the implementation as found; kept to document the   *)
(*                    counterexample to HandedOverIsImmutable).            *)
(* StopPolicy = "drain"   : on stop the worker appends what is still       *)
(*                          queued, flushes, exits (repaired).             *)
(* StopPolicy = "abandon" : flushes the buffer and exits (as found).       *)
(*                                                                         *)
(* What the property demands about WHEN a batch is flushed is one-sided:   *)
(* a buffer that has reached the size or the waiting time in force must be *)
(* flushed by the very append that made it so (MustFlush); flushing        *)
(* earlier is never forbidden (the worker's timed wait may expire at any   *)
(* moment; a waiting time <= 0 has no meaning as a threshold and is not    *)
(* demanded).  Every flushing step therefore takes a decision `fl` that    *)
(* must be TRUE when MustFlush holds and is free otherwise.                *)
(***************************************************************************)
EXTENDS Integers, Sequences, FiniteSets

CONSTANTS Design, StopPolicy

Defaults == [maxBuf |-> 65536, maxWait |-> 5000, zipMin |-> 100, qCap |-> 1000]

VARIABLES
  mode,        \* "none" (not created) | "queue" (worker goroutine) | "direct" (no queue, no worker)
  settings,    \* the four settings in force
  configured,  \* has anything (explicit creation settings, ApplyConfig) overridden the defaults?
  queue,       \* records waiting for the worker
  accB,        \* history: records accepted for the reusable buffer, in order (queue path and Append calls)
  refused,     \* ids refused by a full queue (never accepted, never to be emitted)
  mem,         \* sequence of regions; mem[1] is the sender's reusable buffer
  live,        \* records written into region 1 since its last reset
  count,       \* the sender's record counter
  firstTime,   \* time of the first record in the buffer, 0 = none
  acall,       \* <<r>> while an Append(r) call from outside is in progress (mode "direct")
  dactive, dq, dlive, dcount, drid,   \* the SendDirect call in progress: rest of its argument, its buffer
  accD,        \* history: records handed to SendDirect, in order
  emitted,     \* packs handed to the client, in hand-over order
  stopped,     \* "no" | "stopping" (context cancelled) | "done" (worker returned)
  blocked      \* the client is holding the worker inside SendFlush (slow client)

vars == <<mode, settings, configured, queue, accB, refused, mem, live, count, firstTime, acall,
          dactive, dq, dlive, dcount, drid, accD, emitted, stopped, blocked>>

-----------------------------------------------------------------------------
(* segments *)
RECURSIVE SumSize(_)
SumSize(rs) == IF rs = <<>> THEN 0 ELSE rs[1].size + SumSize(Tail(rs))

SegLen(s) == s[3] - s[2] + 1

RECURSIVE TakeBytes(_, _)
TakeBytes(m, n) ==      \* the first n bytes of m (all of m if shorter)
  IF n <= 0 \/ m = <<>> THEN <<>>
  ELSE IF SegLen(m[1]) <= n THEN <<m[1]>> \o TakeBytes(Tail(m), n - SegLen(m[1]))
  ELSE << <<m[1][1], m[1][2], m[1][2] + n - 1>> >>

RECURSIVE DropBytes(_, _)
DropBytes(m, n) ==      \* m without its first n bytes
  IF m = <<>> THEN <<>>
  ELSE IF n <= 0 THEN m
  ELSE IF SegLen(m[1]) <= n THEN DropBytes(Tail(m), n - SegLen(m[1]))
  ELSE << <<m[1][1], m[1][2] + n, m[1][3]>> >> \o Tail(m)

RecSeg(r) == IF r.size > 0 THEN << <<r.id, 1, r.size>> >> ELSE <<>>

\* write the encoding of r at offset off (off never exceeds the bytes present)
WriteAt(m, off, r) == TakeBytes(m, off) \o RecSeg(r) \o DropBytes(m, off + r.size)

RECURSIVE Encoding(_)
Encoding(rs) == IF rs = <<>> THEN <<>> ELSE RecSeg(rs[1]) \o Encoding(Tail(rs))

-----------------------------------------------------------------------------
(* packs *)
\* the repaired hand-over: the pack owns its payload
PackCopy(path, rs, n, rid, m, k) ==
  [path |-> path, recs |-> rs, n |-> n, ulen |-> SumSize(rs),
   zipped |-> SumSize(rs) >= settings.zipMin, zmin |-> settings.zipMin,
   snap |-> TakeBytes(m, SumSize(rs)), view |-> <<>>, kept |-> k]

\* the hand-over as found: Records = buffer.Bytes(); only gzip makes new bytes
PackAlias(path, rs, n, rid, m, k) ==
  [PackCopy(path, rs, n, rid, m, k) EXCEPT
     !.view = IF SumSize(rs) >= settings.zipMin THEN <<>> ELSE <<rid, SumSize(rs)>>]

Pack(path, rs, n, rid, m, k) ==
  IF Design = "alias" THEN PackAlias(path, rs, n, rid, m, k) ELSE PackCopy(path, rs, n, rid, m, k)

\* what the client reads when it looks at the pack NOW
Content(p) == IF p.view = <<>> THEN p.snap ELSE TakeBytes(mem[p.view[1]], p.view[2])

-----------------------------------------------------------------------------
Init ==
  /\ mode = "none" /\ settings = Defaults /\ configured = FALSE
  /\ queue = <<>> /\ accB = <<>> /\ refused = {}
  /\ mem = << <<>> >> /\ live = <<>> /\ count = 0 /\ firstTime = 0 /\ acall = <<>>
  /\ dactive = FALSE /\ dq = <<>> /\ dlive = <<>> /\ dcount = 0 /\ drid = 0 /\ accD = <<>>
  /\ emitted = <<>> /\ stopped = "no" /\ blocked = FALSE

\* creation: given = FALSE (nothing supplied: the built-in defaults stay in force) or four explicit settings s
New(m, given, s) ==
  /\ mode = "none" /\ m \in {"queue", "direct"}
  /\ mode' = m
  /\ IF given THEN settings' = s /\ configured' = TRUE
              ELSE UNCHANGED <<settings, configured>>
  /\ UNCHANGED <<queue, accB, refused, mem, live, count, firstTime, acall,
                 dactive, dq, dlive, dcount, drid, accD, emitted, stopped, blocked>>

\* a configuration update: c = the resolved settings (a key the configuration does not
\* mention resolves to its built-in default)
ApplyConfig(c) ==
  /\ mode # "none"
  /\ settings' = c /\ configured' = TRUE
  /\ UNCHANGED <<mode, queue, accB, refused, mem, live, count, firstTime, acall,
                 dactive, dq, dlive, dcount, drid, accD, emitted, stopped, blocked>>

QueueHasRoom == settings.qCap <= 0 \/ Len(queue) < settings.qCap

\* the critical section of the queue's Put
Add(r) ==
  /\ mode = "queue" /\ stopped = "no"
  /\ IF QueueHasRoom
       THEN queue' = Append(queue, r) /\ accB' = Append(accB, r) /\ UNCHANGED refused
       ELSE refused' = refused \cup {r.id} /\ UNCHANGED <<queue, accB>>
  /\ UNCHANGED <<mode, settings, configured, mem, live, count, firstTime, acall,
                 dactive, dq, dlive, dcount, drid, accD, emitted, stopped, blocked>>

\* the buffer holding rs (first record at time ft) has, with the append of r, reached a limit in force
SizeDue(rs)      == SumSize(rs) >= settings.maxBuf
TimeDue(ft, r)   == settings.maxWait > 0 /\ r.time - ft >= settings.maxWait
MustFlush(rs, ft, r) == SizeDue(rs) \/ TimeDue(ft, r)

\* would the append of r to the reusable buffer / of the next argument to the direct buffer reach a limit?
AppendDue(r) == MustFlush(Append(live, r), IF firstTime = 0 THEN r.time ELSE firstTime, r)
DirectDue    == SizeDue(Append(dlive, Head(dq)))

\* Append: encode r into the reusable region, count it, flush if due (fl: see the header).
\* k = the client keeps the pack.
DoAppend(r, k, fl) ==
  LET m1 == WriteAt(mem[1], SumSize(live), r)
      l1 == Append(live, r)
      ft == IF firstTime = 0 THEN r.time ELSE firstTime
  IN /\ MustFlush(l1, ft, r) => fl
     /\ mem' = [mem EXCEPT ![1] = m1]
     /\ IF fl
          THEN /\ emitted' = Append(emitted, Pack("b", l1, count + 1, 1, m1, k))
               /\ live' = <<>> /\ count' = 0 /\ firstTime' = 0
          ELSE /\ live' = l1 /\ count' = count + 1 /\ firstTime' = ft
               /\ UNCHANGED emitted

\* flush of the reusable buffer (no-op when empty)
FlushBuf(k) ==
  IF live = <<>> THEN UNCHANGED <<emitted, live, count, firstTime>>
  ELSE /\ emitted' = Append(emitted, Pack("b", live, count, 1, mem[1], k))
       /\ live' = <<>> /\ count' = 0 /\ firstTime' = 0

WorkerFree == mode = "queue" /\ ~blocked /\ stopped # "done"

\* worker: dequeue one record and append it.  g = the client blocks the worker in this hand-over
Take(k, g, fl) ==
  /\ WorkerFree /\ queue # <<>>
  /\ queue' = Tail(queue)
  /\ DoAppend(Head(queue), k, fl)
  /\ blocked' = (g /\ fl)
  /\ UNCHANGED <<mode, settings, configured, accB, refused, acall, dactive, dq, dlive, dcount, drid, accD, stopped>>

\* worker: the timed wait on the queue expired (decided at some earlier poll: no guard on queue)
Idle(k, g) ==
  /\ WorkerFree /\ live # <<>>
  /\ FlushBuf(k)
  /\ blocked' = g
  /\ UNCHANGED <<mode, settings, configured, queue, accB, refused, mem, acall,
                 dactive, dq, dlive, dcount, drid, accD, stopped>>

Stop ==
  /\ mode = "queue" /\ stopped = "no"
  /\ stopped' = "stopping"
  /\ UNCHANGED <<mode, settings, configured, queue, accB, refused, mem, live, count, firstTime, acall,
                 dactive, dq, dlive, dcount, drid, accD, emitted, blocked>>

\* worker: saw the cancellation; (drain policy: only once the queue is empty) flush and return
Finish(k, g) ==
  /\ WorkerFree /\ stopped = "stopping"
  /\ (StopPolicy = "drain" => queue = <<>>)
  /\ FlushBuf(k)
  /\ stopped' = "done"
  /\ blocked' = (g /\ live # <<>>)
  /\ UNCHANGED <<mode, settings, configured, queue, accB, refused, mem, acall,
                 dactive, dq, dlive, dcount, drid, accD>>

Release ==
  /\ blocked /\ blocked' = FALSE
  /\ UNCHANGED <<mode, settings, configured, queue, accB, refused, mem, live, count, firstTime, acall,
                 dactive, dq, dlive, dcount, drid, accD, emitted, stopped>>

\* Append(r) called from outside (no worker owns the buffer)
AppendBegin(r) ==
  /\ mode = "direct" /\ acall = <<>>
  /\ acall' = <<r>> /\ accB' = Append(accB, r)
  /\ UNCHANGED <<mode, settings, configured, queue, refused, mem, live, count, firstTime,
                 dactive, dq, dlive, dcount, drid, accD, emitted, stopped, blocked>>

AppendExec(k, fl) ==
  /\ acall # <<>>
  /\ DoAppend(acall[1], k, fl)
  /\ acall' = <<>>
  /\ UNCHANGED <<mode, settings, configured, queue, accB, refused,
                 dactive, dq, dlive, dcount, drid, accD, stopped, blocked>>

\* SendDirect(rs): a fresh call-local buffer, flushed whenever it reaches maxBuf and at the end
DirectBegin(rs) ==
  /\ mode # "none" /\ ~dactive
  /\ dactive' = TRUE /\ dq' = rs /\ accD' = accD \o rs
  /\ mem' = Append(mem, <<>>) /\ drid' = Len(mem) + 1
  /\ dlive' = <<>> /\ dcount' = 0
  /\ UNCHANGED <<mode, settings, configured, queue, accB, refused, live, count, firstTime, acall,
                 emitted, stopped, blocked>>

DStep(k, fl) ==
  /\ dactive /\ dq # <<>>
  /\ LET r  == Head(dq)
         m1 == WriteAt(mem[drid], SumSize(dlive), r)
         l1 == Append(dlive, r)
     IN /\ SizeDue(l1) => fl
        /\ mem' = [mem EXCEPT ![drid] = m1]
        /\ dq' = Tail(dq)
        /\ IF fl
             THEN /\ emitted' = Append(emitted, Pack("d", l1, dcount + 1, drid, m1, k))
                  /\ dlive' = <<>> /\ dcount' = 0
             ELSE /\ dlive' = l1 /\ dcount' = dcount + 1 /\ UNCHANGED emitted
  /\ UNCHANGED <<mode, settings, configured, queue, accB, refused, live, count, firstTime, acall,
                 dactive, drid, accD, stopped, blocked>>

DTail(k) ==
  /\ dactive /\ dq = <<>> /\ dlive # <<>>
  /\ emitted' = Append(emitted, Pack("d", dlive, dcount, drid, mem[drid], k))
  /\ dlive' = <<>> /\ dcount' = 0
  /\ UNCHANGED <<mode, settings, configured, queue, accB, refused, mem, live, count, firstTime, acall,
                 dactive, dq, drid, accD, stopped, blocked>>

DirectEnd ==
  /\ dactive /\ dq = <<>> /\ dlive = <<>>
  /\ dactive' = FALSE
  /\ UNCHANGED <<mode, settings, configured, queue, accB, refused, mem, live, count, firstTime, acall,
                 dq, dlive, dcount, drid, accD, emitted, stopped, blocked>>

-----------------------------------------------------------------------------
(* the property *)
RECURSIVE RecsOf(_, _)
RecsOf(ps, path) ==     \* concatenated record lists of the packs of one path, in hand-over order
  IF ps = <<>> THEN <<>>
  ELSE (IF ps[1].path = path THEN ps[1].recs ELSE <<>>) \o RecsOf(Tail(ps), path)

\* every accepted record is, at every moment, in exactly one place and in order:
\* already emitted, in the buffer, being appended, or still queued; once the worker has
\* returned nothing is left behind.  A refused record is nowhere.
ExactlyOnceInOrder ==
  /\ RecsOf(emitted, "b") \o live \o acall \o queue = accB
  /\ RecsOf(emitted, "d") \o dlive \o dq = accD
  /\ stopped = "done" => queue = <<>> /\ live = <<>>
  /\ ~dactive => dlive = <<>> /\ dq = <<>>

CountMatches ==
  /\ \A i \in 1..Len(emitted) : emitted[i].n = Len(emitted[i].recs) /\ emitted[i].n > 0
  /\ count = Len(live) /\ dcount = Len(dlive)

\* at hand-over the payload is exactly the encodings of the pack's records, in order
Decodable ==
  \A i \in 1..Len(emitted) : /\ emitted[i].snap = Encoding(emitted[i].recs)
                             /\ emitted[i].ulen = SumSize(emitted[i].recs)

ZipIff == \A i \in 1..Len(emitted) : emitted[i].zipped <=> emitted[i].ulen >= emitted[i].zmin

DefaultsInForce == ~configured => settings = Defaults

\* a pack the client kept still reads as it did at hand-over
HandedOverIsImmutable ==
  \A i \in 1..Len(emitted) : emitted[i].kept => Content(emitted[i]) = emitted[i].snap

\* FlushWhenDue, as a property of steps: a buffer that grew in a step has not reached a limit in
\* force (a buffer that reaches one is flushed in the very step that made it so) ...
FlushWhenDueStep ==
  /\ count' > count   => ~MustFlush(live', firstTime', live'[Len(live')])
  /\ dcount' > dcount => ~SizeDue(dlive')
\* ... and nothing stays behind a stop or the end of a direct call (part of ExactlyOnceInOrder)

Inv == ExactlyOnceInOrder /\ CountMatches /\ Decodable /\ ZipIff /\ DefaultsInForce /\ HandedOverIsImmutable
=============================================================================
